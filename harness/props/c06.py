"""C06 -- reported standard errors and confidence intervals are coherent."""
import math
import warnings
from fractions import Fraction

import numpy as np
import pandas as pd
from scipy.stats import norm

from common import fx, unfx, enc_list, dec_list, close
from props import calc2

REQUIRED = ['ci_linear', 'ci_log', 'ci_contains', 'ci_nested', 'ci_exp_contains', 'ci_log_contains', 'ci_exp_nested',
            'ci_log_nested', 'z_of_alpha_nonneg', 'z_of_alpha_antitone', 'nested_in_alpha_lin', 'nested_in_alpha_log',
            'rd_ci_linear', 'ird_ci_linear', 'risk_ci_linear', 'ir_ci_linear', 'rr_ci_log', 'or_ci_log', 'irr_ci_log',
            'rd_indep_alpha', 'rr_indep_alpha', 'or_indep_alpha', 'irr_indep_alpha', 'ird_indep_alpha',
            'risk_ci_indep_alpha', 'ir_ci_indep_alpha', 'nnt_indep_alpha', 'rd_coherent', 'rr_coherent',
            'ic_se', 'ic_se_nonneg', 'aipw_diff_def', 'aipw_rr_ic_partial', 'xfit_rr_ic_partial',
            'aipw_rr_ic_full_refuted', 'xfit_rr_ic_full_refuted', 'tmle_ci_partial', 'tmle_z_at_005', 'tmle_z_full_refuted',
            'pool_reject_iff', 'pool_def', 'pool_var_nonneg', 'pool_agree', 'msm_var_nonneg', 'msm_mean_solves',
            'real_transc_ok', 'real_ratio_ci',
            'xfit_ic_rd_generated', 'xfit_ic_rr_generated', 'xfit_ic_or_generated', 'xfit_estimates_generated',
            'aipw_calc_ratio_var_generated',
            'joint_estimate_generated',
            # Props/C06_Calc.lean: the second batch of zepid/calc/utils.py (Gen/Calc2.lean)
            'sens_ci_linear', 'spec_ci_linear', 'sens_indep_alpha', 'spec_indep_alpha', 'sensitivity_eq_risk_ci',
            'specificity_eq_risk_ci', 'sens_reject_iff', 'spec_reject_iff', 'sens_coherent', 'spec_coherent',
            'ppv_reject_iff', 'npv_reject_iff', 'ppv_bayes', 'npv_bayes', 'ppv_unit', 'npv_unit',
            'rubins_reject_iff', 'rubins_def', 'rubins_total_ge_within', 'se_of_limits', 'semibayes_lin_def',
            'semibayes_log_def', 'semibayes_log_ci', 'post_mean_between', 'post_var_le', 'semibayes_coherent',
            'z_of_alpha_pos', 'semibayes_nested', 'counternull_def', 'counternull_recovers_se', 'logit_roundtrip',
            'inverse_logit_roundtrip', 's_value_def', 'screening_per_capita', 'screening_costs',
            'real_calc2_transc_ok', 'real_logit_roundtrip',
            # Props/C06_Icr.lean: interaction_contrast_ratio(ci='delta') of zepid/base.py (Gen/Icr.lean)
            'icr_delta_def', 'icr_indep_alpha', 'icr_coherent',
            # Props/C06_Splits.lean: aipw_calculator with splits given (cross-fit AIPTW), regenerated
            'aipw_calc_splits_generated', 'aipw_calc_splits_var_nonneg', 'aipw_calc_splits_one',
            'aipw_calc_splits_ratio_estimate',
            # round 4: NNT limits on the reciprocal scale for every accepted table (also RD = 0); Props/C06_Frames.lean:
            # the se reported for a level by the six frame classes is the Wald se of that level's own table
            'nnt_ci_recip', 'nnt_ci_null', 'rr_se_wald', 'rd_se_wald', 'nnt_se_wald', 'or_se_wald', 'irr_se_wald',
            'ird_se_wald', 'counts_frame_se', 'rates_frame_se', 'ird_frame_se_wald', 'irr_frame_se_wald',
            'rd_frame_se_wald']
RULE = ('alpha runs over a fixed grid (25 equally spaced values in (0,1), the extremes 1e-6/1e-3/0.999, and 0.05 with its '
        'neighbours 0.049999/0.050001); for every (estimator, configuration, data set) the whole grid is evaluated and the '
        'limits, containment, nestedness across the grid and alpha-independence of estimate/se are judged; streams: count '
        'calculators on random tables and on null tables (both groups with exactly the same risk / odds / rate: RD = 0, '
        'RR = OR = 1, NNT infinite), the six frame classes on frames built from a table of cell counts (2-4 levels with '
        'whole-number or fractional / negative category values, any level the reference handed over as int / float / numpy '
        'scalar, every other frame with a level matching the reference exactly, person-time with rows at 0 and missing, '
        'incomplete rows), each reported se also judged against the Wald formula of that row\'s own table, AIPTW, TMLE, StochasticTMLE, the four cross-fit classes '
        '(reduced grid: each fit is seconds), IPTW (fixed 95%), and calculate_joint_estimate / tmle_calculator / '
        'aipw_calculator directly on random vectors; the second batch of zepid/calc/utils.py (sensitivity, specificity, '
        'ppv/npv_converter, screening_cost_analyzer, rubins_rules, semibayes, counternull_pvalue, s_value, logit, '
        'inverse_logit, and interaction_contrast_ratio with the delta-method interval on simulated data: a valid stream and a malformed stream reaching every raise; semibayes / counternull_pvalue are fed '
        'limits built at the alpha they are called with) and the Sensitivity / Specificity / Diagnostics result tables. distinct = distinct (stream, configuration, data hash, alpha); '
        'non-trivial = se > 0 and finite')
ASSUMPTIONS = ['scipy.stats.norm.ppf is strictly increasing on the alpha grid and ppf(0.5) = 0 (measured each run)',
               'statsmodels GEE (independence, robust covariance) reports bse = HC0 sandwich with each row its own '
               'cluster (measured against the closed form for the saturated MSM, rtol 1e-6)',
               'numpy nanvar/median/mean as documented']

GRID = sorted(set([round(float(x), 4) for x in np.linspace(0.02, 0.98, 25)] +
                  [1e-6, 0.001, 0.01, 0.049999, 0.05, 0.050001, 0.1, 0.999]))
GRID_SMALL = [0.001, 0.049999, 0.05, 0.050001, 0.2, 0.5, 0.9]
GRID_TINY = [0.01, 0.05, 0.2, 0.6]


def z_of(alpha):
    return float(norm.ppf(1 - alpha / 2, loc=0, scale=1))


def isnan(x):
    return isinstance(x, float) and math.isnan(x)


def recip(x):
    """reciprocal on the extended real line (1/inf = 0, 1/0 = inf)"""
    return 0.0 if math.isinf(x) else (math.inf if x == 0 else 1 / x)


# --------------------------------------------------------------------------- the documented Wald variances (gate D)
def wald_var(fn, args, kw=None):
    """exact squared Wald standard error documented for a count calculator (docstrings of zepid/calc/utils.py)"""
    x = [Fraction(v) for v in args]
    if fn == 'risk_ratio':
        a, b, c, d = x
        return 1 / a - 1 / (a + b) + 1 / c - 1 / (c + d)
    if fn in ('risk_difference', 'number_needed_to_treat'):
        a, b, c, d = x
        r1, r0 = a / (a + b), c / (c + d)
        return r1 * (1 - r1) / (a + b) + r0 * (1 - r0) / (c + d)
    if fn == 'odds_ratio':
        a, b, c, d = x
        return 1 / a + 1 / b + 1 / c + 1 / d
    if fn == 'incidence_rate_ratio':            # (a, c, t1, t2)
        return 1 / x[0] + 1 / x[1]
    if fn == 'incidence_rate_difference':
        return x[0] / x[2] ** 2 + x[1] / x[3] ** 2
    if fn == 'incidence_rate_ci':               # (events, time)
        return x[0] / x[1] ** 2
    if fn in ('risk_ci', 'sensitivity', 'specificity'):     # (events, total); both variances are symmetric in
        e, n = x                                            # events <-> non-events, so specificity shares them
        if (kw or {}).get('confint', 'wald') == 'hypergeometric':
            return e * (n - e) / (n ** 2 * (n - 1))
        return (e / n) * (1 - e / n) / n
    raise KeyError(fn)


def judge_wald(chk, who, fn, args, kw, se, case):
    """the reported standard error is the documented variance estimator of the table it is reported for"""
    want = float(wald_var(fn, args, kw))
    # 1e-11 on the squares: one square root and a handful of float operations against exact rational arithmetic
    chk.d(close(float(se) ** 2, want, rtol=1e-11, atol=1e-300),
          '%s: standard error = documented Wald formula of the table it is reported for' % who,
          dict(case, table=[float(v) for v in args], wald_fn=fn, got_se=float(se), documented_se=math.sqrt(want)))


# --------------------------------------------------------------------------- the property predicate (gate D)
def judge(chk, who, scale, recs, case, tmle=False, fixed_alpha=False):
    """recs: list of dicts(alpha, est, se, lcl, ucl) for one (estimator, measure, data set).
    scale: 'lin' | 'log' | 'recip' (NNT: limits are reciprocals of the RD limits, containment on the RD scale)."""
    recs = sorted(recs, key=lambda r: r['alpha'])
    base = dict(case, who=who, scale=scale)

    def sig(*alphas):
        s = {'estimator': who.split(':')[0], 'clause': 'limits'}
        if tmle and any(a == 0.05 for a in alphas):
            s['alpha'] = 0.05
        return s
    for r in recs:
        a, est, se, lcl, ucl = (float(r[k]) for k in ('alpha', 'est', 'se', 'lcl', 'ucl'))
        c = dict(base, record=r)
        if math.isnan(se):
            chk.count('no_se_reported:' + who)
            chk.d(math.isnan(lcl) and math.isnan(ucl), '%s: no standard error reported => no limits reported' % who, c)
            continue
        chk.case(None, (who, case.get('data_hash'), a) if (se > 0 and math.isfinite(se)) else None)
        z = z_of(a)
        chk.d(se >= 0, '%s: standard error is non-negative' % who, c)
        if scale == 'lin':
            wl, wu, lo, pt, hi = est - z * se, est + z * se, lcl, est, ucl
        elif scale == 'log' and not est > 0:
            chk.count('ratio_estimate_nonpositive_not_judged')      # log scale undefined: outside the property
            continue
        elif scale == 'log':
            wl, wu, lo, pt, hi = math.exp(math.log(est) - z * se), math.exp(math.log(est) + z * se), lcl, est, ucl
        else:  # recip
            # documented reciprocal scale on the extended line: NNT = inf exactly when RD = 0, a limit is inf exactly
            # when that limit of the risk difference is 0 -- so 1/inf stands for 0 (and an NNT of 0 for no finite RD)
            if math.isinf(est) or math.isinf(lcl) or math.isinf(ucl):
                chk.count('nnt_infinite_judged')
            rd = recip(est)
            wl, wu, lo, pt, hi = rd - z * se, rd + z * se, recip(lcl), rd, recip(ucl)
        # 1e-10 relative (+1e-13 absolute): the same float formula is evaluated, only rounding differs
        ok = close(lo, wl, rtol=1e-10, atol=1e-13) and close(hi, wu, rtol=1e-10, atol=1e-13)
        chk.d(ok, '%s: limits = estimate -/+ norm.ppf(1-alpha/2)*se on the %s scale' % (who, scale),
              dict(c, want=[wl, wu], got=[lo, hi]), signature=sig(a))
        chk.d(lo <= pt <= hi, '%s: interval contains the estimate' % who, c, signature=sig(a))
        r['_lo'], r['_hi'] = lo, hi
    good = [r for r in recs if '_lo' in r]
    if fixed_alpha or len(good) < 2:
        return
    e0, s0 = float(good[0]['est']), float(good[0]['se'])
    for r in good[1:]:
        chk.d(close(float(r['est']), e0, rtol=1e-12, atol=0) and close(float(r['se']), s0, rtol=1e-12, atol=0),
              '%s: point estimate and se do not depend on alpha' % who, dict(base, first=good[0], other=r))
    for r, s in zip(good, good[1:]):      # alpha_r < alpha_s: interval_s inside interval_r
        tol = 1e-12 * max(1.0, abs(r['_lo']), abs(r['_hi']))
        chk.d(r['_lo'] <= s['_lo'] + tol and s['_hi'] <= r['_hi'] + tol, '%s: intervals are nested in alpha' % who,
              dict(base, wider_alpha=r, narrower_alpha=s), signature=sig(r['alpha'], s['alpha']))


def k_ci(chk, drv, who, kind, est, z, se, lcl, ucl, case):
    if drv is None or not all(math.isfinite(v) for v in (est, z, se, lcl, ucl)):
        return
    rep, line = drv.ask('ci', kind=kind, est=fx(est), z=fx(z), se=fx(se))
    ok = rep['status'] == 'ok' and close(unfx(rep['lower']), lcl, rtol=1e-11, atol=1e-14) and \
        close(unfx(rep['upper']), ucl, rtol=1e-11, atol=1e-14)
    chk.k(ok, '%s: model %sCI vs implementation' % (who, kind), {'case': case, 'model': rep, 'line': line})


# --------------------------------------------------------------------------- streams
def stream_quantile(chk, drv):
    zs = [z_of(a) for a in GRID]
    chk.h_checked += 1
    ok = all(x > y for x, y in zip(zs, zs[1:])) and float(norm.ppf(0.5)) == 0.0 and all(z >= 0 for z in zs)
    if not ok:
        raise RuntimeError('norm.ppf is not strictly monotone on the alpha grid: external assumption broken')
    if drv is not None:
        for a in GRID:
            for which, want in (('plain', z_of(a)), ('tmle', 1.96 if a == 0.05 else z_of(a))):
                rep, _ = drv.ask('zof', which=which, alpha=fx(a), px=fx(1 - a / 2), pz=fx(z_of(a)))
                chk.k(rep['status'] == 'ok' and unfx(rep['z']) == want, 'model quantile (%s) = the code\'s' % which,
                      {'alpha': a, 'model': rep})


CALC4 = ['risk_ratio', 'risk_difference', 'number_needed_to_treat', 'odds_ratio']
SCALE = {'risk_ratio': 'log', 'risk_difference': 'lin', 'number_needed_to_treat': 'recip', 'odds_ratio': 'log',
         'incidence_rate_ratio': 'log', 'incidence_rate_difference': 'lin', 'risk_ci': 'lin',
         'incidence_rate_ci': 'lin', 'sensitivity': 'lin', 'specificity': 'lin'}


def cell_calc(chk, drv, fn, args, kw):
    import zepid.calc.utils as cu
    args = tuple(args)
    recs = []
    case = {'fn': fn, 'args': list(args), 'kw': kw, 'data_hash': hash((fn, args, str(kw))),
            'replay': rp('calc', fn=fn, args=list(args), kw=kw)}
    for alpha in GRID:
        r = getattr(cu, fn)(*args, alpha=alpha, **kw)
        est, lcl, ucl, se = (float(x) for x in r[:4])
        recs.append({'alpha': alpha, 'est': est, 'se': se, 'lcl': lcl, 'ucl': ucl})
        if drv is not None and fn in ('sensitivity', 'specificity'):
            rep, line = drv.ask('calc2', fn=fn, a=fx(args[0]), b=fx(args[1]), alpha=fx(alpha),
                                confint=kw.get('confint', 'wald'), px=fx(1 - alpha / 2), pz=fx(z_of(alpha)))
            ok = rep['status'] == 'ok' and all(close(unfx(rep[k]), v, rtol=1e-11, atol=1e-14) for k, v in
                                              zip(('point', 'lower', 'upper', 'se'), (est, lcl, ucl, se)))
            chk.k(ok, 'generated calculator %s vs implementation' % fn, {'case': case, 'alpha': alpha, 'model': rep})
        elif drv is not None:
            z = z_of(alpha)
            if fn in ('risk_ci', 'incidence_rate_ci'):
                kwd = dict(fn=fn, a=fx(args[0]), b=fx(args[1]), alpha=fx(alpha), px=fx(1 - alpha / 2), pz=fx(z))
                if fn == 'risk_ci':
                    kwd['confint'] = kw['confint']
            else:
                kwd = dict(fn=fn, a=fx(args[0]), b=fx(args[1]), c=fx(args[2]), d=fx(args[3]), alpha=fx(alpha),
                           px=fx(1 - alpha / 2), pz=fx(z))
            rep, line = drv.ask('calc', **kwd)
            ok = rep['status'] == 'ok' and all(close(unfx(rep[k]), v, rtol=1e-11, atol=1e-14) for k, v in
                                              zip(('point', 'lower', 'upper', 'se'), (est, lcl, ucl, se)))
            chk.k(ok, 'generated calculator %s vs implementation' % fn, {'case': case, 'alpha': alpha,
                                                                      'model': rep})
    chk.count('calc:' + fn)
    judge(chk, 'calc.' + fn + (':' + kw['confint'] if kw else ''), SCALE[fn], recs, case)
    for r in (recs[0], recs[-1]):
        judge_wald(chk, 'calc.' + fn + (':' + kw['confint'] if kw else ''), fn, args, kw, r['se'],
                   dict(case, alpha=r['alpha']))


def stream_calculators(chk, drv, rng, tier):
    import zepid.calc.utils as cu
    for _ in range(6 if tier == 'quick' else 60):
        a, b, c, d = (int(x) for x in rng.integers(1, 400, size=4))
        t1, t2 = float(np.round(rng.uniform(5, 900), 2)), float(np.round(rng.uniform(5, 900), 2))
        calls = [(fn, (a, b, c, d), {}) for fn in CALC4] + \
                [(fn, (a, c, t1, t2), {}) for fn in ('incidence_rate_ratio', 'incidence_rate_difference')] + \
                [('risk_ci', (a, a + b), {'confint': 'wald'}), ('risk_ci', (a, a + b), {'confint': 'hypergeometric'}),
                 ('incidence_rate_ci', (a, t1), {}), ('sensitivity', (a, a + b), {}), ('specificity', (c, c + d), {}),
                 ('sensitivity', (a, a + b), {'confint': 'hypergeometric'}),
                 ('specificity', (c, c + d), {'confint': 'hypergeometric'})]
        for fn, args, kw in calls:
            cell_calc(chk, drv, fn, args, kw)
    # null tables (round 4): the two groups have exactly the same risk / odds / rate, so the difference measures are
    # exactly 0, the ratios exactly 1 (log = 0) and NNT is infinite, while se and limits stay ordinary numbers
    for _ in range(3 if tier == 'quick' else 30):
        p_, q_ = (int(x) for x in rng.integers(1, 40, size=2))
        k_, m_ = (int(x) for x in rng.choice(np.arange(1, 12), size=2, replace=False))
        tt = float(np.round(rng.uniform(1, 60), 2))
        chk.count('calc:null_table')
        for fn in CALC4:
            cell_calc(chk, drv, fn, (k_ * p_, k_ * q_, m_ * p_, m_ * q_), {})
        for fn in ('incidence_rate_ratio', 'incidence_rate_difference'):
            cell_calc(chk, drv, fn, (k_ * p_, m_ * p_, k_ * tt, m_ * tt), {})


def cell_dtype(chk, fn, args, kw, dt, zero_d, alpha):
    import zepid.calc.utils as cu
    args = tuple(args)
    conv = (lambda v: np.array(v, dtype=dt)) if zero_d else np.dtype(dt).type
    case = {'stream': 'dtype', 'fn': fn, 'args': list(args), 'kw': kw, 'dtype': dt, 'zero_d': zero_d,
            'alpha': alpha,
            'replay': rp('dtype', fn=fn, args=list(args), kw=kw, dt=dt, zero_d=zero_d, alpha=alpha)}
    chk.case(case, ('dtype', fn, dt, zero_d, args, str(kw)))
    chk.count('dtype:' + dt + ('/0d' if zero_d else ''))
    base = [float(x) for x in getattr(cu, fn)(*[float(v) if dt.startswith('float') else v
                                                 for v in args], alpha=alpha, **kw)[:4]]
    try:
        with np.errstate(all='ignore'):
            got = [float(x) for x in getattr(cu, fn)(*[conv(v) for v in args], alpha=alpha, **kw)[:4]]
        err = None
    except Exception as e:      # noqa: BLE001
        got, err = None, repr(e)
    case.update(plain=base, got=got, error=err)
    # float32 inputs are computed in single precision (eps 6e-8); everything else is exact in double
    rt, at = (2e-5, 2e-6) if dt == 'float32' else (1e-12, 1e-14)
    cg, cb = got, base
    if got is not None and fn == 'number_needed_to_treat' and dt == 'float32':
        # single-precision rounding of RD -/+ z*se is amplified without bound by the reciprocal when a
        # limit of the risk difference is near 0: compare on the (documented) reciprocal = RD scale
        cg = [1 / v if v not in (0.0,) and math.isfinite(v) else v for v in got[:3]] + [got[3]]
        cb = [1 / v if v not in (0.0,) and math.isfinite(v) else v for v in base[:3]] + [base[3]]
    ok = got is not None and all(close(g, w, rtol=rt, atol=at) for g, w in zip(cg, cb))
    chk.d(ok, 'count calculator: estimate, se and limits do not depend on the numeric container type '
          '(numpy fixed-width scalar / 0-d array vs Python number)', case)


def stream_dtypes(chk, rng, tier):
    """count calculators fed numpy fixed-width scalars and 0-d arrays: every count, group total and grand total fits
    the dtype, so the result must be the one obtained from plain Python numbers (an se / limit that depends on the
    container type is not the documented Wald formula)"""
    import zepid.calc.utils as cu
    kinds = [('int8', 28), ('int16', 7000), ('int32', 2500), ('int64', 2500), ('uint16', 7000), ('float32', 2500),
             ('float64', 2500)]
    for rep in range(2 if tier == 'quick' else 12):
        for dt, hi in kinds:
            for zero_d in (False, True):
                a, b, c, d = (int(x) for x in rng.integers(1, hi, size=4))
                t1, t2 = (int(x) for x in rng.integers(max(2, hi // 6), hi, size=2))
                T = np.dtype(dt).type
                conv = (lambda v: np.array(v, dtype=dt)) if zero_d else T
                calls = [(fn, (a, b, c, d), {}) for fn in CALC4] + \
                        [(fn, (a, c, t1, t2), {}) for fn in ('incidence_rate_ratio', 'incidence_rate_difference')] + \
                        [('risk_ci', (a, a + b), {'confint': 'wald'}),
                         ('risk_ci', (a, a + b), {'confint': 'hypergeometric'}), ('incidence_rate_ci', (a, t1), {}),
                         ('sensitivity', (a, a + b), {'confint': 'wald'}),
                         ('sensitivity', (a, a + b), {'confint': 'hypergeometric'}),
                         ('specificity', (c, c + d), {'confint': 'wald'}),
                         ('specificity', (c, c + d), {'confint': 'hypergeometric'})]
                for fn, args, kw in calls:
                    cell_dtype(chk, fn, args, kw, dt, zero_d, float(rng.choice([0.05, 0.2, 0.01])))


FRAME = {'RiskRatio': [('RiskRatio', 'SD(RR)', 'RR_LCL', 'RR_UCL', 'log'), ('Risk', 'SD(Risk)', 'Risk_LCL', 'Risk_UCL', 'lin')],
         'RiskDifference': [('RiskDifference', 'SD(RD)', 'RD_LCL', 'RD_UCL', 'lin'),
                            ('Risk', 'SD(Risk)', 'Risk_LCL', 'Risk_UCL', 'lin')],
         'NNT': [('NNT', 'SD(RD)', 'NNT_LCL', 'NNT_UCL', 'recip')],
         'OddsRatio': [('OddsRatio', 'SD(OR)', 'OR_LCL', 'OR_UCL', 'log')],
         'IncidenceRateRatio': [('IncRateRatio', 'SD(IRR)', 'IRR_LCL', 'IRR_UCL', 'log'),
                                ('IncRate', 'SD(IncRate)', 'IncRate_LCL', 'IncRate_UCL', 'lin')],
         'IncidenceRateDifference': [('IncRateDiff', 'SD(IRD)', 'IRD_LCL', 'IRD_UCL', 'lin'),
                                     ('IncRate', 'SD(IncRate)', 'IncRate_LCL', 'IncRate_UCL', 'lin')]}


# which count function (and which of its arguments) stands behind each reported (estimate, SD, limits) quadruple
WALD_OF = {'RiskRatio': 'risk_ratio', 'RiskDifference': 'risk_difference', 'NNT': 'number_needed_to_treat',
           'OddsRatio': 'odds_ratio', 'IncRateRatio': 'incidence_rate_ratio', 'IncRateDiff': 'incidence_rate_difference',
           'Risk': 'risk_ci', 'IncRate': 'incidence_rate_ci'}
REF_TYPES = {'int': int, 'float': float, 'np.int64': np.int64, 'np.float64': np.float64}
SHORT = {'RiskRatio': 'RR', 'RiskDifference': 'RD', 'NNT': 'NNT', 'OddsRatio': 'OR', 'IncidenceRateRatio': 'IRR',
         'IncidenceRateDifference': 'IRD'}


def cell_frame(chk, drv, frame, cls, ref=0, ref_type=None):
    import zepid
    df = pd.DataFrame({k: [np.nan if x is None else x for x in v] for k, v in frame.items()})
    n = len(df)
    measures = FRAME[cls]
    refv = REF_TYPES[ref_type](ref) if ref_type else ref
    rate = cls.startswith('Incidence')
    store = {}
    # the cross-tabulation of the rows with exposure and outcome observed, made here (not by the class)
    cc = df.dropna(subset=['exp', 'dis'])

    def table(pc, lvl):
        a, b = int(((cc['exp'] == lvl) & (cc['dis'] == 1)).sum()), int(((cc['exp'] == lvl) & (cc['dis'] == 0)).sum())
        c, d = int(((cc['exp'] == ref) & (cc['dis'] == 1)).sum()), int(((cc['exp'] == ref) & (cc['dis'] == 0)).sum())
        t1, t2 = float(cc.loc[cc['exp'] == lvl, 't'].sum()), float(cc.loc[cc['exp'] == ref, 't'].sum())
        return {'Risk': (a, a + b), 'IncRate': (a, t1)}.get(pc, (a, c, t1, t2) if rate else (a, b, c, d))
    case0 = {'cls': cls, 'n': n, 'ref': ref, 'ref_type': ref_type, 'data_hash': hash(df.to_csv()),
             'replay': rp('frame', frame=frame, cls=cls, ref=ref, ref_type=ref_type)}
    for alpha in GRID:
        obj = getattr(zepid, cls)(reference=refv, alpha=alpha)
        try:
            if rate:
                obj.fit(df, exposure='exp', outcome='dis', time='t')
            else:
                obj.fit(df, exposure='exp', outcome='dis')
        except ValueError:
            chk.discard('generated frame has an empty cell (calculator rejects it: C07)')
            break
        except ZeroDivisionError:
            chk.discard('a group with total person-time zero (outside the property: positive person-time)')
            break
        res = obj.results
        for (pc, sc, lc, uc, scale) in measures:
            if pc not in res.columns:
                continue
            for lab in res.index:
                vals = [res.loc[lab, k] for k in (pc, sc, lc, uc)]
                if any(v is None or (isinstance(v, float) and math.isnan(v)) for v in vals):
                    continue        # the reference row carries no effect-measure interval
                store.setdefault((pc, lab, scale), []).append(
                    {'alpha': alpha, 'est': float(vals[0]), 'se': float(vals[1]), 'lcl': float(vals[2]),
                     'ucl': float(vals[3])})
        if drv is not None and alpha in (GRID[0], 0.05, GRID[-1]):
            k_frame(chk, drv, cls, df, ref, alpha, res, measures[0], dict(case0, alpha=alpha))
    chk.count('frame:' + cls)
    for (pc, lab, scale), recs in sorted(store.items()):
        case = dict(case0, row=lab)
        judge(chk, 'frame.%s:%s' % (cls, pc), scale, recs, case)
        # the standard error of a row is the Wald standard error of THAT level's table against the reference's
        lvl = ref if lab.startswith('Ref:') else float(lab)
        for r in (recs[0], recs[-1]):
            judge_wald(chk, 'frame.%s:%s' % (cls, pc), WALD_OF[pc], table(pc, lvl), None, r['se'],
                       dict(case, alpha=r['alpha'], level=lvl))


def k_frame(chk, drv, cls, df, ref, alpha, res, measure, case):
    """gate K: the model of the `fit` loop (Model/Measures.lean, the subject of Props/C06_Frames.lean) with the generated
    calculator reports the same estimate, se and limits for every level; levels are handed over by rank"""
    pc, sc, lc, uc, _ = measure
    levels = sorted(set(float(v) for v in df['exp'].dropna().unique()) | {float(ref)})
    code = {v: i for i, v in enumerate(levels)}
    label = {i: str(np.float64(v)) for v, i in code.items()}

    def enc(xs, f):
        return ','.join('_' if (x is None or (isinstance(x, float) and math.isnan(x))) else f(x) for x in xs) or '[]'
    kw = dict(cls=SHORT[cls], ref=code[float(ref)], alpha=fx(alpha), px=fx(1 - alpha / 2), pz=fx(z_of(alpha)),
              e=enc(df['exp'].tolist(), lambda v: str(code[float(v)])), d=enc(df['dis'].tolist(), lambda v: str(int(v))))
    if cls.startswith('Incidence'):
        kw['t'] = enc(df['t'].tolist(), fx)
    rep, line = drv.ask('frame', **kw)
    ok = rep['status'] == 'ok'
    if ok:
        lv = dec_list(rep['levels'], int)
        ok = sorted(label[l] for l in lv) == sorted(i for i in res.index if not i.startswith('Ref:'))
        for key, c in (('point', pc), ('lower', lc), ('upper', uc), ('se', sc)):
            for l, v in zip(lv, dec_list(rep[key], unfx)):
                ok = ok and label[l] in res.index and close(res.loc[label[l], c], v, rtol=1e-11, atol=1e-14)
    chk.k(ok, 'frame.%s: model of the fit loop vs implementation (estimate, se, limits of every level)' % cls,
          {'case': case, 'model': rep})


INT_LEVELS = [0, 1, 2, 3, 5, 8, 9, 10, 16, 17, 20, 33, 40]
FRAC_LEVELS = [-2, -1, -0.5, 0, 0.25, 0.5, 1, 1.5, 2, 2.5, 7.75, 10.5]


def gen_count_frame(rng, null_level):
    """a frame built from a table of cell counts: 2-4 exposure levels (whole-number or fractional / negative category
    values), any level the reference; with `null_level` one non-reference level has exactly the risk (events : non-events
    = p : q) and exactly the rate (person-time proportional to the group size) of the reference; person-time in
    quarters with some rows at exactly 0; then rows missing the exposure, the outcome or both (they carry person-time)
    and, outside the two matched groups, rows missing the time.  -> (frame as JSON lists, reference, reference type)"""
    nlev = int(rng.integers(2, 5))
    pool = INT_LEVELS if rng.uniform() < 0.6 else FRAC_LEVELS
    levels = sorted(float(v) for v in rng.choice(pool, size=nlev, replace=False))
    ref = levels[int(rng.integers(0, nlev))]
    others = [l for l in levels if l != ref]
    p_, q_ = (int(x) for x in rng.integers(2, 9, size=2))
    counts = {l: (int(rng.integers(4, 30)), int(rng.integers(4, 30))) for l in levels}
    matched = []
    if null_level:
        k_, m_ = (int(x) for x in rng.choice(np.arange(1, 6), size=2, replace=False))
        twin = others[int(rng.integers(0, len(others)))]
        counts[ref], counts[twin] = (k_ * p_, k_ * q_), (m_ * p_, m_ * q_)
        matched = [ref, twin]
    tau = float(rng.choice([1.5, 2.25, 4.0, 7.5]))
    rows = []
    for l in levels:
        ev, nev = counts[l]
        t = np.round(rng.uniform(0.5, 10, size=ev + nev) * 4) / 4
        if l in matched:
            # every row tau, then quarter-sized amounts moved between pairs of rows: the group total stays n * tau exactly
            t = np.full(ev + nev, tau)
            for _ in range(ev + nev):
                i, j = (int(x) for x in rng.integers(0, ev + nev, size=2))
                dlt = min(float(rng.integers(0, 8)) / 4, t[i])
                t[i] -= dlt
                t[j] += dlt
        else:
            t[rng.uniform(size=ev + nev) < 0.1] = 0.0
            t[rng.uniform(size=ev + nev) < 0.08] = np.nan
        rows += [(l, 1.0 if i < ev else 0.0, float(x)) for i, x in enumerate(t)]
    for _ in range(int(rng.integers(0, 12))):          # incomplete rows: no part of any cross-tabulation
        kind = int(rng.integers(0, 3))
        l = levels[int(rng.integers(0, nlev))]
        rows.append((np.nan if kind != 1 else l, np.nan if kind != 0 else float(rng.integers(0, 2)),
                     float(np.round(rng.uniform(0.5, 10), 2))))
    order = rng.permutation(len(rows))
    e, d, t = (np.array([rows[i][k] for i in order], dtype=float) for k in range(3))
    frame = {k: [None if math.isnan(x) else float(x) for x in v] for k, v in (('exp', e), ('dis', d), ('t', t))}
    names = ['float', 'np.float64'] + (['int', 'np.int64'] if float(ref).is_integer() else [])
    return frame, float(ref), str(rng.choice(names))


def stream_frames(chk, drv, rng, tier):
    import zepid
    for i in range(4 if tier == 'quick' else 24):
        frame, ref, ref_type = gen_count_frame(rng, null_level=(i % 2 == 1))
        chk.count('frame:null_level' if i % 2 else 'frame:random')
        for cls, measures in FRAME.items():
            cell_frame(chk, drv, frame, cls, ref=ref, ref_type=ref_type)


def gen_causal(rng, n, ytype, missing):
    L = np.round(rng.normal(size=n), 3)
    V = rng.integers(0, 2, n).astype(float)
    A = (rng.uniform(size=n) < 1 / (1 + np.exp(-(-0.2 + 0.5 * L + 0.4 * V)))).astype(float)
    if ytype == 'binary':
        Y = (rng.uniform(size=n) < 1 / (1 + np.exp(-(-0.6 + 0.8 * A + 0.5 * L - 0.3 * V)))).astype(float)
    else:
        Y = np.round(2 + 1.5 * A + L - 0.5 * V + rng.normal(size=n), 3)
    wt = rng.integers(1, 4, n).astype(float)
    df = pd.DataFrame({'A': A, 'Y': Y, 'L': L, 'V': V, 'wt': wt})
    if missing:
        pm = 1 / (1 + np.exp(-(-1.7 + 0.5 * A + 0.4 * L)))
        df.loc[rng.uniform(size=n) < pm, 'Y'] = np.nan
    return df


def new_spec(rng, n, ytype, missing):
    """a data set named by (seed, n, outcome type, missingness): regenerated identically by replay"""
    return {'data_seed': int(rng.integers(0, 2 ** 31)), 'n': int(n), 'ytype': ytype, 'missing': bool(missing)}


def causal_frame(spec):
    return gen_causal(np.random.default_rng(spec['data_seed']), spec['n'], spec['ytype'], spec['missing'])


def rp(cell, **kwargs):
    """replay descriptor carried by every case of a cell: replay() calls CELLS[cell](**kwargs) again"""
    return {'cell': cell, 'kwargs': kwargs}


def rec_of(alpha, est, se, ci):
    return {'alpha': alpha, 'est': float(est), 'se': float(se), 'lcl': float(ci[0]), 'ucl': float(ci[1])}


def enc_opt(xs):
    return ','.join('_' if math.isnan(float(x)) else fx(x) for x in xs) or '[]'


def history_check(chk, who, got, want, case):
    """got / want: {measure: (est, se, lcl, ucl)} of an object with a history of earlier specifications and fits vs a
    fresh object given only the last specification"""
    chk.case(case, ('history', who, case.get('data_hash')))
    chk.count('history:' + who)
    for meas in sorted(want):
        g = got.get(meas)
        chk.d(g is not None and all(close(float(x), float(w), rtol=1e-10, atol=1e-13) for x, w in zip(g, want[meas])),
              '%s %s: estimate, se and limits after earlier fits / respecifications on the same object = those of a '
              'fresh object' % (who, meas), dict(case, measure=meas, refit=g, fresh=want[meas]))


def rec_tuple(r):
    return (r['est'], r['se'], r['lcl'], r['ucl'])


def cell_aiptw(chk, drv, spec, weighted):
    from zepid.causal.doublyrobust import AIPTW
    ytype, missing = spec['ytype'], spec['missing']
    df = causal_frame(spec)
    grid = GRID if not weighted else GRID_TINY
    store = {}
    case = {'estimator': 'AIPTW', 'ytype': ytype, 'missing_model': missing, 'weighted': weighted,
            'n': len(df), 'data_hash': hash(df.to_csv()), 'replay': rp('aiptw', spec=spec, weighted=weighted)}
    last = None
    for alpha in grid:
        m = AIPTW(df if weighted else df.drop(columns='wt'), exposure='A', outcome='Y', alpha=alpha,
                  weights='wt' if weighted else None)
        m.exposure_model('L + V', print_results=False)
        if missing:
            m.missing_model('A + L', print_results=False)
        m.outcome_model('A + L + V', print_results=False)
        m.fit()
        last = m
        if ytype == 'binary':
            store.setdefault(('risk_difference', 'lin'), []).append(
                rec_of(alpha, m.risk_difference, m.risk_difference_se, m.risk_difference_ci))
            store.setdefault(('risk_ratio', 'log'), []).append(
                rec_of(alpha, m.risk_ratio, m.risk_ratio_se, m.risk_ratio_ci))
        else:
            store.setdefault(('average_treatment_effect', 'lin'), []).append(
                rec_of(alpha, m.average_treatment_effect, m.average_treatment_effect_se,
                       m.average_treatment_effect_ci))
        if drv is not None and not weighted:
            for (meas, scale), recs in store.items():
                r = recs[-1]
                k_ci(chk, drv, 'AIPTW.' + meas, scale, r['est'], z_of(alpha), r['se'], r['lcl'],
                     r['ucl'], case)
    chk.count('aiptw:%s/%s/%s' % (ytype, 'miss' if missing else 'full', 'w' if weighted else 'nw'))
    for (meas, scale), recs in sorted(store.items()):
        judge(chk, 'AIPTW:' + meas, scale, recs, case)
    if not weighted:
        aiptw_variance(chk, drv, last, ytype, missing, case)
    # history: coarser models fitted first on the same object, then the final specification
    hc = dict(case, history='exposure L / outcome A+L fitted first, then respecified and fitted again',
              alpha=grid[-1])
    try:
        h = AIPTW(df if weighted else df.drop(columns='wt'), exposure='A', outcome='Y', alpha=grid[-1],
                  weights='wt' if weighted else None)
        h.exposure_model('L', print_results=False)
        if missing:
            h.missing_model('A', print_results=False)
        h.outcome_model('A + L', print_results=False)
        h.fit()
        h.exposure_model('L + V', print_results=False)
        if missing:
            h.missing_model('A + L', print_results=False)
        h.outcome_model('A + L + V', print_results=False)
        h.fit()
        h.fit()
        if ytype == 'binary':
            got = {'risk_difference': (h.risk_difference, h.risk_difference_se) + tuple(h.risk_difference_ci),
                   'risk_ratio': (h.risk_ratio, h.risk_ratio_se) + tuple(h.risk_ratio_ci)}
        else:
            got = {'average_treatment_effect': (h.average_treatment_effect, h.average_treatment_effect_se)
                   + tuple(h.average_treatment_effect_ci)}
    except Exception as e:      # noqa: BLE001
        got = {}
        hc['error'] = repr(e)
    history_check(chk, 'AIPTW', got, {meas: rec_tuple(recs[-1]) for (meas, sc), recs in store.items()}, hc)


def stream_aiptw(chk, drv, rng, tier):
    from zepid.causal.doublyrobust import AIPTW
    for rep in range(1 if tier == 'quick' else 5):
        for ytype in ('binary', 'continuous'):
            for missing in (False, True):
                for weighted in (False, True):
                    cell_aiptw(chk, drv, new_spec(rng, int(rng.integers(150, 400)), ytype, missing), weighted)


def aiptw_variance(chk, drv, m, ytype, missing, case):
    """se^2 = influence-curve variance / n, from the nuisance predictions AIPTW leaves in its public frame"""
    d = m.df
    a, y = np.asarray(d['A'], dtype=float), np.asarray(d['Y'], dtype=float)
    q1, q0 = np.asarray(d['_pY1_'], dtype=float), np.asarray(d['_pY0_'], dtype=float)
    g1, g0 = np.asarray(d['_g1_'], dtype=float), np.asarray(d['_g0_'], dtype=float)
    if missing:
        g1, g0 = g1 * np.asarray(d['_ipmw_a1_'], dtype=float), g0 * np.asarray(d['_ipmw_a0_'], dtype=float)
    n = len(d)
    y1 = np.where(a == 1, (y - q1 * (1 - g1)) / g1, q1)
    y0 = np.where(a == 0, (y - q0 * (1 - g0)) / g0, q0)
    diff = y1 - y0
    want = float(np.nanvar(diff, ddof=1) / n)
    est = m.risk_difference if ytype == 'binary' else m.average_treatment_effect
    se = m.risk_difference_se if ytype == 'binary' else m.average_treatment_effect_se
    c = dict(case, clause='ic_se')
    chk.d(close(est, float(np.nanmean(diff)), rtol=1e-10, atol=1e-13) and close(se ** 2, want, rtol=1e-9, atol=1e-16),
          'AIPTW difference: estimate = mean pseudo-outcome difference, se^2 = nanvar(ic, ddof=1)/n', c,
          signature={'estimator': 'AIPTW', 'measure': 'difference', 'clause': 'ic_se'})
    if drv is not None:
        rep, _ = drv.ask('aipwdiff', d=enc_opt(diff))
        ok = rep['status'] == 'ok' and close(unfx(rep['est']), est, rtol=1e-10, atol=1e-13) and \
            close(unfx(rep['var']), se ** 2, rtol=1e-9, atol=1e-16)
        chk.k(ok, 'AIPTW difference: model aipwDiff vs implementation', {'case': c, 'model': rep})
    if ytype == 'binary':
        judge_rr_ic(chk, 'aipw_calculator', m.risk_ratio_se ** 2, a, y, q1, q0, y1, y0, g1, g0, n,
                    dict(c, via='AIPTW.risk_ratio_se'))


def judge_rr_ic(chk, who, got_var, a, y, q1, q0, y1, y0, g1, g0, n, c):
    """log-RR influence curve of the AIPW estimator: (1/m1)(y1 - m1) - (1/m0)(y0 - m0); both plug-ins for m_a
    (mean pseudo-outcome, mean prediction) are accepted"""
    cands = []
    for m1, m0 in ((np.nanmean(y1), np.nanmean(y0)), (np.mean(q1), np.mean(q0))):
        ic = (y1 - m1) / m1 - (y0 - m0) / m0
        cands.append(float(np.nanvar(ic, ddof=1) / n))
    chk.d(any(close(got_var, w, rtol=1e-8, atol=1e-16) for w in cands),
          '%s risk ratio: se^2 = variance of the log-RR influence curve / n' % who,
          dict(c, got=got_var, documented=cands),
          signature={'estimator': who, 'measure': 'risk_ratio', 'clause': 'ic_se'})


def k_icrr(chk, drv, who, which, m1, m0, r1, r0, q1, q0, n, got_var, case):
    """the model's per-row log-RR influence values (documented / the two known-finding code paths) reproduce the
    variance the implementation reports"""
    if drv is None:
        return
    rep, _ = drv.ask('icrr', which=which, m1=fx(m1), m0=fx(m0), r1=enc_list(r1, fx), r0=enc_list(r0, fx),
                     q1=enc_list(q1, fx), q0=enc_list(q0, fx), n=int(n))
    chk.k(rep['status'] == 'ok' and close(unfx(rep['var']), got_var, rtol=1e-9, atol=1e-18),
          '%s: model log-RR influence values (%s) vs implementation variance' % (who, which),
          {'case': case, 'model': rep, 'impl_var': got_var})


def tmle_eic(pr, y):
    Q, Q1, Q0, H1, H0 = pr['Qstar'], pr['Qstar1'], pr['Qstar0'], pr['H1W'], pr['H0W']
    r = np.where(np.isnan(y), 0.0, y - Q)       # a row with a missing outcome contributes no residual term
    m1, m0 = Q1.mean(), Q0.mean()
    D1, D0 = H1 * r + Q1 - m1, -H0 * r + Q0 - m0
    return {'risk_difference': D1 - D0, 'risk_ratio': D1 / m1 - D0 / m0,
            'odds_ratio': D1 / (m1 * (1 - m1)) - D0 / (m0 * (1 - m0))}


def cell_tmle(chk, drv, spec):
    from zepid.causal.doublyrobust import TMLE
    ytype, missing = spec['ytype'], spec['missing']
    df = causal_frame(spec).drop(columns='wt')
    store = {}
    case = {'estimator': 'TMLE', 'ytype': ytype, 'missing_model': missing, 'n': len(df),
            'data_hash': hash(df.to_csv()), 'replay': rp('tmle', spec=spec)}
    last = None
    for alpha in GRID:
        m = TMLE(df, exposure='A', outcome='Y', alpha=alpha)
        m.exposure_model('L + V', print_results=False)
        if missing:
            m.missing_model('A + L', print_results=False)
        m.outcome_model('A + L + V', print_results=False)
        m.fit()
        last = m
        if ytype == 'binary':
            new = [('risk_difference', 'lin', m.risk_difference, m.risk_difference_se, m.risk_difference_ci),
                   ('risk_ratio', 'log', m.risk_ratio, m.risk_ratio_se, m.risk_ratio_ci),
                   ('odds_ratio', 'log', m.odds_ratio, m.odds_ratio_se, m.odds_ratio_ci)]
        else:
            new = [('average_treatment_effect', 'lin', m.average_treatment_effect,
                    m.average_treatment_effect_se, m.average_treatment_effect_ci)]
        for meas, scale, est, se, ci in new:
            store.setdefault((meas, scale), []).append(rec_of(alpha, est, se, ci))
            # K: the model of TMLE.fit's interval (1.96 at alpha == 0.05) reproduces the reported limits
            k_ci(chk, drv, 'TMLE.' + meas, scale, float(est), 1.96 if alpha == 0.05 else z_of(alpha),
                 float(se), float(ci[0]), float(ci[1]), dict(case, alpha=alpha))
    chk.count('tmle:%s/%s' % (ytype, 'miss' if missing else 'full'))
    for (meas, scale), recs in sorted(store.items()):
        judge(chk, 'TMLE:' + meas, scale, recs, case, tmle=True)
    hc = dict(case, history='exposure L / outcome A+L fitted first, then respecified and fitted again',
              alpha=GRID[-1])
    try:
        h = TMLE(df, exposure='A', outcome='Y', alpha=GRID[-1])
        h.exposure_model('L', print_results=False)
        if missing:
            h.missing_model('A', print_results=False)
        h.outcome_model('A + L', print_results=False)
        h.fit()
        h.exposure_model('L + V', print_results=False)
        if missing:
            h.missing_model('A + L', print_results=False)
        h.outcome_model('A + L + V', print_results=False)
        h.fit()
        h.fit()
        if ytype == 'binary':
            got = {'risk_difference': (h.risk_difference, h.risk_difference_se) + tuple(h.risk_difference_ci),
                   'risk_ratio': (h.risk_ratio, h.risk_ratio_se) + tuple(h.risk_ratio_ci),
                   'odds_ratio': (h.odds_ratio, h.odds_ratio_se) + tuple(h.odds_ratio_ci)}
        else:
            got = {'average_treatment_effect': (h.average_treatment_effect, h.average_treatment_effect_se)
                   + tuple(h.average_treatment_effect_ci)}
    except Exception as e:      # noqa: BLE001
        got = {}
        hc['error'] = repr(e)
    history_check(chk, 'TMLE', got, {meas: rec_tuple(recs[-1]) for (meas, sc), recs in store.items()}, hc)
    pr = getattr(last, '_verif_probe_', None)
    if pr is None:
        chk.count('tmle_probe_unavailable')
        return
    n = last.df.shape[0]
    if ytype == 'binary':
        ic = tmle_eic(pr, np.asarray(last.df['Y'], dtype=float))
        for meas, se in (('risk_difference', last.risk_difference_se), ('risk_ratio', last.risk_ratio_se),
                         ('odds_ratio', last.odds_ratio_se)):
            want = float(np.var(ic[meas], ddof=1) / n)
            chk.d(close(se ** 2, want, rtol=1e-9, atol=1e-18),
                  'TMLE %s: se^2 = variance of the efficient influence curve / n' % meas,
                  dict(case, clause='ic_se', measure=meas, got=se ** 2, documented=want),
                  signature={'estimator': 'TMLE', 'measure': meas, 'missing_outcome': bool(missing),
                             'clause': 'ic_se'})
        yv = np.asarray(last.df['Y'], dtype=float)
        res = np.where(np.isnan(yv), 0.0, yv - pr['Qstar'])
        k_icrr(chk, drv, 'TMLE.risk_ratio', 'doc', float(pr['Qstar1'].mean()), float(pr['Qstar0'].mean()),
               pr['H1W'] * res, -pr['H0W'] * res, pr['Qstar1'], pr['Qstar0'], n,
               float(last.risk_ratio_se) ** 2, case)
        if drv is not None:
            rep_, _ = drv.ask('icse', ic=enc_opt(ic['risk_difference']), n=n)
            chk.k(rep_['status'] == 'ok' and close(unfx(rep_['se']), last.risk_difference_se, rtol=1e-9),
                  'TMLE risk difference: model icSe vs implementation', {'case': case, 'model': rep_})
    else:
        # continuous outcome: the influence curve of the bounded problem scaled back by (max - min)
        yo = np.asarray(df['Y'], dtype=float)
        span = float(np.nanmax(yo) - np.nanmin(yo))
        icb = tmle_eic(pr, np.asarray(pr['y'], dtype=float))['risk_difference']
        want = float(span ** 2 * np.var(icb, ddof=1) / n)
        chk.d(close(last.average_treatment_effect_se ** 2, want, rtol=1e-9, atol=1e-18),
              'TMLE average treatment effect: se^2 = variance of the efficient influence curve (outcome '
              'scale) / n', dict(case, clause='ic_se', got=float(last.average_treatment_effect_se) ** 2,
                                 documented=want),
              signature={'estimator': 'TMLE', 'measure': 'average_treatment_effect',
                         'missing_outcome': bool(missing), 'clause': 'ic_se'})


def stream_tmle(chk, drv, rng, tier):
    from zepid.causal.doublyrobust import TMLE
    for rep in range(1 if tier == 'quick' else 5):
        for ytype in ('binary', 'continuous'):
            for missing in (False, True):
                cell_tmle(chk, drv, new_spec(rng, int(rng.integers(150, 400)), ytype, missing))


def stmle_reference(df, ytype, p, model_g='L + V', model_q='A + L + V', cb=0.0005):
    """the documented StochasticTMLE quantities recomputed by the harness from its own nuisance fits:
    conditional variance mean((H (Y - Q))^2) on the outcome's own scale for any plan, and for a deterministic plan
    (p = 0 or 1: no Monte-Carlo error) the targeted estimate and the marginal variance
    mean((H (Y - Q) + Q*_plan - psi)^2)"""
    import statsmodels.api as sm
    import statsmodels.formula.api as smf
    A = df['A'].values.astype(float)
    Y = df['Y'].values.astype(float)
    n = len(df)
    g = smf.glm('A ~ ' + model_g, df, family=sm.families.Binomial()).fit().predict(df).values
    den = np.where(A == 1, g, 1 - g)
    d2 = df.copy()
    if ytype == 'continuous':
        lo, hi = Y.min(), Y.max()
        d2['Y'] = np.clip((Y - lo) / (hi - lo), cb, 1 - cb)
        fam = sm.families.Gaussian()

        def unb(x):
            return x * (hi - lo) + lo
    else:
        fam = sm.families.Binomial()

        def unb(x):
            return x
    om = smf.glm('Y ~ ' + model_q, d2, family=fam).fit()
    Q = om.predict(d2).values
    if ytype == 'continuous':
        Q = np.clip(Q, cb, 1 - cb)
    yb = d2['Y'].values.astype(float)
    haw = np.where(A == 1, p, 1 - p) / den
    out = {'conditional_se': float(np.sqrt(np.mean((haw * (unb(yb) - unb(Q))) ** 2) / n))}
    if p in (0.0, 1.0):
        eps = float(np.asarray(sm.GLM(yb, np.repeat(1, n), offset=np.log(Q / (1 - Q)), freq_weights=haw,
                                      family=sm.families.Binomial()).fit().params)[0])
        d3 = d2.copy()
        d3['A'] = int(p)
        ystar = om.predict(d3).values
        if np.any(ystar <= 0) or np.any(ystar >= 1):
            # a prediction under the plan left the unit interval (continuous outcome): logit undefined; zEpid then
            # drops those rows from the mean and reports marginal_se = NaN (reported to the lead, not C06's subject)
            out['plan_prediction_out_of_range'] = True
            return out
        qstar = 1 / (1 + np.exp(-(np.log(ystar / (1 - ystar)) + eps)))
        psi = float(unb(np.mean(qstar)))
        out['marginal_outcome'] = psi
        out['marginal_se'] = float(np.sqrt(np.mean((haw * (unb(yb) - unb(Q)) + unb(qstar) - psi) ** 2) / n))
    return out


def cell_stmle(chk, drv, spec, p, rep, tier):
    from zepid.causal.doublyrobust import StochasticTMLE
    ytype = spec['ytype']
    df = causal_frame(spec).drop(columns='wt')
    store = {}
    case = {'estimator': 'StochasticTMLE', 'ytype': ytype, 'p': p, 'n': len(df), 'data_hash': hash(df.to_csv()),
            'replay': rp('stmle', spec=spec, p=p, rep=rep, tier=tier)}
    for alpha in (GRID_SMALL if tier == 'quick' else GRID[::2] + [0.05]):
        m = StochasticTMLE(df, exposure='A', outcome='Y', alpha=alpha)
        m.exposure_model('L + V')
        m.outcome_model('A + L + V')
        m.fit(p=p, samples=8, seed=20240 + rep)
        for meas, se, ci in (('marginal', m.marginal_se, m.marginal_ci),
                             ('conditional', m.conditional_se, m.conditional_ci)):
            store.setdefault(meas, []).append(rec_of(alpha, m.marginal_outcome, se, ci))
            k_ci(chk, drv, 'StochasticTMLE.' + meas, 'lin', float(m.marginal_outcome), z_of(alpha), float(se),
                 float(ci[0]), float(ci[1]), dict(case, alpha=alpha))
    chk.count('stmle:' + ytype)
    for meas, recs in sorted(store.items()):
        judge(chk, 'StochasticTMLE:' + meas, 'lin', recs, case)
    # secondary quantities against their documented definitions (harness's own nuisance fits): conditional se
    # for a stochastic plan, everything for the deterministic plans p = 1 and p = 0
    for q in (p, 1.0, 0.0):
        dc = dict(case, p=q, clause='documented_variance')
        chk.case(dc, ('stmle-def', ytype, q, hash(df.to_csv())))
        chk.count('stmle_definition:%s/p=%s' % (ytype, q))
        try:
            mm = StochasticTMLE(df, exposure='A', outcome='Y', alpha=0.2)
            mm.exposure_model('L + V')
            mm.outcome_model('A + L + V')
            mm.fit(p=q, samples=3, seed=0)
            ref = stmle_reference(df, ytype, q)
            if ref.pop('plan_prediction_out_of_range', False):
                chk.count('stmle_plan_prediction_out_of_range_not_judged')
            got = {k: float(getattr(mm, k)) for k in ref}
            dc.update(got=got, documented=ref)
            # 1e-7: two independent runs of the same IRLS fits (agreement measured: 1e-15)
            for k in sorted(ref):
                chk.d(close(got[k], ref[k], rtol=1e-7, atol=1e-12),
                      'StochasticTMLE %s = its documented definition on the outcome scale' % k, dc)
            zz = z_of(0.2)
            chk.d(close(mm.conditional_ci[0], mm.marginal_outcome - zz * ref['conditional_se'], rtol=1e-7,
                        atol=1e-10) and
                  close(mm.conditional_ci[1], mm.marginal_outcome + zz * ref['conditional_se'], rtol=1e-7,
                        atol=1e-10),
                  'StochasticTMLE conditional_ci = estimate -/+ z * documented conditional se', dc)
        except Exception as e:      # noqa: BLE001
            chk.d(False, 'StochasticTMLE runs on a valid plan (p=%s)' % q, dict(dc, error=repr(e)))
    # history: several plans fitted on ONE object; each fit must report what a fresh object reports for
    # that plan (estimate, both standard errors, both intervals)
    plans = [q for q in (0.9, 0.1, p) ]
    obj = StochasticTMLE(df, exposure='A', outcome='Y', alpha=0.1)
    obj.exposure_model('L + V')
    obj.outcome_model('A + L + V')
    for i, q in enumerate(plans):
        hc = dict(case, history='fit #%d on one object, plans so far %s' % (i + 1, plans[:i + 1]), p=q, alpha=0.1)
        chk.case(hc, ('stmle-history', ytype, i, hash(df.to_csv())))
        chk.count('history:stmle')
        try:
            obj.fit(p=q, samples=8, seed=777 + rep)
            fr = StochasticTMLE(df, exposure='A', outcome='Y', alpha=0.1)
            fr.exposure_model('L + V')
            fr.outcome_model('A + L + V')
            fr.fit(p=q, samples=8, seed=777 + rep)
            got = [obj.marginal_outcome, obj.marginal_se, obj.conditional_se] + list(obj.marginal_ci) + \
                list(obj.conditional_ci)
            want = [fr.marginal_outcome, fr.marginal_se, fr.conditional_se] + list(fr.marginal_ci) + \
                list(fr.conditional_ci)
            ok = all(close(float(g), float(w), rtol=1e-10, atol=1e-13) for g, w in zip(got, want))
            hc.update(refit=[float(x) for x in got], fresh=[float(x) for x in want])
        except Exception as e:      # noqa: BLE001
            ok = False
            hc['error'] = repr(e)
        chk.d(ok, 'StochasticTMLE: estimate, se and limits of a later fit on the same object = those of a fresh '
              'object for that plan', hc)
        judge(chk, 'StochasticTMLE:marginal(refit)', 'lin',
              [rec_of(0.1, obj.marginal_outcome, obj.marginal_se, obj.marginal_ci)], hc, fixed_alpha=True)


def stream_stmle(chk, drv, rng, tier):
    from zepid.causal.doublyrobust import StochasticTMLE
    for rep in range(1 if tier == 'quick' else 3):
        for ytype in ('binary', 'continuous'):
            cell_stmle(chk, drv, new_spec(rng, int(rng.integers(150, 300)), ytype, False), float(rng.choice([0.3, 0.5, 0.8])), rep, tier)


def sort_median(v):
    s = sorted(float(x) for x in v)
    k = len(s)
    return s[k // 2] if k % 2 else (s[k // 2 - 1] + s[k // 2]) / 2


def pooled(points, variances, method):
    pts, vs = [float(x) for x in points], [float(x) for x in variances]
    cen = sort_median if method == 'median' else (lambda v: sum(v) / len(v))
    p = cen(pts)
    return p, cen([v + (e - p) ** 2 for v, e in zip(vs, pts)])


def k_pool(chk, drv, who, method, pts, vs, est, var, case):
    if drv is None:
        return
    rep, _ = drv.ask('pool', method=method, pts=enc_list(pts, fx), vars=enc_list(vs, fx))
    ok = rep['status'] == 'ok' and close(unfx(rep['est']), est, rtol=1e-11, atol=1e-14) and \
        close(unfx(rep['var']), var, rtol=1e-10, atol=1e-18)
    chk.k(ok, '%s: model pool vs implementation' % who, {'case': case, 'model': rep})


def crossfit_measures(m, cname, ytype):
    if ytype == 'binary':
        new = [('risk_difference', 'lin', m.risk_difference, m.risk_difference_se, m.risk_difference_ci,
                m.risk_difference_vector, m.risk_difference_var_vector, False),
               ('risk_ratio', 'log', m.risk_ratio, m.risk_ratio_se, m.risk_ratio_ci,
                m.risk_ratio_vector, m.risk_ratio_var_vector, True)]
        if 'TMLE' in cname:
            new.append(('odds_ratio', 'log', m.odds_ratio, m.odds_ratio_se, m.odds_ratio_ci,
                        m.odds_ratio_vector, m.odds_ratio_var_vector, True))
        return new
    return [('ace', 'lin', m.ace, m.ace_se, m.ace_ci, m.ace_vector, m.ace_var_vector, False)]


def cell_crossfit(chk, drv, spec, cname, ns, methods):
    from sklearn.linear_model import LogisticRegression, LinearRegression
    import zepid.causal.doublyrobust as dr
    ytype = spec['ytype']
    methods = [(m, list(g)) for m, g in methods]
    df = causal_frame(spec).drop(columns='wt')
    nparts = {'median': 3, 'mean': 4}

    def make(cname, alpha, ytype, df):
        m = getattr(dr, cname)(df, exposure='A', outcome='Y', alpha=alpha)
        m.exposure_model('L + V', LogisticRegression(penalty=None, solver='lbfgs'))
        m.outcome_model('A + L + V', LogisticRegression(penalty=None, solver='lbfgs') if ytype == 'binary'
                        else LinearRegression())
        return m
    fresh = {}
    keep = None
    for method, grid in methods:
        store = {}
        case = {'estimator': cname, 'ytype': ytype, 'method': method, 'n': len(df),
                'data_hash': hash(df.to_csv()),
                'replay': rp('crossfit', spec=spec, cname=cname, ns=ns, methods=methods)}
        for alpha in grid:
            m = make(cname, alpha, ytype, df)
            m.fit(n_splits=ns, n_partitions=nparts[method], method=method, random_state=777)
            if method == 'mean' and alpha == 0.05:
                keep = m
            for meas, scale, est, se, ci, vec, vvec, logscale in crossfit_measures(m, cname, ytype):
                store.setdefault((meas, scale), []).append(rec_of(alpha, est, se, ci))
                fresh[(method, alpha, meas)] = (float(est), float(se), float(ci[0]), float(ci[1]))
                k_ci(chk, drv, cname + '.' + meas, scale, float(est), z_of(alpha), float(se), float(ci[0]),
                     float(ci[1]), dict(case, alpha=alpha))
                pts = [math.log(float(x)) for x in vec] if logscale else [float(x) for x in vec]
                p, v = pooled(pts, vvec, method)
                c = dict(case, alpha=alpha, measure=meas, vector=[float(x) for x in vec],
                         var_vector=[float(x) for x in vvec])
                chk.d(len(vec) == nparts[method] and len(vvec) == nparts[method] and
                      close(math.log(float(est)) if logscale else float(est), p, rtol=1e-11, atol=1e-14) and
                      close(float(se) ** 2, v, rtol=1e-10, atol=1e-18),
                      '%s %s: pooled estimate / variance = %s of (var + (est - pooled)^2) over the partitions'
                      % (cname, meas, method), c)
                k_pool(chk, drv, cname + '.' + meas, method, pts, [float(x) for x in vvec],
                       math.log(float(est)) if logscale else float(est), float(se) ** 2, c)
        chk.count('crossfit:%s/%s/%s' % (cname, ytype, method))
        for (meas, scale), recs in sorted(store.items()):
            judge(chk, cname + ':' + meas, scale, recs, case)
    # history: the object fitted with method='mean' is fitted again with method='median'
    if keep is not None:
        hc = {'estimator': cname, 'ytype': ytype, 'history': "fit(method='mean') then fit(method='median')",
              'n': len(df), 'replay': rp('crossfit', spec=spec, cname=cname, ns=ns, methods=methods)}
        try:
            keep.fit(n_splits=ns, n_partitions=nparts['median'], method='median', random_state=777)
            got = {meas: (float(est), float(se), float(ci[0]), float(ci[1]))
                   for meas, scale, est, se, ci, vec, vvec, logscale in crossfit_measures(keep, cname, ytype)}
            err = None
        except Exception as e:      # noqa: BLE001
            got, err = {}, repr(e)
        chk.case(hc, ('crossfit-history', cname, ytype))
        chk.count('history:crossfit')
        for meas in sorted(k[2] for k in fresh if k[0] == 'median' and k[1] == 0.05):
            want = fresh[('median', 0.05, meas)]
            chk.d(meas in got and all(close(g, w, rtol=1e-10, atol=1e-13) for g, w in zip(got[meas], want)),
                  '%s %s: a second fit on the same object reports what a fresh object reports' % (cname, meas),
                  dict(hc, measure=meas, refit=got.get(meas), fresh=want, error=err))


def stream_crossfit(chk, drv, rng, tier):
    """all four cross-fit classes, BOTH pooling methods: every reported measure is re-pooled from its *_vector /
    *_var_vector attributes with the method that was asked for; then one object is fitted a second time with the
    other method and must report what a fresh object reports"""
    classes = [('SingleCrossfitAIPTW', 2), ('DoubleCrossfitAIPTW', 3), ('SingleCrossfitTMLE', 2),
               ('DoubleCrossfitTMLE', 3)]
    if tier == 'quick':
        plan = [('binary', [('median', GRID_TINY), ('mean', [0.05, 0.3])])]
    else:
        plan = [('binary', [('median', GRID_SMALL), ('mean', GRID_SMALL)]),
                ('continuous', [('median', GRID_SMALL), ('mean', [0.05, 0.3])])]
    for ytype, methods in plan:
        spec = new_spec(rng, int(rng.integers(180, 260)), ytype, False)
        for cname, ns in classes:
            cell_crossfit(chk, drv, spec, cname, ns, methods)


def cell_joint(chk, drv, method, pts, vs, as_list, same):
    from zepid.causal.doublyrobust.crossfit import calculate_joint_estimate
    pts, vs = np.array(pts, dtype=float), np.array(vs, dtype=float)
    kind = 0 if same else 1
    arg_p, arg_v = (list(pts), list(vs)) if as_list else (pts.copy(), vs.copy())
    est, var = calculate_joint_estimate(arg_p, arg_v, method=method)
    p, v = pooled(pts, vs, method)
    case = {'stream': 'calculate_joint_estimate', 'method': method, 'points': pts.tolist(), 'vars': vs.tolist(),
            'replay': rp('joint', method=method, pts=pts.tolist(), vs=vs.tolist(), as_list=as_list, same=same)}
    chk.case(case, ('joint', method, tuple(pts.tolist()), tuple(vs.tolist())))
    chk.d(close(est, p, rtol=1e-12, atol=1e-15) and close(var, v, rtol=1e-11, atol=1e-18),
          'calculate_joint_estimate = %s of estimates, %s of var + (est - pooled)^2' % (method, method), case)
    chk.d(var >= 0, 'pooled variance is non-negative', case)
    if kind == 0:
        chk.d(close(est, pts[0], rtol=1e-15, atol=0) and close(var, vs[0], rtol=1e-12, atol=0),
              'all partitions agree => pooling returns that estimate and variance', case)
    k_pool(chk, drv, 'calculate_joint_estimate', method, pts.tolist(), vs.tolist(), float(est), float(var), case)


def stream_joint(chk, drv, rng, tier):
    from zepid.causal.doublyrobust.crossfit import calculate_joint_estimate
    for i in range(60 if tier == 'quick' else 600):
        k = int(rng.integers(1, 12))
        pts = np.round(rng.normal(size=k), int(rng.integers(1, 6)))      # coarse rounding produces ties
        vs = np.round(rng.uniform(0.001, 0.5, size=k), 4)
        if i % 5 == 0:
            pts[:] = pts[0]
            vs[:] = vs[0]
        cell_joint(chk, drv, 'median' if i % 2 else 'mean', pts.tolist(), vs.tolist(), i % 3 == 0, i % 5 == 0)
    for bad in ((np.zeros(3), np.zeros(2), 'median'), (np.zeros(3), np.zeros(3), 'mode')):
        try:
            calculate_joint_estimate(bad[0], bad[1], method=bad[2])
            r = 'ok'
        except ValueError:
            r = 'ValueError'
        chk.case(None)
        chk.d(r == 'ValueError', 'calculate_joint_estimate rejects mismatched lengths / unknown method',
              {'lens': [len(bad[0]), len(bad[1])], 'method': bad[2]})
        if drv is not None and bad[2] == 'median':
            rep, _ = drv.ask('pool', method='median', pts=enc_list(bad[0], fx), vars=enc_list(bad[1], fx))
            chk.k(rep['status'] == 'err', 'pool model rejects mismatched lengths', {'model': rep})


def cell_ic(chk, drv, data_seed, i):
    from zepid.causal.doublyrobust.crossfit import tmle_calculator
    from zepid.causal.utils import aipw_calculator
    rng = np.random.default_rng(data_seed)
    n = int(rng.integers(60, 400))
    ns = int(rng.integers(2, 4))
    a = rng.integers(0, 2, n).astype(float)
    y = rng.integers(0, 2, n).astype(float)
    q1, q0 = rng.uniform(0.2, 0.8, n), rng.uniform(0.1, 0.7, n)
    qa = np.where(a == 1, q1, q0)
    g1 = rng.uniform(0.2, 0.8, n)
    g0 = 1 - g1
    sp = rng.integers(0, ns, n)
    h1, h0 = a / g1, -(1 - a) / g0
    case = {'stream': 'tmle_calculator', 'n': n, 'splits': ns, 'seed_index': i,
            'replay': rp('ic', data_seed=data_seed, i=i)}
    for meas in ('risk_difference', 'risk_ratio', 'odds_ratio'):
        est, var = tmle_calculator(y, q1, q0, qa, h1, h0, h1 + h0, sp, measure=meas)
        vs = []
        for s in sorted(set(sp.tolist())):
            m = sp == s
            m1, m0, r = q1[m].mean(), q0[m].mean(), (y - qa)[m]
            D1, D0 = h1[m] * r + q1[m] - m1, -h0[m] * r + q0[m] - m0
            ic = {'risk_difference': D1 - D0, 'risk_ratio': D1 / m1 - D0 / m0,
                  'odds_ratio': D1 / (m1 * (1 - m1)) - D0 / (m0 * (1 - m0))}[meas]
            vs.append(np.var(ic, ddof=1))
        want = float(np.mean(vs) / n)
        chk.case(case, ('tmle_calculator', meas, i, n))
        chk.d(close(var, want, rtol=1e-9, atol=1e-18),
              'crossfit.tmle_calculator %s: variance = mean over splits of var(efficient influence curve) / n' % meas,
              dict(case, measure=meas, got=float(var), documented=want),
              signature={'estimator': 'crossfit.tmle_calculator', 'measure': meas, 'clause': 'ic_se'})
    # aipw_calculator with splits (cross-fit AIPTW) and without
    for splits in (None, sp):
        est, var = aipw_calculator(y, a, q1, q0, g1, g0, difference=True, splits=splits)
        y1 = np.where(a == 1, (y - q1 * (1 - g1)) / g1, q1)
        y0 = np.where(a == 0, (y - q0 * (1 - g0)) / g0, q0)
        d = y1 - y0
        if splits is None:
            want = float(np.var(d, ddof=1) / n)
        else:
            want = float(np.mean([np.var(d[sp == s] - d.mean(), ddof=1) for s in sorted(set(sp.tolist()))]) / n)
        c = {'stream': 'aipw_calculator', 'n': n, 'splits': None if splits is None else ns, 'seed_index': i,
             'replay': rp('ic', data_seed=data_seed, i=i)}
        chk.case(c, ('aipw_calculator', splits is None, i, n))
        chk.d(close(est, float(d.mean()), rtol=1e-11, atol=1e-14) and close(var, want, rtol=1e-9, atol=1e-18),
              'aipw_calculator difference: variance = (mean over splits of) var(pseudo-outcome difference) / n', c,
              signature={'estimator': 'aipw_calculator', 'measure': 'difference', 'clause': 'ic_se'})
        if splits is not None and drv is not None:
            # gate K on the definition regenerated from the `splits` branch (Gen/FitSplits.lean, Props/C06_Splits.lean):
            # difference (per-split variance) and ratio (which ignores the splits), on the same vectors
            for diff_ in (True, False):
                e_, v_ = aipw_calculator(y, a, q1, q0, g1, g0, difference=diff_, splits=splits)
                rep, _ = drv.ask('aipwsplits', c='f', difference=int(diff_), hasw=0, nan=fx(float('nan')),
                                 s=enc_list(sp, str), a=enc_list(a.astype(int), str), y=enc_list(y, fx),
                                 q1=enc_list(q1, fx), q0=enc_list(q0, fx), g1=enc_list(g1, fx), g0=enc_list(g0, fx))
                # float sums over n rows in another association order; the variance adds a mean over the splits
                chk.k(rep['status'] == 'ok' and close(unfx(rep['est']), float(e_), rtol=1e-10, atol=1e-12)
                      and close(unfx(rep['var']), float(v_), rtol=1e-9, atol=1e-15),
                      'aipw_calculator(splits=…) = definition generated from its source (estimate and variance)',
                      dict(c, difference=diff_, impl=[float(e_), float(v_)], model=rep))
        if splits is None:
            rr, lv = aipw_calculator(y, a, q1, q0, g1, g0, difference=False)
            judge_rr_ic(chk, 'aipw_calculator', float(lv), a, y, q1, q0, y1, y0, g1, g0, n, c)
            k_icrr(chk, drv, 'aipw_calculator', 'aipw', float(q1.mean()), float(q0.mean()), a * (y - qa) / g1,
                   (1 - a) * (y - qa) / g0, q1, q0, n, float(lv), c)
    # one split: the cross-fit TMLE risk-ratio code path on all rows (model mirrors the code: finding F15)
    one = np.zeros(n, dtype=int)
    est1, var1 = tmle_calculator(y, q1, q0, qa, h1, h0, h1 + h0, one, measure='risk_ratio')
    k_icrr(chk, drv, 'crossfit.tmle_calculator', 'xfit', float(q1.mean()), float(q0.mean()), h1 * (y - qa),
           -h0 * (y - qa), q1, q0, n, float(var1), case)


def stream_calculators_ic(chk, drv, rng, tier):
    """tmle_calculator / aipw_calculator (the cross-fit variance code) directly on random nuisance vectors"""
    from zepid.causal.doublyrobust.crossfit import tmle_calculator
    from zepid.causal.utils import aipw_calculator
    for i in range(6 if tier == 'quick' else 60):
        cell_ic(chk, drv, int(rng.integers(0, 2 ** 31)), i)


def msm_closed(a, y, w):
    out = {}
    for arm in (1, 0):
        m = a == arm
        W = w[m].sum()
        mu = (w[m] * y[m]).sum() / W
        out[arm] = (mu, ((w[m] * (y[m] - mu)) ** 2).sum() / W ** 2)
    return out


def cell_iptw(chk, drv, spec, weighted):
    from zepid.causal.ipw import IPTW
    ytype, missing = spec['ytype'], spec['missing']
    z95 = z_of(0.05)
    df = causal_frame(spec)
    if not weighted:
        df = df.drop(columns='wt')
    m = IPTW(df, treatment='A', outcome='Y', weights='wt' if weighted else None)
    m.treatment_model('L + V', print_results=False)
    if missing:
        m.missing_model('A + L', print_results=False)
    m.marginal_structural_model('A')
    with warnings.catch_warnings():
        warnings.simplefilter('ignore')
        m.fit()
    case = {'estimator': 'IPTW', 'ytype': ytype, 'missing_model': missing, 'weighted': weighted,
            'n': len(df), 'data_hash': hash(df.to_csv()), 'replay': rp('iptw', spec=spec, weighted=weighted)}
    chk.count('iptw:%s/%s/%s' % (ytype, 'miss' if missing else 'full', 'w' if weighted else 'nw'))
    tabs = [('average_treatment_effect', 'ATE', 'SE(ATE)', 'lin')] if ytype == 'continuous' else \
        [('risk_difference', 'RD', 'SE(RD)', 'lin'), ('risk_ratio', 'RR', 'SE(log(RR))', 'log'),
         ('odds_ratio', 'OR', 'SE(log(OR))', 'log')]
    # closed-form sandwich on the rows the MSM was fitted on
    d = m.df.copy()
    w = np.asarray(m.iptw, dtype=float)
    if m.ipmw is not None:
        w = w * np.asarray(m.ipmw, dtype=float)
    if weighted:
        w = w * np.asarray(d['wt'], dtype=float)
    keep = ~np.isnan(np.asarray(d['Y'], dtype=float)) & ~np.isnan(w)
    aa, yy, ww = (np.asarray(d['A'], dtype=float)[keep], np.asarray(d['Y'], dtype=float)[keep], w[keep])
    cf = msm_closed(aa, yy, ww)
    (m1, v1), (m0, v0) = cf[1], cf[0]
    want = {'RD': (m1 - m0, v1 + v0), 'ATE': (m1 - m0, v1 + v0),
            'RR': (m1 / m0, v1 / m1 ** 2 + v0 / m0 ** 2)}
    if ytype == 'binary':
        want['OR'] = ((m1 / (1 - m1)) / (m0 / (1 - m0)),
                      v1 / (m1 * (1 - m1)) ** 2 + v0 / (m0 * (1 - m0)) ** 2)
    hc = dict(case, history='treatment model L fitted first, then respecified and fitted twice')
    try:
        h = IPTW(df, treatment='A', outcome='Y', weights='wt' if weighted else None)
        h.treatment_model('L', print_results=False)
        if missing:
            h.missing_model('A', print_results=False)
        h.marginal_structural_model('A')
        with warnings.catch_warnings():
            warnings.simplefilter('ignore')
            h.fit()
            h.treatment_model('L + V', print_results=False)
            if missing:
                h.missing_model('A + L', print_results=False)
            h.fit()
            h.fit()
        got = {pc: tuple(float(getattr(h, attr).loc['A', k]) for k in (pc, sc, '95%LCL', '95%UCL'))
               for attr, pc, sc, scale in tabs}
    except Exception as e:      # noqa: BLE001
        got = {}
        hc['error'] = repr(e)
    history_check(chk, 'IPTW', got,
                  {pc: tuple(float(getattr(m, attr).loc['A', k]) for k in (pc, sc, '95%LCL', '95%UCL'))
                   for attr, pc, sc, scale in tabs}, hc)
    model = None
    if drv is not None:
        model, _ = drv.ask('msm', a=enc_list(aa, lambda v: '1' if v == 1 else '0'),
                           y=enc_list(yy, fx), w=enc_list(ww, fx))
    for attr, pc, sc, scale in tabs:
        tab = getattr(m, attr)
        for lab in tab.index:
            est, se, lcl, ucl = (float(tab.loc[lab, k]) for k in (pc, sc, '95%LCL', '95%UCL'))
            judge(chk, 'IPTW:%s[%s]' % (pc, lab), scale,
                  [{'alpha': 0.05, 'est': est, 'se': se, 'lcl': lcl, 'ucl': ucl}], case,
                  fixed_alpha=True)
            k_ci(chk, drv, 'IPTW.%s[%s]' % (pc, lab), scale, est, z95, se, lcl, ucl, case)
        est, se = float(tab.loc['A', pc]), float(tab.loc['A', sc])
        we, wv = want[pc]
        # 1e-6: GEE is iterative (its convergence tolerance), the closed form is exact
        chk.d(close(est, we, rtol=1e-6, atol=1e-9) and close(se ** 2, wv, rtol=1e-6, atol=1e-12),
              'IPTW %s: estimate and robust se^2 = weighted sandwich closed form (saturated MSM)' % pc,
              dict(case, measure=pc, got=[est, se ** 2], documented=[we, wv]),
              signature={'estimator': 'IPTW', 'measure': pc, 'clause': 'sandwich'})
        if model is not None:
            key = {'RD': ('rd', 'vrd'), 'ATE': ('rd', 'vrd'), 'RR': ('rr', 'vrr'), 'OR': ('or', 'vor')}[pc]
            ok = model['status'] == 'ok' and close(unfx(model[key[0]]), est, rtol=1e-6, atol=1e-9) and \
                close(unfx(model[key[1]]), se ** 2, rtol=1e-6, atol=1e-12)
            chk.k(ok, 'IPTW %s: model msm sandwich vs implementation' % pc, {'case': case,
                                                                            'model': model})


def stream_iptw(chk, drv, rng, tier):
    from zepid.causal.ipw import IPTW
    z95 = z_of(0.05)
    for rep in range(1 if tier == 'quick' else 5):
        for ytype in ('binary', 'continuous'):
            for missing in (False, True):
                for weighted in (False, True):
                    cell_iptw(chk, drv, new_spec(rng, int(rng.integers(150, 400)), ytype, missing), weighted)


def run(chk, drv, rng, tier):
    warnings.simplefilter('ignore')
    chk.extra['alpha_grid'] = GRID
    stream_quantile(chk, drv)
    stream_calculators(chk, drv, rng, tier)
    stream_dtypes(chk, rng, tier)
    stream_frames(chk, drv, rng, tier)
    stream_joint(chk, drv, rng, tier)
    stream_calculators_ic(chk, drv, rng, tier)
    stream_aiptw(chk, drv, rng, tier)
    stream_tmle(chk, drv, rng, tier)
    stream_stmle(chk, drv, rng, tier)
    stream_iptw(chk, drv, rng, tier)
    stream_crossfit(chk, drv, rng, tier)
    calc2.stream_c06(chk, drv, rng, tier)


calc2.JUDGE = judge
CELLS = {'calc': lambda chk, **k: cell_calc(chk, None, **k), 'dtype': lambda chk, **k: cell_dtype(chk, **k),
         'frame': lambda chk, **k: cell_frame(chk, None, **k), 'aiptw': lambda chk, **k: cell_aiptw(chk, None, **k),
         'tmle': lambda chk, **k: cell_tmle(chk, None, **k), 'stmle': lambda chk, **k: cell_stmle(chk, None, **k),
         'crossfit': lambda chk, **k: cell_crossfit(chk, None, **k), 'joint': lambda chk, **k: cell_joint(chk, None, **k),
         'ic': lambda chk, **k: cell_ic(chk, None, **k), 'iptw': lambda chk, **k: cell_iptw(chk, None, **k)}
CELLS.update({name: (lambda chk, _f=f, **k: _f(chk, None, **k)) for name, f in calc2.CELLS.items()})


def replay(rec):
    """re-execute: every stored failing case carries a replay descriptor (cell + arguments: function name and counts,
    the frame, or the data-set seed and configuration); the cell is run again on the implementation under test and the
    same predicates are evaluated.  Exit 1 iff a predicate fails again (known findings do not count)."""
    import json
    import common
    warnings.simplefilter('ignore')
    seen, rc = set(), 0
    for f in rec.get('failures', []):
        c = f.get('case') or {}
        d = c.get('replay') if isinstance(c, dict) else None
        if d is None:
            print('no replay descriptor stored for:', f.get('what'))
            continue
        key = json.dumps(d, sort_keys=True, default=str)
        if key in seen:
            continue
        seen.add(key)
        chk = common.Check('C06', 'replay', int(rec.get('seed', 0) or 0))
        with common.quiet():
            try:
                CELLS[d['cell']](chk, **d['kwargs'])
                err = None
            except Exception as e:      # noqa: BLE001
                err = repr(e)
        print('cell %s %s' % (d['cell'], {k: v for k, v in d['kwargs'].items() if k != 'frame'}))
        if err:
            print('   raised:', err)
            rc = 1
        print('   predicates evaluated: %d, failing: %d, known findings: %s'
              % (chk.d_cases, len(chk.d_fail), sorted(chk.known_hits)))
        for g in chk.d_fail[:6]:
            gc = g['case'] if isinstance(g['case'], dict) else {}
            print('   FAIL', g['what'])
            for k in ('record', 'want', 'got', 'documented', 'refit', 'fresh', 'plain', 'measure', 'p', 'alpha'):
                if k in gc:
                    print('        %s: %s' % (k, gc[k]))
        if chk.d_fail:
            rc = 1
    return rc
