"""Streams for the second batch of zepid/calc/utils.py (Gen/Calc2.lean: sensitivity, specificity, ppv_converter,
npv_converter, screening_cost_analyzer, rubins_rules, semibayes, counternull_pvalue, s_value, logit, inverse_logit)
and for the diagnostic classes of zepid/base.py (Gen/Diag.lean: Sensitivity, Specificity, Diagnostics).

Not a check of its own: `props/c06.py` runs `stream_c06` (gate K of every generated function against the Python it was
generated from, on a valid and a malformed stream that reaches every `raise`; gate D = the interval-coherence
predicates of C06 on the implementation's outputs), `props/c07.py` runs `stream_c07` (the data-frame classes against
the count functions on the cross-tabulation of the rows with test result and disease status observed).
Every case carries a replay descriptor (`cell` + JSON arguments); `CELLS` maps it back to the function."""
import contextlib
import io
import math
import re
import warnings
from fractions import Fraction

import numpy as np
import pandas as pd
from scipy.stats import norm

from common import fx, unfx, enc_list, dec_list, close

JUDGE = None          # props/c06.py installs its `judge` (the C06 predicate on a list of per-alpha records) here

GRID = sorted(set([round(float(x), 4) for x in np.linspace(0.02, 0.98, 13)] + [1e-6, 0.001, 0.01, 0.049999, 0.05,
                                                                                0.050001, 0.1, 0.999]))


def z_of(alpha):
    return float(norm.ppf(1 - alpha / 2, loc=0, scale=1))


def rp(cell, **kwargs):
    return {'cell': cell, 'kwargs': kwargs}


def call(f, *a, **k):
    """-> ('ok', value, printed text) | ('err', exception class name, '')   (prints and warnings are captured)"""
    buf = io.StringIO()
    with warnings.catch_warnings():
        warnings.simplefilter('ignore')
        with contextlib.redirect_stdout(buf), np.errstate(all='ignore'):
            try:
                v = f(*a, **k)
            except ValueError:
                return ('err', 'ValueError', '')
            except ZeroDivisionError:
                return ('err', 'ZeroDivisionError', '')
    return ('ok', v, buf.getvalue())


def cu():
    import zepid.calc.utils as m
    return m


def k_value(chk, what, rep, line, res, want, case, rtol=1e-11, atol=1e-14):
    """K for a function returning numbers.  `want`: {reply key: python value}.  A ZeroDivisionError of Python float
    arithmetic corresponds to a non-finite quotient of the IEEE model (the model has no exceptions inside arithmetic)."""
    if res[0] == 'err' and res[1] == 'ZeroDivisionError' and rep['status'] == 'ok':
        ok = any(not math.isfinite(unfx(v)) for k, v in rep.items() if k != 'status' and re.fullmatch(r'x[0-9a-f]{16}', v))
    elif res[0] == 'err':
        ok = rep['status'] == 'err'
    else:
        ok = rep['status'] == 'ok' and all(close(unfx(rep[k]), v, rtol=rtol, atol=atol) for k, v in want.items())
    chk.k(ok, what, {'case': case, 'model': rep, 'line': line})


# ----------------------------------------------------------------------------- sensitivity / specificity (validation)
def cell_sens(chk, drv, fn, args, confint, alpha):
    """one call of sensitivity / specificity, valid or malformed: the generated function raises iff the code does and
    returns what the code returns"""
    res = call(getattr(cu(), fn), *args, alpha=alpha, confint=confint)
    bad = args[0] <= 0 or args[1] <= 0 or args[0] > args[1] or confint not in ('wald', 'hypergeometric')
    case = {'fn': fn, 'args': list(args), 'confint': confint, 'alpha': alpha, 'impl': str(res[:2]),
            'replay': rp('sens', fn=fn, args=list(args), confint=confint, alpha=alpha)}
    chk.case(case, (fn, tuple(args), confint, alpha), sample=case if chk.evals % 53 == 0 else None)
    chk.count('calc2:%s:%s' % (fn, 'malformed' if bad else 'valid'))
    if drv is not None:
        rep, line = drv.ask('calc2', fn=fn, a=fx(args[0]), b=fx(args[1]), alpha=fx(alpha), confint=confint,
                            px=fx(1 - alpha / 2), pz=fx(z_of(alpha)))
        want = dict(zip(('point', 'lower', 'upper', 'se'), (float(x) for x in res[1]))) if res[0] == 'ok' else \
            {'point': 0.0}
        k_value(chk, 'generated %s vs implementation' % fn, rep, line, res, want, case)
    if res[0] == 'ok':
        # D (C06 on the documented relation to risk_ci): same counts -> same estimate, se, limits
        ev = args[0] if fn == 'sensitivity' else args[1] - args[0]
        r = cu().risk_ci(ev, args[1], alpha=alpha, confint=confint)
        got = [float(x) for x in res[1]]
        chk.d(all(close(g, float(w), rtol=1e-12, atol=1e-15) for g, w in zip(got, r[:4])),
              '%s = risk_ci on the same counts (estimate, limits, se)' % fn, dict(case, risk_ci=[float(x) for x in r[:4]]))


# ----------------------------------------------------------------------------- ppv / npv
def cell_conv(chk, drv, fn, args):
    res = call(getattr(cu(), fn), *args)
    bad = any(x > 1 or x < 0 for x in args)
    case = {'fn': fn, 'args': list(args), 'impl': str(res[:2]), 'replay': rp('conv', fn=fn, args=list(args))}
    chk.case(case, (fn, tuple(args)), sample=case if chk.evals % 53 == 0 else None)
    chk.count('calc2:%s:%s' % (fn, 'malformed' if bad else 'valid'))
    if drv is not None:
        rep, line = drv.ask('calc2', fn=fn, a=fx(args[0]), b=fx(args[1]), c=fx(args[2]))
        k_value(chk, 'generated %s vs implementation' % fn, rep, line, res,
                {'value': float(res[1]) if res[0] == 'ok' else 0.0}, case)
    if res[0] == 'ok' and not bad:
        se, sp, p = (Fraction(float(x)) for x in args)
        num, oth = (se * p, (1 - sp) * (1 - p)) if fn == 'ppv_converter' else (sp * (1 - p), (1 - se) * p)
        v = float(res[1])
        if num + oth != 0:          # 0/0: the documented value is undefined (the unchanged code raises ZeroDivisionError)
            chk.d(close(v, float(num / (num + oth)), rtol=1e-12, atol=1e-300), '%s = Bayes\' rule' % fn, case)
        chk.d(0.0 <= v <= 1.0, '%s lies in [0, 1] for inputs in [0, 1]' % fn, case)


# ----------------------------------------------------------------------------- logit / inverse_logit / s_value
def cell_scalar(chk, drv, fn, x):
    res = call(getattr(cu(), fn), x)
    case = {'fn': fn, 'x': x, 'impl': str(res[:2]), 'replay': rp('scalar', fn=fn, x=x)}
    chk.case(case, (fn, x))
    chk.count('calc2:' + fn)
    if drv is not None:
        rep, line = drv.ask('calc2', fn=fn, a=fx(x))
        k_value(chk, 'generated %s vs implementation' % fn, rep, line, res,
                {'value': float(res[1]) if res[0] == 'ok' else 0.0}, case, rtol=1e-12)
    if res[0] != 'ok':
        return
    v = float(res[1])
    if fn == 'logit' and 0 < x < 1:
        back = float(cu().inverse_logit(v))
        chk.d(close(back, x, rtol=1e-12, atol=1e-15), 'inverse_logit(logit(p)) = p', dict(case, back=back))
    if fn == 'inverse_logit':
        if 1e-12 < v < 1 - 1e-4:          # 1 - q keeps full relative accuracy only away from 1
            back = float(cu().logit(v))
            chk.d(close(back, x, rtol=1e-9, atol=1e-11), 'logit(inverse_logit(y)) = y', dict(case, back=back))
        chk.d(0.0 <= v <= 1.0, 'inverse_logit lies in [0, 1]', case)
    if fn == 's_value' and x > 0:
        chk.d(close(v, -math.log2(x), rtol=1e-13, atol=1e-15), 's_value(p) = -log2(p)', case)


# ----------------------------------------------------------------------------- screening_cost_analyzer (prints)
NUM = r'([-+]?(?:\d+\.?\d*(?:[eE][-+]?\d+)?|inf|nan))'
MSGS = ('Screening program is more costly than treating everyone as a test-negative',
        'Screening program is cost efficient', 'Treating everyone as test-positive is least costly')


def parse_screening(text):
    vals = [float(v) for v in re.findall(r'relative cost:\s+' + NUM, text)]
    return vals, [m in text for m in MSGS]


def cell_screening(chk, drv, args):
    """args = (cost_miss_case, cost_false_pos, prevalence, sensitivity, specificity, population)"""
    f = cu().screening_cost_analyzer
    res = call(f, args[0], args[1], args[2], args[3], args[4], population=args[5], decimal=12)
    bad = args[3] > 1 or args[4] > 1
    case = {'args': list(args), 'impl': str(res[:2]), 'replay': rp('screening', args=list(args))}
    chk.case(case, ('screening', tuple(args)), sample=case if chk.evals % 53 == 0 else None)
    chk.count('calc2:screening:%s' % ('malformed' if bad else 'valid'))
    vals, flags = parse_screening(res[2]) if res[0] == 'ok' else ([], [])
    if drv is not None:
        rep, line = drv.ask('calc2', fn='screening_cost_analyzer', **{k: fx(v) for k, v in zip('abcdef', args)})
        if res[0] == 'err':
            ok = rep['status'] == 'err'
        else:
            mv = dec_list(rep.get('vals', '[]'), unfx) if rep['status'] == 'ok' else []
            mf = dec_list(rep.get('flags', '[]'), lambda t: t == '1') if rep['status'] == 'ok' else []
            # printed values are round(x, 12): half a unit of the 12th decimal plus the usual relative slack
            ok = rep['status'] == 'ok' and len(mv) == len(vals) == 6 and mf == flags and \
                all(close(a, b, rtol=1e-11, atol=6e-13) for a, b in zip(mv, vals))
        chk.k(ok, 'generated screening_cost_analyzer vs what the implementation prints',
              {'case': case, 'printed': vals, 'messages': flags, 'model': rep, 'line': line})
    if res[0] == 'ok' and len(vals) == 6:
        cm, cf, p, se, sp, pop = (Fraction(float(x)) for x in args)
        want = [float(p * cm), float((1 - p) * cf), float(cm * p * (1 - se) + cf * (1 - p) * (1 - sp))]
        chk.d(all(close(g, w, rtol=1e-9, atol=2e-12) for g, w in zip(vals[1::2], want)),
              'screening_cost_analyzer: per-capita costs = P*c_miss, (1-P)*c_fp, c_miss*P*(1-Se) + c_fp*(1-P)*(1-Sp) '
              '(do not depend on the population size)', dict(case, printed=vals, want=want))


# ----------------------------------------------------------------------------- rubins_rules
def cell_rubins(chk, drv, pts, ses):
    res = call(cu().rubins_rules, list(pts), list(ses))
    bad = len(pts) != len(ses) or len(ses) < 2
    case = {'pts': list(pts), 'ses': list(ses), 'impl': str(res[:2]), 'replay': rp('rubins', pts=list(pts), ses=list(ses))}
    chk.case(case, ('rubins', tuple(pts), tuple(ses)), sample=case if chk.evals % 29 == 0 else None)
    chk.count('calc2:rubins:%s' % ('malformed' if bad else 'valid'))
    if drv is not None:
        rep, line = drv.ask('calc2', fn='rubins_rules', pts=enc_list(pts, fx), ses=enc_list(ses, fx))
        want = {'est': float(res[1][0]), 'se': float(res[1][1])} if res[0] == 'ok' else {'est': 0.0}
        k_value(chk, 'generated rubins_rules vs implementation', rep, line, res, want, case)
    chk.d((res[0] == 'err') == bad, 'rubins_rules raises iff the lists differ in length or there are fewer than two '
          'imputations', case)
    if res[0] == 'ok':
        m = len(ses)
        P, S = [Fraction(float(x)) for x in pts], [Fraction(float(x)) for x in ses]
        beta = sum(P) / m
        W = sum(s * s for s in S) / m
        B = sum((x - beta) ** 2 for x in P) / (m - 1)
        T = W + (1 + Fraction(1, m)) * B
        est, se = float(res[1][0]), float(res[1][1])
        scale = max(abs(float(x)) for x in pts)
        chk.d(close(est, float(beta), rtol=1e-12, atol=1e-15 * max(1.0, scale)), 'rubins_rules: pooled estimate = mean of the estimates',
              dict(case, want=float(beta)))
        # the squared deviations are formed in floating point from estimates of size `scale`: absolute error ~ eps*scale^2
        chk.d(close(se * se, float(T), rtol=1e-10, atol=1e-13 * max(1.0, scale * scale)),
              'rubins_rules: se^2 = within + (1 + 1/m) * between', dict(case, want_var=float(T), got_var=se * se))
        chk.d(se * se >= float(W) * (1 - 1e-12), 'rubins_rules: total variance >= within-imputation variance', case)


# ----------------------------------------------------------------------------- semibayes
def cell_semibayes(chk, drv, m0, s0, m, s, ln):
    """prior (m0, s0) and data (m, s) on the analysis scale (log scale when ln); for every alpha of the grid the limits
    handed to semibayes are built at that alpha, as its docstring requires"""
    f = cu().semibayes
    pv = 1 / (1 / s0 ** 2 + 1 / s ** 2)
    pm = (m0 / s0 ** 2 + m / s ** 2) * pv
    sd = math.sqrt(pv)
    case = {'m0': m0, 's0': s0, 'm': m, 's': s, 'ln': ln, 'data_hash': hash((m0, s0, m, s, ln)),
            'documented': {'post_mean': pm, 'post_sd': sd},
            'replay': rp('semibayes', m0=m0, s0=s0, m=m, s=s, ln=ln)}
    who = 'calc.semibayes:' + ('log' if ln else 'lin')
    tr = math.exp if ln else (lambda v: v)
    recs = []
    scale = abs(m0) + abs(m) + s0 + s
    for alpha in GRID:
        z = z_of(alpha)
        ins = [tr(m0), tr(m0 - z * s0), tr(m0 + z * s0), tr(m), tr(m - z * s), tr(m + z * s)]
        res = call(f, *ins, ln_transform=ln, alpha=alpha, print_results=False)
        c = dict(case, alpha=alpha, inputs=ins, impl=str(res[:2]))
        chk.case(c, ('semibayes', m0, s0, m, s, ln, alpha), sample=c if chk.evals % 101 == 0 else None)
        if drv is not None:
            rep, line = drv.ask('calc2', fn='semibayes', m0=fx(ins[0]), pl=fx(ins[1]), pu=fx(ins[2]), m=fx(ins[3]),
                                l=fx(ins[4]), u=fx(ins[5]), ln='1' if ln else '0', alpha=fx(alpha), px=fx(1 - alpha / 2),
                                pz=fx(z))
            want = dict(zip(('point', 'lower', 'upper'), (float(x) for x in res[1]))) if res[0] == 'ok' else {'point': 0.0}
            k_value(chk, 'generated semibayes vs implementation', rep, line, res, want, c)
        if res[0] != 'ok':
            chk.d(False, 'semibayes accepts limits built at its own alpha', c)
            continue
        est, lo, hi = (float(x) for x in res[1])
        le, ll, lh = ((math.log(est), math.log(lo), math.log(hi)) if ln else (est, lo, hi))
        # the standard errors are recovered as (ucl - lcl)/(2z): cancellation of size eps*|m|/(z*s) relative
        tol = 1e-9 * scale + 1e-13 * scale / max(z * min(s0, s), 1e-300)
        chk.d(abs(le - pm) <= tol, '%s: posterior mean = precision-weighted mean of prior mean and estimate' % who,
              dict(c, got=le, want=pm))
        chk.d(min(m0, m) - tol <= le <= max(m0, m) + tol, '%s: posterior mean lies between prior mean and estimate' % who, c)
        chk.d(abs(ll - (le - z * sd)) <= tol and abs(lh - (le + z * sd)) <= tol,
              '%s: limits = posterior mean -/+ norm.ppf(1-alpha/2) * sqrt(1/(1/var_prior + 1/var)) on the %s scale'
              % (who, 'log' if ln else 'linear'), dict(c, got=[ll, lh], want=[le - z * sd, le + z * sd]))
        chk.d(lo <= est <= hi, '%s: interval contains the posterior estimate' % who, c)
        recs.append({'alpha': alpha, 'est': le, 'lo': ll, 'hi': lh, 'tol': tol})
    chk.count(who)
    for r, t in zip(recs, recs[1:]):          # alpha_r < alpha_t
        tol = max(r['tol'], t['tol'])
        chk.d(abs(r['est'] - t['est']) <= tol, '%s: posterior estimate does not depend on alpha' % who,
              dict(case, first=r, other=t))
        chk.d(r['lo'] <= t['lo'] + tol and t['hi'] <= r['hi'] + tol, '%s: intervals are nested in alpha' % who,
              dict(case, wider_alpha=r, narrower_alpha=t))


# ----------------------------------------------------------------------------- counternull_pvalue (prints)
def parse_counternull(text):
    a = re.search(r'Alpha =\s+' + NUM, text)
    c = re.search(r'Counternull estimate =\s+' + NUM, text)
    p = re.search(r'counternull p-value:\s+' + NUM, text)
    return [float(x.group(1)) if x else float('nan') for x in (a, c, p)]


def cell_counternull(chk, drv, est, se, sided):
    f = cu().counternull_pvalue
    case = {'est': est, 'se': se, 'sided': sided, 'replay': rp('counternull', est=est, se=se, sided=sided)}
    ps = []
    for alpha in (0.01, 0.05, 0.2, 0.5, 0.9):
        z = z_of(alpha)
        lcl, ucl = est - z * se, est + z * se
        res = call(f, est, lcl, ucl, sided=sided, alpha=alpha, decimal=12)
        c = dict(case, alpha=alpha, limits=[lcl, ucl], impl=str(res[:2]))
        chk.case(c, ('counternull', est, se, sided, alpha), sample=c if chk.evals % 101 == 0 else None)
        vals = parse_counternull(res[2]) if res[0] == 'ok' else []
        if drv is not None:
            # the two points the code asks norm.cdf for, computed as the code computes them
            se_c = (ucl - lcl) / (z * 2)
            cn = 2 * est
            tab = [cn, est, se_c, float(norm.cdf(x=cn, loc=est, scale=se_c)),
                   est, cn, se_c, float(norm.cdf(x=est, loc=cn, scale=se_c))]
            rep, line = drv.ask('calc2', fn='counternull_pvalue', e=fx(est), l=fx(lcl), u=fx(ucl), sided=sided,
                                alpha=fx(alpha), px=fx(1 - alpha / 2), pz=fx(z), cdf=enc_list(tab, fx))
            mv = dec_list(rep.get('vals', '[]'), unfx) if rep['status'] == 'ok' else []
            ok = res[0] == 'ok' and rep['status'] == 'ok' and len(mv) == 3 and \
                all(close(a, b, rtol=1e-11, atol=6e-13) for a, b in zip(mv, vals))
            chk.k(ok, 'generated counternull_pvalue vs what the implementation prints',
                  {'case': c, 'printed': vals, 'model': rep, 'line': line})
        if res[0] != 'ok':
            chk.d(False, 'counternull_pvalue accepts limits built at its own alpha', c)
            continue
        chk.d(close(vals[1], 2 * est, rtol=1e-12, atol=1e-15), 'counternull value = 2 * estimate', dict(c, printed=vals))
        chk.d(0.0 <= vals[2] <= 1.0 + 1e-12, 'counternull p-value lies in [0, 1]', dict(c, printed=vals))
        # documented: the p-value of the counternull 2*estimate under a normal centred at the estimate with the
        # standard error the limits were built from (Rosenthal & Rubin): Phi(est/se) and its complement
        up = float(norm.cdf(est / se))
        doc = {'upper': up, 'lower': 1 - up}.get(sided, 2 * min(up, 1 - up))
        chk.d(abs(vals[2] - doc) <= 1e-9, 'counternull p-value = documented function of estimate and the standard error '
              'behind the limits', dict(c, printed=vals, want=doc))
        ps.append((alpha, vals[2]))
    chk.count('calc2:counternull')
    for (a1, p1), (a2, p2) in zip(ps, ps[1:]):
        # limits built as est -/+ z(alpha)*se: the standard error recovered with the 1-alpha/2 quantile is se at every
        # alpha, so the p-value cannot depend on alpha (a one-sided quantile or alpha in place of alpha/2 would)
        chk.d(abs(p1 - p2) <= 1e-9, 'counternull p-value does not depend on the alpha the limits were built at',
              dict(case, alphas=[a1, a2], p=[p1, p2]))


# ----------------------------------------------------------------------------- interaction_contrast_ratio (delta method)
GRID_ICR = [0.001, 0.049999, 0.05, 0.050001, 0.2, 0.5, 0.9]


def cell_icr(chk, drv, data_seed, n):
    """ICR with the delta-method interval on a simulated data set (binary exposure A, modifier M, outcome Y, logistic
    model).  The reference fit is made by the harness itself with the documented design (exposure among the unmodified,
    modifier among the unexposed, both): its coefficients and covariance feed the generated definition (K) and give the
    standard error for the C06 predicates (D)."""
    import statsmodels.api as sm
    import statsmodels.formula.api as smf
    import zepid
    r = np.random.default_rng(data_seed)
    a = r.binomial(1, 0.5, size=n)
    m = r.binomial(1, 0.45, size=n)
    y = r.binomial(1, 1 / (1 + np.exp(-(-1.2 + 0.5 * a + 0.4 * m + 0.5 * a * m))))
    df = pd.DataFrame({'A': a, 'M': m, 'Y': y})
    ref = df.copy()
    ref['_A'] = np.where(ref['M'] == 0, ref['A'], 0)
    ref['_M'] = np.where(ref['A'] == 0, ref['M'], 0)
    with warnings.catch_warnings():
        warnings.simplefilter('ignore')
        fit = smf.glm('Y ~ _A + _M + A:M', ref, family=sm.families.family.Binomial()).fit()
    names = ['_A', '_M', 'A:M']
    b = [float(fit.params[k]) for k in names]
    cov = fit.cov_params()
    v = [float(cov.loc[i][j]) for i, j in (('_A', '_A'), ('_M', '_M'), ('A:M', 'A:M'), ('_A', '_M'), ('_A', 'A:M'),
                                           ('_M', 'A:M'))]
    chk.h_checked += 1
    if not (fit.converged and all(math.isfinite(x) for x in b + v)):
        chk.discard('reference GLM for the interaction contrast ratio did not converge')
        return
    e10, e01, e11 = (math.exp(x) for x in b)
    var = e10 ** 2 * v[0] + e01 ** 2 * v[1] + e11 ** 2 * v[2] + 2 * e10 * e01 * v[3] - 2 * e10 * e11 * v[4] \
        - 2 * e01 * e11 * v[5]
    case = {'data_seed': data_seed, 'n': n, 'data_hash': hash((data_seed, n)), 'reference': {'coef': b, 'cov': v},
            'replay': rp('icr', data_seed=data_seed, n=n)}
    recs = []
    for alpha in GRID_ICR:
        res = call(zepid.interaction_contrast_ratio, df, exposure='A', outcome='Y', modifier='M', regression='logit',
                   ci='delta', alpha=alpha, print_results=False)
        c = dict(case, alpha=alpha, impl=str(res[:2]))
        chk.case(c, ('icr', data_seed, n, alpha), sample=c if chk.evals % 37 == 0 else None)
        if res[0] != 'ok':
            chk.d(False, 'interaction_contrast_ratio runs on a data set its reference model fits', c)
            continue
        icr, lo, hi = (float(x) for x in res[1])
        if drv is not None:
            rep, line = drv.ask('icr', b=enc_list(b, fx), v=enc_list(v, fx), alpha=fx(alpha), px=fx(1 - alpha / 2),
                                pz=fx(z_of(alpha)))
            # the function refits the same GLM: its coefficients equal the reference's to solver precision
            ok = rep['status'] == 'ok' and all(close(unfx(rep[k]), w, rtol=1e-8, atol=1e-10)
                                              for k, w in zip(('point', 'lower', 'upper'), (icr, lo, hi)))
            chk.k(ok, 'generated interaction_contrast_ratio (delta) vs implementation', {'case': c, 'model': rep, 'line': line})
        chk.d(close(icr, e11 - e10 - e01 + 1, rtol=1e-8, atol=1e-10), 'ICR = RR11 - RR10 - RR01 + 1 of the documented model',
              dict(c, got=icr, want=e11 - e10 - e01 + 1))
        chk.d(var >= 0 and close((hi - lo) / 2, z_of(alpha) * math.sqrt(max(var, 0.0)), rtol=1e-7, atol=1e-10),
              'ICR half-width = norm.ppf(1-alpha/2) * delta-method standard error', dict(c, got=(hi - lo) / 2,
                                                                                        want=z_of(alpha) * math.sqrt(max(var, 0.0))))
        # the se for the interval predicates is the one implied by the function's own first interval (it reports none)
        recs.append({'alpha': alpha, 'est': icr, 'se': math.sqrt(max(var, 0.0)), 'lcl': lo, 'ucl': hi})
    chk.count('icr:delta')
    # limits = estimate -/+ z*se with the reference se (1e-10 would be tighter than the two GLM fits agree): own tolerance
    for r_ in recs:
        z = z_of(r_['alpha'])
        tol = 1e-7 * (abs(r_['est']) + z * r_['se'])
        chk.d(abs(r_['lcl'] - (r_['est'] - z * r_['se'])) <= tol and abs(r_['ucl'] - (r_['est'] + z * r_['se'])) <= tol,
              'interaction_contrast_ratio: limits = estimate -/+ norm.ppf(1-alpha/2)*se on the linear scale', dict(case, record=r_))
        chk.d(r_['lcl'] <= r_['est'] <= r_['ucl'], 'interaction_contrast_ratio: interval contains the estimate',
              dict(case, record=r_))
    for r_, t_ in zip(recs, recs[1:]):
        chk.d(close(r_['est'], t_['est'], rtol=1e-12, atol=0), 'interaction_contrast_ratio: estimate does not depend on alpha',
              dict(case, first=r_, other=t_))
        chk.d(r_['lcl'] <= t_['lcl'] + 1e-12 and t_['ucl'] <= r_['ucl'] + 1e-12,
              'interaction_contrast_ratio: intervals are nested in alpha', dict(case, wider_alpha=r_, narrower_alpha=t_))


# ----------------------------------------------------------------------------- diagnostic classes
DIAG = {'Sensitivity': ('Se', [('se_', 'Sensitivity', 'SD(Se)', 'Se_LCL', 'Se_UCL')]),
        'Specificity': ('Sp', [('sp_', 'Specificity', 'SD(Sp)', 'Sp_LCL', 'Sp_UCL')]),
        'Diagnostics': ('Diag', [('se_', 'Sensitivity', 'SD(Se)', 'Se_LCL', 'Se_UCL'),
                                 ('sp_', 'Specificity', 'SD(Sp)', 'Sp_LCL', 'Sp_UCL')])}


def frame_of(frame):
    return pd.DataFrame({k: [np.nan if x is None else x for x in v] for k, v in frame.items()})


def fit_diag(cls, df, alpha):
    """-> ('ok', {prefix: (point, lower, upper, se)}) | ('err', kind)"""
    import zepid
    obj = getattr(zepid, cls)(alpha=alpha)
    res = call(obj.fit, df, test='test', disease='dis')
    if res[0] != 'ok':
        return res[:2]
    out = {}
    for pre, pc, sc, lc, uc in DIAG[cls][1]:
        tab = obj.results if cls != 'Diagnostics' else (obj.sensitivity.results if pre == 'se_' else obj.specificity.results)
        out[pre] = tuple(float(tab[k].iloc[0]) for k in (pc, lc, uc, sc))
    return ('ok', out)


def cell_diag(chk, drv, frame, alpha):
    """C07: each class returns exactly what the count function returns on the cross-tabulation of the rows with test
    result and disease status observed; K: the generated `fit` vs the class"""
    df = frame_of(frame)
    z = z_of(alpha)
    cc = df.dropna(subset=['test', 'dis'])

    def cnt(t, d):
        return int(((cc['test'] == t) & (cc['dis'] == d)).sum())
    a, b, c, d = cnt(1, 1), cnt(1, 0), cnt(0, 1), cnt(0, 0)
    nmiss = int(df[['test', 'dis']].isna().any(axis=1).sum())
    expect = {'se_': call(cu().sensitivity, a, a + b, alpha=alpha), 'sp_': call(cu().specificity, c, c + d, alpha=alpha)}
    for cls, (tag, parts) in DIAG.items():
        res = fit_diag(cls, df, alpha)
        case = {'cls': cls, 'alpha': alpha, 'n': len(df), 'missing_rows': nmiss, 'table': [a, b, c, d],
                'impl': str(res), 'replay': rp('diag', frame=frame, alpha=alpha)}
        chk.case(case, (cls, alpha, hash(df.to_csv())) if nmiss else None,
                 sample={k: v for k, v in case.items() if k != 'replay'} if chk.evals % 31 == 0 else None)
        chk.count('frame_' + cls)
        want_err = any(expect[p[0]][0] == 'err' for p in parts)
        chk.d((res[0] == 'err') == want_err, '%s.fit raises iff the count function rejects the cross-tabulation' % cls, case)
        if res[0] == 'ok' and not want_err:
            ok = all(close(g, float(w), rtol=1e-12, atol=1e-15) for p in parts
                     for g, w in zip(res[1][p[0]], expect[p[0]][1]))
            chk.d(ok, '%s results = count function on the complete-row cross-tabulation' % cls,
                  dict(case, want={p[0]: [float(x) for x in expect[p[0]][1]] for p in parts}))
        if drv is not None:
            rep, line = drv.ask('diag', cls=tag, alpha=fx(alpha), px=fx(1 - alpha / 2), pz=fx(z),
                                e=enc_opt(df['test'].tolist()), d=enc_opt(df['dis'].tolist()))
            if res[0] == 'err':
                ok = rep['status'] == 'err'
            else:
                ok = rep['status'] == 'ok' and all(
                    close(unfx(rep[p[0] + k]), v, rtol=1e-11, atol=1e-14)
                    for p in parts for k, v in zip(('point', 'lower', 'upper', 'se'), res[1][p[0]]))
            chk.k(ok, 'generated %s.fit vs implementation' % cls, {'case': case, 'model': rep, 'line': line})


def enc_opt(xs):
    return ','.join('_' if (x is None or (isinstance(x, float) and math.isnan(x))) else str(int(x)) for x in xs) or '[]'


def cell_diag_ci(chk, drv, frame):
    """C06 on the classes' result tables across the alpha grid"""
    df = frame_of(frame)
    store = {}
    for alpha in GRID:
        for cls, (tag, parts) in DIAG.items():
            res = fit_diag(cls, df, alpha)
            if res[0] != 'ok':
                chk.discard('generated diagnostic frame has an empty cell (count function rejects it: C07)')
                return
            for p in parts:
                pt, lo, hi, se = res[1][p[0]]
                store.setdefault((cls, p[1]), []).append({'alpha': alpha, 'est': pt, 'se': se, 'lcl': lo, 'ucl': hi})
    chk.count('frame:diagnostic')
    for (cls, col), recs in sorted(store.items()):
        JUDGE(chk, 'frame.%s:%s' % (cls, col), 'lin', recs,
              {'cls': cls, 'n': len(df), 'data_hash': hash(df.to_csv()), 'replay': rp('diag_ci', frame=frame)})


def gen_diag_frame(rng, small=False):
    n = int(rng.integers(8, 25)) if small else int(rng.integers(40, 160))
    test = (rng.uniform(size=n) < rng.uniform(0.25, 0.75)).astype(float)
    dis = (rng.uniform(size=n) < np.where(test == 1, rng.uniform(0.3, 0.9), rng.uniform(0.1, 0.6))).astype(float)
    kind = int(rng.integers(0, 6))
    if kind == 0 and small:            # an empty cell: the count function must reject
        dis[test == int(rng.integers(0, 2))] = float(rng.integers(0, 2))
    pm = float(rng.choice([0.0, 0.1, 0.3]))
    for arr in (test, dis):
        arr[rng.uniform(size=n) < pm * rng.uniform()] = np.nan
    both = rng.uniform(size=n) < pm / 4
    test[both] = np.nan
    dis[both] = np.nan
    return {'test': [None if math.isnan(x) else float(x) for x in test],
            'dis': [None if math.isnan(x) else float(x) for x in dis]}


# ----------------------------------------------------------------------------- streams
def stream_c06(chk, drv, rng, tier):
    quick = tier == 'quick'
    # sensitivity / specificity: valid stream, every raise
    for _ in range(6 if quick else 60):
        a, b = int(rng.integers(1, 400)), int(rng.integers(1, 400))
        alpha = float(rng.choice([0.05, 0.2, 0.01, 0.5]))
        for fn in ('sensitivity', 'specificity'):
            for ci in ('wald', 'hypergeometric'):
                cell_sens(chk, drv, fn, (a, a + b), ci, alpha)
            cell_sens(chk, drv, fn, (a, a), 'wald', alpha)                     # detected = cases: accepted, se = 0
    for fn in ('sensitivity', 'specificity'):
        for args, ci in (((0, 10), 'wald'), ((-2, 10), 'wald'), ((3, 0), 'wald'), ((3, -4), 'hypergeometric'),
                         ((0, 0), 'wald'), ((11, 10), 'wald'), ((10.5, 10), 'hypergeometric'), ((4, 10), 'exact'),
                         ((4, 10), ''), ((11, 10), 'exact'), ((-1, -2), 'exact'), ((1, 1), 'hypergeometric')):
            cell_sens(chk, drv, fn, args, ci, 0.05)
    # ppv / npv
    edge = [0.0, 1.0, 0.5]
    for fn in ('ppv_converter', 'npv_converter'):
        for _ in range(25 if quick else 300):
            cell_conv(chk, drv, fn, tuple(float(x) for x in np.round(rng.uniform(0, 1, size=3), 6)))
        for x in edge:
            for y in edge:
                for w in edge:
                    cell_conv(chk, drv, fn, (x, y, w))
        for pos in range(3):
            for badv in (1.0000001, 1.5, -1e-9, -0.3, 7.0):
                args = [0.9, 0.88, 0.15]
                args[pos] = badv
                cell_conv(chk, drv, fn, tuple(args))
        cell_conv(chk, drv, fn, (1.2, -0.1, 0.5))
    # logit / inverse_logit / s_value
    for _ in range(25 if quick else 300):
        p = float(rng.uniform(1e-6, 1 - 1e-6))
        y = float(rng.uniform(-30, 30))
        cell_scalar(chk, drv, 'logit', p)
        cell_scalar(chk, drv, 'inverse_logit', y)
        cell_scalar(chk, drv, 's_value', p)
    for x in (0.5, 0.05, 1.0, 1e-300):
        cell_scalar(chk, drv, 's_value', x)
    for x in (0.5, 0.0, 1e-300):
        cell_scalar(chk, drv, 'logit', x)
    for x in (0.0, 745.0, -745.0, 1e4, -1e4):
        cell_scalar(chk, drv, 'inverse_logit', x)
    # screening_cost_analyzer
    for _ in range(15 if quick else 150):
        args = (float(np.round(rng.uniform(0.5, 5), 3)), float(np.round(rng.uniform(0.5, 5), 3)),
                float(np.round(rng.uniform(0.01, 0.6), 4)), float(np.round(rng.uniform(0.3, 1), 4)),
                float(np.round(rng.uniform(0.3, 1), 4)), float(rng.choice([100, 10000, 2500000])))
        cell_screening(chk, drv, args)
    for args in ((1, 3, 0.15, 0.9, 0.88, 10000), (1, 3, 0.15, 1.01, 0.88, 10000), (1, 3, 0.15, 0.9, 1.5, 10000),
                 (1, 3, 0.15, 2.0, 2.0, 10000), (1, 3, 1.4, 0.9, 0.88, 10000), (1, 3, 0.15, -0.2, 0.88, 10000)):
        cell_screening(chk, drv, tuple(float(x) for x in args))
    # rubins_rules
    for _ in range(15 if quick else 150):
        m = int(rng.integers(2, 9))
        centre = float(rng.choice([0.0, -0.4, 2.5, 40.0]))
        pts = [float(x) for x in np.round(centre + rng.normal(0, 0.3, size=m), 6)]
        ses = [float(x) for x in np.round(rng.uniform(0.05, 0.6, size=m), 6)]
        cell_rubins(chk, drv, pts, ses)
    for pts, ses in (([0.1, 0.2], [0.3]), ([0.1], [0.3, 0.2]), ([0.1], [0.3]), ([], []), ([], [0.1]), ([0.5, 0.5], [0.2, 0.2]),
                     ([0.1, 0.2, 0.3], [0.0, 0.0, 0.0])):
        cell_rubins(chk, drv, pts, ses)
    # semibayes (linear and log scale)
    for _ in range(4 if quick else 40):
        m0, m = float(np.round(rng.normal(0, 0.5), 4)), float(np.round(rng.normal(0, 0.5), 4))
        s0, s = float(np.round(rng.uniform(0.05, 0.8), 4)), float(np.round(rng.uniform(0.05, 0.8), 4))
        for ln in (False, True):
            cell_semibayes(chk, drv, m0, s0, m, s, ln)
    # counternull_pvalue
    for _ in range(4 if quick else 40):
        est, se = float(np.round(rng.normal(0, 0.4), 4)), float(np.round(rng.uniform(0.05, 0.5), 4))
        for sided in ('two', 'upper', 'lower', 'both'):
            cell_counternull(chk, drv, est, se, sided)
    # interaction_contrast_ratio, delta-method interval
    for _ in range(2 if quick else 10):
        cell_icr(chk, drv, int(rng.integers(0, 2 ** 31)), int(rng.choice([400, 900])))
    # the diagnostic classes' result tables across alpha
    for _ in range(2 if quick else 12):
        cell_diag_ci(chk, drv, gen_diag_frame(rng))


def stream_c07(chk, drv, rng, tier):
    quick = tier == 'quick'
    for i in range(40 if quick else 400):
        frame = gen_diag_frame(rng, small=(i % 3 == 0))
        cell_diag(chk, drv, frame, float(rng.choice([0.05, 0.1, 0.3])))
    # the table of tests/test_measures.py::TestDiagnostics and its empty-cell variants
    base = {'test': [1.0] * 50 + [0.0] * 50, 'dis': [1.0] * 40 + [0.0] * 10 + [1.0] * 15 + [0.0] * 35}
    cell_diag(chk, drv, base, 0.05)
    cell_diag(chk, drv, {'test': [1.0] * 5 + [0.0] * 5, 'dis': [0.0] * 5 + [1.0] * 3 + [0.0] * 2}, 0.05)   # no (T+, D+)
    cell_diag(chk, drv, {'test': [1.0] * 5 + [0.0] * 5, 'dis': [1.0] * 3 + [0.0] * 2 + [0.0] * 5}, 0.05)   # no (T-, D+)
    cell_diag(chk, drv, {'test': [1.0] * 5, 'dis': [1.0] * 3 + [0.0] * 2}, 0.05)                           # no test-negative row
    cell_diag(chk, drv, {'test': [None, 1.0, 0.0, None], 'dis': [1.0, None, None, None]}, 0.05)            # nothing observed


CELLS = {'sens': cell_sens, 'conv': cell_conv, 'scalar': cell_scalar, 'screening': cell_screening, 'rubins': cell_rubins,
         'semibayes': cell_semibayes, 'counternull': cell_counternull, 'icr': cell_icr, 'diag': cell_diag, 'diag_ci': cell_diag_ci}
