"""C07 -- effect measures from counts and from data frames match their definitions."""
import itertools
import math
from fractions import Fraction

import numpy as np
import pandas as pd
from scipy.stats import norm

from common import fx, unfx, dec_list, close
from props import calc2

REQUIRED = ['rr_def', 'rd_def', 'or_def', 'nnt_def', 'nnt_limits', 'irr_def', 'ird_def', 'acr_def', 'paf_def',
            'rr_reject_iff', 'rd_reject_iff', 'or_reject_iff', 'nnt_reject_iff', 'irr_reject_iff', 'ird_reject_iff',
            'acr_reject_iff', 'paf_reject_iff', 'rr_swap', 'rd_swap', 'or_swap', 'or_transpose', 'irr_swap',
            'ird_swap', 'crosstab_filter', 'missing_counts', 'frame_eq_counts', 'rates_eq_counts',
            'personTime_complete', 'riskratio_level_generated', 'riskdifference_level_generated', 'nnt_level_generated',
            'oddsratio_level_generated', 'irr_level_generated', 'ird_level_generated', 'risk_level_generated',
            'rate_level_generated', 'missing_generated', 'frame_generated_eq_counts',
            # round 4: a row with person-time 0 is an event of its group and adds no person-time; the reference
            'events_indep_time', 'personTime_zero_rows', 'reference_is_a_level',
            # Props/C07_Diag.lean: Sensitivity / Specificity / Diagnostics (Gen/Diag.lean)
            'sensitivity_fit_generated', 'specificity_fit_generated', 'diagnostics_fit_generated', 'diag_complete_rows',
            'sensitivity_class_value', 'specificity_class_value', 'sensitivity_class_not_textbook',
            'specificity_class_not_textbook']
RULE = ('count tables: exhaustive over cells 1..B (B=5 quick, 9 thorough) for the six 4-argument calculators, plus a '
        'malformed stream (zero / negative cells in every position), random large tables and non-integer tables '
        '(cells + 1/2, weighted counts with 1-3 decimals, cells below 1, partly fractional tables; fractional events '
        'and person-time for the rate measures); frames: random data frames with 2-4 exposure levels drawn from '
        'whole-number or fractional / negative category values, the reference handed over as int / float / numpy '
        'scalar (and, one time in ten, a value that is no level), person-time strictly positive, with rows of exactly '
        '0, or whole-number, random missingness in exposure/outcome/time. '
        'distinct = distinct (function, arguments) or (class, frame hash); non-trivial = all four cells differ from '
        'each other or the frame has >= 1 missing value')
ASSUMPTIONS = ['scipy.stats.norm.ppf supplies the normal quantile (enters the model as a table entry at 1-alpha/2)',
               'a GROUP whose total person-time is zero is outside the property (positive person-time); not judged.  '
               'Single rows with a recorded person-time of 0 are ordinary input (the group total stays positive)']

FOUR = ['risk_ratio', 'risk_difference', 'number_needed_to_treat', 'odds_ratio']
RATE = ['incidence_rate_ratio', 'incidence_rate_difference']


def impl_call(fn, args, alpha):
    import zepid.calc.utils as cu
    try:
        r = getattr(cu, fn)(*args, alpha=alpha)
        return ('ok', float(r.point_estimate), float(r.lower_bound), float(r.upper_bound), float(r.standard_error))
    except ValueError:
        return ('err',)
    except ZeroDivisionError:
        return ('zerodiv',)


def textbook(fn, a, b, c, d):
    """exact point estimate and squared SE from the textbook definition (Fractions)"""
    a, b, c, d = map(Fraction, (a, b, c, d))
    if fn == 'risk_ratio':
        return (a / (a + b)) / (c / (c + d)), 1 / a - 1 / (a + b) + 1 / c - 1 / (c + d)
    if fn in ('risk_difference', 'number_needed_to_treat'):
        r1, r0 = a / (a + b), c / (c + d)
        v = r1 * (1 - r1) / (a + b) + r0 * (1 - r0) / (c + d)
        if fn == 'risk_difference':
            return r1 - r0, v
        return (1 / (r1 - r0) if r1 != r0 else math.inf), v
    if fn == 'odds_ratio':
        return (a * d) / (b * c), 1 / a + 1 / b + 1 / c + 1 / d
    if fn == 'incidence_rate_ratio':      # args a, c, t1, t2
        return (a / c) / (b / d), 1 / a + 1 / b
    if fn == 'incidence_rate_difference':
        return a / c - b / d, a / c ** 2 + b / d ** 2
    raise KeyError(fn)


def check_table(chk, drv, fn, args, alpha, z):
    res = impl_call(fn, args, alpha)
    bad = any(x <= 0 for x in (args if fn in FOUR else args[:2])) or (fn in RATE and any(x < 0 for x in args[2:]))
    case = {'fn': fn, 'args': list(args), 'alpha': alpha, 'impl': res}
    chk.case(case, (fn, tuple(args), alpha) if len(set(args)) == 4 or bad else None,
             sample=case if (len(set(args)) == 4 and chk.evals % 97 == 0) else None)
    chk.count('malformed' if bad else 'valid')
    # ---- D: rejection iff a count is non-positive (person-time 0 is outside the property)
    if fn in RATE and any(x == 0 for x in args[2:]) and not bad:
        chk.count('person_time_zero_not_judged')
        return
    chk.d((res[0] == 'err') == bad, 'rejects iff some count <= 0 (%s)' % fn, case)
    # a table of positive counts (and positive person-time) has a textbook value: dividing by zero on it is a failure
    chk.d(bad or res[0] != 'zerodiv', '%s returns its measure for a table of positive counts' % fn, case)
    # ---- K: model vs implementation
    if drv is not None:
        kw = dict(fn=fn, a=fx(args[0]), b=fx(args[1]), c=fx(args[2]), d=fx(args[3]), alpha=fx(alpha),
                  px=fx(1 - alpha / 2), pz=fx(z))
        rep, line = drv.ask('calc', **kw)
        if res[0] == 'ok':
            ok = rep['status'] == 'ok' and all(close(unfx(rep[k]), v, rtol=1e-11) for k, v in
                                              zip(('point', 'lower', 'upper', 'se'), res[1:]))
        elif res[0] == 'err':
            ok = rep['status'] == 'err'
        else:
            ok = True       # ZeroDivisionError on person-time 0: outside the property
        chk.k(ok, 'calc %s model vs impl' % fn, {'case': case, 'model': rep, 'line': line})
    if res[0] != 'ok':
        return
    # ---- D: textbook definition (exact rational arithmetic)
    pt, v = textbook(fn, *args)
    chk.d(close(res[1], float(pt), rtol=1e-12), '%s point estimate = textbook definition' % fn, case)
    chk.d(close(res[4] ** 2, float(v), rtol=1e-11), '%s SE = Wald formula' % fn, case)
    # ---- D: the two reported limits, from the textbook point estimate, the Wald SE and the normal quantile z:
    # differences point -/+ z*se; ratios exp(log(point) -/+ z*se); NNT the reciprocals of the risk-difference limits
    se = math.sqrt(float(v))
    if fn in ('risk_difference', 'incidence_rate_difference'):
        lo, hi = float(pt) - z * se, float(pt) + z * se
    elif fn == 'number_needed_to_treat':
        a_, b_, c_, d_ = map(Fraction, args)
        rd = float(a_ / (a_ + b_) - c_ / (c_ + d_))
        lo = 1 / (rd - z * se) if rd - z * se != 0 else math.inf
        hi = 1 / (rd + z * se) if rd + z * se != 0 else math.inf
    else:
        lo, hi = math.exp(math.log(float(pt)) - z * se), math.exp(math.log(float(pt)) + z * se)
    near0 = fn == 'number_needed_to_treat' and (abs(rd - z * se) < 1e-9 or abs(rd + z * se) < 1e-9)
    if not near0:           # a reciprocal of (almost) zero is not judged in floating point
        chk.d(close(res[2], lo, rtol=1e-9, atol=1e-12) and close(res[3], hi, rtol=1e-9, atol=1e-12),
              '%s limits = documented function of point estimate, Wald SE and z(1 - alpha/2)' % fn,
              dict(case, want_limits=[lo, hi], z=z))


def check_acr_paf(chk, drv, a, b, c, d):
    """attributable community risk / population attributable fraction = textbook definition (exact rationals)"""
    import zepid.calc.utils as cu
    fa, fb, fc, fd = map(Fraction, (a, b, c, d))
    for fn in ('attributable_community_risk', 'population_attributable_fraction'):
        if min(a, b, c, d) <= 0:
            try:
                getattr(cu, fn)(a, b, c, d)
                rej = False
            except ValueError:
                rej = True
            except ZeroDivisionError:
                rej = False
            chk.case(None)
            chk.d(rej, '%s rejects non-positive count' % fn, {'fn': fn, 'args': [a, b, c, d]})
            continue
        got = float(getattr(cu, fn)(a, b, c, d))
        rt, r0 = (fa + fc) / (fa + fb + fc + fd), fc / (fc + fd)
        want = rt - r0 if fn.startswith('attr') else (rt - r0) / rt
        case = {'fn': fn, 'args': [a, b, c, d]}
        chk.case(case, (fn, a, b, c, d))
        chk.d(close(got, float(want), rtol=1e-12, atol=1e-15), '%s = textbook definition' % fn, case)
        if drv is not None:
            rep, _ = drv.ask('calc', fn=fn, a=fx(a), b=fx(b), c=fx(c), d=fx(d), alpha=fx(0.05), px=fx(0.975),
                             pz=fx(float(norm.ppf(0.975))))
            chk.k(rep['status'] == 'ok' and close(unfx(rep['value']), got, rtol=1e-12, atol=1e-15),
                  'calc %s model vs impl' % fn, {'case': case, 'model': rep})


def gen_fractional_table(rng, i):
    """non-integer counts are documented input of the count functions ("integer, float"): continuity-corrected
    tables (every cell + 1/2, Haldane-Anscombe), weighted counts with one to three decimals, counts below 1, and tables
    in which only some cells are fractional"""
    kind = i % 4
    if kind == 0:
        cells = [int(x) + 0.5 for x in rng.integers(0, 40, size=4)]
    elif kind == 1:
        cells = [float(x) for x in np.round(rng.uniform(0.05, 60, size=4), int(rng.integers(1, 4)))]
    elif kind == 2:
        cells = [float(x) for x in np.round(rng.uniform(0.05, 0.99, size=4), 2)]
        j = int(rng.integers(0, 4))
        cells[j] = float(np.round(rng.uniform(1, 30), 1))
    else:
        cells = [int(x) + float(rng.choice([0.0, 0.25, 0.5, 0.75, 0.9])) for x in rng.integers(1, 200, size=4)]
        if all(float(x).is_integer() for x in cells):
            cells[int(rng.integers(0, 4))] += 0.5
    return tuple(max(c, 0.01) for c in cells)


def relations(chk, a, b, c, d, alpha):
    """swap / transpose relations on the implementation's own outputs"""
    for fn, kind in (('risk_ratio', 'inv'), ('risk_difference', 'neg'), ('odds_ratio', 'inv')):
        r, s = impl_call(fn, (a, b, c, d), alpha), impl_call(fn, (c, d, a, b), alpha)
        if r[0] == 'ok' and s[0] == 'ok':
            case = {'fn': fn, 'table': [a, b, c, d], 'orig': r, 'swapped': s}
            want = 1 / r[1] if kind == 'inv' else -r[1]
            chk.d(close(s[1], want, rtol=1e-12, atol=1e-15), 'swap groups: %s %s' % (fn, kind), case)
            chk.d(close(s[4], r[4], rtol=1e-12), 'swap groups: SE unchanged (%s)' % fn, case)
    r, s = impl_call('odds_ratio', (a, b, c, d), alpha), impl_call('odds_ratio', (a, c, b, d), alpha)
    if r[0] == 'ok' and s[0] == 'ok':
        chk.d(close(s[1], r[1], rtol=1e-12), 'transpose leaves OR unchanged', {'table': [a, b, c, d], 'o': r, 't': s})
    for fn, kind in (('incidence_rate_ratio', 'inv'), ('incidence_rate_difference', 'neg')):
        r, s = impl_call(fn, (a, b, c + 1, d + 1), alpha), impl_call(fn, (b, a, d + 1, c + 1), alpha)
        if r[0] == 'ok' and s[0] == 'ok':
            want = 1 / r[1] if kind == 'inv' else -r[1]
            chk.d(close(s[1], want, rtol=1e-12, atol=1e-15) and close(s[4], r[4], rtol=1e-12),
                  'swap groups: %s' % fn, {'args': [a, b, c + 1, d + 1], 'o': r, 's': s})


# ------------------------------------------------------------------------ frames
CLASSES = {'RR': ('RiskRatio', 'RiskRatio', 'SD(RR)', 'RR_LCL', 'RR_UCL', 'risk_ratio'),
           'RD': ('RiskDifference', 'RiskDifference', 'SD(RD)', 'RD_LCL', 'RD_UCL', 'risk_difference'),
           'NNT': ('NNT', 'NNT', 'SD(RD)', 'NNT_LCL', 'NNT_UCL', 'number_needed_to_treat'),
           'OR': ('OddsRatio', 'OddsRatio', 'SD(OR)', 'OR_LCL', 'OR_UCL', 'odds_ratio'),
           'IRR': ('IncidenceRateRatio', 'IncRateRatio', 'SD(IRR)', 'IRR_LCL', 'IRR_UCL', 'incidence_rate_ratio'),
           'IRD': ('IncidenceRateDifference', 'IncRateDiff', 'SD(IRD)', 'IRD_LCL', 'IRD_UCL',
                   'incidence_rate_difference')}


INT_POOL = [0, 1, 2, 3, 5, 8, 9, 10, 16, 17, 20, 33, 40]
# dose-like codings: fractional and negative levels (every value is a multiple of 1/4, so exactly representable)
FRAC_POOL = [-2, -1, -0.5, 0, 0.25, 0.5, 1, 1.5, 2, 2.5, 7.75, 10.5]


def gen_frame(rng, big=False):
    """-> (frame, levels, kinds).  kinds = {'levels': 'int' | 'frac', 'time': 'pos' | 'zeros' | 'whole'}:
    'frac' draws exposure levels from FRAC_POOL (fractional / negative category values); 'zeros' gives 5-25% of the rows
    a recorded person-time of exactly 0 (event on the enrolment day), 'whole' whole-number times 0..10 (zeros included)"""
    nlev = int(rng.integers(2, 5))
    lk = 'frac' if rng.uniform() < 0.4 else 'int'
    tk = str(rng.choice(['pos', 'zeros', 'whole'], p=[0.4, 0.4, 0.2]))
    # level codes whose set-iteration (hash) order differs from ascending order are included on purpose
    pool = np.array(INT_POOL if lk == 'int' else FRAC_POOL, dtype=float)
    levels = sorted(rng.choice(pool, size=nlev, replace=False).tolist())
    n = int(rng.integers(30, 200 if big else 90))
    code = rng.integers(0, nlev, size=n)
    e = np.array(levels, dtype=float)[code]
    base = rng.uniform(0.25, 0.75, size=nlev)
    d = (rng.uniform(size=n) < base[code]).astype(float)
    if tk == 'whole':
        t = rng.integers(0, 11, size=n).astype(float)
    else:
        t = np.round(rng.uniform(0.5, 10, size=n), 2)
        if tk == 'zeros':
            t[rng.uniform(size=n) < rng.uniform(0.05, 0.25)] = 0.0
    pm = rng.choice([0.0, 0.1, 0.3])
    for arr in (e, d, t):
        arr[rng.uniform(size=n) < pm * rng.uniform()] = np.nan
    # make rows missing both with some probability
    both = rng.uniform(size=n) < pm / 4
    e[both] = np.nan
    d[both] = np.nan
    idx = rng.permutation(n) + int(rng.integers(0, 50)) if rng.uniform() < 0.5 else np.arange(n)
    return pd.DataFrame({'exp': e, 'dis': d, 't': t}, index=idx), levels, {'levels': lk, 'time': tk}


REF_TYPES = {'int': int, 'float': float, 'np.int64': np.int64, 'np.float64': np.float64}


def gen_reference(rng, present):
    """-> (value, type name): one of the observed levels handed over as a Python int / float or a numpy scalar (an
    integer type only for a whole-number level); with probability 0.1 a value that is NOT a level (the level next to it
    on the quarter grid), which `fit` must refuse"""
    v = float(present[int(rng.integers(0, len(present)))])
    if rng.uniform() < 0.1:
        cand = [v + s for s in (0.5, -0.5, 0.25, 1.0, -1.0, 3.0) if v + s not in present]
        v = float(cand[int(rng.integers(0, len(cand)))])
    names = ['float', 'np.float64'] + (['int', 'np.int64'] if v.is_integer() else [])
    return v, str(rng.choice(names))


def enc_opt(xs, f):
    return ','.join('_' if (x is None or (isinstance(x, float) and math.isnan(x))) else f(x) for x in xs) or '[]'


def check_frame(chk, drv, cls, df, ref, alpha, z, positional=False, ref_type=None, kinds=None):
    import zepid
    name, col, sdcol, lcl, ucl, fn = CLASSES[cls]
    if ref_type is not None:        # the reference category in the container type the caller used
        ref = REF_TYPES[ref_type](ref)
    # the documented signature is (reference=0, alpha=0.05): options given by position or by keyword mean the same
    obj = getattr(zepid, name)(ref, alpha) if positional else getattr(zepid, name)(reference=ref, alpha=alpha)
    rate = cls in ('IRR', 'IRD')
    try:
        if rate:
            obj.fit(df, exposure='exp', outcome='dis', time='t')
        else:
            obj.fit(df, exposure='exp', outcome='dis')
        impl = ('ok', obj.results)
    except (ValueError, KeyError):
        impl = ('err', None)
    except ZeroDivisionError:
        impl = ('zerodiv', None)
    nmiss = int(df[['exp', 'dis']].isna().any(axis=1).sum())
    case = {'cls': cls, 'ref': float(ref) if isinstance(ref, (float, np.floating)) else int(ref),
            'ref_type': ref_type, 'kinds': kinds, 'alpha': alpha, 'n': len(df), 'missing_rows': nmiss,
            'constructed': 'positional' if positional else 'keywords',
            'frame': df.reset_index().to_dict(orient='list') if len(df) <= 250 else 'n=%d (see seed)' % len(df)}
    chk.case(case, (cls, float(ref), alpha, hash(df.to_csv())) if nmiss else None,
             sample={k: v for k, v in case.items() if k != 'frame'} if chk.evals % 41 == 0 else None)
    chk.count('frame_' + cls)
    if kinds is not None and cls == 'RR':
        chk.count('frame_levels_' + kinds['levels'])
        chk.count('frame_time_' + kinds['time'])
        chk.count('frame_ref_' + str(ref_type))
    # independent cross-tabulation on complete rows
    cc = df.dropna(subset=['exp', 'dis'])
    levels = sorted(set(df['exp'].dropna().unique()))
    others = [l for l in levels if l != ref]

    def cnt(l, y):
        return int(((cc['exp'] == l) & (cc['dis'] == y)).sum())

    def pt(l):
        return float(cc.loc[cc['exp'] == l, 't'].sum())
    # ---- D: results equal the count function on that cross-tabulation
    expect = {}
    absent = ref not in levels       # `reference` names no observed category: fit must refuse (nothing to compare with)
    expect_err = absent
    if not absent:
        for l in others:
            args = (cnt(l, 1), cnt(ref, 1), pt(l), pt(ref)) if rate else \
                (cnt(l, 1), cnt(l, 0), cnt(ref, 1), cnt(ref, 0))
            r = impl_call(fn, args, alpha)
            if r[0] != 'ok':
                expect_err = True
            expect[l] = r
        if impl[0] == 'zerodiv' or any(r[0] == 'zerodiv' for r in expect.values()):
            chk.discard('person-time or group size zero (outside the property)')
            return
        if not rate and (cnt(ref, 1) + cnt(ref, 0) == 0 or any(cnt(l, 1) + cnt(l, 0) == 0 for l in others)):
            chk.discard('empty exposure group')
            return
    else:
        chk.count('frame_reference_absent')
    chk.d((impl[0] == 'err') == expect_err, '%s.fit raises iff the count function rejects a table%s'
          % (name, ' (here: the reference is not an observed level)' if absent else ''), case)
    if impl[0] == 'ok' and not expect_err:
        res = impl[1]
        ok = True
        for l in others:
            lab = str(l)
            if lab not in res.index:
                ok = False
                break
            row = res.loc[lab]
            got = (row[col], row[lcl], row[ucl], row[sdcol])
            ok = ok and all(close(g, w, rtol=1e-12) for g, w in zip(got, expect[l][1:]))
        chk.d(ok and len(res) == len(others) + 1, '%s results = count function on the complete-row cross-tab' % name,
              case)
        me = int(df['exp'].isna().sum() - (df['exp'].isna() & df['dis'].isna()).sum())
        md = int(df['dis'].isna().sum() - (df['exp'].isna() & df['dis'].isna()).sum())
        med = int((df['exp'].isna() & df['dis'].isna()).sum())
        chk.d((obj._missing_e, obj._missing_d, obj._missing_ed) == (me, md, med) and me + md + med + len(cc) == len(df),
              '%s missing-data counters partition the rows' % name, case)
    # ---- K: model vs implementation.  The model's categories are natural numbers: the observed levels (and the
    # reference) are handed over by rank, an order-preserving one-to-one recoding (the classes only ever test a level
    # for equality, and the model lists the levels in ascending order)
    if drv is not None:
        ranked = sorted(set(float(l) for l in levels) | {float(ref)})
        code = {v: i for i, v in enumerate(ranked)}
        label = {i: str(np.float64(v)) for v, i in code.items()}
        kw = dict(cls=cls, ref=code[float(ref)], alpha=fx(alpha), px=fx(1 - alpha / 2), pz=fx(z),
                  e=enc_opt(df['exp'].tolist(), lambda v: str(code[float(v)])),
                  d=enc_opt(df['dis'].tolist(), lambda v: str(int(v))))
        if rate:
            kw['t'] = enc_opt(df['t'].tolist(), fx)
        rep, line = drv.ask('frame', **kw)
        if impl[0] == 'err':
            ok = rep['status'] == 'err'
        else:
            ok = rep['status'] == 'ok'
            if ok:
                res = impl[1]
                lv = dec_list(rep['levels'], int)
                ok = [label[l] for l in lv] == sorted([i for i in res.index if not i.startswith('Ref:')], key=float)
                for key, c in (('point', col), ('lower', lcl), ('upper', ucl), ('se', sdcol)):
                    vals = dec_list(rep[key], unfx)
                    for l, v in zip(lv, vals):
                        ok = ok and label[l] in res.index and close(res.loc[label[l], c], v, rtol=1e-11)
                ok = ok and (int(rep['me']), int(rep['md']), int(rep['med'])) == \
                    (obj._missing_e, obj._missing_d, obj._missing_ed)
                if cls == 'RD':
                    ok = ok and int(rep['n']) == obj.n
                    for key, c in (('frl', 'LowerBound'), ('fru', 'UpperBound')):
                        for l, v in zip(lv, dec_list(rep[key], unfx)):
                            ok = ok and close(res.loc[label[l], c], v, rtol=1e-11, atol=1e-14)
        chk.k(ok, 'frame %s model vs impl' % cls, {'case': case, 'model': rep})


def run(chk, drv, rng, tier):
    B = 5 if tier == 'quick' else 9
    alphas = [0.05] if tier == 'quick' else [0.05, 0.2]
    zs = {a: float(norm.ppf(1 - a / 2)) for a in [0.05, 0.2, 0.1, 0.01, 0.5]}
    cells = range(1, B + 1)
    for alpha in alphas:
        for a, b, c, d in itertools.product(cells, repeat=4):
            for fn in FOUR:
                check_table(chk, drv, fn, (a, b, c, d), alpha, zs[alpha])
            if a <= 3 and c <= 3 or tier == 'thorough':
                for fn in RATE:
                    check_table(chk, drv, fn, (a, b, c * 1.5, d * 2.25), alpha, zs[alpha])
            if (a + b + c + d) % 3 == 0:
                relations(chk, a, b, c, d, alpha)
    chk.extra['exhaustive'] = False
    chk.extra['exhaustive_tables_up_to'] = B
    # malformed stream: zero / negative in every position, also after small and large cells
    for pos in range(4):
        for badv in (0, -1, -3):
            for base in ((7, 9, 11, 13), (2, 3, 2, 4), (20, 30, 1, 5)):
                args = list(base)
                args[pos] = badv
                for fn in FOUR + ['attributable_community_risk', 'population_attributable_fraction']:
                    if fn in FOUR:
                        check_table(chk, drv, fn, tuple(args), 0.05, zs[0.05])
                    elif fn == 'attributable_community_risk':
                        check_acr_paf(chk, drv, *args)          # (both functions)
                for fn in RATE:
                    if pos < 2:
                        check_table(chk, drv, fn, tuple(args), 0.05, zs[0.05])
                    else:
                        a2 = list(base)
                        a2[pos] = -abs(badv) - 1
                        check_table(chk, drv, fn, tuple(a2), 0.05, zs[0.05])
    # ACR / PAF definitions and K
    for _ in range(60 if tier == 'quick' else 400):
        check_acr_paf(chk, drv, *(int(x) for x in rng.integers(1, 400, size=4)))
    # random large tables
    for _ in range(100 if tier == 'quick' else 1500):
        a, b, c, d = (int(x) for x in rng.integers(1, 5000, size=4))
        alpha = float(rng.choice([0.05, 0.1, 0.01, 0.5]))
        for fn in FOUR:
            check_table(chk, drv, fn, (a, b, c, d), alpha, zs[alpha])
        for fn in RATE:
            check_table(chk, drv, fn, (a, b, float(c) + 0.5, float(d) + 0.25), alpha, zs[alpha])
        relations(chk, a, b, c, d, alpha)
    # non-integer counts (round 4): every predicate of the integer stream on fractional tables
    for i in range(80 if tier == 'quick' else 1200):
        a, b, c, d = gen_fractional_table(rng, i)
        alpha = float(rng.choice([0.05, 0.1, 0.01, 0.5]))
        chk.count('fractional_table')
        for fn in FOUR:
            check_table(chk, drv, fn, (a, b, c, d), alpha, zs[alpha])
        for fn in RATE:         # fractional (weighted) event counts and person-time
            check_table(chk, drv, fn, (a, b, float(c) * 1.5 + 0.25, float(d) * 2.25 + 0.5), alpha, zs[alpha])
        relations(chk, a, b, c, d, alpha)
        check_acr_paf(chk, drv, a, b, c, d)
    # frames
    for i in range(60 if tier == 'quick' else 500):
        df, levels, kinds = gen_frame(rng, big=(tier == 'thorough'))
        alpha = float(rng.choice([0.05, 0.1]))
        present = sorted(set(df['exp'].dropna().unique()))
        if tier == 'thorough':
            refs = [(float(v), str(rng.choice(['float', 'np.float64'] + (['int', 'np.int64'] if float(v).is_integer()
                                                                     else [])))) for v in present]
            refs.append(gen_reference(rng, present))
        else:
            refs = [gen_reference(rng, present)]
        for ref, ref_type in refs:
            for cls in CLASSES:
                check_frame(chk, drv, cls, df, ref, alpha, zs[alpha], positional=bool(rng.integers(0, 2)),
                            ref_type=ref_type, kinds=kinds)
    calc2.stream_c07(chk, drv, rng, tier)


def replay(rec):
    """re-run the stored failing cases (count tables and small frames are stored in full) on the implementation"""
    import common
    from scipy.stats import norm
    chk = common.Check('C07', 'quick', rec.get('seed', 0))
    for f in rec.get('failures', []):
        c = f['case']
        c = c.get('case', c)
        print('replaying:', f['what'], {k: v for k, v in c.items() if k not in ('frame', 'impl')})
        alpha = c.get('alpha', 0.05)
        z = float(norm.ppf(1 - alpha / 2))
        if isinstance(c.get('replay'), dict):
            with common.quiet():
                calc2.CELLS[c['replay']['cell']](chk, None, **c['replay']['kwargs'])
        elif c.get('fn') in ('attributable_community_risk', 'population_attributable_fraction') and 'args' in c:
            check_acr_paf(chk, None, *c['args'])
        elif 'fn' in c and 'args' in c:
            check_table(chk, None, c['fn'], tuple(c['args']), alpha, z)
        elif 'table' in c:
            relations(chk, *c['table'], alpha)
        elif 'cls' in c and isinstance(c.get('frame'), dict):
            fr = pd.DataFrame(c['frame'])
            if 'index' in fr.columns:
                fr = fr.set_index('index')
            check_frame(chk, None, c['cls'], fr, c['ref'], alpha, z, positional=c.get('constructed') == 'positional',
                        ref_type=c.get('ref_type'), kinds=c.get('kinds'))
        else:
            print('  (case not stored in full; rerun with the recorded seed)')
    for d in chk.d_fail:
        print('  FAILS:', d['what'])
    print('failures reproduced:', len(chk.d_fail))
    return 1 if chk.d_fail else 0
