"""C09 -- an integer weights column is equivalent to physically replicating rows (point estimates):
IPTW, StochasticIPTW, TimeFixedGFormula (every standardization target), SurvivalGFormula, AIPTW, GEstimationSNM,
GTransportFormula."""
from fractions import Fraction

import numpy as np
import pandas as pd
import statsmodels.api as sm
import statsmodels.formula.api as smf

import gen
from common import rq, enc_list, close

REQUIRED = ['sum_mult_eq_replicate', 'sumIf_replicate', 'score_replicate', 'cellfit_replicate', 'saturated_fits_agree',
            'std_replicate', 'hajek_replicate', 'iptw_replicate', 'stoch_iptw_replicate', 'gformula_replicate',
            'gformula_replicate_targets', 'gtransport_replicate', 'aipw_replicate', 'aipw_missing_replicate',
            'snm_replicate', 'survival_replicate', 'survival_replicate_rows',
            # ties to the source: Props/C09_Snm.lean, Props/C09_Transport.lean
            'snm_generated', 'snm_generated_replicate', 'gtransport_fit_generated_replicate']
RULE = ('random data sets (1-3 categorical covariates, <= 8 strata, positivity by construction; outcome binary / normal '
        '/ count; outcomes complete, missing completely at random, or missing depending on A and L) with an integer '
        'weights column drawn from 1..4 (int or float dtype); every estimator is run with weights=<column> and, '
        'unweighted, on df.loc[df.index.repeat(df.w)] (persons replicated under fresh ids for SurvivalGFormula, whose '
        'per-row weights are constant within a person or drop during follow-up, half of the data sets each); one cell in '
        'three has the weights variable also as a covariate of every nuisance model (the replicated frame keeps it as an '
        'ordinary column); '
        'configuration cells enumerated: IPTW stabilized x standardize x {no missing, missing ignored, missing_model} '
        'x {saturated, main-effects} models, plus a stabilized effect-modifier MSM (normal outcome); StochasticIPTW marginal/conditional plans; TimeFixedGFormula standardize x '
        "treatment ('all','none',custom) x predict_missing x outcome type; SurvivalGFormula all/none/natural/custom; "
        'AIPTW x missing handling; GEstimationSNM (1- and 2-parameter SNM, closed solver; 1-parameter with the '
        "Nelder-Mead solver) x missing handling; TimeFixedGFormula also through fit_stochastic with deterministic plans; "
        'GTransportFormula generalize/transport x outcome type; two thirds of the cells run on an object with a '
        'history (an earlier fit() with the same or another marginal structural model / plan, then the fit that is '
        'compared), one third on a fresh object.  distinct = (data seed, estimator, options); '
        'non-trivial = weights are not constant and the weighted closed-form standardized mean differs from the one '
        'ignoring the weights (so dropping or misplacing a weight changes the answer)')
ASSUMPTIONS = ['statsmodels GLM with freq_weights and the unweighted GLM on the replicated rows have the same score '
               'equations (theorem score_replicate) and IRLS returns the same solution for both (measured per data '
               'set on reference fits made by the harness: fitted values agree row-for-row to 1e-9; gate H)',
               'statsmodels GEE (independence, weights) returns for the saturated MSM Y ~ A the weighted arm means / '
               'their log ratio / log odds ratio',
               'SurvivalGFormula: the per-row weights never rise within an individual (constant, or dropping during '
               'follow-up), so that the k-th copies of the rows form an individual followed without gaps from his first '
               'row (theorem survival_replicate_rows states this hypothesis; a rising weight has no replicated '
               'counterpart: the extra copies would enter late); replication gives the copies fresh ids',
               'TimeFixedGFormula.fit_stochastic is run with deterministic plans only (probabilities exactly 1 / 0, also '
               'conditional [1, 0]): with 0 < p < 1 it draws the treated with probability proportional to the weights, '
               'which is not a frequency-weight semantics and has no replicated-data counterpart',
               "GEstimationSNM solver='search' (Nelder-Mead on |alpha|) is compared at 1e-4: both runs stop within the "
               'solver tolerance of the common root']

DTOL = dict(rtol=1e-7, atol=1e-9)       # weighted vs replicated run: two separate IRLS runs on identical score equations
# solver='search': both runs minimise the same objective (identical up to IRLS noise) by Nelder-Mead to its tolerance;
# the simplex stops within ~1e-5 of the common root (measured 1e-7..1e-6 between the two runs); a dropped weight
# moves psi by 1e-2..1e-1
STOL = dict(rtol=1e-4, atol=1e-4)
NTOL = dict(rtol=0, atol=1e-8)          # fitted values of the two runs, row for row
KTOL = dict(rtol=1e-9, atol=1e-11)      # exact model on the implementation's own fitted values vs reported estimate


# ------------------------------------------------------------------ data
def make_data(seed, ytype, missing):
    rng = np.random.default_rng(seed)
    df, covs = gen.cat_dataset(rng, outcome=ytype, weights=True, missing=missing, max_strata=8)
    if rng.uniform() < 0.3:
        df['w'] = df['w'].astype(float)          # integer-valued float column
    return df, covs


def replicate(df, wcol='w'):
    """(replicated frame, position of the first copy of each original row).  The column `wcol` stays in the frame as an
    ordinary variable (each copy carries the value of its original): the runners hand it to the estimator only when
    the cell uses it as a model covariate (`wcov`), and never as `weights=`"""
    k = df[wcol].astype(int).values
    rep = df.loc[df.index.repeat(k)].reset_index(drop=True)
    first = np.r_[0, np.cumsum(k)[:-1]]
    return rep, first


def make_transport(seed, ytype, missing):
    rng = np.random.default_rng(seed)
    df, covs = gen.cat_dataset(rng, outcome=ytype, ncov=int(rng.integers(1, 3)), weights=True, missing=missing,
                               max_strata=8)
    df['S'] = 1
    rows = []
    for s in df[covs].drop_duplicates().values.tolist():
        for _ in range(1 + int(rng.integers(0, 8))):
            rows.append(list(s))
    tg = pd.DataFrame(rows, columns=covs)
    tg['A'] = np.nan
    tg['Y'] = np.nan
    tg['w'] = rng.integers(1, 5, size=len(tg))
    tg['S'] = 0
    out = pd.concat([df, tg], ignore_index=True)
    out = out.iloc[rng.permutation(len(out))].reset_index(drop=True)
    return out, covs


def make_survival(seed, wmode='person'):
    """long person-period data with a per-ROW weights column.  wmode 'person': the weight is constant within an
    individual; 'decreasing': it may drop from one person-period row to the next (a record stands for 4, then 2, then
    1 individuals: sub-sampling during follow-up) and never rises, so that the k-th physical copy of every row belongs
    to a k-th copy of the individual who is followed without gaps from time 1 (a weight that rises has no replicated
    counterpart: the extra copies would enter late)"""
    rng = np.random.default_rng(seed)
    rows = []
    for i in range(int(rng.integers(40, 110))):
        l1, l2 = int(rng.integers(0, 2)), int(rng.integers(0, 3))
        a = int(rng.uniform() < 0.3 + 0.3 * l1)
        k = int(rng.integers(1, 5))
        for t in range(1, int(rng.integers(1, 6)) + 1):
            ev = int(rng.uniform() < 0.08 + 0.10 * l1 + 0.06 * a + 0.02 * t)
            rows.append([i, t, l1, l2, a, ev, k])
            if ev:
                break
    df = pd.DataFrame(rows, columns=['id', 't', 'L1', 'L2', 'A', 'Y', 'w'])
    if wmode == 'decreasing':       # drawn after the rows, so that both modes share the person-period table
        w, ids = df['w'].values.copy(), df['id'].values
        for j in range(1, len(df)):
            if ids[j] == ids[j - 1]:
                w[j] = w[j - 1] - (int(rng.integers(1, 4)) if rng.uniform() < 0.45 else 0)
        df['w'] = np.maximum(w, 1)
    elif wmode != 'person':
        raise KeyError(wmode)
    return df.iloc[rng.permutation(len(df))].reset_index(drop=True)


def replicate_persons(df, rng):
    """every person-period row physically repeated `w` times; the k-th copy of a row belongs to the k-th copy of the
    individual (fresh id).  The column w stays as an ordinary variable (see `replicate`)"""
    rep = df.loc[df.index.repeat(df['w'].values)]
    copy = rep.groupby(level=0).cumcount().values
    rep = rep.reset_index(drop=True)
    rep['id'] = rep['id'].values * 10 + copy
    return rep.iloc[rng.permutation(len(rep))].reset_index(drop=True)


def specs(covs, spec, wcov=False):
    """(treatment-model rhs, outcome / missingness-model rhs); `wcov`: the variable that is also the weights column
    (a design variable such as household size) is a covariate of every nuisance model"""
    x = ' + w' if wcov else ''
    if spec == 'sat':
        return gen.sat_cov(covs) + x, gen.sat_out(covs) + x
    main = ' + '.join('C(%s)' % c for c in covs)
    return main + x, 'A + ' + main + x


def columns(covs, wcol, o, extra=()):
    """columns handed to the estimator: the weights column when it is used as weights or as a covariate"""
    return covs + ['A', 'Y'] + list(extra) + (['w'] if (wcol or o.get('wcov')) else [])


def positions(df, labels):
    """positions, in the caller's frame, of the rows the estimator retained (the `index` column that
    check_input_data's reset_index() leaves behind holds the caller's labels, whatever the index looks like)"""
    pos = df.index.get_indexer(pd.Index(list(labels)))
    if (pos < 0).any() or len(set(pos.tolist())) != len(pos):
        raise ValueError('retained rows carry labels that are not (distinct) labels of the input frame')
    return pos


def full(n, pos, arr):
    """array aligned with the rows of the input frame (NaN where the estimator did not retain the row)"""
    pos = np.asarray(pos, dtype=int)
    out = np.full(n, np.nan)
    out[np.asarray(pos, dtype=int)] = np.asarray(arr, dtype=float)
    return out


# ------------------------------------------------------------------ estimator runners
# each returns (estimates: dict, nuisance: dict of arrays aligned with the input rows, aux)
def est_iptw(df, covs, wcol, o):
    from zepid.causal.ipw import IPTW
    cols = columns(covs, wcol, o)
    tm, om = specs(covs, o['spec'], o.get('wcov'))
    ipt = IPTW(df[cols], treatment='A', outcome='Y', weights=wcol, standardize=o['tgt'])
    mod = o.get('msm') == 'modifier'     # stabilized weights with an effect modifier in numerator and MSM
    ipt.treatment_model(tm, model_numerator='C(%s)' % covs[0] if mod else '1', stabilized=o['stab'],
                        print_results=False)
    if o['miss'] == 'mm':
        ipt.missing_model(om, stabilized=o['stab'], print_results=False)
    yt = o['ytype']
    dist = 'poisson' if yt == 'poisson' else 'gaussian'
    final = 'A + C(%s)' % covs[0] if mod else 'A'
    # history on the same object (documented workflows): fit twice / fit one MSM, respecify another, fit again
    if o.get('hist') == 'twice':
        ipt.marginal_structural_model(final)
        ipt.fit(continuous_distribution=dist)
    elif o.get('hist') == 'respec':
        ipt.marginal_structural_model('A' if (mod or yt == 'binary') else 'A + C(%s)' % covs[0])
        ipt.fit(continuous_distribution=dist)
    ipt.marginal_structural_model(final)
    ipt.fit(continuous_distribution=dist)
    if mod:
        est = {'b_' + str(k): v for k, v in ipt.average_treatment_effect['ATE'].items()}
    elif yt == 'binary':
        est = {'RD': ipt.risk_difference.loc['A', 'RD'], 'RR': ipt.risk_ratio.loc['A', 'RR'],
               'OR': ipt.odds_ratio.loc['A', 'OR'], 'm0': ipt.risk_difference.loc['Intercept', 'RD']}
    elif yt == 'normal':
        est = {'ATE': ipt.average_treatment_effect.loc['A', 'ATE'],
               'm0': ipt.average_treatment_effect.loc['Intercept', 'ATE']}
    else:
        est = {'ratio': np.exp(ipt.average_treatment_effect.loc['A', 'ATE']),
               'm0': np.exp(ipt.average_treatment_effect.loc['Intercept', 'ATE'])}
    n, pos = len(df), positions(df, ipt.df['index'])
    d = np.asarray(ipt.df['__denom__'], dtype=float)
    nu = {'d': full(n, pos, d),
          'n': full(n, pos, np.broadcast_to(np.asarray(ipt.df['__numer__'], dtype=float), d.shape)),
          'mw': full(n, pos, np.ones(len(d)) if ipt.ipmw is None else ipt.ipmw),
          'iptw': full(n, pos, np.asarray(ipt.iptw, dtype=float))}       # the public treatment weights, after the fits
    return {k: float(v) for k, v in est.items()}, nu, None


def est_stoch(df, covs, wcol, o):
    from zepid.causal.ipw import StochasticIPTW
    cols = columns(covs, wcol, o)
    tm, _ = specs(covs, o['spec'], o.get('wcov'))
    s = StochasticIPTW(df[cols], treatment='A', outcome='Y', weights=wcol)
    s.treatment_model(tm, print_results=False)
    if o.get('hist'):
        s.fit(p=0.45)
    if o['plan'] == 'marginal':
        s.fit(p=o['p'][0])
        pr = np.full(len(s.df), o['p'][0])
    else:
        s.fit(p=o['p'], conditional=["df['L1']==0", "df['L1']>0"])
        pr = np.where(s.df['L1'].values == 0, o['p'][0], o['p'][1])
    n, pos = len(df), positions(df, s.df['index'])
    pd_ = np.asarray(s._pdenom_, dtype=float)
    a = s.df['A'].values
    omega = np.where(a == 1, pr, 1 - pr) / np.where(a == 1, pd_, 1 - pd_)
    return {'marginal': float(s.marginal_outcome)}, {'pdenom': full(n, pos, pd_), 'omega': full(n, pos, omega)}, None


def est_gformula(df, covs, wcol, o):
    from zepid.causal.gformula import TimeFixedGFormula
    cols = columns(covs, wcol, o)
    _, om = specs(covs, o['spec'], o.get('wcov'))
    g = TimeFixedGFormula(df[cols], exposure='A', outcome='Y', outcome_type=o['ytype'], standardize=o['tgt'],
                          weights=wcol)
    g.outcome_model(om, print_results=False)
    if o.get('hist'):     # the documented use: one object, several plans in a row
        g.fit('none' if o['treatment'] == 'all' else 'all', predict_missing=not o['pm'])
    if o.get('stoch'):
        # the stochastic entry point with a deterministic plan (probabilities exactly 1 / 0): the same intervention as
        # fit(treatment), so every exact identity of fit() applies to fit_stochastic() as well
        if o['treatment'] in ('all', 'none'):
            g.fit_stochastic(p=1.0 if o['treatment'] == 'all' else 0.0, samples=2, predict_missing=o['pm'], seed=0)
        else:
            cond = o['treatment']
            g.fit_stochastic(p=[1.0, 0.0], conditional=[cond, cond.replace('==', '!=')], samples=2,
                             predict_missing=o['pm'], seed=0)
    else:
        g.fit(o['treatment'], predict_missing=o['pm'])
    n, pos = len(df), positions(df, g.gf['index'])
    # predictions under the plan for every retained row (predict_missing=False blanks some in predicted_df)
    gp = g.gf.copy()
    gp['A'] = 1 if o['treatment'] == 'all' else 0 if o['treatment'] == 'none' else \
        np.where(eval(o['treatment'], {'g': gp, 'np': np}), 1, 0)
    q = np.asarray(g._outcome_model.predict(gp), dtype=float)
    nu = {'q': full(n, pos, q)}
    if g.predicted_df is not None:      # fit_stochastic publishes no per-row predictions
        nu['shown'] = full(n, pos, np.asarray(g.predicted_df['Y'], dtype=float))
    return {'marginal': float(g.marginal_outcome)}, nu, None


def est_aiptw(df, covs, wcol, o):
    from zepid.causal.doublyrobust import AIPTW
    cols = columns(covs, wcol, o)
    tm, om = specs(covs, o['spec'], o.get('wcov'))
    a = AIPTW(df[cols], exposure='A', outcome='Y', weights=wcol)
    a.exposure_model(gen.sat_cov(covs) + (' + w' if o.get('wcov') else ''), print_results=False)
    if o['miss'] == 'mm':
        a.missing_model(om, print_results=False)
    yt = o['ytype']
    a.outcome_model(om, continuous_distribution='poisson' if yt == 'poisson' else 'gaussian', print_results=False)
    if o.get('hist'):
        a.fit()
    a.fit()
    est = {'RD': a.risk_difference, 'RR': a.risk_ratio} if yt == 'binary' else {'ATE': a.average_treatment_effect}
    n, pos = len(df), positions(df, a.df['index'])
    g1, g0 = np.asarray(a.df['_g1_'], dtype=float), np.asarray(a.df['_g0_'], dtype=float)
    nu = {'q1': full(n, pos, a.df['_pY1_']), 'q0': full(n, pos, a.df['_pY0_']), 'g1': full(n, pos, g1),
          'g0': full(n, pos, g0)}
    if o['miss'] == 'mm':
        nu['m1'] = full(n, pos, a.df['_ipmw_a1_'])
        nu['m0'] = full(n, pos, a.df['_ipmw_a0_'])
    return {k: float(v) for k, v in est.items()}, nu, None


def est_snm(df, covs, wcol, o):
    from zepid.causal.snm import GEstimationSNM
    cols = columns(covs, wcol, o)
    tm, om = specs(covs, o['spec'], o.get('wcov'))
    s = GEstimationSNM(df[cols], exposure='A', outcome='Y', weights=wcol)
    s.exposure_model(tm, print_results=False)
    s.structural_nested_model(o['snm'])
    if o['miss'] == 'mm':
        s.missing_model(om, stabilized=o['stab'], print_results=False)
    if o.get('hist'):
        s.fit(solver='closed')
    s.fit(solver=o.get('solver', 'closed'))
    n, pos = len(df), positions(df, s.df['index'])
    ipmw = np.ones(len(s.df)) if s.ipmw is None else np.asarray(s.ipmw, dtype=float)
    # reference treatment fit with the documented arguments: observed-outcome rows, freq_weights = ipmw x user weight
    d = s.df.copy()
    d['_fw_'] = ipmw * (d[wcol].values if wcol else 1.0)
    d = d.dropna()
    kw = {} if (wcol is None and s.ipmw is None) else {'freq_weights': d['_fw_']}
    ref = smf.glm('A ~ ' + tm, d, family=sm.families.family.Binomial(), **kw).fit()
    pi = np.full(len(s.df), np.nan)
    pi[d.index.values] = np.asarray(ref.predict(d), dtype=float)
    est = {'psi%d' % j: float(v) for j, v in enumerate(np.asarray(s.psi, dtype=float))}
    return est, {'ipmw': full(n, pos, ipmw), 'pi_ref': full(n, pos, pi)}, s.psi_labels


def est_gtransport(df, covs, wcol, o):
    from zepid.causal.generalize import GTransportFormula
    cols = columns(covs, wcol, o, extra=['S'])
    _, om = specs(covs, o['spec'], o.get('wcov'))
    e = GTransportFormula(df[cols], exposure='A', outcome='Y', selection='S', outcome_type=o['ytype'],
                          generalize=o['gen'], weights=wcol)
    e.outcome_model(om, print_results=False)
    if o.get('hist'):
        e.fit()
    e.fit()
    d1, d0 = df.copy(), df.copy()
    d1['A'], d0['A'] = 1, 0
    nu = {'q1': np.asarray(e._outcome_model.predict(d1), dtype=float),
          'q0': np.asarray(e._outcome_model.predict(d0), dtype=float)}
    return {'RD': float(e.risk_difference), 'RR': float(e.risk_ratio)}, nu, None


def est_survival(df, wcol, o):
    from zepid.causal.gformula import SurvivalGFormula
    cols = ['id', 't', 'L1', 'L2', 'A', 'Y'] + (['w'] if (wcol or o.get('wcov')) else [])
    s = SurvivalGFormula(df[cols], idvar='id', exposure='A', outcome='Y', time='t', weights=wcol)
    s.outcome_model(o['model'] + (' + w' if o.get('wcov') else ''), print_results=False)
    if o.get('hist'):
        s.fit('none' if o['treatment'] == 'all' else 'all')
    s.fit(o['treatment'])
    g = s.gf.copy()
    if o['treatment'] == 'all':
        g['A'] = 1
    elif o['treatment'] == 'none':
        g['A'] = 0
    elif o['treatment'] != 'natural':
        g['A'] = np.where(eval(o['treatment'], {'g': g, 'np': np}), 1, 0)
    hz = np.asarray(s._outcome_model.predict(g), dtype=float)
    mo = s.marginal_outcome
    return {'t%d' % int(t): float(v) for t, v in zip(mo.index, mo.values)}, {'hazard': hz}, s.gf


RUNNERS = {'IPTW': est_iptw, 'StochasticIPTW': est_stoch, 'TimeFixedGFormula': est_gformula, 'AIPTW': est_aiptw,
           'GEstimationSNM': est_snm, 'GTransportFormula': est_gtransport}


# ------------------------------------------------------------------ model (gate K)
def rows_k(df, covs, wcol='w', obs=None):
    sid = gen.strata_ids(df, covs)
    kw = dict(s=enc_list(sid.tolist(), str), a=enc_list(df['A'].fillna(0).astype(int).tolist(), str),
              y=','.join('_' if np.isnan(v) else rq(float(v)) for v in df['Y'].tolist()),
              k=enc_list(df[wcol].astype(int).tolist(), str))
    if obs is not None:
        kw['obs'] = enc_list([int(v) for v in obs], str)
    return kw


def encv(arr, fill=0.0):
    return enc_list(np.where(np.isnan(arr), fill, arr), lambda v: rq(float(v)))


def model_case(drv, which, df, covs, o, nu, aux):
    """exact model on the weighted run's own fitted values -> (dict of model estimates on the weighted data,
    flag: model on weighted == model on replicated, reply)"""
    F = Fraction
    if which == 'IPTW':
        rep, _ = drv.ask('c09', est='iptw', stab=int(o['stab']), tgt=o['tgt'], n=encv(nu['n']), d=encv(nu['d'], 0.5),
                         mw=encv(nu['mw']), **rows_k(df, covs))
        if rep['status'] != 'ok':
            return None, False, rep
        m1, m0 = F(rep['w_m1']), F(rep['w_m0'])
        yt = o['ytype']
        if yt == 'binary':
            me = {'RD': m1 - m0, 'RR': m1 / m0, 'OR': (m1 / (1 - m1)) / (m0 / (1 - m0)), 'm0': m0}
        elif yt == 'normal':
            me = {'ATE': m1 - m0, 'm0': m0}
        else:
            me = {'ratio': m1 / m0, 'm0': m0}
    elif which == 'StochasticIPTW':
        keep = ~np.isnan(df['Y'].values)            # drop-everything estimator: the model sees the complete cases
        d2 = df.loc[keep].reset_index(drop=True)
        rep, _ = drv.ask('c09', est='stoch', omega=encv(nu['omega'][keep]), **rows_k(d2, covs))
        if rep['status'] != 'ok':
            return None, False, rep
        me = {'marginal': F(rep['w_m'])}
    elif which == 'TimeFixedGFormula':
        rep, _ = drv.ask('c09', est='gform', tgt=o['tgt'], pm=int(o['pm']), q1=encv(nu['q']), q0=encv(nu['q']),
                         **rows_k(df, covs))
        if rep['status'] != 'ok':
            return None, False, rep
        me = {'marginal': F(rep['w_g1'])}
    elif which == 'AIPTW':
        g1 = nu['g1'] * nu['m1'] if 'm1' in nu else nu['g1']
        g0 = nu['g0'] * nu['m0'] if 'm0' in nu else nu['g0']
        rep, _ = drv.ask('c09', est='aipw', q1=encv(nu['q1']), q0=encv(nu['q0']), g1=encv(g1, 1.0), g0=encv(g0, 1.0),
                         **rows_k(df, covs))
        if rep['status'] != 'ok':
            return None, False, rep
        if o['ytype'] == 'binary':
            me = {'RD': F(rep['w_diff']), 'RR': F(rep['w_am1']) / F(rep['w_am0'])}
        else:
            me = {'ATE': F(rep['w_diff'])}
    elif which == 'GEstimationSNM':
        nv = len(aux)
        vs = {'v0': enc_list([1] * len(df), str)}
        if nv == 2:
            vs['v1'] = enc_list(df['L1'].astype(int).tolist(), str)
        rep, _ = drv.ask('c09', est='snm', omega=encv(nu['ipmw']), pi=encv(nu['pi_ref']), nv=nv, **vs,
                         **rows_k(df, covs))
        if rep['status'] != 'ok':
            return None, False, rep
        # the entries regenerated from _closed_form_solver_ / fit (Gen/Snm.lean) equal the hand-written model's, on both
        # data sets (they are also part of the `same` flag: weighted == replicated)
        gen_ok = all(rep.get('%s_gl%d%d' % (t, j, k)) == rep['%s_l%d%d' % (t, j, k)] for t in 'wr'
                     for j in range(nv) for k in range(nv)) and \
            all(rep.get('%s_gr%d' % (t, j)) == rep['%s_r%d' % (t, j)] for t in 'wr' for j in range(nv))
        if not gen_ok:
            return None, False, dict(rep, status='err generated lhm/rha differ from the model')
        if nv == 1:
            me = {'psi0': F(rep['w_psi1'])}
        else:           # exact 2x2 solve of the model's lhm / rha (np.linalg.solve is the external)
            a, b, c, d = (F(rep['w_l%d%d' % jk]) for jk in ((0, 0), (0, 1), (1, 0), (1, 1)))
            r0, r1 = F(rep['w_r0']), F(rep['w_r1'])
            det = a * d - b * c
            me = {'psi0': (r0 * d - b * r1) / det, 'psi1': (a * r1 - c * r0) / det}
    elif which == 'GTransportFormula':
        # the model's `obs` flag marks the study sample here; outcomes are not read by g-transport (only predictions)
        rep, _ = drv.ask('c09', est='gtrans', gen=int(o['gen']), q1=encv(nu['q1']), q0=encv(nu['q0']),
                         **rows_k(df.assign(Y=0.0), covs, obs=df['S'].values))
        if rep['status'] != 'ok':
            return None, False, rep
        r1, r0 = F(rep['w_r1']), F(rep['w_r0'])
        me = {'RD': r1 - r0, 'RR': r1 / r0}
        # the definition regenerated from GTransportFormula.fit (Gen/Transport.lean) returns the same pair
        if not ('w_grd' in rep and F(rep['w_grd']) == me['RD'] and F(rep['w_grr']) == me['RR']):
            return None, False, dict(rep, status='err generated gtransport_fit differs from the model')
    else:
        return None, False, {'status': 'err'}
    small = {k: v for k, v in rep.items() if len(v) < 60}
    return me, rep.get('same') == '1', small


# ------------------------------------------------------------------ one cell
def href(df, covs, rep, first):
    """gate H: reference weighted fit on the data vs unweighted fit on the replicated rows (treatment and outcome
    model, main effects): same fitted values, and the weighted score equations hold"""
    fam = sm.families.family.Binomial()
    main = ' + '.join('C(%s)' % c for c in covs)
    mw = smf.glm('A ~ ' + main, df, family=fam, freq_weights=df['w'].astype(float)).fit()
    mr = smf.glm('A ~ ' + main, rep, family=fam).fit()
    pw, pr = np.asarray(mw.predict(df)), np.asarray(mr.predict(rep))[first]
    score = np.abs(mw.model.exog.T @ (df['w'].values * (df['A'].values - pw))).max()
    return bool(np.allclose(pw, pr, rtol=0, atol=1e-9) and score <= 1e-7 * len(df))


def compare(chk, drv, which, o, df, covs, rep, first, case):
    """never lets an exception out: whatever zEpid raises on a generated (valid) data set, or hands back in a form the
    check cannot digest, is a property failure with the case attached"""
    try:
        _compare(chk, drv, which, o, df, covs, rep, first, case)
    except Exception as ex:       # noqa: BLE001
        import traceback
        chk.d(False, '%s: weighted or replicated run raised / returned something the check could not digest' % which,
              dict(case, error=repr(ex)[:300],
                   traceback=''.join(traceback.format_exception(type(ex), ex, ex.__traceback__))[-1500:]))


def _compare(chk, drv, which, o, df, covs, rep, first, case):
    run = RUNNERS[which]
    ew, nw, aux = run(df, covs, 'w', o)
    er, nr, _ = run(rep, covs, None, o)
    case['weighted'], case['replicated'] = ew, er
    dtol = STOL if o.get('solver') == 'search' else DTOL
    ok = set(ew) == set(er) and all(close(ew[k], er[k], **dtol) for k in ew)
    chk.d(ok, '%s: weights column vs physically replicated rows give the same point estimates' % which, case)
    # K, nuisance layer: the fitted values of the weighted run are those of the replicated run, row for row
    good = True
    for name in nw:
        a, b = np.asarray(nw[name], dtype=float), np.asarray(nr[name], dtype=float)[first]
        good = good and bool(np.array_equal(np.isnan(a), np.isnan(b)) and
                             np.allclose(np.nan_to_num(a), np.nan_to_num(b), **NTOL))
    chk.k(good, '%s: nuisance fitted values with weights = fitted values on replicated rows (first copies)' % which,
          case)
    # K, arithmetic layer: exact model on the weighted run's fitted values = reported estimates; model(weighted) ==
    # model(replicated) exactly
    if drv is not None and o.get('msm') != 'modifier':      # the modifier MSM is a regression, not an arm mean
        me, same, small = model_case(drv, which, df, covs, o, nw, aux)
        ktol = dict(rtol=1e-3, atol=1e-3) if o.get('solver') == 'search' else KTOL     # search: approximate root
        ok = me is not None and set(me) == set(ew) and all(close(float(me[k]), ew[k], **ktol) for k in ew)
        chk.k(ok, '%s: exact model on the fitted values = reported point estimates' % which, dict(case, model=small))
        chk.k(bool(same), '%s: model on (rows, weights) == model on replicated rows, exactly' % which,
              dict(case, model=small))


def cells(which, ytype, missing, covs, rng, tier):
    """option cells of one estimator for one data set (enumerated; the model specification is randomised)"""
    spec = lambda: str(rng.choice(['sat', 'main']))
    miss_modes = ['none'] if missing is None else ['cc', 'mm']
    out = []
    if which == 'IPTW':
        for stab in (True, False):
            for tgt in ('population', 'exposed', 'unexposed'):
                for mm in miss_modes:
                    out.append(dict(stab=stab, tgt=tgt, miss=mm, spec=spec(), ytype=ytype))
        if ytype == 'normal':     # non-saturated MSM with a modifier: the numerator model's weights matter here
            for mm in miss_modes:
                out.append(dict(stab=True, tgt='population', miss=mm, spec=spec(), ytype=ytype, msm='modifier'))
    elif which == 'StochasticIPTW':
        out.append(dict(plan='marginal', p=[float(rng.choice([0.25, 0.5, 0.8]))], spec=spec(), ytype=ytype))
        out.append(dict(plan='conditional', p=[0.2, 0.7], spec=spec(), ytype=ytype))
    elif which == 'TimeFixedGFormula':
        custom = "g['%s']==0" % covs[0]
        for tgt in ('population', 'exposed', 'unexposed'):
            trts = ['all', 'none', custom] if tier == 'thorough' else [str(rng.choice(['all', 'none'])), custom]
            for tr in trts:
                for pm in ((True, False) if missing else (True,)):
                    out.append(dict(tgt=tgt, treatment=tr, pm=pm, spec=spec(), ytype=ytype))
                    if rng.integers(0, 2):      # the stochastic entry point, deterministic plan (p = 1 / 0 / [1, 0])
                        out[-1]['stoch'] = True
    elif which == 'AIPTW':
        for mm in miss_modes:
            out.append(dict(miss=mm, spec=spec(), ytype=ytype))
    elif which == 'GEstimationSNM':
        for snm in ('A', 'A + A:L1'):
            for mm in miss_modes:
                for stab in ((True, False) if mm == 'mm' else (True,)):
                    out.append(dict(snm=snm, miss=mm, stab=stab, spec=spec(), ytype=ytype))
        # the Nelder-Mead solver (refits the weighted treatment model at every psi): every data set in the thorough
        # tier, one in three in the quick tier (each search costs ~150 GLM fits)
        if tier == 'thorough' or rng.integers(0, 3) == 0:
            out.append(dict(snm='A', miss=miss_modes[-1], stab=True, spec=spec(), ytype=ytype, solver='search'))
    elif which == 'GTransportFormula':
        for g in (True, False):
            out.append(dict(gen=g, spec=spec(), ytype=ytype))
    # history on the one object (the documented workflows: several plans / marginal structural models in a row, a
    # second fit()): a third of the cells fit a fresh object, the others refit after an earlier fit
    for o in out:
        h = [None, 'twice', 'respec'][int(rng.integers(0, 3))]
        if h:
            o['hist'] = h
    # the variable that serves as weights is a design variable (household size, cluster size) and as such often also a
    # covariate of the nuisance models: one cell in three has it in every model formula (the replicated frame then
    # keeps the column as an ordinary variable).  Weighting must not alter the values the models are evaluated at.
    for o in out:
        if rng.integers(0, 3) == 0:
            o['wcov'] = True
    return out


def one_dataset(chk, drv, rng, ytype, missing, tier, which_list):
    seed = int(rng.integers(0, 2 ** 31))
    df, covs = make_data(seed, ytype, missing)
    rep, first = replicate(df)
    rec = gen.describe(df, covs, outcome=ytype, missing=missing, data_seed=seed, kind='cat',
                       n_replicated=int(len(rep)), weight_dtype=str(df['w'].dtype))
    chk.h_checked += 1
    if not href(df, covs, rep, first):
        chk.discard('reference weighted / replicated GLM fits differ by > 1e-9 or miss the score equations')
        return
    cfw, cf1 = gen.closed_form(df, covs, 'w'), gen.closed_form(df, covs)
    nontriv = df['w'].nunique() > 1 and abs(float(cfw[('population', 1)] - cf1[('population', 1)])) > 1e-9
    if drv is not None:       # the model's closed form: weighted == replicated exactly, == independent Fractions
        r, _ = drv.ask('c09', est='std', **rows_k(df, covs))
        ok = r['status'] == 'ok' and r.get('same') == '1' and all(
            Fraction(r['w_%s%d' % (t, a)]) == cfw[(t, a)] for t in ('population', 'exposed', 'unexposed') for a in (0, 1))
        chk.k(ok, 'Lean std on weighted == on replicated rows (exact) == independent closed form', {'data': rec})
    for which in which_list:
        # (the missing-outcome cells only when the draw left at least one outcome missing)
        for o in cells(which, ytype, missing if df['Y'].isna().any() else None, covs, rng, tier):
            case = {'estimator': which, 'options': o, 'data': rec}
            key = (seed, which, tuple(sorted((k, str(v)) for k, v in o.items())))
            chk.case(case, key if nontriv else None, sample=case if chk.evals % 41 == 0 else None)
            chk.count('%s/%s/%s' % (which, ytype, '/'.join('%s=%s' % (k, v) for k, v in sorted(o.items())
                                                             if k in ('stab', 'tgt', 'miss', 'pm', 'plan', 'snm', 'gen', 'msm', 'hist', 'stoch', 'solver', 'wcov'))))
            compare(chk, drv, which, o, df, covs, rep, first, case)


def one_transport(chk, drv, rng, ytype, missing, tier):
    seed = int(rng.integers(0, 2 ** 31))
    df, covs = make_transport(seed, ytype, missing)
    rep, first = replicate(df)
    rec = {'n': int(len(df)), 'n_replicated': int(len(rep)), 'outcome': ytype, 'missing': missing, 'data_seed': seed,
           'kind': 'transport', 'strata': int(len(set(gen.strata_ids(df, covs).tolist())))}
    for o in cells('GTransportFormula', ytype, missing if df['Y'].isna().any() else None, covs, rng, tier):
        case = {'estimator': 'GTransportFormula', 'options': o, 'data': rec}
        chk.case(case, (seed, 'GT', o['gen'], o['spec'], bool(o.get('wcov'))) if df['w'].nunique() > 1 else None)
        chk.count('GTransportFormula/%s/gen=%s%s%s' % (ytype, o['gen'], '/miss' if missing else '',
                                                        '/wcov' if o.get('wcov') else ''))
        compare(chk, drv, 'GTransportFormula', o, df, covs, rep, first, case)


SURV_MODELS = ['A + L1 + C(L2) + t', 'A*L1 + C(t)', 'A + L1 + t + I(t**2)']


def one_survival(chk, drv, rng, tier, o=None, seed=None, wmode=None):
    seed = int(rng.integers(0, 2 ** 31)) if seed is None else seed
    wmode = ['person', 'decreasing'][int(rng.integers(0, 2))] if wmode is None else wmode
    df = make_survival(seed, wmode)
    rep = replicate_persons(df, np.random.default_rng(seed + 1))
    rec = {'persons': int(df['id'].nunique()), 'rows': int(len(df)), 'rows_replicated': int(len(rep)),
           'data_seed': seed, 'kind': 'survival', 'wmode': wmode,
           'persons_with_changing_weight': int((df.groupby('id')['w'].nunique() > 1).sum())}
    opts = [o] if o is not None else [dict(treatment=t, model=str(rng.choice(SURV_MODELS)),
                                           **({'hist': 'refit'} if rng.integers(0, 2) else {}),
                                           **({'wcov': True} if rng.integers(0, 3) == 0 else {}))
                                      for t in ('all', 'none', 'natural', "g['L1']==1")]
    for o in opts:
        case = {'estimator': 'SurvivalGFormula', 'options': o, 'data': rec}
        chk.case(case, (seed, 'SGF', wmode, o['treatment'], o['model'], bool(o.get('wcov'))))
        chk.count('SurvivalGFormula/%s%s/w=%s%s' % (o['treatment'], '/refit' if o.get('hist') else '', wmode,
                                                   '/wcov' if o.get('wcov') else ''))
        try:
            ew, nw, gf = est_survival(df, 'w', o)
            er, _, _ = est_survival(rep, None, o)
        except Exception as ex:       # noqa: BLE001
            chk.d(False, 'SurvivalGFormula: weighted or replicated run raised on a valid data set',
                  dict(case, error=repr(ex)[:300]))
            continue
        case['weighted'], case['replicated'] = ew, er
        chk.d(set(ew) == set(er) and all(close(ew[k], er[k], **DTOL) for k in ew),
              'SurvivalGFormula: person weights vs replicated persons give the same cumulative incidence', case)
        if drv is not None:
            # row-level weights: the model whose copies keep the rows a copy still has (theorem survival_replicate_rows)
            r, _ = drv.ask('c09surv' if wmode == 'person' else 'c09survrows', pid=enc_list(gf['id'].tolist(), str), t=enc_list(gf['t'].tolist(), str),
                           h=enc_list(nw['hazard'], lambda v: rq(float(v))), k=enc_list(gf['w'].astype(int).tolist(), str),
                           times=enc_list(sorted(int(k[1:]) for k in ew), str))
            ok = r['status'] == 'ok' and all(close(float(Fraction(r['w_' + k])), ew[k], **KTOL) for k in ew) and \
                r.get('mono', '1') == '1'        # (hypothesis of survival_replicate_rows holds for the generated data)
            chk.k(ok, 'SurvivalGFormula: exact model on the predicted hazards = reported cumulative incidence', case)
            chk.k(r.get('same') == '1', 'SurvivalGFormula: model on (persons, weights) == model on replicated persons',
                  case)


def run(chk, drv, rng, tier):
    reps = 3 if tier == 'quick' else 20
    main = ['IPTW', 'StochasticIPTW', 'TimeFixedGFormula', 'AIPTW', 'GEstimationSNM']
    for _ in range(reps):
        for ytype in ('binary', 'normal', 'poisson'):
            for missing in (None, 'mcar', 'mar'):
                one_dataset(chk, drv, rng, ytype, missing, tier, main)
                one_transport(chk, drv, rng, ytype, missing if missing != 'mar' else None, tier)
        for _ in range(3):
            one_survival(chk, drv, rng, tier)


def replay(rec):
    import common
    n = 0
    for f in rec.get('failures', []):
        c = f['case']
        o, data = c['options'], c['data']
        chk = common.Check('C09', 'quick', rec.get('seed', 0))
        with common.quiet():
            if data['kind'] == 'survival':
                one_survival(chk, None, None, 'quick', o=o, seed=data['data_seed'], wmode=data.get('wmode', 'person'))
            else:
                mk = make_transport if data['kind'] == 'transport' else make_data
                df, covs = mk(data['data_seed'], data['outcome'], data['missing'])
                rp, first = replicate(df)
                compare(chk, None, c['estimator'], o, df, covs, rp, first, {'estimator': c['estimator'], 'options': o})
        for g in chk.d_fail + chk.k_fail:
            print(g['gate'], g['what'], '| options', o, '| weighted', g['case'].get('weighted'), '| replicated',
                  g['case'].get('replicated'))
        n += len(chk.d_fail)
    print('failures reproduced:', n)
    return 1 if n else 0
