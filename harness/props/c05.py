"""C05 -- inverse probability weights equal their documented definitions (IPTW, StochasticIPTW, IPMW, IPCW)."""
import itertools
import math
import sys
import warnings
from fractions import Fraction

import numpy as np
import pandas as pd
import statsmodels.api as sm
import statsmodels.formula.api as smf

import gen
from common import fx, unfx, rq, enc_list, close

REQUIRED = ['iptw_weight_spec', 'smr_is_odds', 'iptw_bounded_spec', 'iptw_bound_collection_spec', 'outcome_ipmw_spec', 'stoch_numer',
            'stoch_weight_spec', 'ipmw_monotone', 'ipmw_unobserved_none', 'ipmw_fit_sets', 'ipmw_uniform_collapse',
            'ipmw_recovers_n', 'ipcw_cumprod', 'ipcw_time_order', 'ipcw_subject_local', 'sort_sorted_perm',
            'uncensored_char', 'flat_uncensored_char',
            # ties to the source (Props/C05_Gen, C05_Ipcw, C05_Ipmw): generated definitions = the model
            'stoch_iptw_fit_generated', 'stoch_numer_generated', 'stoch_weight_generated',
            'ipcw_uncensored_generated', 'ipcw_weights_generated', 'uncensored_char_generated', 'flat_uncensored_generated',
            'ipcw_cumprod_generated', 'ipcw_subject_local_generated',
            'ipmw_weight_generated', 'ipmw_monotone_generated', 'ipmw_unobserved_none_generated', 'ipmw_recovers_n_generated']
RULE = ('IPTW: random data sets (n 150-400) with a 2-3 level categorical, a binary and a continuous predictor, every '
        'cell of weights x standardize(3) x {unstabilized, stabilized x numerator model(2)} x bound(none, symmetric '
        'float, asymmetric pair) on a fresh IPTW object; IPTW.missing_model: stabilized x numerator x bound on data with '
        'outcome missingness depending on treatment and covariates; StochasticIPTW: p grid incl. 0 and 1 and 2-3 '
        'exclusive exhaustive conditions; histories on ONE IPTW object (re-specified treatment / missing models, diagnostics, '
        'repeated fit) judged after every step against the documented weights of the last specification and against a '
        'fresh object; rare / near-universal treatment (marginal numerator outside the truncation bounds); fixed-width '
        'integer columns with string or repeated row labels; IPMW: every monotone pattern type over 1-3 variables (each adjacent pair strict '
        'or uniform: 7 types) x stabilized x index labelling (default / shifted / shuffled) x model-list length, plus a '
        'malformed stream (non-monotone rows incl. one confined to the first row, a variable without NaN); IPCW: long '
        'person-period tables (10-60 subjects, 2-7 unit intervals, fractional last interval, administrative censoring '
        'at the maximum time) given sorted and shuffled with default and non-default index labels, and flat tables '
        'through _dataprep; every documented spelling of `bound` for treatment_model / missing_model (tuple, a limit of '
        'exactly 0 or 1 as float and as int, collections of 3-4 entries with trailing entries above / below / between the '
        'limits or equal to 0, numpy.float64 scalars, equal limits, [0, 1], the falsy 0.0) with limits drawn from the data '
        'set\'s own fitted probabilities, x target x stabilization; data sets of ordinary cohort size, regenerated from a '
        'stored recipe on replay: one long IPCW table of 3000-4000 subjects (>= 10^4 person-period rows, product of all '
        'fitted probabilities below the smallest double), one IPTW and one IPMW data set of 4000-9000 rows (more and '
        'larger in the thorough tier).  distinct = (frame hash, class, options); non-trivial = weights are not all equal and, for '
        'bounded cells, at least one prediction is actually clipped / for IPMW at least two fitted factors or a '
        'collapsed uniform pair / for IPCW at least one subject censored before the maximum time')
ASSUMPTIONS = ['statsmodels GLM (Binomial, logit, optional freq_weights) returns the maximum-likelihood fit: measured on a '
               'reference invocation made by the harness with the documented formula / rows / weights (converged, score '
               'equations |X^T w (y-mu)| <= 1e-7 n, fitted values inside (1e-6, 1-1e-6)); a case is discarded only when '
               'that reference fit fails',
               'pandas sort_values(by=[id, time]) orders rows by (id, time); ties in (id, time) do not occur in valid '
               'long tables and are not generated',
               'floating point: model at Float on the same fitted values agrees to 1e-12 relative (same operations in '
               'the same order); documented formula from the reference fit agrees to 1e-9 relative (same MLE)']

TOLK = dict(rtol=1e-11, atol=0.0)     # same arithmetic on the same fitted values
TOLD = dict(rtol=1e-9, atol=1e-12)    # documented formula evaluated at an independent reference fit


# ------------------------------------------------------------------------------------------- helpers
def ref_fit(chk, formula, data, wcol=None):
    """reference invocation of the documented model (gate H).  Returns the fit or None (discard)."""
    kw = {'freq_weights': data[wcol]} if wcol else {}
    try:
        with warnings.catch_warnings():
            warnings.simplefilter('ignore')
            m = smf.glm(formula, data, family=sm.families.family.Binomial(), **kw).fit()
    except Exception as e:           # separation etc.
        chk.discard('reference GLM fit raised %s' % type(e).__name__)
        return None
    chk.h_checked += 1
    X, y, mu = m.model.exog, m.model.endog, np.asarray(m.fittedvalues)
    w = np.asarray(m.model.freq_weights, dtype=float)
    g = X.T @ (w * (y - mu))
    if not (m.converged and np.all(np.abs(g) <= 1e-7 * max(1.0, w.sum())) and mu.min() > 1e-6 and mu.max() < 1 - 1e-6):
        chk.discard('reference GLM fit missed its score equations / is near separation')
        return None
    return m


def allclose(a, b, rtol, atol):
    a = np.asarray(a, dtype=float)
    b = np.asarray(b, dtype=float)
    if a.shape != b.shape:
        return False
    na, nb = np.isnan(a), np.isnan(b)
    if not np.array_equal(na, nb):
        return False
    return bool(np.all(np.abs(a[~na] - b[~nb]) <= atol + rtol * np.maximum(np.abs(a[~na]), np.abs(b[~nb]))))


def fxs(v):
    return enc_list(np.asarray(v, dtype=float).tolist(), fx)


def fxo(v):
    return ','.join('_' if (x is None or (isinstance(x, float) and math.isnan(x))) else fx(x)
                    for x in np.asarray(v, dtype=float).tolist()) or '[]'


def unf_opt(s):
    return np.array([np.nan if t == '_' else unfx(t) for t in s.split(',')]) if s not in ('', '[]') else np.array([])


def bits(v):
    return enc_list([int(bool(x)) for x in v], str)


def relabel(df, rng, how):
    df = df.copy()
    if how == 'shifted':
        df.index = np.arange(len(df)) + 1000
    elif how == 'shuffled':
        df.index = rng.permutation(len(df)) + 3
    return df


def clip(v, bound):
    v = np.array(v, dtype=float)
    if bound is False or bound is None:
        return v
    lo, hi = (bound, 1 - bound) if isinstance(bound, float) else (bound[0], bound[1])
    return np.minimum(np.maximum(v, lo), hi)


def bound_kw(bound):
    if not bound:
        return {}
    lo, hi = (bound, 1 - bound) if isinstance(bound, float) else (bound[0], bound[1])
    return {'lo': fx(lo), 'hi': fx(hi)}


def bound_object(bound, form=None):
    """the object handed to zEpid as `bound`.  A cell records the bound as JSON-able values (False, a float, or a list of
    floats whose FIRST TWO entries are the documented limits) plus the spelling `form`, so that a replay hands over the
    same kind of object: 'tuple' (a tuple), 'npfloat' (numpy.float64 scalar(s)), 'int-ends' (limits equal to 0.0 / 1.0
    written as the Python ints 0 / 1), None (the values as they are: a float or a list)."""
    if form in (None, 'plain') or bound is False or bound is None:
        return bound
    if form == 'tuple':
        return tuple(bound)
    if form == 'npfloat':
        return np.float64(bound) if isinstance(bound, float) else [np.float64(v) for v in bound]
    if form == 'int-ends':
        return [int(v) if v in (0.0, 1.0) else v for v in bound]
    raise ValueError('unknown bound form %r' % (form,))


def bound_kind(bound, form):
    """label of a spelling for the input-distribution counters"""
    if not bound:
        return 'falsy-float' if bound == 0.0 and bound is not False else 'none'
    if isinstance(bound, float):
        return 'float' + ('/' + form if form else '')
    k = 'pair' if len(bound) == 2 else 'longer(%d)' % len(bound)
    k += '/lower=0' if bound[0] == 0.0 else ''
    k += '/upper=1' if bound[1] == 1.0 else ''
    k += '/equal' if bound[0] == bound[1] else ''
    k += '/zero-in-tail' if any(v == 0.0 for v in bound[2:]) else ''
    return k + '/' + (form or 'list')


def bound_spec(bobj):
    """(spec, falsy) of a bound object for the Lean model (`Bounds.BoundSpec`, `Bounds.estimatorBound`): `falsy` is
    Python's own truth value of the object (the documented default False, and 0.0, mean no truncation)."""
    if not bobj:
        return 'other', 1
    if isinstance(bobj, float):
        return 'float:' + fx(float(bobj)), 0
    return 'seq:' + ';'.join(fx(float(v)) for v in bobj), 0


def bound_forms(rng, p_raw):
    """the family of documented spellings of `bound` ("a single float assumes symmetric truncation, a collection of floats
    can be provided for asymmetric truncation"; probability_bounds: "only the first two specified bounds are used"),
    with limits drawn inside the range of the data set's own fitted probabilities so that each limit that is not 0 / 1
    actually truncates something: tuples, one-sided truncation (a limit of exactly 0 or exactly 1, as float and as
    int), collections longer than two entries (trailing entries above, below and between the limits), numpy float
    scalars, equal limits, the no-op pair [0, 1] and the falsy float 0.0.  -> list of (values, form)"""
    q = np.quantile(np.asarray(p_raw, dtype=float), [0.12, 0.35, 0.65, 0.88])
    lo = float(np.round(rng.uniform(q[0], q[1]), 2))
    hi = float(np.round(rng.uniform(q[2], q[3]), 2))
    lo, hi = min(max(lo, 0.02), 0.9), min(max(hi, 0.1), 0.98)
    if not lo < hi:
        lo, hi = 0.3, 0.7
    above = float(np.round(rng.uniform(hi, 1.0), 2))
    below = float(np.round(rng.uniform(0.0, lo), 2))
    between = float(np.round(rng.uniform(lo, hi), 2))
    mid = float(np.round(rng.uniform(lo, hi), 2))
    sym = float(np.round(min(lo, 1 - hi, 0.45), 2)) or 0.05
    return [([lo, hi], 'tuple'),
            ([0.0, hi], None), ([0.0, hi], 'tuple'), ([0.0, hi], 'int-ends'),
            ([lo, 1.0], None), ([lo, 1.0], 'int-ends'),
            ([lo, hi, above], None), ([lo, hi, below], 'tuple'), ([lo, hi, between, above], None),
            ([0.0, hi, above, below], 'tuple'), ([lo, hi, 0.0], None), ([lo, hi, 1.0, 0.5], 'int-ends'),
            ([lo, hi], 'npfloat'), (sym, 'npfloat'),
            ([mid, mid], None), ([0.0, 1.0], None), ([0.0, 1.0], 'int-ends'), (0.0, None)]


def frame_hash(df):
    return hash(df.to_csv())


def guard(chk, kind, cfg, rec, fn, *args):
    """run one cell; an exception raised inside zEpid on a valid input is a failure of the property (no weights were
    produced); an exception raised while the harness digests zEpid's output (NaN where a number must be, wrong shape,
    missing attribute) is one as well.  Both are recorded as D failures with a replayable case, never a tool failure."""
    import traceback
    import common
    try:
        fn(chk, *args)
    except Exception as e:
        frames = traceback.extract_tb(e.__traceback__)
        where = 'raised' if any(f.filename.startswith(common.REPO + '/zepid') for f in frames) else \
            'returned something the check cannot digest:'
        chk.case({'kind': kind, 'cfg': cfg}, None)
        chk.d(False, '%s %s %s on a valid input: %s' % (kind, where, type(e).__name__, str(e)[:120]),
              {'kind': kind, 'cfg': cfg, 'data': rec, 'traceback': traceback.format_exc()[-1500:]})


# ------------------------------------------------------------------------------------------- IPTW
def mixed_dataset(rng, missing=False, prevalence=None, n=None):
    """prevalence: None (around 0.45) | 'low' (Pr(A=1) about 0.08) | 'high' (about 0.92): rare / near-universal treatment,
    so that a marginal numerator probability falls outside ordinary truncation bounds"""
    if n is None:
        n = int(rng.integers(150, 400)) if prevalence is None else int(rng.integers(400, 700))
    k1 = int(rng.integers(2, 4))
    L1 = rng.integers(0, k1, size=n)
    L2 = rng.integers(0, 2, size=n)
    x = np.round(rng.normal(0, 1, size=n), 3)
    b = rng.uniform(-0.6, 0.6, size=4)
    lin = -0.2 + b[0] * L2 + b[1] * (L1 == 1) + b[2] * (L1 == 2) + (0.3 + abs(b[3])) * x
    lin = lin + {None: 0.0, 'low': -2.4, 'high': 2.4}[prevalence]
    A = (rng.uniform(size=n) < 1 / (1 + np.exp(-lin))).astype(int)
    py = 1 / (1 + np.exp(-(-0.5 + 0.7 * A + 0.4 * L2 - 0.3 * x)))
    Y = (rng.uniform(size=n) < py).astype(float)
    df = pd.DataFrame({'L1': L1, 'L2': L2, 'x': x, 'A': A, 'Y': Y})
    df['w'] = rng.integers(1, 4, size=n)
    df['wf'] = np.round(rng.uniform(0.3, 2.7, size=n), 2)      # fractional, not mean one, varying inside cells
    if missing:
        pm = 1 / (1 + np.exp(-(-1.6 + 0.6 * A + 0.5 * L2 + 0.4 * x)))
        df.loc[rng.uniform(size=n) < pm, 'Y'] = np.nan
    return df


def iptw_documented(A, p, q, stab, tgt):
    """the documented weights (class docstring): p = Pr(A=1|L), q = Pr(A=1|numerator covariates)"""
    A = np.asarray(A) == 1
    if tgt == 'population':
        num1, num0 = (q, 1 - q) if stab else (1.0, 1.0)
        return np.where(A, num1 / p, num0 / (1 - p))
    if tgt == 'exposed':        # SMR: 1 for the exposed, odds of exposure for the unexposed (x stabilization factor)
        return np.where(A, 1.0, p / (1 - p) * (((1 - q) / q) if stab else 1.0))
    return np.where(A, (1 - p) / p * ((q / (1 - q)) if stab else 1.0), 1.0)


DENOMS = ['C(L1) + L2 + x', 'L2 + x + I(x**2)']
NUMERS = ['1', 'C(L1)']
BOUNDS = [False, 0.3, [0.35, 0.6]]


def iptw_cell(chk, drv, df, cfg, refs, dsid, rec):
    from zepid.causal.ipw import IPTW
    wcol, tgt, stab, numer, bound, denom = (cfg[k] for k in ('weights', 'standardize', 'stabilized', 'numerator',
                                                                 'bound', 'denominator'))
    case = {'kind': 'IPTW', 'cfg': cfg, 'data': rec}
    md = refs('A ~ ' + denom, wcol)
    mn = refs('A ~ ' + numer, wcol) if stab else None
    if md is None or (stab and mn is None):
        return
    dfp = df.reset_index(drop=True)
    p_raw = np.asarray(md.predict(dfp))
    q_raw = np.asarray(mn.predict(dfp)) if stab else np.ones(len(df))
    p, q = clip(p_raw, bound), clip(q_raw, bound)
    clipped = bool(np.any(p != p_raw))
    cols = ['L1', 'L2', 'x', 'A', 'Y'] + ([wcol] if wcol else [])
    form = cfg.get('bound_form')
    bobj = bound_object(bound, form)        # the spelling of the bound handed over (tuple, numpy scalars, ints 0 / 1, ...)
    with warnings.catch_warnings():
        warnings.simplefilter('ignore')     # "only the first two specified bounds are used" (documented, longer collections)
        if cfg.get('positional'):
            ipt = IPTW(df[cols], 'A', 'Y', wcol, tgt)
            ipt.treatment_model(denom, numer, stab, bobj, False)
        else:
            ipt = IPTW(df[cols], treatment='A', outcome='Y', weights=wcol, standardize=tgt)
            ipt.treatment_model(denom, model_numerator=numer, stabilized=stab, bound=bobj, print_results=False)
    got = np.asarray(ipt.iptw, dtype=float)
    want = iptw_documented(df['A'].values, p, q, stab, tgt)
    nontriv = len(set(np.round(got, 9))) > 2 and (clipped or not bound)
    chk.case(case, (dsid, 'IPTW', repr(sorted(cfg.items(), key=str))) if nontriv else None,
             sample={'kind': 'IPTW', 'cfg': cfg, 'n': len(df)} if chk.evals % 53 == 0 else None)
    chk.count('IPTW/%s/%s/num=%s/bound=%s%s' % (tgt, 'stab' if stab else 'unstab', numer if stab else '-',
                                                 'none' if not bound else ('sym' if isinstance(bound, float) else 'asym'),
                                                 '/w' if wcol else ''))
    if 'bound_kind' in cfg:
        chk.count('IPTW/bound-form/%s%s' % (cfg['bound_kind'], '/truncating' if clipped else ''))
    case['impl_head'] = got[:6].tolist()
    chk.d(allclose(got, want, **TOLD), 'IPTW.iptw = documented weight formula at the ML predictions (%s, %s)'
          % (tgt, 'stabilized' if stab else 'unstabilized'), dict(case, want_head=want[:6].tolist()))
    # K, nuisance layer: the probabilities zEpid stores are the (bounded) reference predictions
    ok = allclose(ipt.df['__denom__'].values, p, **TOLD)
    if stab:
        ok = ok and allclose(ipt.df['__numer__'].values, q, **TOLD)
    chk.k(ok, 'IPTW stored probabilities = bounded reference ML predictions', case)
    if drv is not None:
        # K, arithmetic layer 1: generated formula on zEpid's own stored probabilities
        nn = np.broadcast_to(np.asarray(ipt.df['__numer__'].values, dtype=float), got.shape)
        rep, _ = drv.ask('iptww', c='f', stab=int(stab), tgt=tgt, a=bits(ipt.df['A'].values),
                         n=fxs(nn), d=fxs(ipt.df['__denom__'].values))
        chk.k(rep['status'] == 'ok' and allclose(unf_opt(rep['w']), got, **TOLK),
              'IPTW.iptw = generated formula (Lean) on the stored probabilities', dict(case, model=rep.get('status')))
        # K, arithmetic layer 2: bounding + formula on the raw reference predictions
        rep, _ = drv.ask('iptww', c='f', stab=int(stab), tgt=tgt, a=bits(df['A'].values), n=fxs(q_raw), d=fxs(p_raw),
                         **bound_kw(bound))
        chk.k(rep['status'] == 'ok' and allclose(unf_opt(rep['w']), got, **TOLD),
              'IPTW.iptw = Lean bounding + generated formula on the raw reference predictions', dict(case, model=rep.get('status')))
        if 'bound_kind' in cfg:
            # K, bound parsing: the model reads the limits out of the collection as it was handed over (`parseBound`:
            # entries 0 and 1; `estimatorBound`: Python's truth value of the object decides whether anything is truncated)
            spec, falsy = bound_spec(bobj)
            rep, _ = drv.ask('iptww', c='f', stab=int(stab), tgt=tgt, a=bits(df['A'].values), n=fxs(q_raw), d=fxs(p_raw),
                             spec=spec, falsy=falsy)
            chk.k(rep['status'] == 'ok' and allclose(unf_opt(rep['w']), got, **TOLD),
                  'IPTW.iptw = Lean bound parsing (entries 0 and 1 of the collection) + bounding + generated formula',
                  dict(case, model=rep.get('status'), spec=spec))


def ipmw_outcome_cell(chk, drv, df, cfg, refs, dsid, rec):
    from zepid.causal.ipw import IPTW
    stab, numer, bound = cfg['stabilized'], cfg['numerator'], cfg['bound']
    case = {'kind': 'IPTW.missing_model', 'cfg': cfg, 'data': rec}
    d2 = df.copy()
    d2['R'] = d2['Y'].notna().astype(int)
    wcol = cfg.get('weights')
    md = ref_fit(chk, 'R ~ ' + cfg['denominator'], d2, wcol)
    mn = ref_fit(chk, 'R ~ ' + (numer if numer is not None else 'A'), d2, wcol) if stab else None
    if md is None or (stab and mn is None):
        return
    d_raw = np.asarray(md.predict(d2))
    n_raw = np.asarray(mn.predict(d2)) if stab else np.ones(len(df))
    want = np.where(d2['R'].values == 1, n_raw / clip(d_raw, bound), np.nan)
    ipt = IPTW(df[['L1', 'L2', 'x', 'A', 'Y'] + ([wcol] if wcol else [])], treatment='A', outcome='Y', weights=wcol)
    ipt.treatment_model('L2 + x', print_results=False)
    bobj = bound_object(bound, cfg.get('bound_form'))
    with warnings.catch_warnings():
        warnings.simplefilter('ignore')     # the documented warning about collections longer than two entries
        ipt.missing_model(cfg['denominator'], model_numerator=numer, stabilized=stab, bound=bobj, print_results=False)
    got = np.asarray(ipt.ipmw, dtype=float)
    chk.case(case, (dsid, 'IPTW.missing', repr(sorted(cfg.items(), key=str))),
             sample={'kind': 'IPTW.missing_model', 'cfg': cfg, 'n': len(df)} if chk.evals % 29 == 0 else None)
    chk.count('IPTW.missing/%s/num=%s/bound=%s%s' % ('stab' if stab else 'unstab', numer, bool(bound), '/w' if wcol else ''))
    if 'bound_kind' in cfg:
        chk.count('IPTW.missing/bound-form/%s%s' % (cfg['bound_kind'],
                                                    '/truncating' if np.any(clip(d_raw, bound) != d_raw) else ''))
    case['impl_head'] = [None if np.isnan(v) else float(v) for v in got[:8]]
    chk.d(allclose(got, want, **TOLD), 'IPTW.ipmw = Pr(observed | numerator) / Pr(observed | A, L) at the ML predictions, '
          'NaN for rows with a missing outcome', case)
    if drv is not None:
        rep, _ = drv.ask('oipmw', c='f', stab=int(stab), obs=bits(d2['R'].values), n=fxs(n_raw), d=fxs(d_raw),
                         **bound_kw(bound))
        chk.k(rep['status'] == 'ok' and allclose(unf_opt(rep['w']), got, **TOLD),
              'IPTW.ipmw = Lean model on the reference predictions', dict(case, model=rep.get('status')))
        if 'bound_kind' in cfg:
            spec, falsy = bound_spec(bobj)
            rep, _ = drv.ask('oipmw', c='f', stab=int(stab), obs=bits(d2['R'].values), n=fxs(n_raw), d=fxs(d_raw),
                             spec=spec, falsy=falsy)
            chk.k(rep['status'] == 'ok' and allclose(unf_opt(rep['w']), got, **TOLD),
                  'IPTW.ipmw = Lean bound parsing (entries 0 and 1 of the collection) + model on the reference predictions',
                  dict(case, model=rep.get('status'), spec=spec))


def expected_iptw(df, spec, refs, wcol, tgt):
    """documented IPTW weights for a treatment_model specification (None if a reference fit was discarded)"""
    stab, numer, bound, denom = spec['stabilized'], spec['numerator'], spec['bound'], spec['denominator']
    md = refs('A ~ ' + denom, wcol)
    mn = refs('A ~ ' + numer, wcol) if stab else None
    if md is None or (stab and mn is None):
        return None
    dfp = df.reset_index(drop=True)
    p = clip(np.asarray(md.predict(dfp)), bound)
    q = clip(np.asarray(mn.predict(dfp)) if stab else np.ones(len(df)), bound)
    return iptw_documented(df['A'].values, p, q, stab, tgt)


def expected_ipmw(chk, df, spec, wcol):
    """documented outcome-missingness weights for a missing_model specification"""
    stab, numer, bound = spec['stabilized'], spec['numerator'], spec['bound']
    d2 = df.copy()
    d2['R'] = d2['Y'].notna().astype(int)
    md = ref_fit(chk, 'R ~ ' + spec['denominator'], d2, wcol)
    mn = ref_fit(chk, 'R ~ ' + (numer if numer is not None else 'A'), d2, wcol) if stab else None
    if md is None or (stab and mn is None):
        return None
    d_raw = np.asarray(md.predict(d2))
    n_raw = np.asarray(mn.predict(d2)) if stab else np.ones(len(df))
    return np.where(d2['R'].values == 1, n_raw / clip(d_raw, bound), np.nan)


def msm_estimates(ipt):
    out = {}
    for name, col in (('risk_difference', 'RD'), ('risk_ratio', 'RR'), ('odds_ratio', 'OR'),
                      ('average_treatment_effect', 'ATE')):
        tab = getattr(ipt, name)
        if tab is not None:
            out[col] = [float(v) for v in tab[col].values]
    return out


def same_estimates(a, b, rtol=1e-9):
    return a.keys() == b.keys() and all(allclose(a[k], b[k], rtol=rtol, atol=1e-12) for k in a)


def iptw_history_cell(chk, drv, df, cfg, refs, dsid, rec):
    """a history of calls on ONE IPTW object: (re)specified treatment / missing models, diagnostics, repeated fits.
    After every step the exposed weights must still be the documented weights of the LAST specification, and every fit
    must return what a fresh object given the last specification returns."""
    from zepid.causal.ipw import IPTW
    wcol, tgt, steps = cfg['weights'], cfg['standardize'], cfg['steps']
    case = {'kind': 'IPTW-history', 'cfg': cfg, 'data': rec}
    cols = ['L1', 'L2', 'x', 'A', 'Y'] + ([wcol] if wcol else [])
    chk.case(case, (dsid, 'IPTW-history', repr(cfg)), sample={'kind': 'IPTW-history', 'steps': [s['op'] for s in steps],
                                                                'n': len(df)} if chk.evals % 7 == 0 else None)
    chk.count('IPTW/history/%s' % '-'.join(s['op'] for s in steps))
    ipt = IPTW(df[cols], treatment='A', outcome='Y', weights=wcol, standardize=tgt)
    ipt.marginal_structural_model('A')
    lastT = lastM = None
    want_t = want_m = None
    for k, st in enumerate(steps):
        if st['op'] == 'T':
            ipt.treatment_model(st['denominator'], model_numerator=st['numerator'], stabilized=st['stabilized'],
                                bound=st['bound'], print_results=False)
            lastT, want_t = st, expected_iptw(df, st, refs, wcol, tgt)
        elif st['op'] == 'M':
            ipt.missing_model(st['denominator'], model_numerator=st['numerator'], stabilized=st['stabilized'],
                              bound=st['bound'], print_results=False)
            lastM, want_m = st, expected_ipmw(chk, df, st, wcol)
        elif st['op'] == 'P':
            ipt.positivity()      # (standardized_mean_differences() cannot run under the installed numpy: outside C05)
        elif st['op'] == 'F':
            ipt.fit()
            got = msm_estimates(ipt)
            fresh = IPTW(df[cols], treatment='A', outcome='Y', weights=wcol, standardize=tgt)
            fresh.treatment_model(lastT['denominator'], model_numerator=lastT['numerator'], stabilized=lastT['stabilized'],
                                  bound=lastT['bound'], print_results=False)
            if lastM is not None:
                fresh.missing_model(lastM['denominator'], model_numerator=lastM['numerator'],
                                    stabilized=lastM['stabilized'], bound=lastM['bound'], print_results=False)
            fresh.marginal_structural_model('A')
            fresh.fit()
            chk.d(same_estimates(got, msm_estimates(fresh)), 'IPTW.fit on a reused object (step %d of %s) = fit of a fresh '
                  'object given the last specification' % (k, '-'.join(s['op'] for s in steps)),
                  dict(case, step=k, reused=got, fresh=msm_estimates(fresh)))
        if want_t is None and lastT is not None or (lastM is not None and want_m is None):
            return          # a reference fit was discarded
        if lastT is not None:
            chk.d(allclose(np.asarray(ipt.iptw, dtype=float), want_t, **TOLD),
                  'IPTW.iptw = documented weights of the last treatment_model specification after step %d (%s) of the '
                  'history %s' % (k, st['op'], '-'.join(s['op'] for s in steps)),
                  dict(case, step=k, impl_head=np.asarray(ipt.iptw, dtype=float)[:6].tolist(), want_head=want_t[:6].tolist()))
        if lastM is not None:
            chk.d(allclose(np.asarray(ipt.ipmw, dtype=float), want_m, **TOLD),
                  'IPTW.ipmw = documented weights of the last missing_model specification after step %d (%s) of the '
                  'history %s' % (k, st['op'], '-'.join(s['op'] for s in steps)), dict(case, step=k))


def histories(missing):
    T1 = dict(op='T', denominator='C(L1) + L2 + x', numerator='1', stabilized=True, bound=False)
    T2 = dict(op='T', denominator='L2 + x', numerator='C(L1)', stabilized=True, bound=[0.3, 0.7])
    T3 = dict(op='T', denominator='C(L1) + L2 + x', numerator='1', stabilized=False, bound=0.3)
    M1 = dict(op='M', denominator='A + L2 + x', numerator=None, stabilized=True, bound=False)
    M2 = dict(op='M', denominator='A + L2', numerator='A + L2', stabilized=True, bound=[0.3, 0.8])
    F, P = dict(op='F'), dict(op='P')
    if missing:
        return [[T1, M1, F, F], [T3, F, T2, M2, P, F, F], [T1, M2, F, M1, T3, F]]
    return [[T1, F, F], [T3, F, P, T2, F], [T2, P, F, T1, F]]


def plan_prob(df, p, conditional):
    """probability of treatment each row gets from the plan (harness-side, order-free: conditions are exclusive)"""
    if conditional is None:
        return np.full(len(df), float(p))
    out = np.full(len(df), np.nan)
    for c, pp in zip(conditional, p):
        out[np.asarray(eval(c, {'df': df, 'g': df, 'np': np}))] = pp
    return out


def stoch_cell(chk, drv, df, cfg, refs, dsid, rec):
    from zepid.causal.ipw import StochasticIPTW
    wcol, p, cond = cfg['weights'], cfg['p'], cfg['conditional']
    case = {'kind': 'StochasticIPTW', 'cfg': cfg, 'data': rec}
    m = refs('A ~ ' + cfg['denominator'], wcol)
    if m is None:
        return
    g = np.asarray(m.predict(df))
    A = df['A'].values == 1
    pi = plan_prob(df, p, cond)
    w = np.where(A, pi, 1 - pi) / np.where(A, g, 1 - g) * (df[wcol].values if wcol else 1.0)
    want = float(np.sum(df['Y'].values * w) / np.sum(w))
    cols = ['L1', 'L2', 'x', 'A', 'Y'] + ([wcol] if wcol else [])
    s = StochasticIPTW(df[cols], treatment='A', outcome='Y', weights=wcol)
    s.treatment_model(cfg['denominator'], print_results=False)
    s.fit(p=p, conditional=cond)
    got = float(s.marginal_outcome)
    chk.case(case, (dsid, 'StochasticIPTW', repr(sorted(cfg.items(), key=str))),
             sample={'kind': 'StochasticIPTW', 'cfg': cfg, 'n': len(df)} if chk.evals % 17 == 0 else None)
    chk.count('StochasticIPTW/%s%s' % ('uncond' if cond is None else 'cond%d' % len(cond), '/w' if wcol else ''))
    case['impl'] = got
    chk.d(close(got, want, **TOLD), 'StochasticIPTW.marginal_outcome = mean weighted by plan probability of the treatment '
          'received over fitted probability of the treatment received', dict(case, want=want))
    if drv is not None:
        kw = dict(s=enc_list([0] * len(df), str), a=bits(A), y=fxs(df['Y'].values),
                  w=fxs(df[wcol].values if wcol else np.ones(len(df))), g=fxs(g))
        if cond is None:
            kw['p'] = fx(p)
        else:
            kw['ps'] = fxs(p)
            kw['masks'] = ';'.join(bits(np.asarray(eval(c, {'df': df, 'np': np}))) for c in cond)
        # the op runs the definition regenerated from the text of StochasticIPTW.fit (Gen.stoch_iptw_fit)
        rep, _ = drv.ask('stochw', c='f', hasw=int(bool(wcol)), **kw)
        chk.k(rep['status'] == 'ok' and rep['m'] != '_' and close(unfx(rep['m']), got, **TOLD),
              'StochasticIPTW.marginal_outcome = Lean model on the reference predictions', dict(case, model=rep.get('m')))


def run_iptw_family(chk, drv, rng, tier):
    nds = 6 if tier == 'quick' else 24
    for i in range(nds):
        df = relabel(mixed_dataset(rng), rng, ['default', 'shifted', 'shuffled'][i % 3])
        if i % 4 == 2:
            df['x'] = df['x'] * 100.0           # ill-scaled continuous covariate
        rec = {'frame': gen.frame_record(df), 'n': len(df)}
        dsid = frame_hash(df)
        cache = {}

        def refs(formula, wcol, df=df, cache=cache):
            if (formula, wcol) not in cache:
                cache[(formula, wcol)] = ref_fit(chk, formula, df, wcol)
            return cache[(formula, wcol)]
        denom = DENOMS[i % len(DENOMS)]
        wopts = (None, 'w') if i % 2 == 0 else (None, 'wf')
        for wcol in wopts:
            for tgt in ('population', 'exposed', 'unexposed'):
                for stab, numer in ((False, '1'), (True, '1'), (True, 'C(L1)')):
                    for bound in BOUNDS:
                        cfg = dict(weights=wcol, standardize=tgt, stabilized=stab, numerator=numer, bound=bound,
                                   denominator=denom, positional=bool(i % 3 == 1))
                        guard(chk, 'IPTW', cfg, rec, iptw_cell, drv, df, cfg, refs, dsid, rec)
        # every documented spelling of `bound` (limits drawn from this data set's own fitted probabilities) x target x
        # stabilization; all spellings on every third data set, a rotating third of them on the others (quick tier)
        m0 = refs('A ~ ' + denom, None)
        if m0 is not None:
            forms = bound_forms(rng, np.asarray(m0.predict(df.reset_index(drop=True))))
            if tier == 'quick' and i % 3 != 0:
                forms = forms[i % 3::3]
            for j, (bvals, form) in enumerate(forms):
                wcol = wopts[(i + j) % 2]
                for tgt in ('population', 'exposed', 'unexposed'):
                    for stab, numer in ((False, '1'), (True, '1'), (True, 'C(L1)')):
                        cfg = dict(weights=wcol, standardize=tgt, stabilized=stab, numerator=numer, bound=bvals,
                                   bound_form=form, bound_kind=bound_kind(bvals, form), denominator=denom,
                                   positional=bool((i + j) % 4 == 1))
                        guard(chk, 'IPTW', cfg, rec, iptw_cell, drv, df, cfg, refs, dsid, rec)
        # stochastic plans
        k1 = int(df['L1'].nunique())
        conds = [["df['L1']==%d" % v for v in range(k1)], ["df['L2']==1", "df['L2']==0"],
                 ["(df['L2']==1) & (df['x']>0)", "(df['L2']==1) & (df['x']<=0)", "df['L2']==0"]]
        for wcol in wopts:
            for p in (0.0, 0.25, 0.5, 0.8, 1.0):
                cfg = dict(weights=wcol, p=p, conditional=None, denominator=denom)
                guard(chk, 'StochasticIPTW', cfg, rec, stoch_cell, drv, df, cfg, refs, dsid, rec)
            for cs in conds:
                ps = [float(v) for v in np.round(rng.uniform(0, 1, size=len(cs)), 2)]
                cfg = dict(weights=wcol, p=ps, conditional=cs, denominator=denom)
                guard(chk, 'StochasticIPTW', cfg, rec, stoch_cell, drv, df, cfg, refs, dsid, rec)
    # histories on one object (with and without missing outcomes)
    for i in range(2 if tier == 'quick' else 8):
        miss = i % 2 == 0
        df = relabel(mixed_dataset(rng, missing=miss), rng, ['default', 'shuffled', 'shifted'][i % 3])
        rec = {'frame': gen.frame_record(df), 'n': len(df)}
        cache = {}

        def refs(formula, wcol, df=df, cache=cache):
            if (formula, wcol) not in cache:
                cache[(formula, wcol)] = ref_fit(chk, formula, df, wcol)
            return cache[(formula, wcol)]
        for j, steps in enumerate(histories(miss)):
            cfg = dict(weights=[None, 'w', 'wf'][(i + j) % 3], standardize=['population', 'exposed', 'unexposed'][j % 3],
                       steps=steps)
            guard(chk, 'IPTW-history', cfg, rec, iptw_history_cell, drv, df, cfg, refs, frame_hash(df), rec)
    # rare / near-universal treatment: the marginal numerator probability itself lies outside the truncation bounds
    for i in range(2 if tier == 'quick' else 8):
        prev = ['low', 'high'][i % 2]
        df = relabel(mixed_dataset(rng, prevalence=prev), rng, ['shifted', 'default', 'shuffled'][i % 3])
        rec = {'frame': gen.frame_record(df, limit=800), 'n': len(df)}
        cache = {}

        def refs(formula, wcol, df=df, cache=cache):
            if (formula, wcol) not in cache:
                cache[(formula, wcol)] = ref_fit(chk, formula, df, wcol)
            return cache[(formula, wcol)]
        bounds = [0.1, [0.12, 0.95]] if prev == 'low' else [0.1, [0.05, 0.88]]
        for tgt in ('population', 'exposed', 'unexposed'):
            for stab, numer in ((True, '1'), (True, 'L2'), (False, '1')):
                for bound in bounds:
                    cfg = dict(weights=(None if i < 2 else 'w'), standardize=tgt, stabilized=stab, numerator=numer,
                               bound=bound, denominator='C(L1) + L2 + x')
                    guard(chk, 'IPTW', cfg, rec, iptw_cell, drv, df, cfg, refs, frame_hash(df), rec)
        mq = refs('A ~ 1', None)
        if mq is not None:
            chk.count('IPTW/prevalence-%s/marginal-outside-bounds' % prev,
                      int(not (0.12 <= float(np.asarray(mq.predict(df))[0]) <= 0.88)))
    # container / dtype / label variants: fixed-width integer columns, string row labels, repeated row labels
    for i in range(2 if tier == 'quick' else 6):
        df = mixed_dataset(rng)
        df = df.astype({'A': [np.int8, np.uint8, np.int32][i % 3], 'L1': np.int16, 'L2': np.uint8, 'w': np.int32})
        df.index = ['r%05d' % v for v in rng.permutation(len(df))] if i % 2 == 0 else np.repeat(7, len(df))
        rec = {'frame': gen.frame_record(df), 'n': len(df), 'dtypes': {c: str(t) for c, t in df.dtypes.items()}}
        cache = {}

        def refs(formula, wcol, df=df.reset_index(drop=True), cache=cache):
            if (formula, wcol) not in cache:
                cache[(formula, wcol)] = ref_fit(chk, formula, df, wcol)
            return cache[(formula, wcol)]
        for tgt, stab, numer, bound in (('population', True, '1', False), ('exposed', True, 'C(L1)', 0.3),
                                        ('unexposed', False, '1', [0.35, 0.6])):
            cfg = dict(weights=('w' if i % 2 else None), standardize=tgt, stabilized=stab, numerator=numer, bound=bound,
                       denominator='C(L1) + L2 + x', variant='dtypes+labels')
            guard(chk, 'IPTW', cfg, rec, iptw_cell, drv, df, cfg, refs, frame_hash(df), rec)
    # ordinary cohort size (thousands of rows; regenerated from the stored recipe on replay): the weight of a row is a
    # function of that row's own fitted probabilities, whatever the number of rows
    for i in range(1 if tier == 'quick' else 4):
        gspec = dict(name='mixed', seed=int(rng.integers(0, 2 ** 31 - 1)), n=int(rng.integers(4000, 9000)) * (4 if i == 3 else 1),
                     missing=bool(i % 2), index=['shuffled', 'default', 'shifted'][i % 3], layout_seed=int(rng.integers(0, 2 ** 31 - 1)))
        df = from_generator(gspec)
        rec = {'generator': gspec, 'n': len(df)}
        cache = {}

        def refs(formula, wcol, df=df.reset_index(drop=True), cache=cache):
            if (formula, wcol) not in cache:
                cache[(formula, wcol)] = ref_fit(chk, formula, df, wcol)
            return cache[(formula, wcol)]
        m0 = refs('A ~ C(L1) + L2 + x', None)
        if m0 is None:
            continue
        forms = bound_forms(rng, np.asarray(m0.predict(df.reset_index(drop=True))))
        picks = [(False, None)] + [forms[int(j)] for j in rng.choice(len(forms), size=2, replace=False)]
        for j, (bvals, form) in enumerate(picks):
            for tgt in ('population', 'exposed', 'unexposed'):
                stab, numer = ((True, '1'), (False, '1'), (True, 'C(L1)'))[(i + j + ('population', 'exposed', 'unexposed').index(tgt)) % 3]
                cfg = dict(weights=[None, 'w', 'wf'][(i + j) % 3], standardize=tgt, stabilized=stab, numerator=numer, bound=bvals,
                           bound_form=form, bound_kind=bound_kind(bvals, form), denominator='C(L1) + L2 + x', cohort=True)
                guard(chk, 'IPTW', cfg, rec, iptw_cell, drv, df, cfg, refs, ('mixed', repr(sorted(gspec.items()))), rec)
        if gspec['missing']:
            cfg = dict(stabilized=True, numerator=None, bound=False, denominator='A + L2 + x', weights=None, cohort=True)
            guard(chk, 'IPTW.missing_model', cfg, rec, ipmw_outcome_cell, drv, df, cfg, None, ('mixed', gspec['seed']), rec)
        chk.count('IPTW/cohort-size/n>=4000')
    # outcome missingness weights
    for i in range(4 if tier == 'quick' else 16):
        df = relabel(mixed_dataset(rng, missing=True), rng, ['shuffled', 'default', 'shifted'][i % 3])
        rec = {'frame': gen.frame_record(df), 'n': len(df)}
        for stab, numer in ((False, None), (True, None), (True, 'A + L2')):
            for bound in (False, 0.25, [0.3, 0.8]):
                cfg = dict(stabilized=stab, numerator=numer, bound=bound, denominator='A + L2 + x',
                           weights=[None, 'w', 'wf'][i % 3])
                guard(chk, 'IPTW.missing_model', cfg, rec, ipmw_outcome_cell, drv, df, cfg, None, frame_hash(df), rec)
        # the spellings of `bound` for the missing-outcome model (limits from the observed proportion's neighbourhood)
        forms = bound_forms(rng, np.clip(df['Y'].notna().mean() + np.linspace(-0.25, 0.25, 41), 0.03, 0.97))
        if tier == 'quick':
            forms = forms[i % 3::3]
        for j, (bvals, form) in enumerate(forms):
            stab, numer = ((False, None), (True, None), (True, 'A + L2'))[(i + j) % 3]
            cfg = dict(stabilized=stab, numerator=numer, bound=bvals, bound_form=form, bound_kind=bound_kind(bvals, form),
                       denominator='A + L2 + x', weights=[None, 'w', 'wf'][(i + j) % 3])
            guard(chk, 'IPTW.missing_model', cfg, rec, ipmw_outcome_cell, drv, df, cfg, None, frame_hash(df), rec)


# ------------------------------------------------------------------------------------------- IPMW
PATTERNS = {1: [()], 2: [('S',), ('U',)], 3: [('S', 'S'), ('S', 'U'), ('U', 'S'), ('U', 'U')]}
VARS = ['B', 'C', 'D']


def monotone_dataset(rng, k, pattern, n=None):
    n = int(rng.integers(200, 420)) if n is None else n
    L = rng.integers(0, 2, size=n)
    x = np.round(rng.normal(size=n), 3)
    df = pd.DataFrame({'L': L, 'x': x})
    obs = rng.uniform(size=n) < 1 / (1 + np.exp(-(1.0 + 0.6 * L - 0.5 * x)))
    for j in range(k):
        if j > 0:
            if pattern[j - 1] == 'S':
                obs = obs & (rng.uniform(size=n) < 1 / (1 + np.exp(-(0.9 + 0.5 * L * (j % 2) + 0.4 * x - 0.3 * j))))
        vals = np.round(rng.normal(0.3 * L, 1, size=n), 3)
        df[VARS[j]] = np.where(obs, vals, np.nan)
    return df


def enc_lists_bool(mat):
    return ';'.join(bits(col) for col in mat)


def wrap_propensity(calls):
    """record (formula, fitting index) of every propensity_score call made by the IPMW module (run-time wrap in the
    harness process; /repo is not edited)"""
    mod = sys.modules['zepid.causal.ipw.IPMW']
    orig = mod.propensity_score

    def rec(df, model, weights=None, print_results=True):
        calls.append((model, list(df.index)))
        return orig(df, model, weights=weights, print_results=print_results)
    mod.propensity_score = rec
    return mod, orig


def ipmw_cell(chk, drv, df, cfg, dsid, rec):
    import zepid.causal.ipw  # noqa: F401  (loads the module that is wrapped)
    from zepid.causal.ipw import IPMW
    k, stab, models_d, models_n, single = cfg['k'], cfg['stabilized'], cfg['denominators'], cfg['numerators'], cfg['single']
    mv = VARS[:k]
    case = {'kind': 'IPMW', 'cfg': cfg, 'data': rec}
    n = len(df)
    obs = [df[v].notna().values for v in mv]
    full_d = list(models_d) + [models_d[-1]] * (k - len(models_d))
    full_n = list(models_n) + [models_n[-1]] * (k - len(models_n))
    # reference fits along the chain: model j fitted among rows observed on V_{j-1}, predicted on the full data
    pred_d, pred_n, uniform = [], [], []
    for j in range(k):
        sub = df if j == 0 else df.loc[df[mv[j - 1]].notna()]
        uni = j > 0 and bool(np.all(obs[j][obs[j - 1]]))
        uniform.append(uni)
        if uni:                      # conditional observation probability is identically 1 (no MLE: all ones)
            pred_d.append(np.ones(n))
            pred_n.append(np.ones(n))
            continue
        s2 = sub.copy()
        s2['R'] = s2[mv[j]].notna().astype(int)
        md = ref_fit(chk, 'R ~ ' + full_d[j], s2)
        mn = ref_fit(chk, 'R ~ ' + full_n[j], s2) if stab else None
        if md is None or (stab and mn is None):
            return
        pred_d.append(np.asarray(md.predict(df)))
        pred_n.append(np.asarray(mn.predict(df)) if stab else np.ones(n))
    last = obs[-1]
    with np.errstate(invalid='ignore'):
        want = np.where(last, np.prod(pred_n, axis=0) / np.prod(pred_d, axis=0), np.nan)
    # the implementation, with its fitting calls recorded
    calls = []
    mod, orig = wrap_propensity(calls)
    try:
        if cfg.get('positional'):
            ip = IPMW(df, (mv[0] if single else mv), stab, True)
        else:
            ip = IPMW(df, missing_variable=(mv[0] if single else mv), stabilized=stab, monotone=True)
        if single:
            ip.regression_models(models_d[0], model_numerator=models_n[0], print_results=False)
        else:
            ip.regression_models(models_d, model_numerator=(models_n if stab else '1'), print_results=False)
        ip.fit()
    finally:
        mod.propensity_score = orig
    got = np.asarray(ip.Weight.reindex(df.index), dtype=float)
    nfit = k - sum(uniform)
    chk.case(case, (dsid, 'IPMW', repr(sorted(cfg.items(), key=str))) if (nfit >= 2 or any(uniform)) or k == 1 else None,
             sample={'kind': 'IPMW', 'cfg': cfg, 'n': n, 'observed': [int(o.sum()) for o in obs]}
             if chk.evals % 11 == 0 else None)
    chk.count('IPMW/k=%d/%s/%s/%s' % (k, ''.join(cfg['pattern']) or '-', 'stab' if stab else 'unstab', cfg['index']))
    case['impl_head'] = [None if np.isnan(v) else float(v) for v in got[:8]]
    chk.d(list(ip.Weight.index) == list(df.index) and allclose(got, want, **TOLD),
          'IPMW.Weight = numerator / product of the conditional observation probabilities along the chain (each fitted '
          'among rows observed on the previous variable), NaN for rows not observed on the last variable', case)
    # D (history): specifying the models and fitting a second time on the same object changes nothing
    n_first = len(calls)
    if single:
        ip.regression_models(models_d[0], model_numerator=models_n[0], print_results=False)
    else:
        ip.regression_models(models_d, model_numerator=(models_n if stab else '1'), print_results=False)
    ip.fit()
    chk.d(allclose(np.asarray(ip.Weight.reindex(df.index), dtype=float), got, rtol=1e-12, atol=0),
          'IPMW: regression_models() + fit() a second time on the same object gives the same weights', case)
    calls = calls[:n_first]
    # D: fitting sets = rows observed on the previous variable
    pos = {lab: i for i, lab in enumerate(df.index)}
    seen = [(f, sorted(pos[l] for l in idx)) for f, idx in calls]
    exp_calls = []
    if all(uniform[1:]):
        exp_calls.append(('_observed_indicator_ ~ ' + full_d[0], list(range(n))))
        if stab:
            exp_calls.append(('_observed_indicator_ ~ ' + full_n[0], list(range(n))))
    else:
        for j in range(k):
            if uniform[j]:
                continue
            rows = list(range(n)) if j == 0 else [i for i in range(n) if obs[j - 1][i]]
            exp_calls.append(('_observed_indicator_ ~ ' + full_d[j], rows))
            if stab:
                exp_calls.append(('_observed_indicator_ ~ ' + full_n[j], rows))
    chk.d(sorted(seen) == sorted(exp_calls), 'IPMW fits each conditional model on exactly the rows observed on the previous '
          'variable (recorded propensity_score calls)', dict(case, seen=[(f, len(r)) for f, r in seen],
                                                             expected=[(f, len(r)) for f, r in exp_calls]))
    if drv is not None:
        rep, _ = drv.ask('ipmw', c='f', stab=int(stab), obs=enc_lists_bool(obs), d=';'.join(fxo(v) for v in pred_d),
                         n=';'.join(fxo(v) for v in pred_n))
        ok = rep['status'] == 'ok' and allclose(unf_opt(rep['w']), got, **TOLD)
        if ok:
            mvars = [int(t) for t in rep['vars'].split(',')]
            msets = [[] if t == '[]' else [int(u) for u in t.split('|')] for t in rep['sets'].split(';')]
            dcalls = [r for f, r in seen][::2] if stab else [r for f, r in seen]
            ok = msets == dcalls and mvars == ([0] if all(uniform[1:]) else [j for j in range(k) if not uniform[j]])
        chk.k(ok, 'IPMW.Weight and fitting plan = Lean model on the reference predictions', dict(case, model=rep.get('status')))


def ipmw_malformed(chk, drv, rng):
    from zepid.causal.ipw import IPMW
    for kind in ('nonmonotone_row0', 'nonmonotone_other', 'no_missing'):
        df = monotone_dataset(rng, 2, ('S',))
        if kind == 'nonmonotone_row0':
            df.iloc[0, df.columns.get_loc('B')] = np.nan
            df.iloc[0, df.columns.get_loc('C')] = 1.0
        elif kind == 'nonmonotone_other':
            r = int(rng.integers(1, len(df)))
            df.iloc[r, df.columns.get_loc('B')] = np.nan
            df.iloc[r, df.columns.get_loc('C')] = 1.0
        else:
            df['B'] = df['B'].fillna(0.0)
        try:
            ip = IPMW(df, missing_variable=['B', 'C'], monotone=True)
            ip.regression_models(['L + x', 'L + x'], print_results=False)
            impl = 'ok'
        except ValueError:
            impl = 'err'
        except Exception as e:
            impl = 'other:' + type(e).__name__
        case = {'kind': 'IPMW-malformed', 'what': kind, 'impl': impl}
        chk.case(case, ('IPMW-malformed', kind, frame_hash(df)))
        chk.count('IPMW/malformed/' + kind)
        if drv is not None:
            obs = [df[v].notna().values for v in ('B', 'C')]
            ones = ';'.join(fxo(np.full(len(df), 0.5)) for _ in range(2))
            rep, _ = drv.ask('ipmw', c='f', stab=0, obs=enc_lists_bool(obs), d=ones)
            chk.k((rep['status'] == 'err') == (impl == 'err'), 'IPMW rejection = model rejection (%s)' % kind,
                  dict(case, model=rep['status']))
        chk.extra.setdefault('ipmw_malformed_outcomes', {})[kind] = impl


def run_ipmw(chk, drv, rng, tier):
    reps = 2 if tier == 'quick' else 8
    idxs = ['default', 'shifted', 'shuffled']
    t = 0
    for _ in range(reps):
        for k in (1, 2, 3):
            for pattern in PATTERNS[k]:
                for stab in (False, True):
                    base = monotone_dataset(rng, k, pattern)
                    for how in (idxs if tier == 'thorough' else [idxs[t % 3]]):
                        t += 1
                        df = relabel(base, rng, how)
                        if t % 2 == 0:     # an unused column with NaN in the caller's frame
                            df['junk'] = np.where(rng.uniform(size=len(df)) < 0.3, np.nan, 2.5)
                        rec = {'frame': gen.frame_record(df), 'n': len(df)}
                        md_all = ['L + x', 'L + B', 'x + C'][:k]
                        mn_all = ['1', 'L', 'L'][:k]
                        variants = [(md_all, mn_all, False)]
                        if k == 1:
                            variants.append((md_all, mn_all, True))          # the single-variable (string) call
                        if k == 3:
                            variants.append((['L + x', 'L'], ['1'], False))    # fewer models than variables: last repeated
                        for md, mn, single in variants:
                            cfg = dict(k=k, pattern=list(pattern), stabilized=stab, denominators=md, numerators=mn,
                                       single=single, index=how, positional=bool(t % 3 == 0))
                            guard(chk, 'IPMW', cfg, rec, ipmw_cell, drv, df, cfg, frame_hash(df), rec)
    # ordinary cohort size (regenerated from the stored recipe on replay)
    for i in range(1 if tier == 'quick' else 4):
        pattern = [('S', 'S'), ('S', 'U'), ('U', 'S'), ('S', 'S')][i]
        gspec = dict(name='monotone', seed=int(rng.integers(0, 2 ** 31 - 1)), n=int(rng.integers(4000, 9000)), k=3,
                     pattern=list(pattern), index=['shifted', 'default', 'shuffled'][i % 3],
                     layout_seed=int(rng.integers(0, 2 ** 31 - 1)))
        df = from_generator(gspec)
        rec = {'generator': gspec, 'n': len(df)}
        for stab in (True, False):
            cfg = dict(k=3, pattern=list(pattern), stabilized=stab, denominators=['L + x', 'L + B', 'x + C'],
                       numerators=['1', 'L', 'L'], single=False, index=gspec['index'], positional=False, cohort=True)
            guard(chk, 'IPMW', cfg, rec, ipmw_cell, drv, df, cfg, ('monotone', repr(sorted(gspec.items()))), rec)
        chk.count('IPMW/cohort-size/n>=4000')
    ipmw_malformed(chk, drv, rng)


# ------------------------------------------------------------------------------------------- IPCW
def long_dataset(rng, frac_last=True, frac_max=False):
    """frac_max: the administrative end of follow-up (the maximum time) is fractional, e.g. 4.5"""
    nsub = int(rng.integers(25, 70))
    tau = int(rng.integers(3, 8))
    tend = tau - 1 + float(rng.choice([0.5, 0.25, 0.8])) if frac_max else float(tau)
    ids = rng.choice(np.arange(1, 400), size=nsub, replace=False)
    rows = []
    for i in ids:
        L = int(rng.integers(0, 2))
        T = int(rng.integers(1, tau + 1))
        ev = int(rng.uniform() < 0.35)
        for t in range(1, T + 1):
            tt = float(t) if t < tau else tend
            if t == T and frac_last and T < tau and rng.uniform() < 0.3:
                tt = t - 1 + float(np.round(rng.uniform(0.2, 0.9), 2))
            rows.append((int(i), tt, int(ev and t == T), L, float(np.round(rng.normal(0.2 * L + 0.1 * t, 1), 3))))
    df = pd.DataFrame(rows, columns=['id', 't', 'd', 'L', 'x'])
    # make sure the maximum time is reached by somebody (administrative censoring: uncensored by the documented rule)
    if df['t'].max() < tend:
        i = int(ids[0])
        df = df[df['id'] != i]
        L = int(rng.integers(0, 2))
        extra = [(i, float(t) if t < tau else tend, 0, L, float(np.round(rng.normal(), 3))) for t in range(1, tau + 1)]
        df = pd.concat([df, pd.DataFrame(extra, columns=df.columns)], ignore_index=True)
    return df.sort_values(['id', 't']).reset_index(drop=True)


def cohort_dataset(seed, nsub, tau, cens, ev, ids='consecutive'):
    """a long person-period table of ORDINARY COHORT SIZE (thousands of subjects, of the order of 10^4 rows), generated
    from its own seed so that a replay regenerates it instead of storing it: per unit interval an event with
    probability `ev`, otherwise drop-out with a probability around `cens` that depends on a baseline covariate, a
    time-varying covariate and time; everybody still followed at `tau` is administratively censored there.  Same
    columns as long_dataset (id, t, d, L, x)."""
    g = np.random.default_rng(seed)
    L = g.integers(0, 2, size=nsub)
    z = g.normal(size=nsub)
    tt = np.arange(1, tau + 1)
    x = np.round(0.3 * z[:, None] + 0.2 * L[:, None] + 0.1 * tt[None, :] + g.normal(0, 0.8, size=(nsub, tau)), 3)
    hc = 1 / (1 + np.exp(-(np.log(cens / (1 - cens)) + 0.5 * (L[:, None] - 0.5) + 0.4 * (x - 0.4) + 0.06 * (tt[None, :] - 3))))
    event = g.uniform(size=(nsub, tau)) < ev
    stop = event | (g.uniform(size=(nsub, tau)) < hc)
    stop[:, -1] = True
    last = np.argmax(stop, axis=1)                       # index of the last interval a subject is followed
    keep = tt[None, :] - 1 <= last[:, None]
    sid = np.arange(1, nsub + 1) if ids == 'consecutive' else np.sort(g.choice(np.arange(1, 50 * nsub), size=nsub, replace=False))
    r, c = np.nonzero(keep)
    df = pd.DataFrame({'id': sid[r].astype(int), 't': tt[c].astype(float), 'd': (event[r, c] & (c == last[r])).astype(int),
                       'L': L[r].astype(int), 'x': x[r, c]})
    return df.sort_values(['id', 't']).reset_index(drop=True)


def from_generator(g):
    """regenerate a data set that was too large to be stored in a case record from the recipe stored instead"""
    if g['name'] == 'cohort':
        df = cohort_dataset(**g['args'])
    elif g['name'] == 'mixed':
        df = mixed_dataset(np.random.default_rng(g['seed']), missing=g.get('missing', False), n=g['n'])
    elif g['name'] == 'monotone':
        df = monotone_dataset(np.random.default_rng(g['seed']), g['k'], tuple(g['pattern']), n=g['n'])
    else:
        raise ValueError('unknown generator %r' % (g['name'],))
    r2 = np.random.default_rng(g.get('layout_seed', 0))
    if g.get('order') == 'shuffled':
        df = df.iloc[r2.permutation(len(df))].reset_index(drop=True)
    return relabel(df, r2, g.get('index', 'default'))


def uncensored_documented(df):
    """0 iff last record of the subject, no event, and not at the maximum follow-up time"""
    tmax = df['t'].max()
    last = df.groupby('id')['t'].transform('max') == df['t']
    return np.where(last.values & (df['d'].values == 0) & (df['t'].values != tmax), 0, 1)


def ipcw_cell(chk, drv, df, cfg, dsid, rec):
    from zepid.causal.ipw import IPCW
    case = {'kind': 'IPCW', 'cfg': cfg, 'data': rec}
    unc = uncensored_documented(df)
    ipc = IPCW(df, 'id', 't', 'd') if cfg.get('positional') else IPCW(df, idvar='id', time='t', event='d')
    got_unc = ipc.df['__uncensored__']
    ncens = int((unc == 0).sum())
    chk.case(case, (dsid, 'IPCW', repr(sorted(cfg.items(), key=str))) if ncens >= 1 else None,
             sample={'kind': 'IPCW', 'cfg': cfg, 'rows': len(df), 'subjects': int(df['id'].nunique()), 'censored': ncens}
             if chk.evals % 5 == 0 else None)
    chk.count('IPCW/long/%s/%s%s' % (cfg['order'], cfg['index'], '/fractional-max' if cfg.get('fractional_max') else ''))
    # D: the indicator, per row label
    chk.d(sorted(got_unc.index) == sorted(df.index) and
          np.array_equal(got_unc.reindex(df.index).values.astype(int), unc),
          'IPCW uncensored indicator = 0 iff last record of the subject, no event, time != maximum follow-up time',
          dict(case, impl=got_unc.reindex(df.index).values.astype(int).tolist()[:40]))
    # reference pooled logistic fits on the harness's own sorted frame
    d2 = df.copy()
    d2['U'] = unc
    mn = ref_fit(chk, 'U ~ ' + cfg['numerator'], d2)
    md = ref_fit(chk, 'U ~ ' + cfg['denominator'], d2)
    if mn is None or md is None:
        return
    pn = pd.Series(np.asarray(mn.predict(d2)), index=df.index)
    pdn = pd.Series(np.asarray(md.predict(d2)), index=df.index)
    if cfg.get('cohort'):
        expo = float(-np.log(pn.values).sum())       # minus the log of the product of ALL numerator probabilities
        chk.count('IPCW/cohort/product of all %s numerator probabilities %s'
                  % ('>= 10^4' if len(df) >= 10000 else '< 10^4', 'below the smallest double' if expo > 745 else 'representable'))
    ipc.regression_models(cfg['denominator'], cfg['numerator'], print_results=False)
    ipc.fit()
    got = ipc.Weight
    # D: documented running product within subject in time order (plain Python, no groupby)
    want = {}
    for sid, grp in itertools.groupby(sorted(zip(df['id'], df['t'], df.index)), key=lambda r: r[0]):
        num = den = 1.0
        for _, _, lab in grp:
            num *= pn[lab]
            den *= pdn[lab]
            want[lab] = num / den
    want = np.array([want[l] for l in df.index])
    chk.d(sorted(got.index) == sorted(df.index) and allclose(got.reindex(df.index).values, want, **TOLD),
          'IPCW.Weight = running product within subject, in time order, of numerator over denominator probabilities',
          dict(case, impl_head=got.reindex(df.index).values[:8].tolist(), want_head=want[:8].tolist()))
    first = got.copy()
    ipc.regression_models(cfg['denominator'], cfg['numerator'], print_results=False)
    ipc.fit()
    chk.d(allclose(ipc.Weight.reindex(df.index).values, first.reindex(df.index).values, rtol=1e-12, atol=0),
          'IPCW: regression_models() + fit() a second time on the same object gives the same weights', case)
    if drv is not None:
        ids = df['id'].tolist()
        rep, _ = drv.ask('ipcw', id=enc_list(ids, str), time=enc_list(df['t'].tolist(), rq),
                         event=bits(df['d'].values == 1))
        ok = rep['status'] == 'ok'
        if ok:
            order = [int(t) for t in rep['order'].split(',')]
            labs = list(df.index)
            ok = [labs[i] for i in order] == list(ipc.df.index) and \
                [int(t) for t in rep['unc'].split(',')] == ipc.df['__uncensored__'].astype(int).tolist()
        chk.k(ok, 'IPCW sorted row order and uncensored indicator = Lean model (exact)', dict(case, model=rep.get('status')))
        rep, _ = drv.ask('ipcw', c='f', id=enc_list(ids, str), time=fxs(df['t'].values), event=bits(df['d'].values == 1),
                         num=fxs(pn.values), den=fxs(pdn.values))
        ok = rep['status'] == 'ok' and allclose(unf_opt(rep['w']), ipc.Weight.values, **TOLD)
        chk.k(ok, 'IPCW.Weight = Lean cumulative-product model on the reference predictions', dict(case, model=rep.get('status')))
        ok2 = allclose(ipc.df['__numer__'].values, pn.reindex(ipc.df.index).values, **TOLD) and \
            allclose(ipc.df['__denom__'].values, pdn.reindex(ipc.df.index).values, **TOLD)
        chk.k(ok2, 'IPCW stored probabilities = reference pooled-logistic ML predictions', case)


def flat_dataset(rng, frac_max=False):
    """frac_max: the maximum follow-up time is fractional (e.g. 4.5); some subjects are then administratively censored at
    it, and some are censored exactly at its integer part"""
    nsub = int(rng.integers(25, 60))
    tau = int(rng.integers(3, 7))
    tend = tau - 1 + float(rng.choice([0.5, 0.3, 0.9])) if frac_max else float(tau)
    ids = rng.choice(np.arange(1, 300), size=nsub, replace=False)
    T = np.where(rng.uniform(size=nsub) < 0.5, rng.integers(1, tau + 1, size=nsub).astype(float),
                 np.round(rng.uniform(0.2, tau, size=nsub), 1))
    T = np.minimum(T, tend)
    d = (rng.uniform(size=nsub) < 0.4).astype(int)
    T[:3] = tend
    d[:2] = 0
    T[3:5] = float(int(tend)) if frac_max else float(tau - 1)
    d[3] = 0
    return pd.DataFrame({'id': ids, 't': T, 'd': d, 'L': rng.integers(0, 2, size=nsub),
                         'x': np.round(rng.normal(size=nsub), 3)})


def ipcw_flat_cell(chk, drv, df, cfg, dsid, rec):
    from zepid.causal.ipw import IPCW
    case = {'kind': 'IPCW-flat', 'cfg': cfg, 'data': rec}
    ipc = IPCW(df, idvar='id', time='t', event='d', flat_df=True)
    lf = ipc.df
    chk.case(case, (dsid, 'IPCW-flat'), sample={'kind': 'IPCW-flat', 'subjects': len(df), 'records': len(lf)}
             if chk.evals % 3 == 0 else None)
    chk.count('IPCW/flat/%s%s' % (cfg['index'], '/fractional-max' if cfg.get('fractional_max') else ''))
    # D: documented meaning of the expansion, in plain Python
    exp_rows = []
    for i, T, d in sorted(zip(df['id'], df['t'], df['d'])):
        k = 0
        recs = []
        while k < T:
            recs.append([int(i), k, min(float(k + 1), float(T)), 0])
            k += 1
        if recs and d == 1:
            recs[-1][3] = 1
        exp_rows.extend(recs)
    tmax = max(r[2] for r in exp_rows)
    last = {}
    for j, r in enumerate(exp_rows):
        last[r[0]] = j
    unc = [0 if (last[r[0]] == j and r[3] == 0 and r[2] != tmax) else 1 for j, r in enumerate(exp_rows)]
    def _i(v):
        return None if pd.isna(v) else int(v)
    got_rows = [[_i(a), _i(b), float(c), _i(e)] for a, b, c, e in zip(lf['id'], lf['t_enter'], lf['t_out'], lf['d'])]
    chk.d(got_rows == exp_rows, 'IPCW flat-to-long conversion: unit intervals [k, k+1) up to T, event on the last record',
          dict(case, impl_head=got_rows[:10], want_head=exp_rows[:10]))
    chk.d(lf['__uncensored__'].astype(int).tolist() == unc, 'IPCW (flat) uncensored indicator = 0 iff last record of the '
          'subject, no event, t_out != maximum', dict(case, impl_head=lf['__uncensored__'].astype(int).tolist()[:20]))
    d2 = lf.copy()
    d2['U'] = unc if len(unc) == len(lf) else 0
    for c in ('L', 'x', 't_enter'):
        d2[c] = d2[c].astype(float)
    mn = ref_fit(chk, 'U ~ t_enter', d2)
    md = ref_fit(chk, 'U ~ t_enter + L + x', d2)
    if mn is None or md is None or len(unc) != len(lf):
        return
    pn, pdn = np.asarray(mn.predict(d2)), np.asarray(md.predict(d2))
    ipc.regression_models('t_enter + L + x', 't_enter', print_results=False)
    ipc.fit()
    want, run = [], {}
    for j, r in enumerate(exp_rows):
        a, b = run.get(r[0], (1.0, 1.0))
        run[r[0]] = (a * pn[j], b * pdn[j])
        want.append(run[r[0]][0] / run[r[0]][1])
    chk.d(allclose(ipc.Weight.values, np.array(want), **TOLD), 'IPCW.Weight (flat input) = running product within subject',
          case)
    if drv is not None:
        rep, _ = drv.ask('ipcwflat', id=enc_list(df['id'].tolist(), str), time=enc_list(df['t'].tolist(), rq),
                         tint=enc_list([int(v) for v in df['t'].tolist()], str), event=bits(df['d'].values == 1))
        ok = rep['status'] == 'ok'
        if ok:
            labs = [int(t) for t in rep['lab'].split(',')]
            ids = df['id'].tolist()
            mrows = [[int(ids[l]), int(a), float(Fraction(b)), int(c)] for l, a, b, c in
                     zip(labs, rep['tenter'].split(','), rep['tout'].split(','), rep['delta'].split(','))]
            ok = mrows == got_rows and [int(t) for t in rep['unc'].split(',')] == lf['__uncensored__'].astype(int).tolist()
        chk.k(ok, 'IPCW _dataprep records and uncensored indicator = Lean model (exact)', dict(case, model=rep.get('status')))


def ipcw_malformed(chk, drv, rng):
    """documented rejections: late entry (first record of a subject after time 1) and maximum time equal to 1"""
    from zepid.causal.ipw import IPCW
    for kind in ('late_entry', 'max_time_one', 'valid'):
        df = long_dataset(rng, frac_last=False)
        if kind == 'late_entry':
            i = int(df['id'].iloc[0])
            df = df[~((df['id'] == i) & (df['t'] == 1.0))]
            if not (df['id'] == i).any():
                df = pd.concat([df, pd.DataFrame([(i, 2.0, 0, 0, 0.1)], columns=df.columns)], ignore_index=True)
        elif kind == 'max_time_one':
            df = df[df['t'] == 1.0]
        try:
            IPCW(df, idvar='id', time='t', event='d')
            impl = 'ok'
        except ValueError:
            impl = 'err'
        case = {'kind': 'IPCW-malformed', 'what': kind, 'impl': impl}
        chk.case(case, ('IPCW-malformed', kind, frame_hash(df)))
        chk.count('IPCW/malformed/' + kind)
        chk.d((impl == 'err') == (kind != 'valid'), 'IPCW rejects late entry and a maximum time of 1, and nothing else (%s)'
              % kind, case)
        if drv is not None:
            rep, _ = drv.ask('ipcw', id=enc_list(df['id'].tolist(), str), time=enc_list(df['t'].tolist(), rq),
                             event=bits(df['d'].values == 1))
            chk.k((rep['status'] == 'err') == (impl == 'err'), 'IPCW rejection = model rejection (%s)' % kind,
                  dict(case, model=rep['status']))


def run_ipcw(chk, drv, rng, tier):
    reps = 10 if tier == 'quick' else 50
    for i in range(reps):
        base = long_dataset(rng, frac_max=(i % 2 == 1))
        for order in ('sorted', 'shuffled'):
            for how in ('default', 'shifted', 'shuffled'):
                if tier == 'quick' and (i + (order == 'sorted') + ['default', 'shifted', 'shuffled'].index(how)) % 2:
                    continue
                df = base if order == 'sorted' else base.iloc[rng.permutation(len(base))]
                df = relabel(df.reset_index(drop=True), rng, how)
                if i % 3 == 0:     # an unused column with NaN in the caller's frame
                    df['junk'] = np.where(rng.uniform(size=len(df)) < 0.3, np.nan, 1.5)
                rec = {'frame': gen.frame_record(df), 'rows': len(df)}
                cfg = dict(order=order, index=how, denominator='t + L + x', numerator='t', positional=bool(i % 2),
                           fractional_max=bool(i % 2 == 1))
                guard(chk, 'IPCW', cfg, rec, ipcw_cell, drv, df, cfg, frame_hash(df), rec)
    # a cohort of ordinary size (thousands of subjects, 10^4 and more person-period rows; one in the quick tier): the
    # documented weight is a product of at most `tau` factors per subject, whatever the number of subjects, while any
    # quantity accumulated over the whole frame (a running product, a sum of logs, a float32 buffer) degrades with it.
    # The frame is regenerated from the stored recipe on replay.
    for i in range(1 if tier == 'quick' else 5):
        args = dict(seed=int(rng.integers(0, 2 ** 31 - 1)), nsub=int(rng.integers(3000, 4000)) * (3 if i >= 3 else 1),
                    tau=int(rng.integers(5, 9)), cens=float(np.round(rng.uniform(0.09, 0.14), 3)),
                    ev=float(np.round(rng.uniform(0.02, 0.05), 3)), ids=['consecutive', 'sparse'][int(rng.integers(0, 2))])
        gspec = dict(name='cohort', args=args, order=['shuffled', 'sorted'][int(rng.integers(0, 2))],
                     index=['default', 'shifted', 'shuffled'][int(rng.integers(0, 3))],
                     layout_seed=int(rng.integers(0, 2 ** 31 - 1)))
        df = from_generator(gspec)
        rec = {'generator': gspec, 'rows': len(df)}
        cfg = dict(order=gspec['order'], index=gspec['index'], denominator='t + L + x', numerator='t', positional=False,
                   fractional_max=False, cohort=True)
        guard(chk, 'IPCW', cfg, rec, ipcw_cell, drv, df, cfg, ('cohort', repr(sorted(gspec.items(), key=str))), rec)
    for i in range(6 if tier == 'quick' else 30):
        how = ['default', 'shifted', 'shuffled'][i % 3]
        df = relabel(flat_dataset(rng, frac_max=(i % 2 == 0)), rng, how)
        rec = {'frame': gen.frame_record(df), 'rows': len(df)}
        cfg = dict(index=how, fractional_max=bool(i % 2 == 0))
        guard(chk, 'IPCW-flat', cfg, rec, ipcw_flat_cell, drv, df, cfg, frame_hash(df), rec)
    guard(chk, 'IPCW-malformed', {}, {}, ipcw_malformed, drv, rng)


# ------------------------------------------------------------------------------------------- entry points
def run(chk, drv, rng, tier):
    run_iptw_family(chk, drv, rng, tier)
    run_ipmw(chk, drv, rng, tier)
    run_ipcw(chk, drv, rng, tier)


def _frame(data):
    rec = data['frame']
    df = pd.DataFrame({c: [np.nan if v is None else v for v in vals] for c, vals in rec['columns'].items()},
                      index=rec['index'])
    for c in df.columns:
        if c not in ('Y', 'x', 't', 'B', 'C', 'D') and not df[c].isna().any() and (df[c] == df[c].astype(int)).all():
            df[c] = df[c].astype(int)
    return df


def replay(rec):
    import common
    chk = common.Check('C05', 'quick', rec.get('seed', 0))
    for f in rec.get('failures', []):
        c = f['case']
        print('replaying:', f['what'])
        print('  kind=%s cfg=%s' % (c.get('kind'), c.get('cfg')))
        data = c.get('data', {})
        if 'generator' in data:
            df = from_generator(data['generator'])       # too large to store: regenerated from its recipe
        elif 'frame' not in data or 'columns' not in data['frame']:
            print('  (data set too large to be stored; rerun with the recorded seed)')
            continue
        else:
            df = _frame(data)
        cfg = c.get('cfg', {})
        with common.quiet():
            kind = c.get('kind')
            if kind in ('IPTW', 'StochasticIPTW', 'IPTW-history'):
                cache = {}

                def refs(formula, wcol):
                    if (formula, wcol) not in cache:
                        cache[(formula, wcol)] = ref_fit(chk, formula, df.reset_index(drop=True), wcol)
                    return cache[(formula, wcol)]
                {'IPTW': iptw_cell, 'StochasticIPTW': stoch_cell, 'IPTW-history': iptw_history_cell}[kind](
                    chk, None, df, cfg, refs, 0, data)
            elif kind == 'IPTW.missing_model':
                ipmw_outcome_cell(chk, None, df, cfg, None, 0, data)
            elif kind == 'IPMW':
                ipmw_cell(chk, None, df, cfg, 0, data)
            elif kind == 'IPCW':
                ipcw_cell(chk, None, df, cfg, 0, data)
            elif kind == 'IPCW-flat':
                ipcw_flat_cell(chk, None, df, cfg, 0, data)
    for f in chk.d_fail:
        print('  FAILS:', f['what'])
    print('failures reproduced:', len(chk.d_fail))
    return 1 if chk.d_fail else 0
