"""C18 -- adjustment sets reported by DirectedAcyclicGraph are exactly the back-door admissible sets; arrows that
would create a cycle are rejected and leave the graph unchanged.

K: the Lean model (driver op `dag`) and zepid's DirectedAcyclicGraph run the same *history* on one object (sequence
   of add_arrow / add_arrows / add_from_networkx / calculate_adjustment_sets calls); compared: per-call outcome
   (ok / DAGError kind), final node and arrow sets, and after EVERY calculation the family of adjustment sets and of
   minimal sets.
D: an oracle independent of the model -- back-door admissibility by *path blocking* (enumerate the simple paths of
   the graph without the arrows leaving the exposure; collider rule) -- against `adjustment_sets`,
   `minimal_adjustment_sets`; and a reference simulation of the program (own DFS) against raise / no-raise and
   against `self.dag` before/after every raising call.
H: networkx descendants / ancestors / has_path / is_directed_acyclic_graph agree with an own DFS on every graph.
Supplement: the moral-graph criterion (what the code computes) == path-blocking d-separation is a THEOREM for every
   finite DAG (Props/C18.lean: dsep_moral_iff_pathblocking, check_iff_pathblocking, check_iff_backdoor_paths,
   check_eq_backdoorPaths; Lemmas/DagPaths.lean).  What remains a test here: the compiled Lean definitions of both
   (`check`, `backdoorPaths`) are evaluated on every candidate set of all DAGs with <= 4 (quick) / 5 (thorough)
   nodes and compared with each other (an executable instance of the theorem) and with the Python path-blocking
   oracle that gate D uses (this ties D's oracle to the Lean definition `backdoorPaths` the theorem is about).
"""
import itertools

import numpy as np

REQUIRED = ['reach_iff', 'desc_iff', 'anc_iff', 'check_iff_admissible', 'check_iff_backdoor', 'check_order_independent', 'listed_iff',
            'listed_iff_set', 'minimal_eq_smallest', 'reject_unchanged', 'arrow_reject_iff', 'arrows_reject_iff',
            'acyclic_inv', 'acyclic_from_init', 'inv_run', 'inv_from_init', 'listed_iff_program',
            'calculate_reports_current',
            # moral-graph criterion <=> path-blocking d-separation, for every finite DAG (Lemmas/DagPaths.lean)
            'dsep_moral_iff_pathblocking', 'dsepPaths_exec_iff', 'check_iff_pathblocking', 'check_iff_walkblocking',
            'check_iff_backdoor_paths', 'check_eq_backdoorPaths', 'listed_iff_backdoor_paths']
RULE = ('graphs: every DAG containing exposure->outcome on 2..5 labelled nodes (1+8+168+8816, both tiers; the thorough '
        'tier draws more orders per graph), each as several programs: add_arrow per arrow, '
        'add_arrows in 1-3 batches, add_from_networkx (optionally after arrows that must be forgotten), with node '
        'and arrow order shuffled, model node numbers permuted and string labels drawn at random; random DAGs on '
        '6-8 nodes at three densities; ten classical d-separation structures (collider with descendants, three-parent '
        'collider, nested colliders, butterfly, long M, ...) on 6-8 nodes perturbed by random extra arrows; a malformed stream (arrow closing a cycle, self-loop on old/new node, '
        'batch closing a cycle through a new node, cyclic networkx graph, networkx graph without exposure/outcome) '
        'interleaved with valid calls. Every case is a HISTORY on one object: calculate_adjustment_sets() is called '
        'after random calls (also twice in a row, also after rejected calls) and always at the end; the "hist" kind '
        'calculates on an earlier graph (another DAG, or a sub-DAG), then reaches the target graph by add_arrow / '
        'add_arrows / add_from_networkx, calculates again, optionally a rejected call and a third calculation; each '
        'calculation is judged against the oracle on the graph as it is at that moment. distinct = distinct '
        '(labelled program); non-trivial = some candidate set '
        'is admissible and some is not, or the program contains a rejected call')
ASSUMPTIONS = ['networkx.descendants/ancestors/has_path/is_directed_acyclic_graph compute graph reachability '
               '(measured against an own DFS on every generated graph)',
               'moral-graph criterion == path-blocking d-separation is proved for every finite DAG '
               '(dsep_moral_iff_pathblocking, check_iff_backdoor_paths); the Python path-blocking oracle of gate D is '
               'compared with the Lean definition backdoorPaths on all DAGs with <= 4/5 nodes (supplement)',
               'node labels are strings in zEpid and natural numbers in the model; the harness maps one to the other']

POOL = ['X', 'Y', 'A', 'B', 'C', 'D', 'L', 'M', 'U', 'V', 'W', 'Z', 'U1', 'U2', 'age', 'sex', 'art', 'cd4', 'dead',
        'a', 'b', 'x', 'y', 'smoke', 'bmi', 'L0', 'L1', 'K']


# ------------------------------------------------------------------ independent reference (plain Python)
def reach_set(succ, s):
    seen = {s}
    stack = [s]
    while stack:
        u = stack.pop()
        for w in succ.get(u, ()):
            if w not in seen:
                seen.add(w)
                stack.append(w)
    return seen


def succ_of(edges):
    succ = {}
    for s, t in edges:
        succ.setdefault(s, set()).add(t)
    return succ


def has_cycle(edges):
    succ = succ_of(edges)
    return any(s in reach_set(succ, t) for s, t in edges)


class Ref:
    """reference semantics of the editing calls: node list in insertion order, arrow set"""

    def __init__(self, x, y):
        self.x, self.y = x, y
        self.nodes = [x] if x == y else [x, y]
        self.edges = {(x, y)}

    def _merged(self, nodes, edges, new):
        nodes, edges = list(nodes), set(edges)
        for s, t in new:
            for v in (s, t):
                if v not in nodes:
                    nodes.append(v)
            edges.add((s, t))
        return nodes, edges

    def apply(self, op):
        """returns 'ok' / 'cyclic' / 'badInput'; state changes only on 'ok'"""
        if op[0] == 'c':
            return 'ok'
        if op[0] == 'a':
            nodes, edges = self._merged(self.nodes, self.edges, [(op[1], op[2])])
        elif op[0] == 's':
            nodes, edges = self._merged(self.nodes, self.edges, op[1])
        else:
            nodes = []
            for v in op[1]:
                if v not in nodes:
                    nodes.append(v)
            nodes, edges = self._merged(nodes, set(), op[2])
        if has_cycle(edges):
            return 'cyclic'
        if op[0] == 'g' and (self.x not in nodes or self.y not in nodes):
            return 'badInput'
        self.nodes, self.edges = nodes, edges
        return 'ok'


def oracle_family(nodes, edges, x, y):
    """family (set of frozensets) of back-door admissible subsets of nodes - {x, y}, by path blocking:
    Z contains no descendant of x, and every simple path between x and y in the graph without the arrows leaving x
    holds a non-collider in Z or a collider that is not in Z and has no descendant (in that graph) in Z."""
    bit = {v: 1 << i for i, v in enumerate(nodes)}
    descx = 0
    for v in reach_set(succ_of(edges), x) - {x}:
        descx |= bit[v]
    e2 = {(s, t) for s, t in edges if s != x}
    succ2 = succ_of(e2)
    dmask = {}
    for v in nodes:
        m = 0
        for w in reach_set(succ2, v):
            m |= bit[w]
        dmask[v] = m
    nbr = {v: set() for v in nodes}
    for s, t in e2:
        nbr[s].add(t)
        nbr[t].add(s)
    paths = []

    def dfs(path, seen):
        u = path[-1]
        if u == y:
            paths.append(list(path))
            return
        for w in nbr[u]:
            if w not in seen:
                seen.add(w)
                path.append(w)
                dfs(path, seen)
                path.pop()
                seen.discard(w)
    dfs([x], {x})
    summ = []
    for p in paths:
        noncol, cols = 0, []
        for i in range(1, len(p) - 1):
            if (p[i - 1], p[i]) in e2 and (p[i + 1], p[i]) in e2:
                cols.append(dmask[p[i]])
            else:
                noncol |= bit[p[i]]
        summ.append((noncol, cols))
    cands = [v for v in nodes if v != x and v != y]
    fam = set()
    for k in range(len(cands) + 1):
        for S in itertools.combinations(cands, k):
            z = 0
            for v in S:
                z |= bit[v]
            if z & descx:
                continue
            if all((nc & z) or any(not (c & z) for c in cols) for nc, cols in summ):
                fam.add(frozenset(S))
    return fam


def all_dags(n):
    """all DAGs on nodes 0..n-1 that contain the arrow 0 -> 1"""
    pairs = [p for p in itertools.combinations(range(n), 2) if p != (0, 1)]
    out = []
    for code in itertools.product((0, 1, 2), repeat=len(pairs)):
        edges = [(0, 1)]
        for (i, j), c in zip(pairs, code):
            if c == 1:
                edges.append((i, j))
            elif c == 2:
                edges.append((j, i))
        if not has_cycle(edges):
            out.append(edges)
    return out


# ------------------------------------------------------------------ running a program on the real code
def run_impl(lab, x, y, program):
    """history over model numbers (edits and ('c',) = calculate_adjustment_sets); lab maps number -> zEpid label.
    Returns per-call status, whether self.dag was left alone by raising calls and by calculations, the final graph,
    and for every calculation the two result attributes together with the graph at that moment."""
    import networkx as nx
    from zepid.causal.causalgraph import DirectedAcyclicGraph
    from zepid.causal.causalgraph.dag import DAGError
    inv = {}

    def L(v):
        inv[lab[v]] = v
        return lab[v]

    d = DirectedAcyclicGraph(exposure=L(x), outcome=L(y))
    status, unchanged, reports = [], [], []

    def snap():
        return [inv[v] for v in d.dag.nodes], sorted((inv[s], inv[t]) for s, t in d.dag.edges)
    for op in program:
        before = snap()
        obj = d.dag
        try:
            if op[0] == 'c':
                d.calculate_adjustment_sets()
                reports.append({'sets': [[inv[v] for v in s] for s in d.adjustment_sets],
                                'minimal': [[inv[v] for v in s] for s in d.minimal_adjustment_sets],
                                'nodes': before[0], 'edges': before[1]})
                unchanged.append(snap() == before)
            elif op[0] == 'a':
                d.add_arrow(source=L(op[1]), endpoint=L(op[2]))
                unchanged.append(None)
            elif op[0] == 's':
                d.add_arrows(pairs=[(L(s), L(t)) for s, t in op[1]])
                unchanged.append(None)
            else:
                g = nx.DiGraph()
                g.add_nodes_from([L(v) for v in op[1]])
                g.add_edges_from([(L(s), L(t)) for s, t in op[2]])
                d.add_from_networkx(g)
                unchanged.append(None)
            status.append('ok')
        except DAGError as e:
            status.append('cyclic' if 'yclic' in str(e) else 'badInput')
            unchanged.append(snap() == before and d.dag is obj)
    nodes, edges = snap()
    res = {'status': status, 'unchanged': unchanged, 'nodes': nodes, 'edges': edges, 'reports': reports,
           'isdag': bool(nx.is_directed_acyclic_graph(d.dag))}
    return res, d


def enc_edges(es):
    return ','.join('%d>%d' % (s, t) for s, t in es) or '[]'


def enc_program(program):
    out = []
    for op in program:
        if op[0] == 'c':
            out.append('c')
        elif op[0] == 'a':
            out.append('a:%d>%d' % (op[1], op[2]))
        elif op[0] == 's':
            out.append('s:' + enc_edges(op[1]))
        else:
            out.append('g:%s|%s' % (','.join(map(str, op[1])) or '[]', enc_edges(op[2])))
    return ';'.join(out) or '[]'


def dec_sets(s):
    if s in ('', '[]'):
        return []
    return [[] if t == 'e' else [int(v) for v in t.split('.')] for t in s.split(';')]


def fam(sets):
    return {frozenset(s) for s in sets}


def jfam(f):
    return sorted(sorted(s) for s in f)


def check_h(chk, ref):
    """gate H: the four networkx calls zEpid relies on, against the own DFS, on the reference graph"""
    import networkx as nx
    g = nx.DiGraph()
    g.add_nodes_from(ref.nodes)
    g.add_edges_from(ref.edges)
    succ = succ_of(ref.edges)
    pred = succ_of([(t, s) for s, t in ref.edges])
    ok = nx.is_directed_acyclic_graph(g) == (not has_cycle(ref.edges))
    for v in ref.nodes:
        ok = ok and set(nx.descendants(g, v)) == reach_set(succ, v) - {v}
        ok = ok and set(nx.ancestors(g, v)) == reach_set(pred, v) - {v}
    und = succ_of(list(ref.edges) + [(t, s) for s, t in ref.edges])
    ok = ok and nx.has_path(g.to_undirected(), ref.x, ref.y) == (ref.y in reach_set(und, ref.x))
    chk.h_checked += 1
    return ok


def norm_op(op):
    if op[0] == 'c':
        return ('c',)
    if op[0] == 'a':
        return tuple(op)
    if op[0] == 's':
        return (op[0], [tuple(e) for e in op[1]])
    return (op[0], list(op[1]), [tuple(e) for e in op[2]])


def check_program(chk, drv, lab, x, y, program, kind, stats):
    """one case = one history on one object: run it on zEpid, on the reference, on the model; gates D, K, H.
    Every calculate_adjustment_sets() in the history is judged against the oracle on the graph as it is then."""
    lab = {int(k): v for k, v in lab.items()}
    program = [norm_op(op) for op in program]
    if not program or program[-1] != ('c',):
        program.append(('c',))
    case = {'labels': {str(k): v for k, v in lab.items()}, 'x': x, 'y': y, 'program': [list(op) for op in program],
            'kind': kind}
    key = (kind, repr(program), repr(sorted(lab.items())))
    ref = Ref(x, y)
    want, want_graphs = [], []
    for op in program:
        want.append(ref.apply(op))
        if op[0] == 'c':
            want_graphs.append((list(ref.nodes), set(ref.edges)))
    if not check_h(chk, ref):
        chk.discard('networkx reachability disagrees with the reference DFS')
        return True
    try:
        res, _ = run_impl(lab, x, y, program)
    except Exception as e:  # anything but DAGError is not a documented outcome
        chk.case(case, key)
        chk.d(False, 'unexpected exception %s: %s' % (type(e).__name__, e), case)
        return False
    try:
        ok_all = judge(chk, case, key, kind, ref, want, want_graphs, res, x, y)
    except Exception as e:  # output the harness cannot digest is a failure of the implementation, not of the tool
        chk.d(False, 'output not digestible (%s: %s)' % (type(e).__name__, e), case)
        return False
    # ---- K: model vs implementation
    if drv is not None:
        rep, line = drv.ask('dag', x=x, y=y, ops=enc_program(program))
        try:
            k = rep['status'] == 'ok' and _k_compare(rep, res, stats)
        except Exception:
            k = False
        chk.k(k, 'dag history: model vs DirectedAcyclicGraph', {'case': case, 'model': rep, 'line': line})
        ok_all = ok_all and k
    return ok_all


def judge(chk, case, key, kind, ref, want, want_graphs, res, x, y):
    cache = {}
    fams = []
    for nodes, edges in want_graphs:
        ck = (tuple(nodes), frozenset(edges))
        if ck not in cache:
            cache[ck] = oracle_family(nodes, edges, x, y)
        fams.append(cache[ck])
    rejected = any(w != 'ok' for w in want)
    nontrivial = rejected or len(cache) > 1 or any(
        0 < len(f) < 2 ** (len(g[0]) - 2) for f, g in zip(fams, want_graphs))
    case['impl'] = {k: res[k] for k in ('status', 'nodes', 'edges', 'reports')}
    case['oracle'] = {'status': want, 'edges': sorted(ref.edges),
                      'admissible_at_each_calculation': [jfam(f) for f in fams],
                      'graph_at_each_calculation': [sorted(g[1]) for g in want_graphs]}
    chk.case(case, key if nontrivial else None, sample=case if (nontrivial and chk.evals % 997 == 0) else None)
    chk.count('kind_' + kind)
    chk.count('nodes_%d' % len(ref.nodes))
    chk.count('calculations_%d' % min(len(want_graphs), 4))
    chk.count('distinct_graphs_calculated_%d' % min(len(cache), 3))
    for w in want:
        chk.count('call_' + w)
    # ---- D: editing calls
    d1 = res['status'] == want
    chk.d(d1, 'a call raises DAGError iff it would leave a directed cycle (or the networkx graph lacks '
              'exposure/outcome)', case)
    d2 = all(u is not False for u in res['unchanged'])
    chk.d(d2, 'a raising call (and a calculation) leaves self.dag unchanged (same nodes and arrows)', case)
    d3 = res['isdag'] and set(res['nodes']) == set(ref.nodes) and set(res['edges']) == ref.edges
    chk.d(d3, 'the stored graph is the DAG made of the accepted arrows', case)
    # ---- D: at every calculation, adjustment sets == admissible family of the graph as it is at that moment
    d4 = len(res['reports']) == len(fams)
    d5 = True
    for r, f in zip(res['reports'], fams):
        got = fam(r['sets'])
        d4 = d4 and got == f
        msz = min((len(s) for s in r['sets']), default=0)
        d5 = d5 and fam(r['minimal']) == {s for s in got if len(s) == msz}
    chk.d(d4, 'after every calculate_adjustment_sets(): adjustment_sets == back-door admissible subsets of the '
              'current graph (path-blocking oracle)', case)
    chk.d(d5, 'after every calculate_adjustment_sets(): minimal_adjustment_sets == listed sets of smallest size',
          case)
    return d1 and d2 and d3 and d4 and d5


def _k_compare(rep, res, stats):
    calls = [] if rep['calls'] in ('', '[]') else rep['calls'].split(',')
    mnodes = [] if rep['nodes'] in ('', '[]') else [int(v) for v in rep['nodes'].split(',')]
    medges = [] if rep['edges'] in ('', '[]') else [tuple(int(v) for v in e.split('>')) for e in rep['edges'].split(',')]
    mreps = [] if rep['reports'] in ('', '[]') else [tuple(dec_sets(t) for t in r.split(':'))
                                                      for r in rep['reports'].split('/')]
    ok = (calls == res['status'] and set(mnodes) == set(res['nodes']) and sorted(medges) == res['edges'] and
          len(mreps) == len(res['reports']))
    order = mnodes == res['nodes']
    for (msets, mmin), r in zip(mreps, res['reports']):
        ok = (ok and fam(msets) == fam(r['sets']) and fam(mmin) == fam(r['minimal']) and
              len(msets) == len(r['sets']) and len(mmin) == len(r['minimal']))
        order = order and msets == r['sets'] and mmin == r['minimal']
    # informational only: the model also reproduces networkx's node order and itertools' listing order
    if ok and not order:
        stats['order_mismatch'] += 1
    return ok


# ------------------------------------------------------------------ program generators
def relabel(rng, nodes, edges, x=0, y=1, spare=2):
    """random model numbers (a permutation of 0..n-1, so exposure/outcome are not always 0/1) and random labels;
    `spare` further numbers get labels too (nodes that only rejected or superseded calls mention)"""
    n = len(nodes)
    perm = rng.permutation(n).tolist()
    num = {v: perm[i] for i, v in enumerate(nodes)}
    labs = rng.choice(len(POOL), size=n, replace=False).tolist()
    lab = {num[v]: POOL[labs[i]] for i, v in enumerate(nodes)}
    rest = [l for l in POOL if l not in lab.values()]
    for k in range(spare):
        lab[n + k] = rest[k]
    relabel.num = num
    return lab, num[x], num[y], [num[v] for v in nodes], [(num[s], num[t]) for s, t in edges]


def shuffled(rng, xs):
    xs = list(xs)
    idx = rng.permutation(len(xs)).tolist()
    return [xs[i] for i in idx]


C = ('c',)


def sprinkle(rng, prog, p=0.3):
    """calculate_adjustment_sets() after some of the calls (sometimes twice in a row)"""
    out = []
    for op in prog:
        out.append(op)
        if rng.random() < p:
            out.append(C)
            if rng.random() < 0.2:
                out.append(C)
    return out


def build_ops(rng, nodes, edges, x, y, mode):
    """calls that turn a fresh object into the DAG (nodes, edges)"""
    es = shuffled(rng, edges)
    if mode == 'arrow':
        if rng.random() < 0.5:
            es = [e for e in es if e != (x, y)]      # the constructor already added exposure -> outcome
        return [('a', s, t) for s, t in es]
    if mode == 'arrows':
        k = int(rng.integers(1, 4))
        cuts = sorted(rng.integers(0, len(es) + 1, size=k - 1).tolist())
        return [('s', c) for c in [es[a:b] for a, b in zip([0] + cuts, cuts + [len(es)])]]
    return [('g', shuffled(rng, nodes), es)]


def rejected_op(rng, nodes, edges, x, y):
    """a call that must raise on the DAG (nodes, edges)"""
    succ = succ_of(edges)
    fresh = max(nodes) + 1
    r = rng.random()
    if r < 0.4:
        cand = [(s, t) for t in nodes for s in reach_set(succ, t) if s != t]
        s, t = cand[int(rng.integers(len(cand)))]
        return ('a', s, t)
    if r < 0.55:
        v = nodes[int(rng.integers(len(nodes)))] if rng.random() < 0.5 else fresh
        return ('a', v, v)
    if r < 0.8:
        cand = [(u, w) for w in nodes for u in reach_set(succ, w)]
        u, w = cand[int(rng.integers(len(cand)))]
        return ('s', shuffled(rng, [(u, fresh), (fresh, w)]))
    if r < 0.9:
        return ('g', shuffled(rng, nodes), shuffled(rng, list(edges) + [(y, x)]))
    keep = [v for v in nodes if v != (x if rng.random() < 0.5 else y)]
    return ('g', keep, [(s, t) for s, t in edges if s in keep and t in keep])


def programs_for(rng, nodes, edges, x, y, modes, prev=None):
    """histories whose last graph is the DAG (nodes, edges).  Isolated nodes can only be expressed by
    add_from_networkx.  `prev` = arrows of another DAG on the same nodes (containing x -> y), used by the histories
    that calculate on one graph, then edit / replace it, then calculate again."""
    used = {v for e in edges for v in e}
    isolated = [v for v in nodes if v not in used]
    out = []
    for m in modes:
        if m in ('arrow', 'arrows') and not isolated:
            out.append((m, sprinkle(rng, build_ops(rng, nodes, edges, x, y, m))))
        elif m == 'nx':
            prog = []
            if rng.random() < 0.5:      # arrows added before the replacement must be forgotten
                junk = shuffled(rng, nodes)[:2]
                if len(junk) == 2 and (junk[1], junk[0]) != (x, y) and junk[0] != junk[1]:
                    prog.append(('a', junk[0], junk[1]))
            prog.append(('g', shuffled(rng, nodes), shuffled(rng, edges)))
            out.append(('nx', sprinkle(rng, prog)))
        elif m == 'hist':
            # (1) calculate on an earlier graph, then reach the target graph by every kind of edit, calculate again
            prog = []
            if prev is not None and rng.random() < 0.6:
                pnodes = [v for v in nodes if any(v in e for e in prev)]
                prog += build_ops(rng, pnodes, prev, x, y, ['arrow', 'arrows', 'nx'][int(rng.integers(3))])
                prog.append(C)
                if rng.random() < 0.3:
                    prog += [rejected_op(rng, pnodes, prev, x, y), C]
                prog.append(('g', shuffled(rng, nodes), shuffled(rng, edges)))
            else:
                # a sub-DAG first, then the remaining arrows one by one / as a batch / by reloading the whole graph
                es = shuffled(rng, [e for e in edges if e != (x, y)])
                cut = int(rng.integers(0, len(es) + 1))
                first, rest = [(x, y)] + es[:cut], es[cut:]
                fnodes = [v for v in nodes if any(v in e for e in first)]
                prog += build_ops(rng, fnodes, first, x, y, ['arrow', 'arrows', 'nx'][int(rng.integers(3))])
                prog.append(C)
                how = int(rng.integers(3))
                if isolated or how == 2:
                    prog.append(('g', shuffled(rng, nodes), shuffled(rng, edges)))
                elif how == 0:
                    for e in rest:
                        prog.append(('a', e[0], e[1]))
                        if rng.random() < 0.3:
                            prog.append(C)
                else:
                    prog.append(('s', rest))
            prog.append(C)
            if rng.random() < 0.35:
                prog += [rejected_op(rng, nodes, edges, x, y), C]
            out.append(('hist', prog))
    return out


def random_dag(rng, n, p):
    order = rng.permutation(n).tolist()
    pos = {v: i for i, v in enumerate(order)}
    if pos[0] > pos[1]:
        order[pos[0]], order[pos[1]] = order[pos[1]], order[pos[0]]
        pos = {v: i for i, v in enumerate(order)}
    edges = [(0, 1)]
    for i in range(n):
        for j in range(i + 1, n):
            a, b = order[i], order[j]
            if (a, b) != (0, 1) and rng.random() < p:
                edges.append((a, b))
    return edges


# classical d-separation structures (roles: 0 = exposure, 1 = outcome, 2.. = others; 0 -> 1 is always present).
# Random dense graphs almost never isolate these mechanisms on 6+ nodes, so they are seeded explicitly and then
# perturbed with a few extra arrows.
TEMPLATES = {
    'collider_descendant': [(2, 0), (2, 4), (3, 4), (3, 1), (4, 5)],
    'collider_descendant_chain': [(2, 0), (2, 4), (3, 4), (3, 1), (4, 5), (5, 6)],
    'three_parent_collider': [(2, 0), (2, 5), (3, 5), (4, 5), (4, 1)],
    'nested_colliders': [(2, 0), (2, 5), (3, 5), (3, 6), (4, 6), (4, 1)],
    'butterfly': [(2, 0), (2, 4), (3, 4), (3, 1), (4, 0), (4, 1)],
    'long_m': [(2, 0), (2, 4), (3, 4), (3, 5), (5, 1)],
    'collider_two_descendants': [(2, 0), (2, 4), (3, 4), (3, 1), (4, 5), (4, 6)],
    'mediator_confounded': [(0, 2), (2, 1), (3, 2), (3, 1), (4, 0), (4, 3)],
    'instrument_and_collider': [(2, 0), (3, 0), (3, 4), (5, 4), (5, 1), (4, 6)],
    'descendant_of_parent_collider': [(2, 0), (2, 3), (4, 3), (4, 1), (3, 5), (6, 5), (6, 1)],
}


def template_dag(rng):
    name = sorted(TEMPLATES)[int(rng.integers(len(TEMPLATES)))]
    edges = [(0, 1)] + list(TEMPLATES[name])
    n = max(max(e) for e in edges) + 1 + int(rng.integers(0, 2))
    n = min(n, 8)
    q = float(rng.choice([0.0, 0.05, 0.12]))
    pairs = [(a, b) for a in range(n) for b in range(n) if a != b]
    for i in rng.permutation(len(pairs)).tolist():
        a, b = pairs[i]
        if rng.random() < q and (a, b) not in edges and (b, a) not in edges and not has_cycle(edges + [(a, b)]):
            edges.append((a, b))
    return name, n, edges


def malformed_program(rng, nodes, edges, x, y):
    """a valid construction interleaved with calls that must be rejected"""
    es = shuffled(rng, edges)
    prog = []
    ref = Ref(x, y)
    fresh = max(nodes) + 1
    for e in es:
        op = ('a', e[0], e[1])
        ref.apply(op)
        prog.append(op)
        r = rng.random()
        succ = succ_of(ref.edges)
        if r < 0.35:
            # arrow closing a directed cycle: t reaches s
            cand = [(s, t) for t in ref.nodes for s in reach_set(succ, t) if s != t]
            if cand:
                s, t = cand[int(rng.integers(len(cand)))]
                prog.append(('a', s, t))
        elif r < 0.45:
            v = ref.nodes[int(rng.integers(len(ref.nodes)))] if rng.random() < 0.5 else fresh
            prog.append(('a', v, v))
        elif r < 0.65:
            # batch closing a cycle through a new node: u -> new -> w with w reaching u
            cand = [(u, w) for w in ref.nodes for u in reach_set(succ, w)]
            u, w = cand[int(rng.integers(len(cand)))]
            extra = [(ref.nodes[0], fresh + 1)] if rng.random() < 0.5 else []
            prog.append(('s', shuffled(rng, [(u, fresh), (fresh, w)] + extra)))
        elif r < 0.75:
            cyc = shuffled(rng, list(ref.edges) + [(t, s) for s, t in list(ref.edges)[:1]])
            prog.append(('g', shuffled(rng, ref.nodes), cyc))
        elif r < 0.85:
            keep = [v for v in ref.nodes if v != (x if rng.random() < 0.5 else y)]
            sub = [(s, t) for s, t in ref.edges if s in keep and t in keep]
            prog.append(('g', keep, sub))
    return prog


# ------------------------------------------------------------------ supplement: moral criterion vs path blocking
def supplement(chk, drv, graphs_by_n, stats):
    if drv is None:
        return
    ng = nz = bad = 0
    for n, graphs in graphs_by_n.items():
        nodes = list(range(n))
        for edges in graphs:
            rep, line = drv.ask('dagsep', x=0, y=1, nodes=','.join(map(str, nodes)), edges=enc_edges(edges))
            ok = rep['status'] == 'ok' and rep['moral'] == rep['path']
            if ok:
                sets = dec_sets(rep['sets'])
                want = oracle_family(nodes, set(edges), 0, 1)
                got = {frozenset(s) for s, b in zip(sets, rep['moral']) if b == '1'}
                ok = got == want and len(sets) == 2 ** (n - 2)
                nz += len(sets)
            ng += 1
            if not ok:
                bad += 1
                chk.k(False, 'supplement: moral-graph criterion vs path-blocking d-separation (Lean, compiled) vs '
                             'Python oracle disagree', {'edges': edges, 'n': n, 'model': rep})
    chk.k(bad == 0, 'supplement: moral criterion == path blocking on all enumerated DAGs', {'graphs': ng})
    stats['supplement'] = {'graphs': ng, 'candidate_sets': nz, 'disagreements': bad,
                           'label': 'executable instance of theorem check_eq_backdoorPaths + tie of the Python oracle to the '
                                    'Lean definition backdoorPaths (compiled evaluation)'}


# ------------------------------------------------------------------ entry points
def run(chk, drv, rng, tier):
    stats = {'order_mismatch': 0}
    thorough = tier == 'thorough'
    graphs = {n: all_dags(n) for n in (2, 3, 4, 5)}
    chk.extra['dags_enumerated'] = {str(n): len(g) for n, g in graphs.items()}
    chk.extra['exhaustive'] = True
    chk.extra['exhaustive_scope'] = ('all DAGs containing exposure->outcome on <= 5 labelled nodes (exposure, outcome '
                                     'and up to three further nodes), each under three kinds of program; node/arrow '
                                     'orders, model numbering and labels are sampled (%s per graph)'
                                     % ('1-3 draws' if not thorough else '4-6 draws'))
    # bounded supplement: <= 4 nodes in the quick tier, <= 5 in the thorough tier
    supplement(chk, drv, graphs if thorough else {n: g for n, g in graphs.items() if n <= 4}, stats)
    modes = ['arrow', 'arrows', 'nx', 'hist']
    for n, gl in graphs.items():
        reps = (4 if n == 5 else 6) if thorough else (1 if n == 5 else 3)
        for edges in gl:
            for _ in range(reps):
                lab, x, y, nodes, es = relabel(rng, list(range(n)), edges)
                prev = [(relabel.num[s], relabel.num[t]) for s, t in gl[int(rng.integers(len(gl)))]]
                for kind, prog in programs_for(rng, nodes, es, x, y, modes, prev=prev):
                    check_program(chk, drv, lab, x, y, prog, kind, stats)
    # random larger DAGs
    nrand = 4000 if thorough else 1200
    for i in range(nrand):
        n = int(rng.integers(6, 9))
        p = float(rng.choice([0.2, 0.35, 0.55]))
        edges = random_dag(rng, n, p)
        lab, x, y, nodes, es = relabel(rng, list(range(n)), edges)
        prev = [(relabel.num[s], relabel.num[t]) for s, t in random_dag(rng, n, p)]
        progs = programs_for(rng, nodes, es, x, y, modes, prev=prev)
        kind, prog = progs[int(rng.integers(len(progs)))] if not thorough else (None, None)
        for kind, prog in (progs if thorough else [(kind, prog)]):
            check_program(chk, drv, lab, x, y, prog, 'rand_' + kind, stats)
    # seeded d-separation structures on 6-8 nodes with a few random extra arrows
    ntem = 6000 if thorough else 1500
    for i in range(ntem):
        name, n, edges = template_dag(rng)
        lab, x, y, nodes, es = relabel(rng, list(range(n)), edges)
        prev = [(relabel.num[s], relabel.num[t]) for s, t in random_dag(rng, n, 0.3)]
        progs = programs_for(rng, nodes, es, x, y, modes, prev=prev)
        for kind, prog in (progs if thorough else [progs[int(rng.integers(len(progs)))]]):
            check_program(chk, drv, lab, x, y, prog, 'tmpl_' + kind, stats)
        chk.count('template_' + name)
    # malformed stream
    nmal = 8000 if thorough else 1500
    for i in range(nmal):
        n = int(rng.integers(2, 8))
        edges = random_dag(rng, n, float(rng.choice([0.3, 0.6])))
        lab, x, y, nodes, es = relabel(rng, list(range(n)), edges)
        prog = sprinkle(rng, malformed_program(rng, nodes, es, x, y), p=0.25)
        check_program(chk, drv, lab, x, y, prog, 'malformed', stats)
    chk.extra.update(stats)


def replay(rec):
    """re-run the stored failing programs on the real code and print implementation vs oracle"""
    import common
    bad = 0
    for f in rec.get('failures', []) + rec.get('k_failures', []):
        case = f.get('case') or {}
        case = case.get('case', case)
        if not case or 'program' not in case:
            print('no replayable case in', f.get('what'))
            continue
        chk = common.Check('C18', 'replay', 0)
        drv = common.Driver() if __import__('os').path.exists(common.DRIVER) else None
        with common.quiet():
            check_program(chk, drv, case['labels'], case['x'], case['y'], case['program'], case.get('kind', 'replay'),
                          {'order_mismatch': 0})
        if drv is not None:
            drv.close()
        print('program   :', case['program'], 'labels', case['labels'], 'x', case['x'], 'y', case['y'])
        for g in chk.d_fail + chk.k_fail:
            print('  FAILS   :', g['gate'], g['what'])
            c = g['case'].get('case', g['case'])
            print('  impl    :', c.get('impl'))
            print('  oracle  :', c.get('oracle'))
        if chk.d_fail or chk.k_fail:
            bad += 1
        else:
            print('  passes now')
    return 1 if bad else 0
