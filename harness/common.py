"""Shared machinery of the zEpid verification checks (see DESIGN.md sections 2-4).

Gates:  P (Lean proof: build + axiom audit, against the freshly regenerated Gen/ files)
        K (correspondence: executable Lean model vs the real implementation)
        D (direct evaluation of the property's predicate on the implementation = failing-input search)
        H (assumed behaviour of external libraries, measured; a failed H on the reference call is a discard)
"""
import contextlib
import fcntl
import hashlib
import io
import json
import math
import os
import re
import struct
import subprocess
import sys
import time
import traceback
import warnings
from fractions import Fraction

HERE = os.path.dirname(os.path.abspath(__file__))
VERIF = os.path.dirname(HERE)
LEAN = os.path.join(VERIF, 'lean')
DRIVER = os.path.join(LEAN, '.lake', 'build', 'bin', 'zvdriver')
REPO = os.environ.get('ZEPID_REPO', '/repo')
STD_AXIOMS = {'propext', 'Classical.choice', 'Quot.sound'}

TRUSTED_BASE = [
    "Lean 4.33.0 kernel; axioms of every audited theorem are a subset of {propext, Classical.choice, Quot.sound}; "
    "no sorry/admit/native_decide/bv_decide/implemented_by/unsafe/own axioms (source grep + #print axioms each run)",
    "the statement of each theorem in lean/ZepidVerif/Props (reviewed against properties.jsonl)",
    "the translators harness/py2lean.py, harness/py2lean_lists.py and the static effect analysis harness/effects.py (their output is executed against the Python it was generated from, gate K; what effects.py declares rather than derives is listed in Gen/Tables.lean) "
    "and the correspondence harness incl. canonicalisation and tolerances",
    "assumed behaviour of external libraries (statsmodels GLM/GEE score equations, scipy norm.ppf/nnls/solve, "
    "sklearn KFold, pandas sample, numpy RNG), measured on every explored case (gate H), not proved",
    "the Float instantiation of the generic model is used for execution only (no theorem covers floating point)",
    "Python/pandas glue (index alignment, containers, copy-on-write, patsy) is modelled only as row filtering and "
    "ordering; it is exercised by gates K/D on transformed inputs, not proved",
]

sys.path.insert(0, HERE)


# ------------------------------------------------------------------ number encodings
def fx(x):
    """float -> 'x' + 16 hex digits (IEEE-754 bits)"""
    return 'x%016x' % struct.unpack('<Q', struct.pack('<d', float(x)))[0]


def unfx(s):
    return struct.unpack('<d', struct.pack('<Q', int(s[1:], 16)))[0]


def rq(x):
    """exact rational encoding of an int / float / Fraction"""
    if isinstance(x, Fraction):
        f = x
    elif isinstance(x, int):
        return str(x)
    else:
        f = Fraction(float(x))
    return str(f.numerator) if f.denominator == 1 else '%d/%d' % (f.numerator, f.denominator)


def unrq(s):
    return Fraction(s)


def enc_list(xs, f):
    xs = list(xs)
    return ','.join(f(x) for x in xs) if xs else '[]'


def dec_list(s, f):
    return [] if s in ('', '[]') else [f(t) for t in s.split(',')]


def close(a, b, rtol=1e-9, atol=1e-12):
    """numeric agreement with NaN/inf pattern compared exactly"""
    a = float(a)
    b = float(b)
    if math.isnan(a) or math.isnan(b):
        return math.isnan(a) and math.isnan(b)
    if math.isinf(a) or math.isinf(b):
        return a == b
    return abs(a - b) <= atol + rtol * max(abs(a), abs(b))


# ------------------------------------------------------------------ Lean side
@contextlib.contextmanager
def build_lock():
    os.makedirs(os.path.join(LEAN, '.lake'), exist_ok=True)
    with open(os.path.join(LEAN, '.lake', 'verif.lock'), 'w') as f:
        fcntl.flock(f, fcntl.LOCK_EX)
        try:
            yield
        finally:
            fcntl.flock(f, fcntl.LOCK_UN)


def _run(cmd, cwd=LEAN, timeout=3000):
    p = subprocess.run(cmd, cwd=cwd, stdout=subprocess.PIPE, stderr=subprocess.STDOUT, text=True, timeout=timeout)
    return p.returncode, p.stdout


def strip_comments(src):
    out = []
    i, depth, n = 0, 0, len(src)
    while i < n:
        if src.startswith('/-', i):
            depth += 1
            i += 2
        elif depth and src.startswith('-/', i):
            depth -= 1
            i += 2
        elif depth:
            i += 1
        elif src.startswith('--', i):
            while i < n and src[i] != '\n':
                i += 1
        else:
            out.append(src[i])
            i += 1
    return ''.join(out)


FORBIDDEN = re.compile(r'\bsorry\b|\badmit\b|^\s*axiom\s|native_decide|bv_decide|implemented_by|\bunsafe\s|'
                       r'maxHeartbeats\s+0\b', re.M)


def source_audit():
    bad = []
    for root in (os.path.join(LEAN, 'ZepidVerif'), os.path.join(LEAN, 'Driver')):
        for dp, _, fs in os.walk(root):
            for fn in fs:
                if fn.endswith('.lean'):
                    p = os.path.join(dp, fn)
                    with open(p) as f:
                        txt = strip_comments(f.read())
                    for m in FORBIDDEN.finditer(txt):
                        bad.append('%s: %s' % (os.path.relpath(p, LEAN), m.group(0).strip()))
    return bad


def theorem_names(prop_file):
    with open(prop_file) as f:
        txt = strip_comments(f.read())
    ns = re.search(r'^namespace\s+(\S+)', txt, re.M)
    prefix = (ns.group(1) + '.') if ns else ''
    return [prefix + m.group(1) for m in re.finditer(r'^\s*(?:protected\s+|private\s+)?theorem\s+([^\s:({\[]+)', txt, re.M)]


PRISTINE = os.path.join(LEAN, 'pristine', 'Gen')    # committed copies of Gen/*.lean as generated from the unchanged /repo
GEN_DIR = os.path.join(LEAN, 'ZepidVerif', 'Gen')


def _module_imports(mod):
    p = os.path.join(LEAN, mod.replace('.', os.sep) + '.lean')
    if not os.path.exists(p):
        return []
    with open(p) as f:
        return [m for m in re.findall(r'^import\s+(\S+)', f.read(), re.M) if m.startswith(('ZepidVerif', 'Driver'))]


def gen_deps(mod):
    """names of the generated files (e.g. 'Fit.lean') a Lean module of this project transitively imports"""
    seen, todo = set(), [mod]
    while todo:
        for m in _module_imports(todo.pop()):
            if m not in seen:
                seen.add(m)
                todo.append(m)
    return {m.split('.')[-1] + '.lean' for m in seen if m.startswith('ZepidVerif.Gen.')}


_OPS_MODULE = {}


def ops_module(op):
    """the Driver/Ops module that defines a driver operation (read from the ops tables)"""
    if not _OPS_MODULE:
        d = os.path.join(LEAN, 'Driver', 'Ops')
        for fn in os.listdir(d):
            if fn.endswith('.lean'):
                with open(os.path.join(d, fn)) as f:
                    txt = strip_comments(f.read())
                for name in re.findall(r'\(\s*"([^"\s]+)"\s*,', txt):
                    _OPS_MODULE.setdefault(name, fn[:-5])
    return _OPS_MODULE.get(op)


def lean_gate(pid, required, tier='quick'):
    """Regenerate Gen/, build the property module and the driver, audit axioms.
    Returns dict(ok, obligations, discharged, failures[list of str], gen_status, log).

    The translator works definition by definition: a definition whose source it can no longer translate is left out
    of its generated file (with the reason), so the theorems and driver operations that use it stop compiling and
    nothing else does.  It is charged to this property exactly when `Props/<pid>.lean` no longer builds.  The driver is
    one executable for all properties: when it no longer builds from what the translator produced now, it is built
    with the committed pristine copy (`lean/pristine/Gen`) of every generated file that differs from it -- for this
    check the generated definitions behind its operations are then a hand-kept model like any other, and gate K
    (model against the implementation as it is now) decides whether they still correspond."""
    import py2lean
    res = {'ok': False, 'obligations': 0, 'discharged': 0, 'failures': [], 'gen_status': {}, 'log': '',
           'driver_ok': False, 'gen_bad': {}, 'driver_fallback': []}
    t0 = time.time()
    # the property's theorems: Props/<pid>.lean plus its tie-to-the-source modules Props/<pid>_*.lean (bridge theorems
    # about generated definitions live there, so that other properties importing Props/<pid>.lean do not depend on them)
    pdir = os.path.join(LEAN, 'ZepidVerif', 'Props')
    prop_files = [os.path.join(pdir, pid + '.lean')] + sorted(
        os.path.join(pdir, f) for f in os.listdir(pdir) if f.startswith(pid + '_') and f.endswith('.lean'))
    mods = ['ZepidVerif.Props.' + os.path.basename(f)[:-5] for f in prop_files]
    res['modules'] = mods
    mine = set()
    for m in mods:
        mine |= gen_deps(m)
    with build_lock():
        res['gen_status'] = py2lean.regenerate()
        tr_notes = []
        for k, v in res['gen_status'].items():
            if v.startswith(('unsupported', 'partial')):
                res['gen_bad'][k] = v
                if k in mine:
                    tr_notes.append('translator %s: %s' % (k, v))
        rc, out = _run(['lake', 'build', 'zvdriver'])
        if rc != 0:
            # the driver is shared: rebuild it with the pristine copy of every generated file that differs from it
            swapped = {}
            for name in sorted(os.listdir(GEN_DIR)):
                pri = os.path.join(PRISTINE, name)
                cur = os.path.join(GEN_DIR, name)
                if name.endswith('.lean') and os.path.exists(pri):
                    with open(cur) as f:
                        a = f.read()
                    with open(pri) as f:
                        b = f.read()
                    if a != b:
                        swapped[name] = a
                        with open(cur, 'w') as f:
                            f.write(b)
            if swapped:
                first_log = out
                rc, out = _run(['lake', 'build', 'zvdriver'])
                for name, a in swapped.items():
                    with open(os.path.join(GEN_DIR, name), 'w') as f:
                        f.write(a)
                if rc == 0:
                    res['driver_fallback'] = sorted(swapped)
                    res['driver_fallback_log'] = first_log[-2000:]
        res['driver_ok'] = rc == 0 and os.path.exists(DRIVER)
        if not res['driver_ok']:
            res['failures'].append('driver build failed')
            res['log'] += out[-3000:]
        rc, out = _run(['lake', 'build'] + mods)
        if rc != 0:
            # a definition the translator had to leave out matters to this property exactly when its theorems stop
            # compiling without it
            res['failures'].extend(tr_notes)
            res['failures'].append('lake build %s failed' % ' '.join(mods))
            res['log'] += out[-6000:]
            # which theorems break?  (best effort: error lines carry file:line)
            errs = re.findall(r'error: (\S+?\.lean):(\d+):\d+: (.*)', out)
            res['build_errors'] = ['%s:%s %s' % e for e in errs[:20]]
    names = []
    for pf in prop_files:
        if os.path.exists(pf):
            names += theorem_names(pf)
    res['obligations'] = len(names)
    short = {n.split('.')[-1] for n in names}
    for r in required:
        if r not in short:
            res['failures'].append('required theorem %s missing from Props/%s.lean' % (r, pid))
    bad = source_audit()
    if bad:
        res['failures'].append('forbidden constructs: ' + '; '.join(bad[:10]))
    if not any('lake build' in f for f in res['failures']) and names:
        adir = os.path.join(LEAN, '.lake', 'audit')
        os.makedirs(adir, exist_ok=True)
        afile = os.path.join(adir, pid + '.lean')
        with open(afile, 'w') as f:
            f.write(''.join('import %s\n' % m for m in mods) + ''.join('#print axioms %s\n' % n for n in names))
        rc, out = _run(['lake', 'env', 'lean', afile])
        res['audit_cmd'] = 'lake env lean .lake/audit/%s.lean' % pid
        if rc != 0:
            res['failures'].append('axiom audit failed to run')
            res['log'] += out[-3000:]
        else:
            seen = {}
            for m in re.finditer(r"'([^']+)' depends on axioms: \[([^\]]*)\]", out.replace('\n ', ' ')):
                seen[m.group(1)] = {a.strip() for a in m.group(2).replace('\n', ' ').split(',') if a.strip()}
            for m in re.finditer(r"'([^']+)' does not depend on any axioms", out):
                seen[m.group(1)] = set()
            for n in names:
                if n not in seen:
                    res['failures'].append('no axiom report for %s' % n)
                elif not seen[n] <= STD_AXIOMS:
                    res['failures'].append('%s uses non-standard axioms %s' % (n, sorted(seen[n] - STD_AXIOMS)))
                else:
                    res['discharged'] += 1
            res['axioms'] = {n: sorted(v) for n, v in seen.items()}
    if tier == 'thorough' and not res['failures']:
        # independent re-check of the compiled property module (and everything it imports from this project)
        rc, out = _run(['lake', 'env', 'leanchecker'] + mods)
        res['leanchecker'] = 'ok' if rc == 0 else 'FAILED'
        if rc != 0:
            res['failures'].append('leanchecker rejected ZepidVerif.Props.%s' % pid)
            res['log'] += out[-2000:]
    res['ok'] = not res['failures']
    res['wall_s'] = round(time.time() - t0, 2)
    return res


class Driver:
    """Persistent native model process speaking the line protocol."""

    used_ops = set()       # every operation any Driver of this process was asked (for the dependency decision)

    def __init__(self):
        self.p = None

    def start(self):
        if not os.path.exists(DRIVER):
            raise RuntimeError('driver not built')
        self.p = subprocess.Popen([DRIVER], stdin=subprocess.PIPE, stdout=subprocess.PIPE, text=True, bufsize=1)

    def ask(self, op, **kw):
        if self.p is None or self.p.poll() is not None:
            self.start()
        Driver.used_ops.add(op)
        line = op + ''.join(' %s=%s' % (k, v) for k, v in kw.items())
        self.p.stdin.write(line + '\n')
        self.p.stdin.flush()
        out = self.p.stdout.readline()
        if not out:
            raise RuntimeError('driver died on: ' + line[:200])
        return parse_reply(out), line

    def close(self):
        if self.p is not None:
            try:
                self.p.stdin.close()
                self.p.wait(timeout=5)
            except Exception:
                self.p.kill()
            self.p = None


def parse_reply(out):
    toks = out.strip().split(' ')
    d = {'status': toks[0]}
    if toks[0] == 'err':
        d['err'] = toks[1] if len(toks) > 1 else ''
    for t in toks[1:]:
        if '=' in t:
            k, v = t.split('=', 1)
            d[k] = v
    return d


# ------------------------------------------------------------------ known findings
def load_known():
    p = os.path.join(VERIF, 'known_findings.json')
    if not os.path.exists(p):
        return []
    with open(p) as f:
        return json.load(f).get('findings', [])


def match_known(pid, signature):
    """signature: dict of canonical fields; an entry matches when all of its signature fields are equal."""
    for e in load_known():
        if e.get('property') == pid and e.get('status') == 'known':
            sig = e.get('signature', {})
            if all(signature.get(k) == v for k, v in sig.items()):
                return e
    return None


# ------------------------------------------------------------------ check bookkeeping
class Check:
    def __init__(self, pid, tier, seed):
        self.pid = pid
        self.tier = tier
        self.seed = seed
        self.t0 = time.time()
        self.evals = 0
        self.nontrivial = set()
        self.samples = []
        self.k_fail = []       # correspondence disagreements
        self.d_fail = []       # property predicate failures on the implementation
        self.known_hits = {}   # finding id -> (entry, example)
        self.discards = {}
        self.dist = {}         # input-distribution counters
        self.notes = []
        self.h_checked = 0
        self.k_cases = 0
        self.d_cases = 0
        self.extra = {}

    # -- counters
    def count(self, key, n=1):
        self.dist[key] = self.dist.get(key, 0) + n

    def discard(self, why):
        self.discards[why] = self.discards.get(why, 0) + 1

    def case(self, desc, nontrivial_key=None, sample=None):
        self.evals += 1
        if nontrivial_key is not None:
            self.nontrivial.add(nontrivial_key if isinstance(nontrivial_key, (str, int, tuple)) else repr(nontrivial_key))
        if sample is not None and len(self.samples) < 6:
            self.samples.append(sample)

    def k(self, ok, what, case):
        self.k_cases += 1
        if not ok:
            self.k_fail.append({'gate': 'K', 'what': what, 'case': case})

    def d(self, ok, what, case, signature=None):
        self.d_cases += 1
        if not ok:
            if signature is not None:
                e = match_known(self.pid, signature)
                if e is not None:
                    self.known_hits.setdefault(e['id'], (e, case))
                    return
            self.d_fail.append({'gate': 'D', 'what': what, 'case': case, 'signature': signature})

    # -- output
    def write_replay(self, rec, tag):
        d = os.path.join(VERIF, 'replays', self.pid)
        os.makedirs(d, exist_ok=True)
        blob = json.dumps(rec, sort_keys=True, default=str, indent=1)
        name = '%s-%s.json' % (tag, hashlib.sha256(blob.encode()).hexdigest()[:12])
        path = os.path.join(d, name)
        with open(path, 'w') as f:
            f.write(blob)
        return os.path.relpath(path, VERIF)

    def finish(self, lean, rule, assumptions=None):
        wall = time.time() - self.t0
        violations = 0
        lines = []
        if lean.get('gen_bad') or lean.get('driver_fallback'):
            self.extra['translator_incomplete'] = lean.get('gen_bad')
            self.extra['driver_built_with_pristine_copy_of'] = lean.get('driver_fallback')
        for fid, (e, case) in sorted(self.known_hits.items()):
            lines.append('KNOWN-FINDING: property=%s %s' % (self.pid, e['what']))
        if self.d_fail:
            violations = len(self.d_fail)
            first = self.d_fail[0]
            path = self.write_replay({'property': self.pid, 'tier': self.tier, 'seed': self.seed, 'failures':
                                      self.d_fail[:5], 'lean_gate': {k: lean.get(k) for k in ('ok', 'failures')}},
                                     'D')
            lines.append('VIOLATION property=%s replay=%s' % (self.pid, path))
        elif (not lean['ok']) or self.k_fail:
            violations = 1
            rec = {'property': self.pid, 'tier': self.tier, 'seed': self.seed,
                   'no_longer_checks': lean['failures'] + ['correspondence: ' + f['what'] for f in self.k_fail[:10]],
                   'build_errors': lean.get('build_errors'), 'gen_status': lean.get('gen_status'),
                   'k_failures': self.k_fail[:5], 'lean_log_tail': lean.get('log', '')[-4000:],
                   'note': 'no input violating the property itself was found by the direct search (gate D); a broken '
                           'proof obligation or correspondence can also result from a harmless rewrite of the code'}
            path = self.write_replay(rec, 'PK')
            lines.append('VIOLATION property=%s replay=%s no-failing-input-found' % (self.pid, path))
        cov = {
            'obligations': lean['obligations'], 'discharged': lean['discharged'],
            'checker_cmd': 'cd lean && lake build %s && %s' % (' '.join(lean.get('modules') or ['ZepidVerif.Props.' + self.pid]), lean.get('audit_cmd', '')),
            'trusted_base': TRUSTED_BASE,
            'evaluations': self.evals, 'distinct_nontrivial': len(self.nontrivial), 'rule': rule,
            'samples': self.samples or ['(no case generated)'],
            'k_comparisons': self.k_cases, 'd_predicates': self.d_cases, 'h_checks': self.h_checked,
            'k_failures': len(self.k_fail), 'd_failures': len(self.d_fail),
            'known_findings_hit': sorted(self.known_hits), 'discards': self.discards,
            'input_distribution': self.dist, 'translator': lean.get('gen_status'),
            'lean_failures': lean['failures'], 'lean_wall_s': lean.get('wall_s'), 'leanchecker': lean.get('leanchecker', 'not run (thorough tier only)'),
            'theorems': sorted((lean.get('axioms') or {}).keys()),
            'exhaustive': bool(self.extra.get('exhaustive', False)),
        }
        cov.update({k: v for k, v in self.extra.items() if k != 'exhaustive'})
        ev = {'property_id': self.pid, 'tier': self.tier, 'seed': self.seed, 'level': 'proof', 'coverage': cov,
              'assumptions': (assumptions or []) + self.notes, 'wall_s': round(wall, 2), 'violations': violations}
        # evidence/ describes runs against /repo itself; a run pointed at a scratch checkout (seeded changes) writes elsewhere
        edir = os.path.join(VERIF, 'evidence' if os.path.realpath(REPO) == '/repo' else os.path.join('replays', '_scratch_evidence'))
        ev['repo'] = REPO
        os.makedirs(edir, exist_ok=True)
        with open(os.path.join(edir, self.pid + '.json'), 'w') as f:
            json.dump(ev, f, indent=1, default=str)
        for ln in lines:
            print(ln)
        print('%s tier=%s seed=%d cases=%d nontrivial=%d K=%d(-%d) D=%d(-%d) theorems=%d/%d discards=%s wall=%.1fs'
              % (self.pid, self.tier, self.seed, self.evals, len(self.nontrivial), self.k_cases, len(self.k_fail),
                 self.d_cases, len(self.d_fail), lean['discharged'], lean['obligations'], self.discards, wall))
        return 1 if violations else 0


@contextlib.contextmanager
def quiet():
    """silence zEpid's prints and warnings"""
    with warnings.catch_warnings():
        warnings.simplefilter('ignore')
        with contextlib.redirect_stdout(io.StringIO()):
            yield


def rng_for(pid, seed):
    import numpy as np
    h = int(hashlib.sha256(('%s:%d' % (pid, seed)).encode()).hexdigest()[:8], 16)
    return np.random.default_rng(h)
