#!/usr/bin/env python3
"""effects -- static effect analysis of zEpid's causal estimator classes (property C11).

For every estimator class the history model of `lean/ZepidVerif/Model/History.lean` needs a *table*: per public
method which slot it writes, which slots it requires, whether it is a fit / needs a fit, and the registers
(state that some call sets and a later call does not reset).  This module derives those tables from the *text*
of /repo with `ast`; `py2lean.gen_tables` prints them as `lean/ZepidVerif/Gen/Tables.lean`, and
`Props/C11_Gen.lean` proves the table theorems about the generated definitions.

What is computed, per class (abstract interpretation of every method body, path-sensitive, helper methods of the
class inlined):

* the attributes `__init__` initialises and the constants it gives them;
* per public method (per *variant* = method + the fixed keyword arguments the harness calls it with) the set of
  final (non-raising) paths, each with: the attributes assigned on it (`self.x = ...`, constant-key column stores
  `self.df['c'] = ...` count as the pseudo-attribute `df[c]`), the constants last assigned to flag attributes, and
  the tests the path assumed (on constructor-constant attributes: the *configuration*; on arguments; on state);
* every read of an attribute (incoming = before the call assigned it itself) with the tests in force at the read;
* every `raise` with its controlling tests: a test on the arguments is argument validation (ignored: the table
  describes valid calls), a test on constructor constants only is the *configuration* (`_miss_flag` becomes the table
  parameter `miss`; others are listed as `assumes`), a test on state attributes is a *guard* and gives `req`
  (attribute owned by a specification method) or `needsFit` (attribute owned by a fit);
* in-place mutation of stored state or of the caller's arguments (augmented assignment, subscript stores with a
  non-constant key, `.append/.extend/...`, `inplace=True`) on an attribute or on a local alias of one: refused.

From this:  *spec* = a method that assigns externally visible state and reads no state owned by another method;
*fit* = one that assigns state and reads state owned by specification methods; slot k = the k-th spec method of the
table; **register** = an attribute that some path of its owner assigns and another (compatible) path of the owner
group does not, while someone may still read it (no flag written on the silent path shields every read) -- the shape
of the six defects F26.

The analysis is conservative: whatever it cannot classify raises `EffUnsupported` for that class (its table is left
out of the generated file).  Assumptions (validated by gate K on every run): call results are fresh objects (except
the numpy view functions listed in VIEW_FUNCS); module-level helper functions do not keep or mutate what they are
handed; a whole-frame use reads the caller's columns only; the reads listed in IMPLICIT fail when the attribute still
has its constructor value (None arithmetic, `round(None)`, a missing working column).
"""
import ast
import os
import sys

REPO = os.environ.get('ZEPID_REPO', '/repo')


class EffUnsupported(Exception):
    pass


# ------------------------------------------------------------------------------------------ what to analyse
# (lean definition, class, file, [(method, fixed keyword arguments)] in the numbering of harness/props/c11.py,
#  names under which the driver looks the table up)
CLASSES = [
    ('iptw', 'IPTW', 'zepid/causal/ipw/IPTW.py', [
        ('treatment_model', {}), ('missing_model', {}), ('marginal_structural_model', {}), ('fit', {}),
        ('summary', {}), ('positivity', {'iptw_only': True}), ('positivity', {'iptw_only': False}),
        ('standardized_mean_differences', {'iptw_only': True}),
        ('standardized_mean_differences', {'iptw_only': False}),
        ('plot_kde', {}), ('plot_boxplot', {}), ('plot_love', {'iptw_only': True}),
        ('plot_love', {'iptw_only': False}), ('run_diagnostics', {'iptw_only': True})], ['IPTW']),
    ('stochIptw', 'StochasticIPTW', 'zepid/causal/ipw/IPTW.py',
     [('treatment_model', {}), ('fit', {}), ('summary', {})], ['StochasticIPTW']),
    ('aiptw', 'AIPTW', 'zepid/causal/doublyrobust/AIPW.py', [
        ('exposure_model', {}), ('missing_model', {}), ('outcome_model', {}), ('fit', {}), ('summary', {}),
        ('run_diagnostics', {}), ('positivity', {}), ('standardized_mean_differences', {}),
        ('plot_kde', {'to_plot': 'exposure'}), ('plot_kde', {'to_plot': 'outcome'}), ('plot_love', {})], ['AIPTW']),
    ('tmle', 'TMLE', 'zepid/causal/doublyrobust/TMLE.py', [
        ('exposure_model', {}), ('missing_model', {}), ('outcome_model', {}), ('fit', {}), ('summary', {}),
        ('run_diagnostics', {}), ('positivity', {}), ('standardized_mean_differences', {}),
        ('plot_kde', {'to_plot': 'exposure'}), ('plot_kde', {'to_plot': 'outcome'}), ('plot_love', {})], ['TMLE']),
    ('stochTmle', 'StochasticTMLE', 'zepid/causal/doublyrobust/TMLE.py',
     [('exposure_model', {}), ('outcome_model', {}), ('fit', {}), ('summary', {}), ('run_diagnostics', {})],
     ['StochasticTMLE']),
    ('timeFixed', 'TimeFixedGFormula', 'zepid/causal/gformula/TimeFixed.py',
     [('outcome_model', {}), ('fit', {}), ('fit_stochastic', {}), ('run_diagnostics', {}), ('plot_kde', {})],
     ['TimeFixedGFormula']),
    ('survival', 'SurvivalGFormula', 'zepid/causal/gformula/TimeFixed.py',
     [('outcome_model', {}), ('fit', {}), ('plot', {})], ['SurvivalGFormula']),
    ('snm', 'GEstimationSNM', 'zepid/causal/snm/g_estimation.py',
     [('exposure_model', {}), ('structural_nested_model', {}), ('missing_model', {}), ('fit', {}), ('summary', {})],
     ['GEstimationSNM']),
    ('ipsw', 'IPSW', 'zepid/causal/generalize/estimators.py',
     [('sampling_model', {}), ('treatment_model', {}), ('fit', {}), ('summary', {})], ['IPSW']),
    ('gtransport', 'GTransportFormula', 'zepid/causal/generalize/estimators.py',
     [('outcome_model', {}), ('fit', {}), ('summary', {})], ['GTransportFormula']),
    ('aipsw', 'AIPSW', 'zepid/causal/generalize/estimators.py',
     [('sampling_model', {}), ('treatment_model', {}), ('outcome_model', {}), ('fit', {}), ('summary', {})],
     ['AIPSW']),
    ('ipmw', 'IPMW', 'zepid/causal/ipw/IPMW.py', [('regression_models', {}), ('fit', {})], ['IPMW', 'IPMWuniform']),
    ('ipcw', 'IPCW', 'zepid/causal/ipw/IPCW.py', [('regression_models', {}), ('fit', {})], ['IPCW']),
    ('monteCarlo', 'MonteCarloGFormula', 'zepid/causal/gformula/TimeVary.py',
     [('exposure_model', {}), ('outcome_model', {}), ('censoring_model', {}), ('add_covariate_model', {'label': 1}),
      ('add_covariate_model', {'label': 2}), ('fit', {})], ['MonteCarloGFormula']),
    ('iterCond', 'IterativeCondGFormula', 'zepid/causal/gformula/TimeVary.py',
     [('outcome_model', {}), ('fit', {})], ['IterativeCondGFormula']),
] + [
    (d, c, 'zepid/causal/doublyrobust/crossfit.py',
     [('exposure_model', {}), ('outcome_model', {}), ('fit', {}), ('summary', {}), ('run_diagnostics', {})], [c])
    for d, c in (('xfSingleAiptw', 'SingleCrossfitAIPTW'), ('xfDoubleAiptw', 'DoubleCrossfitAIPTW'),
                 ('xfSingleTmle', 'SingleCrossfitTMLE'), ('xfDoubleTmle', 'DoubleCrossfitTMLE'))]

# constructor-constant attribute that becomes a parameter of the table (the data set has missing outcomes)
PARAM_ATTR = {'_miss_flag': 'miss'}

# Documented additive methods: "covariate models are added by repeated calls".  The in-place `.append` on these lists
# is the method's documented effect, not stale state; the table models the method as one slot per label (a table variant
# `add_covariate_model(label=k)`) under the harness restriction that each label is used at most once per object
# (`once=True` in harness/props/c11.py): the specification is the set of labelled models, not the order of the calls.  Any other in-place
# mutation in the method, or an append to another attribute, is refused like everywhere else.
ADDITIVE = {('MonteCarloGFormula', 'add_covariate_model'):
            {'_covariate_models', '_covariate_model_index', '_covariate', '_covariate_type', '_covariate_recode'}}

# Reads that make the call fail while the attribute still has its constructor value (None / absent column): the
# failure comes from Python or a library (TypeError of None arithmetic, round(None), KeyError of a missing working
# column, patsy on a None formula), not from a `raise` in zEpid, so it cannot be read off the source; gate K checks
# every one of them on every run (guard stream).  (class, method) -> [(attribute, None | another attribute that the same
# statement must read)].  Which slot / fit the attribute belongs to is derived, not declared.
IMPLICIT = {
    ('IPTW', 'summary'): [('risk_difference', None), ('average_treatment_effect', None)],
    # `self.iptw * self.ipmw` (None * None): only the statement that combines both weights fails
    ('IPTW', 'positivity'): [('iptw', 'ipmw'), ('ipmw', 'iptw')],
    ('IPTW', 'standardized_mean_differences'): [('iptw', 'ipmw'), ('ipmw', 'iptw'), ('__mdenom', None)],
    ('IPTW', 'plot_love'): [('iptw', 'ipmw'), ('ipmw', 'iptw'), ('__mdenom', None)],
    ('IPTW', 'plot_kde'): [('df[__denom__]', None)],
    ('IPTW', 'plot_boxplot'): [('df[__denom__]', None)],
    ('AIPTW', 'positivity'): [('df[_g1_]', None)],
    ('AIPTW', 'standardized_mean_differences'): [('df[_g1_]', None)],
    ('AIPTW', 'plot_love'): [('df[_g1_]', None)],
    ('AIPTW', 'plot_kde'): [('df[_g1_]', None), ('_predicted_y_', None)],
    ('TMLE', 'positivity'): [('g1W', None)],
    ('TMLE', 'standardized_mean_differences'): [('g1W', None)],
    ('GEstimationSNM', 'summary'): [('psi_labels', None)],
    ('IPCW', 'fit'): [('df[__cnumer__]', None)],
    # the diagnostic plots of the cross-fit estimators take the minimum of the per-partition vectors (None before a fit)
    ('SingleCrossfitAIPTW', 'run_diagnostics'): [('ace_vector', None), ('risk_difference_vector', None)],
    ('DoubleCrossfitAIPTW', 'run_diagnostics'): [('ace_vector', None), ('risk_difference_vector', None)],
    ('SingleCrossfitTMLE', 'run_diagnostics'): [('ace_vector', None), ('risk_difference_vector', None)],
    ('DoubleCrossfitTMLE', 'run_diagnostics'): [('ace_vector', None), ('risk_difference_vector', None)],
}

MUTATORS = {'append', 'extend', 'insert', 'pop', 'remove', 'clear', 'sort', 'reverse', 'update', 'setdefault',
            'popitem', 'add', 'discard', 'fill', 'put', 'itemset', 'resize', 'setflags', 'byteswap', 'partition',
            'setfield', '__setitem__', '__iadd__', '__imul__', 'set_index_inplace'}
MUT_FUNCS = {'np.put', 'np.copyto', 'np.place', 'np.putmask', 'np.fill_diagonal', 'np.random.shuffle',
             'random.shuffle', 'np.add.at', 'np.put_along_axis'}
VIEW_FUNCS = {'np.asarray', 'np.asanyarray', 'np.require', 'np.ravel', 'np.reshape', 'np.squeeze', 'np.atleast_1d',
              'np.atleast_2d', 'np.ascontiguousarray', 'np.transpose', 'numpy.asarray'}
VIEW_METHODS = {'to_numpy', 'reshape', 'ravel', 'view', 'squeeze', 'transpose', 'swapaxes', 'get'}
FRAME_DERIV = {'copy', 'dropna', 'reset_index', 'sort_values', 'drop', 'rename', 'fillna', 'drop_duplicates',
               'sort_index'}
MAX_STATES = 4000
SOFT_STATES = 192
MAX_DEPTH = 5

FRESH = ('fresh',)

_UNP = {}


def unp(node):
    """memoised ast.unparse (nodes live as long as the analysis of their class)"""
    k = id(node)
    r = _UNP.get(k)
    if r is None or r[0] is not node:
        r = _UNP[k] = (node, ast.unparse(node))
    return r[1]


# ------------------------------------------------------------------------------------------ tests -> DNF over atoms
class Atoms:
    """atom text -> (ast node, names mentioned, self attributes mentioned)"""

    def __init__(self):
        self.node = {}
        self.names = {}
        self.attrs = {}

    def add(self, node):
        text = unp(node)
        if text not in self.node:
            self.node[text] = node
            names, attrs = set(), set()
            for x in ast.walk(node):
                if isinstance(x, ast.Attribute) and isinstance(x.value, ast.Name) and x.value.id == 'self':
                    attrs.add(x.attr)
                elif isinstance(x, ast.Name) and x.id != 'self':
                    names.add(x.id)
            self.names[text], self.attrs[text] = names, attrs
        return text


def _atom(atoms, node, pol):
    """normalise `x is not c` / `x != c` / `x not in y` to the positive atom with flipped polarity"""
    if isinstance(node, ast.Compare) and len(node.ops) == 1:
        flip = {ast.IsNot: ast.Is, ast.NotEq: ast.Eq, ast.NotIn: ast.In}
        for neg, pos in flip.items():
            if isinstance(node.ops[0], neg):
                node = ast.Compare(left=node.left, ops=[pos()], comparators=node.comparators)
                pol = not pol
                break
    return [frozenset([(atoms.add(node), pol)])]


def dnf(atoms, node, pol=True):
    """test expression -> list of conjunctions (frozenset of (atom text, bool))"""
    if isinstance(node, ast.UnaryOp) and isinstance(node.op, ast.Not):
        return dnf(atoms, node.operand, not pol)
    if isinstance(node, ast.BoolOp):
        conj = isinstance(node.op, ast.And) == pol      # and-with-pol / or-with-not-pol behave as conjunction
        parts = [dnf(atoms, v, pol) for v in node.values]
        if conj:
            out = [frozenset()]
            for p in parts:
                out = [a | b for a in out for b in p if consistent(a | b)]
                if len(out) > 64:
                    raise EffUnsupported('test too large: ' + ast.unparse(node)[:80])
            return out
        return [d for p in parts for d in p]
    return _atom(atoms, node, pol)


def consistent(facts):
    seen = {}
    for t, v in facts:
        if seen.setdefault(t, v) != v:
            return False
    return True


# ------------------------------------------------------------------------------------------ abstract state
class St:
    __slots__ = ('W', 'K', 'AV', 'C', 'L', 'P', 'F', 'A')

    def __init__(self, W=frozenset(), K=None, AV=None, C=frozenset(), L=None, P=frozenset(), F=frozenset(),
                 A=frozenset()):
        self.W, self.K, self.AV, self.C, self.L, self.P, self.F, self.A = W, K or {}, AV or {}, C, L or {}, P, F, A

    def copy(self):
        return St(self.W, dict(self.K), dict(self.AV), self.C, dict(self.L), self.P, self.F, self.A)

    def key(self):
        return (self.W, tuple(sorted(self.K.items(), key=repr)), tuple(sorted(self.AV.items(), key=repr)), self.C,
                tuple(sorted(self.L.items(), key=repr)), self.P, self.F, self.A)


def merge(states):
    seen, out = set(), []
    for s in states:
        k = s.key()
        if k not in seen:
            seen.add(k)
            out.append(s)
    return out


class Flow:
    """outcome of a block: states falling through, returning, breaking, continuing"""

    def __init__(self, nxt=None, ret=None, brk=None, cont=None):
        self.nxt, self.ret, self.brk, self.cont = nxt or [], ret or [], brk or [], cont or []


# ------------------------------------------------------------------------------------------ module-level helpers
class Helpers:
    """Module-level functions a method hands its state (or its caller's arguments) to: which of their parameters do they
    change in place?  The function is walked like a method (same abstract interpretation, every parameter an `arg`);
    an in-place mutation of a parameter is collected instead of refused.  Functions imported from other zEpid modules
    (`from zepid.causal.utils import ...`, `from .utils import ...`) are followed into their files; helpers calling
    helpers are followed transitively.  A helper the walker cannot digest for another reason is left to gates K / D, as
    every helper was before (recorded in `unknown`)."""

    _cache = {}      # (file, function) -> (parameter names, names mutated in place) | None

    def __init__(self, tree, path, repo):
        self.repo, self.path = repo, path
        self.trees = {path: tree}
        self.unknown = {}
        self.busy = set()

    def tree(self, path):
        if path not in self.trees:
            try:
                with open(os.path.join(self.repo, path)) as f:
                    self.trees[path] = ast.parse(f.read())
            except (OSError, SyntaxError):
                self.trees[path] = None
        return self.trees[path]

    def module_file(self, frm, module, level):
        """file of `from <module> import ...` written in file `frm`"""
        if level:
            base = os.path.dirname(frm)
            for _ in range(level - 1):
                base = os.path.dirname(base)
            parts = [base] + (module.split('.') if module else [])
        else:
            if not module or module.split('.')[0] != 'zepid':
                return None
            parts = module.split('.')
        stem = os.path.join(*parts)
        for cand in (stem + '.py', os.path.join(stem, '__init__.py')):
            if os.path.exists(os.path.join(self.repo, cand)):
                return cand
        return None

    def resolve(self, path, name, depth=0):
        """-> (file, FunctionDef) of the module-level function `name` as seen from file `path`, or None"""
        tree = self.tree(path) if path else None
        if tree is None or depth > 4:
            return None
        for n in tree.body:
            if isinstance(n, ast.FunctionDef) and n.name == name:
                return path, n
        for n in tree.body:
            if isinstance(n, ast.ImportFrom):
                for a in n.names:
                    if (a.asname or a.name) == name:
                        return self.resolve(self.module_file(path, n.module, n.level), a.name, depth + 1)
        return None

    def mutated(self, path, name):
        """-> (parameter names in order, set of parameters changed in place) or None (not a zEpid function / unknown)"""
        r = self.resolve(path, name)
        if r is None:
            return None
        fpath, fn = r
        key = (os.path.join(self.repo, fpath), name, fn.lineno)
        params = [a.arg for a in fn.args.args] + [a.arg for a in fn.args.kwonlyargs]
        if key in self.busy:
            return params, set()
        if key not in Helpers._cache:
            self.busy.add(key)
            try:
                f2 = ast.parse(ast.unparse(fn)).body[0]
                f2.args.args.insert(0, ast.arg(arg='self'))
                f2.decorator_list = []
                cdef = ast.ClassDef(name='<module>', bases=[], keywords=[], body=[f2], decorator_list=[])
                w = Walker('<helper>', cdef)
                tree = self.tree(fpath)
                w.imported = {(a.asname or a.name).split('.')[0] for n in ast.walk(tree)
                              if isinstance(n, (ast.Import, ast.ImportFrom)) for a in n.names} | \
                    {n.name for n in tree.body if isinstance(n, (ast.FunctionDef, ast.ClassDef))}
                w.helpers, w.helper_path, w.arg_sink = self, fpath, set()
                w.implicit_hit = set()
                w.run(name, {})
                Helpers._cache[key] = (params, set(w.arg_sink))
            except EffUnsupported as e:
                Helpers._cache[key] = None
                self.unknown['%s:%s' % (fpath, name)] = str(e)[:160]
            except RecursionError:
                Helpers._cache[key] = None
            finally:
                self.busy.discard(key)
        return Helpers._cache[key]


# ------------------------------------------------------------------------------------------ the walker
class Walker:
    def __init__(self, clsname, classdef, init_consts=None, const_attrs=frozenset(), caller_held=frozenset()):
        self.clsname = clsname
        self.cdef = classdef
        self.funcs = {f.name: f for f in classdef.body if isinstance(f, ast.FunctionDef)}
        self.static = {n for n, f in self.funcs.items()
                       if any(ast.unparse(d) == 'staticmethod' for d in f.decorator_list)}
        self.atoms = Atoms()
        self._calls = {}
        self.imported = set()                   # names bound by import statements (modules, functions)
        self.caller_held = caller_held          # attributes in which __init__ keeps the caller's own object (no copy)
        self.init_consts = init_consts or {}      # constructor-constant attribute -> ('c', value) when known
        self.const_attrs = const_attrs            # attributes never stored outside __init__ (syntactic)
        self.helpers, self.helper_path = None, None   # module-level functions (Helpers) and the file of this class
        self.arg_sink = None                      # helper analysis: parameters changed in place are collected here
        self.reset(None)

    def reset(self, variant):
        self.variant = variant
        self.reads = []        # (attr, incoming, facts, stmt text, function name)
        self.raises = []       # (ctrl [(test node, polarity)], W at the raise, function name, lineno)
        self.notes = []
        self.depth = 0
        self.stack = []
        self.additive_used = set()

    # ---------------- helpers
    def mangle(self, attr):
        """private name mangling: self.__x inside class C is self._C__x; we simply keep `__x` (one class at a time)"""
        return attr

    def is_self_attr(self, n):
        return isinstance(n, ast.Attribute) and isinstance(n.value, ast.Name) and n.value.id == 'self'

    def const_key(self, sl):
        if isinstance(sl, ast.Constant) and isinstance(sl.value, str):
            return sl.value
        return None

    def fail(self, msg, node=None):
        where = '%s.%s' % (self.clsname, self.stack[-1] if self.stack else '?')
        ln = ' line %d' % node.lineno if node is not None and hasattr(node, 'lineno') else ''
        raise EffUnsupported('%s%s: %s' % (where, ln, msg))

    def cap(self, states):
        states = merge(states)
        if len(states) > SOFT_STATES:
            # forget what was assumed about the arguments (sound: more paths are merged), then give up
            for s in states:
                s.C = frozenset((t, v) for t, v in s.C if self.atoms.attrs[t])
                s.A = frozenset()
            states = merge(states)
            if len(states) > MAX_STATES:
                self.fail('too many paths (%d)' % len(states))
        return states

    def record_read(self, st, attr, stmt_text):
        incoming = attr not in st.W
        self.reads.append((attr, incoming, st.C, stmt_text, self.stack[0] if self.stack else '?'))
        if incoming:
            for (cls, meth), sites in IMPLICIT.items():
                if cls == self.clsname and meth in self.stack:
                    for a, co in sites:
                        if a == attr and (co is None or ('self.' + co) in stmt_text):
                            st.F = st.F | {attr}
                            self.implicit_hit.add((meth, a, co))

    # ---------------- evaluation of tests on what is known
    def known(self, st, node):
        """-> True / False / None"""
        if isinstance(node, ast.Constant):
            return ('c', node.value)
        if isinstance(node, ast.Name):
            v = st.L.get(node.id)
            if v is not None and v[0] == 'const':
                return ('c', v[1])
            return None
        if self.is_self_attr(node):
            a = node.attr
            if a in st.W:
                return st.K.get(a)
            if a in self.const_attrs and a in self.init_consts:
                return self.init_consts[a]
            return None
        return None

    def eval_test(self, st, node, env=None):
        """evaluate a test with constants known in the state (or in `env`: attribute -> ('c', value))"""
        def val(n):
            if env is not None and self.is_self_attr(n) and n.attr in env:
                return env[n.attr]
            if env is not None:
                return ('c', n.value) if isinstance(n, ast.Constant) else None
            return self.known(st, n)
        if isinstance(node, ast.UnaryOp) and isinstance(node.op, ast.Not):
            r = self.eval_test(st, node.operand, env)
            return None if r is None else (not r)
        if isinstance(node, ast.BoolOp):
            rs = [self.eval_test(st, v, env) for v in node.values]
            if isinstance(node.op, ast.And):
                if any(r is False for r in rs):
                    return False
                return True if all(r is True for r in rs) else None
            if any(r is True for r in rs):
                return True
            return False if all(r is False for r in rs) else None
        if isinstance(node, ast.Compare) and len(node.ops) == 1:
            a, b = val(node.left), val(node.comparators[0])
            if a is None or b is None:
                return None
            a, b = a[1], b[1]
            op = node.ops[0]
            try:
                if isinstance(op, ast.Is):
                    return a is b if (a is None or b is None or isinstance(a, bool) or isinstance(b, bool)) else None
                if isinstance(op, ast.IsNot):
                    return a is not b if (a is None or b is None or isinstance(a, bool) or isinstance(b, bool)) else None
                if isinstance(op, ast.Eq):
                    return a == b
                if isinstance(op, ast.NotEq):
                    return a != b
            except Exception:
                return None
            return None
        if isinstance(node, ast.Call) and ast.unparse(node.func) in ('np.isnan', 'math.isnan') and len(node.args) == 1:
            a = val(node.args[0])
            if a is None:
                return None
            return isinstance(a[1], float) and a[1] != a[1]
        v = val(node)
        if v is not None:
            try:
                return bool(v[1])
            except Exception:
                return None
        return None

    # ---------------- expressions: reads, aliases, mutation through calls
    def expr(self, st, node, stmt_text, rets=None):
        """abstract value of an expression; records reads; checks in-place mutation by method calls"""
        if node is None:
            return FRESH
        if isinstance(node, ast.Constant):
            return ('const', node.value)
        if isinstance(node, ast.Name):
            if node.id == 'self':
                return ('self',)
            return st.L.get(node.id, ('global', node.id))
        if isinstance(node, ast.Attribute):
            if self.is_self_attr(node):
                a = node.attr
                if a in self.funcs:
                    return FRESH            # bound method object
                self.record_read(st, a, stmt_text)
                if a in st.W:
                    av = st.AV.get(a, FRESH)
                    return av if av[0] in ('attr', 'arg', 'copy') else FRESH
                if a == 'nan' or False:
                    return FRESH
                return ('attr', a)
            base = self.expr(st, node.value, stmt_text, rets)
            if base[0] in ('attr', 'arg'):
                return base                  # .values / .T / .loc / .iloc ... : a view of the same object
            if base[0] == 'copy':
                return base if node.attr in ('loc', 'iloc', 'T') else FRESH
            if isinstance(node.value, ast.Name) and node.value.id in ('np', 'numpy', 'math') and node.attr == 'nan':
                return ('const', float('nan'))
            return FRESH
        if isinstance(node, ast.Subscript):
            base = self.expr(st, node.value, stmt_text, rets)
            self.expr(st, node.slice, stmt_text, rets)
            key = self.const_key(node.slice)
            if base[0] == 'attr':
                if key is not None:
                    self.record_read(st, '%s[%s]' % (base[1], key), stmt_text)
                return base
            if base[0] == 'copy':
                if key is not None:
                    if key not in base[2]:
                        self.record_read(st, '%s[%s]' % (base[1], key), stmt_text)
                    return FRESH
                return base
            if base[0] == 'arg':
                return base
            return FRESH
        if isinstance(node, ast.Call):
            return self.call(st, node, stmt_text, rets)
        if isinstance(node, ast.IfExp):
            self.expr(st, node.test, stmt_text, rets)
            a = self.expr(st, node.body, stmt_text, rets)
            b = self.expr(st, node.orelse, stmt_text, rets)
            for v in (a, b):
                if v[0] in ('attr', 'arg'):
                    return v
            return a if a == b else FRESH
        if isinstance(node, (ast.Lambda, ast.GeneratorExp, ast.ListComp, ast.SetComp, ast.DictComp)):
            for x in ast.walk(node):
                if isinstance(x, ast.Name) and x.id == 'self' and isinstance(node, ast.Lambda):
                    self.fail('lambda capturing self', node)
            if isinstance(node, ast.Lambda):
                return FRESH
            for g in node.generators:
                self.expr(st, g.iter, stmt_text, rets)
            # element expressions: reads only (comprehension variables are fresh)
            for x in ast.walk(node):
                if self.is_self_attr(x) and x.attr not in self.funcs and isinstance(x.ctx, ast.Load):
                    self.record_read(st, x.attr, stmt_text)
                if isinstance(x, ast.Call) and isinstance(x.func, ast.Attribute) and x.func.attr in MUTATORS:
                    self.fail('mutating call inside a comprehension: ' + ast.unparse(x)[:60], node)
            return FRESH
        # everything else: evaluate the children for their reads, the value is a new object
        for ch in ast.iter_child_nodes(node):
            if isinstance(ch, ast.expr):
                self.expr(st, ch, stmt_text, rets)
        return FRESH

    def mutate(self, st, av, what, node):
        """an in-place mutation of the object with abstract value `av`"""
        if av[0] == 'attr':
            self.fail('in-place mutation of stored state self.%s (%s): survives the call and is not reset' % (av[1], what),
                      node)
        if av[0] == 'arg':
            if self.arg_sink is not None:
                self.arg_sink.add(av[1])
                return
            self.fail('in-place mutation of the caller\'s argument `%s` (%s)' % (av[1], what), node)
        if av[0] == 'self':
            self.fail('mutation of self (%s)' % what, node)
        if av[0] == 'global' and av[1] not in self.imported:
            self.fail('in-place mutation of the module-level object `%s` (%s): shared by every call' % (av[1], what), node)

    def call(self, st, node, stmt_text, rets):
        f = node.func
        fname = unp(f)
        # calls of methods of this class are inlined at statement level (see `inline_calls`); here: their value
        if rets is not None and id(node) in rets:
            return rets[id(node)]
        args = [self.expr(st, a.value if isinstance(a, ast.Starred) else a, stmt_text, rets) for a in node.args]
        kwargs = {k.arg: self.expr(st, k.value, stmt_text, rets) for k in node.keywords}
        inplace = any(k.arg == 'inplace' and isinstance(k.value, ast.Constant) and k.value.value is True
                      for k in node.keywords)
        recv = None
        if isinstance(f, ast.Attribute):
            if self.is_self_attr(f) and f.attr in self.funcs:
                self.fail('call of self.%s in an unsupported position' % f.attr, node)
            recv = self.expr(st, f.value, stmt_text, rets)
            if f.attr in MUTATORS or inplace:
                what = '.%s(%s)' % (f.attr, 'inplace=True' if inplace else '...')
                add = ADDITIVE.get((self.clsname, self.stack[0] if self.stack else ''))
                if recv[0] == 'attr' and add and recv[1] in add and f.attr == 'append' and len(self.stack) == 1:
                    self.additive_used.add(recv[1])
                    st.W = st.W | {recv[1]}
                    st.K.pop(recv[1], None)
                    st.AV[recv[1]] = FRESH
                else:
                    self.mutate(st, recv, what, node)
        if fname in ('float', 'int') and len(node.args) == 1 and self.is_self_attr(node.args[0]) and \
                node.args[0].attr not in st.W:
            # float(None) / int(None) raise TypeError: a certain failure while the attribute is still None (checked
            # against the constructor's constant when the attribute is mapped to its owner)
            st.F = st.F | {'?' + node.args[0].attr}
        if any(av[0] == 'self' for av in args + list(kwargs.values())):
            self.fail('self handed to %s(...): what the callee does to the object is outside the analysis' % fname, node)
        if fname in MUT_FUNCS and args:
            self.mutate(st, args[0], '%s(...) writes into its first argument' % fname, node)
        if 'out' in kwargs:
            self.mutate(st, kwargs['out'], '%s(..., out=...)' % fname, node)
        if isinstance(f, ast.Name) and self.helpers is not None and f.id not in st.L and \
                any(av[0] in ('attr', 'arg') for av in args + list(kwargs.values())):
            info = self.helpers.mutated(self.helper_path, f.id)
            if info is not None and info[1]:
                actual = dict(zip(info[0], args))
                actual.update(kwargs)
                for p_ in sorted(info[1]):
                    if p_ in actual:
                        self.mutate(st, actual[p_], 'the helper %s(...) changes its parameter `%s` in place' % (f.id, p_),
                                    node)
        if isinstance(f, ast.Name):
            if f.id in ('setattr', 'delattr'):
                self.fail('%s(...)' % f.id, node)
            if f.id in ('exec', 'eval'):
                # code written by the caller (treatment plans, conditions, recodes), handed in with this call or stored
                # by an earlier one: what it does is the caller's business and outside the analysis
                self.notes.append('%s.%s runs %s(%s): the caller\'s own expression, outside the analysis'
                                  % (self.clsname, self.stack[0], f.id, ast.unparse(node.args[0]) if node.args else ''))
        # column names handed to a function together with a stored frame (or a copy of it) are reads of that column
        strs = [a.value for a in list(node.args) + [k.value for k in node.keywords]
                if isinstance(a, ast.Constant) and isinstance(a.value, str)]
        if strs:
            for av in args + list(kwargs.values()) + ([recv] if recv else []):
                if av[0] == 'attr':
                    for s in strs:
                        self.record_read(st, '%s[%s]' % (av[1], s), stmt_text)
                elif av[0] == 'copy':
                    for s in strs:
                        if s not in av[2]:
                            self.record_read(st, '%s[%s]' % (av[1], s), stmt_text)
        # what the call returns
        if fname in VIEW_FUNCS and args:
            return args[0] if args[0][0] in ('attr', 'arg') else FRESH
        if isinstance(f, ast.Attribute) and recv is not None:
            if f.attr in VIEW_METHODS and recv[0] in ('attr', 'arg'):
                return recv
            if f.attr == 'astype' and recv[0] in ('attr', 'arg') and any(
                    k.arg == 'copy' and isinstance(k.value, ast.Constant) and k.value.value is False
                    for k in node.keywords):
                return recv
            if f.attr in FRAME_DERIV and not inplace:
                if recv[0] == 'attr':
                    return ('copy', recv[1], frozenset())
                if recv[0] == 'copy':
                    return recv
        return FRESH

    # ---------------- assignments
    def write_attr(self, st, a, av, node):
        if av == ('attr', a):
            # the value the attribute had on entry is put back (save / restore idiom): net effect none
            st.W = st.W - {a}
            st.K.pop(a, None)
            st.AV.pop(a, None)
            self.notes.append('restores self.%s to its value on entry' % a)
        else:
            st.W = st.W | {a}
            if av[0] == 'const':
                st.K[a] = ('c', av[1])
            else:
                st.K.pop(a, None)
            st.AV[a] = av if av[0] in ('attr', 'arg', 'copy') else FRESH
        st.C = frozenset((t, v) for t, v in st.C if a not in self.atoms.attrs[t])

    def bind_local(self, st, name, av):
        st.L[name] = av if av[0] != 'self' else FRESH
        st.C = frozenset((t, v) for t, v in st.C if name not in self.atoms.names[t])
        st.A = frozenset((t, v) for t, v in st.A if name not in self.atoms.names[t])

    def store_sub(self, st, tgt, stmt_text, node, rets):
        """`base[key] = ...`"""
        # self.X[...] where X was assigned a fresh object in this call: building that object, nothing to record
        if self.is_self_attr(tgt.value) and tgt.value.attr in st.W and \
                st.AV.get(tgt.value.attr, FRESH)[0] not in ('attr', 'arg'):
            self.expr(st, tgt.slice, stmt_text, rets)
            return
        # X.loc[mask, 'c'] = ...
        if isinstance(tgt.value, ast.Attribute) and tgt.value.attr in ('loc', 'iloc', 'at', 'iat'):
            base = self.expr(st, tgt.value.value, stmt_text, rets)
            self.expr(st, tgt.slice, stmt_text, rets)
            if base[0] == 'attr' and base[1] in self.caller_held:
                self.fail('store into self.%s, which is the caller\'s own object (the constructor keeps it without a copy)'
                          % base[1], node)
            if base[0] == 'attr':
                sl = tgt.slice
                if tgt.value.attr == 'loc' and isinstance(sl, ast.Tuple) and len(sl.elts) == 2 and \
                        self.const_key(sl.elts[1]) is not None and isinstance(sl.elts[0], ast.Call) and \
                        isinstance(sl.elts[0].func, ast.Attribute) and \
                        sl.elts[0].func.attr in ('isnull', 'notnull', 'isna', 'notna') and not sl.elts[0].args:
                    kind = 'null' if sl.elts[0].func.attr in ('isnull', 'isna') else 'notnull'
                    other = 'notnull' if kind == 'null' else 'null'
                    col = '%s[%s]' % (base[1], self.const_key(sl.elts[1]))
                    e = ast.unparse(sl.elts[0].func.value)
                    if (col, other, e) in st.P:
                        # rows where E is null and rows where it is not: the whole column has been assigned
                        st.P = st.P - {(col, other, e)}
                        st.W = st.W | {col}
                    elif col not in st.W:
                        st.P = st.P | {(col, kind, e)}
                    return
                self.mutate(st, base, 'partial store %s' % ast.unparse(tgt)[:60], node)
            elif base[0] == 'arg':
                self.mutate(st, base, 'store %s' % ast.unparse(tgt)[:60], node)
            elif base[0] == 'copy':
                sl = tgt.slice
                if isinstance(sl, ast.Tuple) and len(sl.elts) == 2 and self.const_key(sl.elts[1]) is not None:
                    nm = tgt.value.value.id if isinstance(tgt.value.value, ast.Name) else None
                    if nm:
                        st.L[nm] = ('copy', base[1], base[2] | {self.const_key(sl.elts[1])})
            return
        base = self.expr(st, tgt.value, stmt_text, rets)
        self.expr(st, tgt.slice, stmt_text, rets)
        key = self.const_key(tgt.slice)
        if base[0] == 'attr':
            if base[1] in self.caller_held:
                self.fail('store into self.%s, which is the caller\'s own object (the constructor keeps it without a copy)'
                          % base[1], node)
            if key is None:
                self.mutate(st, base, 'store with a computed key %s' % ast.unparse(tgt)[:60], node)
            col = '%s[%s]' % (base[1], key)
            st.W = st.W | {col}
            st.P = frozenset(p for p in st.P if p[0] != col)
        elif base[0] == 'arg':
            self.mutate(st, base, 'store %s' % ast.unparse(tgt)[:60], node)
        elif base[0] == 'copy' and key is not None and isinstance(tgt.value, ast.Name):
            st.L[tgt.value.id] = ('copy', base[1], base[2] | {key})

    def assign(self, st, tgt, av, stmt_text, node, rets, elts=None):
        if isinstance(tgt, ast.Name):
            self.bind_local(st, tgt.id, av)
        elif isinstance(tgt, (ast.Tuple, ast.List)):
            for i, t in enumerate(tgt.elts):
                if isinstance(t, ast.Starred):
                    t = t.value
                self.assign(st, t, elts[i] if elts and len(elts) == len(tgt.elts) else FRESH, stmt_text, node, rets)
        elif self.is_self_attr(tgt):
            if tgt.attr in self.funcs:
                self.fail('assignment to a method name self.%s' % tgt.attr, node)
            self.write_attr(st, tgt.attr, av, node)
        elif isinstance(tgt, ast.Attribute):
            base = self.expr(st, tgt.value, stmt_text, rets)
            self.mutate(st, base, 'attribute store %s' % ast.unparse(tgt)[:60], node)
        elif isinstance(tgt, ast.Subscript):
            self.store_sub(st, tgt, stmt_text, node, rets)
        else:
            self.fail('assignment target %s' % type(tgt).__name__, node)

    # ---------------- inlining of calls to methods of the class
    def self_calls(self, node):
        """calls `self.m(...)` with m a function of the class, innermost first"""
        r = self._calls.get(id(node))
        if r is None or r[0] is not node:
            out = []
            for x in ast.walk(node):
                if isinstance(x, ast.Call) and self.is_self_attr(x.func) and x.func.attr in self.funcs:
                    out.append(x)
            r = self._calls[id(node)] = (node, out[::-1])
        return r[1]

    def inline(self, states, call, stmt_text, ctrl, rets_per_state):
        """run the callee from every state; returns [(state, rets mapping)]"""
        name = call.func.attr
        fn = self.funcs[name]
        if name in self.stack or self.depth >= MAX_DEPTH:
            self.fail('recursive / too deep call of self.%s' % name, call)
        out = []
        for st, rets in states:
            params = [a.arg for a in fn.args.args]
            if name not in self.static:
                params = params[1:]
            defaults = dict(zip([a.arg for a in fn.args.args][::-1], fn.args.defaults[::-1]))
            actual = {}
            for p, a in zip(params, call.args):
                actual[p] = (self.expr(st, a, stmt_text, rets), a)
            for k in call.keywords:
                if k.arg is None:
                    self.fail('**kwargs in a call of self.%s' % name, call)
                actual[k.arg] = (self.expr(st, k.value, stmt_text, rets), k.value)
            saved = st.L
            s2 = st.copy()
            s2.L = {}
            for p in params + [a.arg for a in fn.args.kwonlyargs]:
                if p in actual:
                    av, anode = actual[p]
                    kv = self.known(st, anode)
                    s2.L[p] = ('const', kv[1]) if kv is not None else av
                elif p in defaults and isinstance(defaults[p], ast.Constant):
                    s2.L[p] = ('const', defaults[p].value)
                else:
                    s2.L[p] = FRESH
            if fn.args.vararg:
                s2.L[fn.args.vararg.arg] = FRESH
            if fn.args.kwarg:
                s2.L[fn.args.kwarg.arg] = FRESH
            # facts about the caller's locals do not speak about the callee's
            s2.C = frozenset((t, v) for t, v in s2.C if not self.atoms.names[t])
            keepA = s2.A
            s2.A = frozenset()
            self.stack.append(name)
            self.depth += 1
            flow = self.block(fn.body, [s2], ctrl)
            self.depth -= 1
            self.stack.pop()
            for s3 in flow.nxt + flow.ret:
                r = dict(rets)
                r[id(call)] = s3.L.get('$ret', FRESH)
                s3.L = dict(saved)
                s3.C = frozenset((t, v) for t, v in s3.C if not self.atoms.names[t]) | \
                    frozenset((t, v) for t, v in st.C if self.atoms.names[t])
                s3.A = keepA
                out.append((s3, r))
        return out

    def with_calls(self, states, node, stmt_text, ctrl):
        """-> [(state, rets)] after running every self.m(...) call inside `node`"""
        cur = [(s, {}) for s in states]
        for c in self.self_calls(node):
            cur = self.inline(cur, c, stmt_text, ctrl, None)
            if len(cur) > MAX_STATES:
                self.fail('too many paths through self.%s' % c.func.attr, node)
        return cur

    # ---------------- statements
    def block(self, stmts, states, ctrl):
        flow = Flow()
        cur = states
        for s in stmts:
            if not cur:
                break
            f = self.stmt(s, cur, ctrl)
            flow.ret += f.ret
            flow.brk += f.brk
            flow.cont += f.cont
            cur = self.cap(f.nxt)
        flow.nxt = cur
        flow.ret = self.cap(flow.ret)
        return flow

    def branch(self, st, test, pol):
        """states for the branch `test == pol` from `st`"""
        r = self.eval_test(st, test)
        if r is not None:
            return [st.copy()] if r == pol else []
        out = []
        for d in dnf(self.atoms, test, pol):
            facts = st.C | d
            if not consistent(facts):
                continue
            # atoms decidable from constants known on this path
            ok = True
            for t, v in d:
                e = self.eval_test(st, self.atoms.node[t])
                if e is not None and e != v:
                    ok = False
            if not ok:
                continue
            s2 = st.copy()
            s2.C = facts
            s2.A = s2.A | frozenset((t, v) for t, v in d if not self.atoms.attrs[t])
            out.append(s2)
        return out

    def stmt(self, s, states, ctrl):
        text = unp(s) if not isinstance(s, (ast.If, ast.For, ast.While, ast.With, ast.Try)) else None
        if isinstance(s, ast.Expr):
            if isinstance(s.value, ast.Constant):
                return Flow(nxt=states)
            out = []
            for st, rets in self.with_calls(states, s.value, text, ctrl):
                self.expr(st, s.value, text, rets)
                out.append(st)
            return Flow(nxt=out)
        if isinstance(s, (ast.Assign, ast.AnnAssign)):
            value = s.value
            targets = s.targets if isinstance(s, ast.Assign) else [s.target]
            if value is None:
                return Flow(nxt=states)
            out = []
            for st, rets in self.with_calls(states, value, text, ctrl):
                st = st.copy()
                av = self.expr(st, value, text, rets)
                elts = None
                if isinstance(value, (ast.Tuple, ast.List)):
                    elts = [self.expr(st, e, text, rets) for e in value.elts]
                for t in targets:
                    self.assign(st, t, av, text, s, rets, elts)
                out.append(st)
            return Flow(nxt=out)
        if isinstance(s, ast.AugAssign):
            out = []
            for st, rets in self.with_calls(states, s.value, text, ctrl):
                st = st.copy()
                self.expr(st, s.value, text, rets)
                t = s.target
                if isinstance(t, ast.Name):
                    av = st.L.get(t.id, FRESH)
                    self.mutate(st, av, 'augmented assignment `%s`' % text[:60], s)
                    if av[0] == 'const':
                        self.bind_local(st, t.id, FRESH)
                elif self.is_self_attr(t):
                    a = t.attr
                    if a not in st.W:
                        self.fail('read-modify-write of self.%s (`%s`): the result depends on earlier calls' % (a, text[:60]), s)
                    av = st.AV.get(a, FRESH)
                    self.mutate(st, av, 'augmented assignment `%s` on an attribute that aliases it' % text[:60], s)
                    st.K.pop(a, None)
                else:
                    base = t.value if isinstance(t, (ast.Subscript, ast.Attribute)) else None
                    av = self.expr(st, base, text, rets) if base is not None else FRESH
                    key = self.const_key(t.slice) if isinstance(t, ast.Subscript) else None
                    if av[0] == 'attr' and key is not None and '%s[%s]' % (av[1], key) in st.W:
                        pass
                    elif self.is_self_attr(base) and base.attr in st.W and st.AV.get(base.attr, FRESH)[0] not in ('attr', 'arg'):
                        pass
                    else:
                        self.mutate(st, av, 'augmented assignment `%s`' % text[:60], s)
                out.append(st)
            return Flow(nxt=out)
        if isinstance(s, ast.Return):
            out = []
            for st, rets in (self.with_calls(states, s.value, text, ctrl) if s.value is not None
                             else [(x, {}) for x in states]):
                st = st.copy()
                st.L['$ret'] = self.expr(st, s.value, text, rets) if s.value is not None else ('const', None)
                out.append(st)
            return Flow(ret=out)
        if isinstance(s, ast.Raise):
            for st in states:
                self.raises.append((list(ctrl), st.W, st.P, self.stack[0] if self.stack else '?', s.lineno,
                                    list(self.stack)))
            return Flow()
        if isinstance(s, (ast.Pass, ast.Import, ast.ImportFrom)):
            return Flow(nxt=states)
        if isinstance(s, ast.Continue):
            return Flow(cont=states)
        if isinstance(s, ast.Break):
            return Flow(brk=states)
        if isinstance(s, ast.Assert):
            out = []
            for st in states:
                self.expr(st, s.test, ast.unparse(s.test))
                out += self.branch(st, s.test, True)
            return Flow(nxt=out)
        if isinstance(s, ast.FunctionDef):
            for x in ast.walk(s):
                if isinstance(x, ast.Name) and x.id == 'self':
                    self.fail('nested function using self', s)
            for st in states:
                self.bind_local(st, s.name, FRESH)
            return Flow(nxt=states)
        if isinstance(s, ast.If):
            ttext = 'if ' + unp(s.test)
            flow = Flow()
            for st, rets in self.with_calls(states, s.test, ttext, ctrl):
                self.expr(st, s.test, ttext, rets)
                if rets:
                    # a test that calls a method of the class: opaque
                    yes, no = [st.copy()], [st.copy()]
                else:
                    yes, no = self.branch(st, s.test, True), self.branch(st, s.test, False)
                fy = self.block(s.body, yes, ctrl + [(s.test, True)]) if yes else Flow()
                fn = self.block(s.orelse, no, ctrl + [(s.test, False)]) if no else Flow()
                for f in (fy, fn):
                    flow.nxt += f.nxt
                    flow.ret += f.ret
                    flow.brk += f.brk
                    flow.cont += f.cont
            flow.nxt = self.cap(flow.nxt)
            return flow
        if isinstance(s, (ast.For, ast.While)):
            head = ('for %s in %s' % (unp(s.target), unp(s.iter))) if isinstance(s, ast.For) \
                else 'while ' + unp(s.test)
            entry = []
            hnode = s.iter if isinstance(s, ast.For) else s.test
            for st, rets in self.with_calls(states, hnode, head, ctrl):
                st = st.copy()
                self.expr(st, hnode, head, rets)
                entry.append(st)
            done, frontier, seen = list(entry), list(entry), {x.key() for x in entry}
            flow = Flow()
            marker = ast.Name(id='<loop %d>' % s.lineno, ctx=ast.Load())
            for _ in range(8):
                if not frontier:
                    break
                body_in = []
                for st in frontier:
                    st = st.copy()
                    if isinstance(s, ast.For):
                        self.assign(st, s.target, FRESH, head, s, {})
                    else:
                        self.expr(st, s.test, head)
                    body_in.append(st)
                f = self.block(s.body, body_in, ctrl + [(marker, True)])
                flow.ret += f.ret
                flow.brk += f.brk
                frontier = []
                for st in self.cap(f.nxt + f.cont):
                    if st.key() not in seen:
                        seen.add(st.key())
                        frontier.append(st)
                        done.append(st)
            else:
                if frontier:
                    self.fail('loop does not stabilise', s)
            fe = self.block(s.orelse, done, ctrl) if s.orelse else Flow(nxt=done)
            return Flow(nxt=self.cap(fe.nxt + flow.brk), ret=flow.ret + fe.ret, brk=fe.brk, cont=fe.cont)
        if isinstance(s, ast.With):
            cur = states
            for it in s.items:
                nxt = []
                for st, rets in self.with_calls(cur, it.context_expr, ast.unparse(it.context_expr), ctrl):
                    st = st.copy()
                    self.expr(st, it.context_expr, ast.unparse(it.context_expr), rets)
                    if it.optional_vars is not None:
                        self.assign(st, it.optional_vars, FRESH, 'with', s, {})
                    nxt.append(st)
                cur = nxt
            return self.block(s.body, cur, ctrl)
        if isinstance(s, ast.Try):
            nraise = len(self.raises)
            fb = self.block(s.body, [x.copy() for x in states], ctrl)
            body_raises = self.raises[nraise:]
            flows = [fb]
            marker = ast.Name(id='<except %d>' % s.lineno, ctx=ast.Load())
            for h in s.handlers:
                # an exception may come from anywhere in the body: the handler starts from the state on entry and
                # from every state the body reached (its assignments may or may not have happened)
                starts = [x.copy() for x in states] + [x.copy() for x in fb.nxt]
                if h.name:
                    for st in starts:
                        self.bind_local(st, h.name, FRESH)
                flows.append(self.block(h.body, self.cap(starts), ctrl + [(marker, True)]))
            if s.orelse:
                fo = self.block(s.orelse, fb.nxt, ctrl)
                fb.nxt = fo.nxt
                flows.append(Flow(ret=fo.ret, brk=fo.brk, cont=fo.cont))
            out = Flow()
            for f in flows:
                out.nxt += f.nxt
                out.ret += f.ret
                out.brk += f.brk
                out.cont += f.cont
            if s.finalbody:
                res = Flow()
                for kind in ('nxt', 'ret', 'brk', 'cont'):
                    sts = getattr(out, kind)
                    if not sts:
                        continue
                    keep = [x.L.get('$ret') for x in sts]
                    ff = self.block(s.finalbody, sts, ctrl)
                    if ff.ret or ff.brk or ff.cont:
                        self.fail('return / break inside finally', s)
                    getattr(res, kind).extend(ff.nxt)
                # paths that leave the body by an exception run the finally block too: a restore there also undoes
                # the assignments of a failing call; we re-run it on the states recorded at the `raise` statements
                for i in range(nraise, len(self.raises)):
                    c, W, P, fnm, ln, stack = self.raises[i]
                    tmp = St(W=W, P=P)
                    ff = self.block(s.finalbody, [tmp], ctrl)
                    if ff.nxt:
                        self.raises[i] = (c, ff.nxt[0].W, ff.nxt[0].P, fnm, ln, stack)
                out = res
            out.nxt = self.cap(out.nxt)
            return out
        if isinstance(s, (ast.Delete, ast.Global, ast.Nonlocal)):
            self.fail('statement %s' % type(s).__name__, s)
        self.fail('statement %s' % type(s).__name__, s)

    # ---------------- one method variant
    def run(self, name, fixed, is_init=False):
        fn = self.funcs[name]
        self.reset((name, tuple(sorted(fixed.items()))))
        self.implicit_hit = getattr(self, 'implicit_hit', set())
        self.stack = [name]
        st = St()
        params = [a.arg for a in fn.args.args][1:] + [a.arg for a in fn.args.kwonlyargs]
        for p in params:
            st.L[p] = ('const', fixed[p]) if p in fixed else ('arg', p)
        for p in fixed:
            if p not in params:
                self.fail('fixed argument %s is not a parameter of %s' % (p, name))
        if fn.args.vararg:
            st.L[fn.args.vararg.arg] = ('arg', fn.args.vararg.arg)
        if fn.args.kwarg:
            st.L[fn.args.kwarg.arg] = ('arg', fn.args.kwarg.arg)
        flow = self.block(fn.body, [st], [])
        finals = self.cap(flow.nxt + flow.ret)
        for f in finals:
            if f.P:
                self.fail('partial in-place store %s' % sorted(f.P))
        return {'name': name, 'fixed': dict(fixed), 'finals': finals, 'reads': self.reads, 'raises': self.raises,
                'notes': self.notes, 'additive': set(self.additive_used)}


# ------------------------------------------------------------------------------------------ class-level analysis
def stored_outside_init(cdef):
    out = set()
    for f in cdef.body:
        if isinstance(f, ast.FunctionDef) and f.name != '__init__':
            for x in ast.walk(f):
                if isinstance(x, ast.Attribute) and isinstance(x.value, ast.Name) and x.value.id == 'self' and \
                        isinstance(x.ctx, (ast.Store, ast.Del)):
                    out.add(x.attr)
    return out


def is_public_attr(a):
    return not a.startswith('_') and '[' not in a


def analyse_class(text, clsname, methods, path=None, repo=None):
    """-> dict describing the class table; raises EffUnsupported.  `path` (file of the class, relative to the repository
    `repo`): module-level helpers the methods call are then analysed for in-place changes of what they are handed."""
    tree = ast.parse(text)
    helpers = Helpers(tree, path, repo or os.environ.get('ZEPID_REPO', '/repo')) if path else None
    cdef = next((n for n in tree.body if isinstance(n, ast.ClassDef) and n.name == clsname), None)
    if cdef is None:
        raise EffUnsupported('class %s not found' % clsname)
    if cdef.bases and [ast.unparse(b) for b in cdef.bases] != ['object']:
        raise EffUnsupported('%s has base classes %s' % (clsname, [ast.unparse(b) for b in cdef.bases]))
    imported = set()
    for n in ast.walk(tree):
        if isinstance(n, (ast.Import, ast.ImportFrom)):
            imported |= {(a.asname or a.name).split('.')[0] for a in n.names}
    imported |= {n.name for n in tree.body if isinstance(n, (ast.FunctionDef, ast.ClassDef))}
    w0 = Walker(clsname, cdef)
    w0.imported = imported
    w0.helpers, w0.helper_path = helpers, path
    if '__init__' not in w0.funcs:
        raise EffUnsupported('%s has no __init__' % clsname)
    stored = stored_outside_init(cdef)
    # ---- constructor
    init = w0.run('__init__', {}, is_init=True)
    init_attrs = set()
    for f in init['finals']:
        init_attrs |= {a for a in f.W if '[' not in a}
    init_const = {}
    for a in init_attrs:
        vals = {repr(f.K.get(a)) for f in init['finals'] if a in f.W}
        if len(vals) == 1 and all(a in f.W for f in init['finals']) and init['finals'][0].K.get(a) is not None:
            init_const[a] = init['finals'][0].K[a]
    const_syntactic = frozenset(a for a in init_attrs if a not in stored)
    held = frozenset(a for f in init['finals'] for a, av in f.AV.items() if av[0] == 'arg')
    w = Walker(clsname, cdef, init_consts={a: v for a, v in init_const.items() if a in const_syntactic},
               const_attrs=const_syntactic, caller_held=held)
    w.imported = imported
    w.helpers, w.helper_path = helpers, path
    w.implicit_hit = set()
    # ---- every public method; table variants first
    public = [n for n in w.funcs if not n.startswith('_') and n not in w.static]
    listed = {m for m, _ in methods}
    for m, _ in methods:
        if m not in w.funcs:
            raise EffUnsupported('%s.%s no longer exists' % (clsname, m))
    variants = [w.run(m, fx) for m, fx in methods]
    extra = [w.run(m, {}) for m in public if m not in listed]
    allv = variants + extra
    atoms = w.atoms

    def base(v):
        return v['name']
    # ---- net writes; constants of the class
    maywrite = {}
    for v in allv:
        mw = set()
        for f in v['finals']:
            mw |= f.W
        maywrite.setdefault(base(v), set()).update(mw)
    written_any = set().union(*maywrite.values()) if maywrite else set()
    const_attrs = {a for a in init_attrs if a not in written_any}

    def kind_of_atom(t):
        """'config' (constructor constants only), 'state' (mentions an attribute some method assigns), 'arg'"""
        at, nm = atoms.attrs[t], atoms.names[t]
        if nm - {'np', 'numpy', 'math', 'isinstance', 'type', 'len', 'list', 'str', 'int', 'float', 'bool', 'os',
                 'pd', 'callable', 'hasattr'}:
            return 'arg'
        if not at:
            return 'arg'
        if at <= const_attrs:
            return 'config'
        return 'state'

    def config_of(facts):
        return frozenset((t, v) for t, v in facts if kind_of_atom(t) == 'config')
    # ---- reads
    incoming = {}         # attr -> [(method, facts)]
    for v in allv:
        for a, inc, facts, stxt, top in v['reads']:
            if inc:
                incoming.setdefault(a, []).append((base(v), facts, stxt))
    columns = {a for a in written_any if '[' in a}

    def readers(a):
        r = [x for x in incoming.get(a, [])]
        if is_public_attr(a):
            r.append(('<user>', frozenset(), 'public attribute'))
        return r
    # ---- stateful methods, groups
    scratch = {a for a in written_any if not readers(a)}
    stateful = [m for m in maywrite if maywrite[m] - scratch]
    owners = {}
    for m in stateful:
        for a in maywrite[m] - scratch:
            owners.setdefault(a, set()).add(m)

    def deps(m):
        d = set()
        for v in allv:
            if base(v) == m:
                for a, inc, facts, stxt, top in v['reads']:
                    if inc and a in owners and owners[a] - {m}:
                        d.add(a)
        return d
    role = {}
    for m in stateful:
        role[m] = 'fit' if deps(m) else 'spec'
    fits = [m for m in stateful if role[m] == 'fit']
    for a, ms in owners.items():
        if len(ms) > 1 and not all(role[m] == 'fit' for m in ms):
            raise EffUnsupported('%s: attribute %s is assigned by several methods %s that are not all fits: the '
                                 'result depends on the order of the calls' % (clsname, a, sorted(ms)))
    for m in stateful:
        if m not in listed:
            raise EffUnsupported('%s.%s assigns state %s but is not a method of the table'
                                 % (clsname, m, sorted(maywrite[m] - scratch)))

    def group(m):
        return fits if role.get(m) == 'fit' else [m]
    # ---- registers: conditionally assigned, possibly read afterwards
    registers = []      # (method, sorted attrs, [condition texts])
    selfdep = {}
    for m in stateful:
        g = group(m)
        gpaths = [(base(v), f) for v in allv if base(v) in g for f in v['finals']]
        mine = [(mm, f) for mm, f in gpaths if mm == m]
        cond = {}
        for a in sorted(maywrite[m] - scratch):
            for mm, f2 in gpaths:
                if a in f2.W:
                    continue
                c2 = config_of(f2.C)
                wr = [f1 for _, f1 in mine if a in f1.W and consistent(config_of(f1.C) | c2)]
                if not wr:
                    continue
                # silent path f2 (of method mm of the group) next to a compatible assigning path of m: is every read
                # shielded by a flag this path sets, or excluded by the configuration?
                exposed = None
                for rm, rfacts, rtxt in readers(a):
                    if not consistent(config_of(rfacts) | c2):
                        continue
                    shielded = False
                    for t, val in rfacts:
                        if kind_of_atom(t) != 'state':
                            continue
                        for gattr in atoms.attrs[t]:
                            if gattr in f2.W and gattr in f2.K and owners.get(gattr, set()) <= set(g):
                                e = w.eval_test(f2, atoms.node[t], env={gattr: f2.K[gattr]})
                                if e is not None and e != val:
                                    shielded = True
                    if not shielded:
                        exposed = (rm, rtxt)
                        break
                if exposed:
                    common = frozenset.intersection(*[f1.A for f1 in wr]) if wr else frozenset()
                    when = sorted(('%s' if v_ else 'not (%s)') % t for t, v_ in common - f2.A)
                    cond.setdefault(a, (exposed, mm, when))
        if cond:
            registers.append((m, sorted(cond), cond))
        # read-modify-write of own state
        for v in allv:
            if base(v) == m:
                for a, inc, facts, stxt, top in v['reads']:
                    if inc and a in maywrite[m] - scratch and a in cond:
                        selfdep.setdefault(m, set()).add(a)
    # ---- slots in table order
    # (a documented additive, labelled method -- ADDITIVE -- has one slot per table variant, i.e. per label: what a call
    # adds is held under its label, calls with different labels do not replace one another, and the canonical order of
    # the slots is the order of the labels in the table, whatever the order of the calls)
    slot, vslot, nslots = {}, {}, 0
    for m, fx in methods:
        if role.get(m) != 'spec':
            continue
        if (clsname, m) in ADDITIVE and fx:
            vkey = (m, tuple(sorted(fx.items())))
            if vkey not in vslot:
                vslot[vkey] = nslots
                slot.setdefault(m, nslots)
                nslots += 1
        elif m not in slot:
            slot[m] = nslots
            nslots += 1
    reg_index = {m: i for i, (m, _, _) in enumerate(registers)}
    # ---- guards per variant
    init_val = dict(init_const)

    def owner_req(a, what):
        ms = owners.get(a)
        if not ms:
            raise EffUnsupported('%s: %s names %s, which no method assigns' % (clsname, what, a))
        m = sorted(ms)[0]
        return ('fit', None) if role[m] == 'fit' else ('slot', slot[m])
    sigs, assumes, locks = [], [], {}
    for v, (mname, fx) in zip(variants, methods):
        req, needs_fit, blocked = set(), False, None
        for ctrl, W, P, top, ln, stack in v['raises']:
            if not ctrl:
                raise EffUnsupported('%s.%s always raises (line %d)' % (clsname, mname, ln))
            conj = [frozenset()]
            opaque = False
            for test, pol in ctrl:
                if isinstance(test, ast.Name) and test.id.startswith('<'):
                    opaque = True
                    continue
                conj = [a | b for a in conj for b in dnf(atoms, test, pol) if consistent(a | b)]
            for d in conj:
                kinds = {t: kind_of_atom(t) for t, _ in d}
                if opaque or 'arg' in kinds.values():
                    inner = ctrl[-1][0]
                    inner_kinds = set()
                    if not (isinstance(inner, ast.Name) and inner.id.startswith('<')):
                        inner_kinds = {kind_of_atom(t) for dd in dnf(atoms, inner, True) for t, _ in dd}
                    if inner_kinds == {'state'}:
                        raise EffUnsupported('%s.%s line %d: a guard on state under a condition on the arguments'
                                             % (clsname, mname, ln))
                    continue                      # argument / data validation: the table describes valid calls
                st_atoms = [(t, val) for t, val in d if kinds[t] == 'state']
                cf_atoms = [(t, val) for t, val in d if kinds[t] == 'config']
                if not st_atoms:
                    if len(cf_atoms) == 1 and atoms.attrs[cf_atoms[0][0]] <= set(PARAM_ATTR) and \
                            cf_atoms[0][0] == 'self.' + next(iter(atoms.attrs[cf_atoms[0][0]])):
                        # raises when the parameter attribute is falsy / truthy
                        blocked = ('not ' if cf_atoms[0][1] is False else '') + PARAM_ATTR[next(iter(atoms.attrs[cf_atoms[0][0]]))]
                    else:
                        assumes.append('%s: not (%s)' % (mname, ' and '.join(('%s' if val else 'not (%s)') % t
                                                                           for t, val in sorted(cf_atoms))))
                    continue
                reg_attrs = {a: m_ for m_, attrs_, _ in registers for a in attrs_}
                if all(atoms.attrs[t] and atoms.attrs[t] <= set(reg_attrs) for t, _ in st_atoms):
                    # the call fails depending on a register (state that a call may leave stale): `lock`
                    for t, _ in st_atoms:
                        for a in atoms.attrs[t]:
                            locks.setdefault(mname, reg_index[reg_attrs[a]])
                    continue
                if W - scratch:
                    raise EffUnsupported('%s.%s line %d: a guard raises after state was assigned %s'
                                         % (clsname, mname, ln, sorted(W - scratch)))
                if len(st_atoms) > 1 or cf_atoms:
                    raise EffUnsupported('%s.%s line %d: guard on a conjunction of conditions (%s)'
                                         % (clsname, mname, ln, ' and '.join(t for t, _ in sorted(d))))
                t, val = st_atoms[0]
                ga = atoms.attrs[t]
                if len(ga) != 1:
                    raise EffUnsupported('%s.%s line %d: guard `%s` on several attributes' % (clsname, mname, ln, t))
                a = next(iter(ga))
                if a not in init_val:
                    raise EffUnsupported('%s.%s line %d: guard `%s` on an attribute without a constant constructor '
                                         'value' % (clsname, mname, ln, t))
                e = w.eval_test(St(), atoms.node[t], env={a: init_val[a]})
                if e is None or e != val:
                    raise EffUnsupported('%s.%s line %d: guard `%s` does not fire on the constructor value %r'
                                         % (clsname, mname, ln, t, init_val[a][1]))
                kind, k = owner_req(a, 'guard `%s`' % t)
                if kind == 'fit':
                    needs_fit = True
                else:
                    req.add(k)
        # declared implicit failures: attribute read on every path of this variant
        decl = [a for (c, mm), sites in IMPLICIT.items() if c == clsname for a, _ in sites]
        if v['finals']:
            per_path = []
            for f in v['finals']:
                fa = {a for a in f.F if not a.startswith('?')}
                fa |= {a[1:] for a in f.F if a.startswith('?') and a[1:] in init_val and init_val[a[1:]][1] is None
                       and a[1:] in owners}
                per_path.append({owner_req(a, 'implicit failure') for a in fa})
            common = set.intersection(*per_path) if per_path else set()
            for kind, k in common:
                if kind == 'fit':
                    needs_fit = True
                else:
                    req.add(k)
        g = {'name': mname, 'fixed': fx, 'role': role.get(mname, 'read'), 'req': sorted(req), 'needsFit': needs_fit,
             'blocked': blocked,
             'writes': vslot.get((mname, tuple(sorted(fx.items()))), slot.get(mname)) if role.get(mname) == 'spec' else None,
             'isFit': role.get(mname) == 'fit', 'sticky': reg_index.get(mname),
             'lock': reg_index.get(mname) if mname in selfdep else locks.get(mname)}
        sigs.append(g)
    # every declared implicit site must have been met
    for (c, mm), sites in IMPLICIT.items():
        if c == clsname:
            for a, co in sites:
                if (mm, a, co) not in w.implicit_hit:
                    raise EffUnsupported('%s.%s: the declared failing read of %s%s is no longer in the source'
                                         % (clsname, mm, a, (' (together with %s)' % co) if co else ''))
    additive = sorted(set().union(*[v['additive'] for v in allv]))
    return {'class': clsname, 'nslots': nslots, 'nregs': len(registers), 'sigs': sigs,
            'slots': {m: sorted(maywrite[m] - scratch) for m in slot},
            'fit_state': sorted(set().union(*[maywrite[m] - scratch for m in fits])) if fits else [],
            'registers': [(m, attrs, {a: (c[a][0][0], c[a][1], c[a][2]) for a in attrs}) for m, attrs, c in registers],
            'assumes': sorted(set(assumes)), 'param': any(s['blocked'] for s in sigs), 'additive': additive,
            'scratch': sorted(scratch), 'const': sorted(const_attrs), 'caller_held': sorted(held), 'notes': sorted({n for v in allv for n in v['notes']}),
            'init_notes': init['notes'], 'helpers_not_analysed': dict(helpers.unknown) if helpers else {}}


# ------------------------------------------------------------------------------------------ Lean text
def lean_sig(s):
    fields = []
    if s['writes'] is not None:
        fields.append('writes := some %d' % s['writes'])
    if s['req']:
        fields.append('req := [%s]' % ', '.join(str(k) for k in s['req']))
    if s['needsFit']:
        fields.append('needsFit := true')
    if s['isFit']:
        fields.append('isFit := true')
    if s['sticky'] is not None:
        fields.append('sticky := some %d' % s['sticky'])
    if s['lock'] is not None:
        fields.append('lock := some %d' % s['lock'])
    if s['blocked']:
        b = s['blocked']
        fields.append('blocked := %s' % ('!' + b[4:] if b.startswith('not ') else b))
    return '{ ' + ', '.join(fields) + ' }' if fields else '{ }'


def lean_table(defname, res, path):
    c = res
    doc = ['`%s` (%s): table derived from the source.' % (c['class'], path)]
    for m, attrs in c['slots'].items():
        for s in c['sigs']:
            if s['name'] == m and s['writes'] is not None:
                fx = ('(' + ', '.join('%s=%r' % kv for kv in sorted(s['fixed'].items())) + ')') if s['fixed'] and \
                    sum(1 for t in c['sigs'] if t['name'] == m and t['writes'] is not None) > 1 else ''
                doc.append('slot %d = %s%s, assigns %s' % (s['writes'], m, fx, ', '.join(attrs)))
                if not fx:
                    break
    if c['fit_state']:
        doc.append('fit state: ' + ', '.join(c['fit_state']))
    for i, (m, attrs, why) in enumerate(c['registers']):
        for a in attrs:
            rm, silent, when = why[a]
            doc.append('REGISTER %d: %s assigns %s only on some paths%s; a call of %s that does not assign it leaves the '
                       'earlier value, read by %s' % (i, m, a, (' (' + '; '.join(when) + ')') if when else '', silent, rm))
    if c['additive']:
        doc.append('additive by documentation (one slot per label, each called at most once): appends to ' +
                   ', '.join(c['additive']))
    for a in c['assumes']:
        doc.append('assumes the configuration ' + a)
    for n in c['notes']:
        doc.append('note: ' + n)
    doc = [d.replace('-/', '- /').replace('/-', '/ -') for d in doc]
    head = '/-- ' + '\n    '.join(doc) + ' -/\n'
    par = ' (miss : Bool)' if c['param'] else ''
    rows = []
    for i, s in enumerate(c['sigs']):
        fx = ('(' + ', '.join('%s=%r' % kv for kv in sorted(s['fixed'].items())) + ')') if s['fixed'] else ''
        rows.append('  %s%s   -- %d %s%s' % (lean_sig(s), ',' if i + 1 < len(c['sigs']) else ']⟩', i, s['name'], fx))
    # the closing bracket must not be swallowed by the line comment: put it on its own line
    rows = [r.replace(']⟩   --', '   --') for r in rows]
    return '%sdef %s%s : Cls := ⟨%d, %d, [\n%s\n  ]⟩\n\n' % (head, defname, par, c['nslots'], c['nregs'], '\n'.join(rows))


def analyse_repo_class(defname, repo=None):
    repo = repo or os.environ.get('ZEPID_REPO', '/repo')
    for d, cls, path, methods, names in CLASSES:
        if d == defname:
            with open(os.path.join(repo, path)) as f:
                return analyse_class(f.read(), cls, methods, path=path, repo=repo), path
    raise KeyError(defname)


# the six stale-state defects F26: (repairing commit of /repo, lean table, attribute the register must name)
F26 = [('d8e0d14', 'snm', '_scipy_solver_obj'), ('bc565f5', 'ipmw', 'missing'), ('9205f74', 'stochTmle', '_specified_bound_'),
       ('1ad23ba', 'aiptw', '_exp_model_custom'), ('4d6b174', 'tmle', '_exp_model_custom'),
       ('03e191c', 'timeFixed', 'predicted_df')]


def selftest(repo=None):
    """The analysis on the text of the parent of each F26 repair (must emit a register naming the attribute) and on
    the repaired text (must emit none).  -> list of records; `ok` False when an expectation fails; [] when the git
    history of the repository cannot be read."""
    import subprocess
    repo = repo or os.environ.get('ZEPID_REPO', '/repo')
    cfg = {d: (cls, path, methods) for d, cls, path, methods, names in CLASSES}
    out = []
    for h, d, attr in F26:
        cls, path, methods = cfg[d]
        for rev, want in ((h + '^', True), (h, False)):
            r = subprocess.run(['git', '-C', repo, 'show', '%s:%s' % (rev, path)], capture_output=True, text=True)
            if r.returncode != 0:
                return []
            try:
                res = analyse_class(r.stdout, cls, methods, path=path, repo=repo)
                regs = sorted(a for m, attrs, _ in res['registers'] for a in attrs)
                got = attr in regs
                out.append({'rev': rev, 'class': cls, 'registers': regs, 'ok': got == want and (want or not regs)})
            except EffUnsupported as e:
                out.append({'rev': rev, 'class': cls, 'unsupported': str(e), 'ok': False})
    return out


def tables_summary(repo=None):
    """per class what the analysis derived from the current source (evidence for harness/props/c11.py)"""
    out = {}
    for d, cls, path, methods, names in CLASSES:
        try:
            res, _ = analyse_repo_class(d, repo)
            out[cls] = {'nslots': res['nslots'], 'nregs': res['nregs'], 'slots': res['slots'],
                        'registers': [{'method': m, 'attributes': attrs,
                                       'silent_call': sorted({why[a][1] for a in attrs}),
                                       'read_by': sorted({why[a][0] for a in attrs})}
                                      for m, attrs, why in res['registers']],
                        'assumes': res['assumes'], 'additive': res['additive'],
                        'sigs': [lean_sig(s) for s in res['sigs']]}
        except EffUnsupported as e:
            out[cls] = {'unsupported': str(e)}
    return out


if __name__ == '__main__':
    import json
    if '--selftest' in sys.argv:
        st = selftest()
        for r in st:
            print(r)
        sys.exit(0 if st and all(r['ok'] for r in st) else 1)
    bad = 0
    for d, cls, path, methods, names in CLASSES:
        if len(sys.argv) > 1 and not sys.argv[1].startswith('-') and sys.argv[1] not in (d, cls):
            continue
        try:
            res, p = analyse_repo_class(d)
            print(lean_table(d, res, p))
        except EffUnsupported as e:
            bad += 1
            print('UNSUPPORTED %s: %s\n' % (cls, e))
    sys.exit(1 if bad else 0)
