"""Shared generators and exact closed forms for the standardization family (C01, C02, C05, C09, C10, C14, C16).

Data sets have categorical covariates L1..Lk (arity 2-4), a binary treatment A, an outcome Y (binary / normal /
count), optionally integer frequency weights `w` and missing outcomes.  Positivity is enforced by construction:
every (stratum, arm) cell holds at least two rows with observed outcomes, and for binary outcomes both values occur
(so that the logistic MLE of a saturated model exists and the cell means are strictly inside (0,1)).
"""
import itertools
from fractions import Fraction

import numpy as np
import pandas as pd

from common import rq, enc_list


def cat_dataset(rng, outcome='binary', ncov=None, n_extra=None, weights=False, missing=None, index='default',
                max_strata=12):
    """missing: None | 'mcar' | 'mar' (depends on A and stratum).  Returns (df, covs)."""
    ncov = int(rng.integers(1, 4)) if ncov is None else ncov
    while True:
        arities = [int(rng.integers(2, 5)) for _ in range(ncov)]
        if int(np.prod(arities)) <= max_strata:
            break
    covs = ['L%d' % (i + 1) for i in range(ncov)]
    strata = list(itertools.product(*[range(k) for k in arities]))
    rows = []
    base_p = {s: rng.uniform(0.2, 0.8) for s in strata}          # Pr(A=1 | stratum)
    base_y = {(s, a): rng.uniform(0.15, 0.85) for s in strata for a in (0, 1)}

    def draw_y(s, a):
        if outcome == 'binary':
            return float(rng.uniform() < base_y[(s, a)])
        if outcome == 'normal':
            return float(np.round(10 * base_y[(s, a)] + rng.normal(0, 2), 3))
        return float(rng.poisson(1 + 4 * base_y[(s, a)]))
    for s in strata:
        for a in (0, 1):
            if outcome == 'binary':
                ys = [0.0, 1.0]
            else:
                ys = [draw_y(s, a), draw_y(s, a) + 1.0]
            for y in ys:
                rows.append(list(s) + [a, y, 1])                 # 1 = protected (never set missing)
    n_extra = int(rng.integers(20, 40 * len(strata))) if n_extra is None else n_extra
    for _ in range(n_extra):
        s = strata[int(rng.integers(0, len(strata)))]
        a = int(rng.uniform() < base_p[s])
        rows.append(list(s) + [a, draw_y(s, a), 0])
    rng.shuffle(rows)
    df = pd.DataFrame(rows, columns=covs + ['A', 'Y', '_prot'])
    for c in covs + ['A']:
        df[c] = df[c].astype(int)
    if weights == 'frac':
        # non-integer (sampling) weights, exact binary fractions, varying inside the cells
        df['w'] = rng.choice([0.5, 0.75, 1.25, 1.5, 2.5, 3.25], size=len(df))
    elif weights:
        df['w'] = rng.integers(1, 5, size=len(df)).astype(int)
    if missing:
        if missing == 'mcar':
            pm = np.full(len(df), rng.uniform(0.1, 0.3))
        else:
            sid = strata_ids(df, covs)
            pm = 0.05 + 0.35 * ((sid * 7 + df['A'].values * 3) % 5) / 4.0
        m = (rng.uniform(size=len(df)) < pm) & (df['_prot'].values == 0)
        df.loc[m, 'Y'] = np.nan
    df = df.drop(columns=['_prot'])
    if index == 'shifted':
        df.index = np.arange(len(df)) + 1000
    elif index == 'shuffled':
        df.index = rng.permutation(len(df))
    return df, covs


def strata_ids(df, covs):
    """integer id of the covariate pattern of each row (mixed radix over the observed level sets)"""
    sid = np.zeros(len(df), dtype=int)
    for c in covs:
        lv = {v: i for i, v in enumerate(sorted(df[c].unique()))}
        sid = sid * len(lv) + df[c].map(lv).values
    return sid


def sat_cov(covs):
    """saturated model in the covariates, patsy syntax"""
    return '*'.join('C(%s)' % c for c in covs)


def sat_out(covs, exposure='A'):
    return exposure + '*' + sat_cov(covs)


def submodels(covs, exposure=None):
    """misspecified sub-models of the saturated one: intercept only, each covariate dropped, main effects only"""
    outs = ['1']
    if len(covs) > 1:
        outs.append(' + '.join('C(%s)' % c for c in covs))                       # main effects only
        for c in covs:
            rest = [d for d in covs if d != c]
            outs.append('*'.join('C(%s)' % d for d in rest))                     # one covariate dropped
    if exposure is not None:
        outs = [exposure] + [exposure + ' + ' + o for o in outs if o != '1'] + ['1']
    return outs


def closed_form(df, covs, wcol=None, ycol='Y', acol='A'):
    """exact (Fraction) standardized means: dict[(target, arm)] -> Fraction, target in population/exposed/unexposed.
    Cell means over rows with observed outcome; target weights over all rows."""
    sid = strata_ids(df, covs)
    w = df[wcol].values if wcol else np.ones(len(df), dtype=int)
    A = df[acol].values
    Y = df[ycol].values
    S = sorted(set(sid.tolist()))
    cm, N = {}, {}
    for s in S:
        for a in (0, 1):
            sel = (sid == s) & (A == a) & ~np.isnan(Y)
            num = sum(Fraction(float(wi)) * Fraction(float(yi)) for wi, yi in zip(w[sel], Y[sel]))
            den = sum(Fraction(float(wi)) for wi in w[sel])
            cm[(s, a)] = num / den
        N[('population', s)] = sum(Fraction(float(wi)) for wi in w[sid == s])
        N[('exposed', s)] = sum(Fraction(float(wi)) for wi in w[(sid == s) & (A == 1)])
        N[('unexposed', s)] = sum(Fraction(float(wi)) for wi in w[(sid == s) & (A == 0)])
    out = {}
    for t in ('population', 'exposed', 'unexposed'):
        tot = sum(N[(t, s)] for s in S)
        for a in (0, 1):
            out[(t, a)] = sum(N[(t, s)] * cm[(s, a)] for s in S) / tot
    return out


def enc_rows(df, covs, wcol=None, ycol='Y', acol='A'):
    """driver arguments s= a= y= [w=] for a data set (exact rationals; `_` = missing outcome)"""
    sid = strata_ids(df, covs)
    kw = dict(s=enc_list(sid.tolist(), str), a=enc_list(df[acol].tolist(), lambda v: str(int(v))),
              y=','.join('_' if np.isnan(v) else rq(float(v)) for v in df[ycol].tolist()))
    if wcol:
        kw['w'] = enc_list(df[wcol].tolist(), lambda v: rq(float(v)))
    return kw


def describe(df, covs, **extra):
    d = {'n': int(len(df)), 'covariates': {c: int(df[c].nunique()) for c in covs},
         'strata': int(len(set(strata_ids(df, covs).tolist()))), 'missing_y': int(df['Y'].isna().sum())}
    d.update(extra)
    return d


def frame_record(df, limit=400):
    """exact, replayable record of a data set (values as floats; NaN as None)"""
    if len(df) > limit:
        return {'too_large': int(len(df))}
    return {'index': [int(i) if isinstance(i, (int, np.integer)) else str(i) for i in df.index],
            'columns': {c: [None if (isinstance(v, float) and np.isnan(v)) else (float(v)) for v in df[c].tolist()]
                        for c in df.columns}}


def frame_from_record(rec):
    df = pd.DataFrame({c: [np.nan if v is None else v for v in vals] for c, vals in rec['columns'].items()},
                      index=rec['index'])
    for c in df.columns:
        if c != 'Y' and not df[c].isna().any() and (df[c] == df[c].astype(int)).all():
            df[c] = df[c].astype(int)
    return df


# ---------------------------------------------------------------------------------------------------------------
# Families shared by the data-frame checks (added in round 4): hostile column names, nullable / odd column dtypes,
# level codings.  All additive; drawn from the caller's rng; everything returned is JSON-serialisable.
# ---------------------------------------------------------------------------------------------------------------

#: names a library (or pandas) plausibly uses for a scratch column, a local, an attribute or a result label
SCRATCH_NAMES = [
    'complete', 'missing', 'observed', 'flag', 'keep', 'mask', 'n', 'N', 'count', 'counts', 'total', 'index',
    'level_0', 'level_1', 'idx', 'id', 'tmp', 'temp', '_merge', 'weight', 'weights', 'w', 'exposure', 'outcome',
    'time', 'treatment', 'event', 'events', 'y', 'x', 'a', 'b', 'c', 'd', 'e', 'i', 'df', 'data', 'value', 'values',
    'variable', 'size', 'shape', 'T', 'loc', 'iloc', 'columns', 'dtype', 'sum', 'mean', 'min', 'max', 'any', 'all',
    'name', 'key', 'keys', 'items', 'Intercept', 'const', '__freq__', '__group__', 'nan', 'None', 'True', '0', '1',
    '0.0', '', ' ', 'exp', 'dis', 'A', 'Y', 'E', 'D', 'E=1', 'D=1', 'ref', 'reference', 'level', 'levels', 'group']


def library_names(relpath, cls=None, repo=None):
    """every name the library's own source uses in `relpath` (optionally only inside class `cls`): variables, arguments,
    keyword names (`df.assign(flag=...)`), attribute names, short string constants (`df['__tmp__']`, result labels).
    Read from the tree under test, so a scratch name introduced by a change is in the pool."""
    import ast
    import os
    import common
    path = os.path.join(repo or common.REPO, relpath)
    try:
        tree = ast.parse(open(path).read())
    except (OSError, SyntaxError):
        return []
    node = tree
    if cls is not None:
        node = next((c for c in tree.body if isinstance(c, ast.ClassDef) and c.name == cls), tree)
    out = set()
    for n in ast.walk(node):
        if isinstance(n, ast.Name):
            out.add(n.id)
        elif isinstance(n, ast.arg):
            out.add(n.arg)
        elif isinstance(n, ast.keyword) and n.arg:
            out.add(n.arg)
        elif isinstance(n, ast.Attribute):
            out.add(n.attr)
        elif isinstance(n, ast.Constant) and isinstance(n.value, str) and len(n.value) <= 24 and '\n' not in n.value:
            out.add(n.value)
    return sorted(out)


def name_pool(relpath=None, cls=None):
    """static scratch names + the names of the library source under test, de-duplicated, in a fixed order"""
    seen, pool = set(), []
    for nm in SCRATCH_NAMES + (library_names(relpath, cls) if relpath else []):
        if nm not in seen:
            seen.add(nm)
            pool.append(nm)
    return pool


def related_names(name):
    """names that contain `name`, are contained in it, or differ from it only by case / padding"""
    out = [name + '0', name + '_', '_' + name, name + ' ', name + name, name.upper(), name.lower(), name.capitalize(),
           name + '.1', name + '_x', name + '_y', 'x' + name + 'x']
    if len(name) > 1:
        out += [name[:-1], name[1:], name[:1]]
    return [n for n in dict.fromkeys(out) if n != name]


def draw_names(rng, pool, default=('exp', 'dis'), p_hostile=0.5, max_extras=3):
    """column names for an (exposure, outcome) frame: {'exp', 'dis', 'extras': [[name, content seed], ...], 'order'}.
    With probability p_hostile the two names come from the pool / are substrings of one another; the extra
    (unused) columns are named from the pool or after the two used names (prefix, suffix, case variants)."""
    ex, di = default
    u = rng.uniform()
    if u < p_hostile:
        ex = pool[int(rng.integers(0, len(pool)))]
        di = pool[int(rng.integers(0, len(pool)))]
        v = rng.uniform()
        if v < 0.2:                       # outcome name contains / is contained in the exposure name
            rel = related_names(ex)
            di = rel[int(rng.integers(0, len(rel)))]
        elif v < 0.3:
            ex = default[0]
        elif v < 0.4:
            di = default[1]
    if ex == di:
        di = di + '_'
    extras = []
    for _ in range(int(rng.integers(0, max_extras + 1))):
        cand = related_names(ex) + related_names(di) if rng.uniform() < 0.5 else pool
        nm = cand[int(rng.integers(0, len(cand)))]
        if nm not in (ex, di) and nm not in [x[0] for x in extras]:
            extras.append([nm, int(rng.integers(0, 2 ** 31))])
    return {'exp': ex, 'dis': di, 'extras': extras, 'order': int(rng.integers(0, 2 ** 31))}


def extra_column(seed, e, y):
    """content of an unused column, a function of its seed only (replayable): a variable of its own with values
    missing on rows where the analysed columns are observed, a noisy copy of the exposure / outcome, text, all-NaN"""
    r = np.random.default_rng(seed)
    n = len(e)
    kind = int(r.integers(0, 7))
    if kind == 0:
        return [float('nan') if r.uniform() < 0.4 else float(r.integers(0, 2)) for _ in range(n)]
    if kind == 1:                         # the exposure, shuffled, with its own holes
        p = r.permutation(n)
        return [float('nan') if (e[j] is None or r.uniform() < 0.2) else float(e[j]) for j in p]
    if kind == 2:                         # the complement of the outcome, with its own holes
        return [float('nan') if (v is None or r.uniform() < 0.2) else 1.0 - float(v) for v in y]
    if kind == 3:
        return ['s%d' % int(r.integers(0, 3)) for _ in range(n)]
    if kind == 4:
        return [float('nan')] * n
    if kind == 5:
        return [bool(r.integers(0, 2)) for _ in range(n)]
    return [float(r.normal()) for _ in range(n)]


#: column storage kinds for a numeric-coded column pair; the nullable ones hold pd.NA and so admit incomplete rows
NUMPY_DTYPE_KINDS = ['float', 'int64', 'int8', 'bool_outcome', 'object']
NULLABLE_DTYPE_KINDS = ['Int64', 'Int8', 'boolean_outcome', 'Float64', 'Int64_x_float', 'float_x_Int64', 'category']


def _is_int(v):
    return float(v).is_integer()


def typed_columns(e, y, kind):
    """(exposure column, outcome column, kind actually used).  e: level codes (int or float) or None; y: 0/1 or None.
    A kind that cannot hold the data (missing values in a numpy integer column, fractional codes in an integer column,
    codes outside int8) falls back to the nearest kind that can: float for the numpy kinds, Float64 for the nullable."""
    complete = all(v is not None for v in e) and all(v is not None for v in y)
    ints = all(_is_int(v) for v in e if v is not None)
    small = ints and all(-128 <= v <= 127 for v in e if v is not None)

    def fl(xs):
        return [float('nan') if v is None else float(v) for v in xs]

    def na(xs, cast):
        return [pd.NA if v is None else cast(v) for v in xs]

    if kind in ('int64', 'int8', 'bool_outcome') and not (complete and ints and (kind != 'int8' or small)):
        kind = 'float'
    if kind in ('Int64', 'Int8', 'boolean_outcome', 'Int64_x_float') and not (ints and (kind != 'Int8' or small)):
        kind = 'Float64'
    if kind == 'float':
        return pd.Series(fl(e)), pd.Series(fl(y)), kind
    if kind == 'int64':
        return pd.Series([int(v) for v in e], dtype=np.int64), pd.Series([int(v) for v in y], dtype=np.int64), kind
    if kind == 'int8':
        return pd.Series(np.array(e, dtype=np.int8)), pd.Series(np.array(y, dtype=np.uint8)), kind
    if kind == 'bool_outcome':
        return pd.Series(np.array(e, dtype=np.int32)), pd.Series(np.array(y, dtype=np.bool_)), kind
    if kind == 'object':
        # ints stay ints; missing is None on even rows and NaN on odd rows (both are "null" for pandas)
        def ob(xs):
            return pd.Series([(None if k % 2 == 0 else float('nan')) if v is None else (int(v) if _is_int(v) else float(v))
                              for k, v in enumerate(xs)], dtype=object)
        return ob(e), ob(y), kind
    if kind == 'Int64':
        return pd.Series(pd.array(na(e, int), dtype='Int64')), pd.Series(pd.array(na(y, int), dtype='Int64')), kind
    if kind == 'Int8':
        return pd.Series(pd.array(na(e, int), dtype='Int8')), pd.Series(pd.array(na(y, int), dtype='UInt8')), kind
    if kind == 'boolean_outcome':
        return (pd.Series(pd.array(na(e, int), dtype='Int32')),
                pd.Series(pd.array(na(y, lambda v: bool(v)), dtype='boolean')), kind)
    if kind == 'Float64':
        return (pd.Series(pd.array(na(e, float), dtype='Float64')),
                pd.Series(pd.array(na(y, float), dtype='Float64')), kind)
    if kind == 'Int64_x_float':
        return pd.Series(pd.array(na(e, int), dtype='Int64')), pd.Series(fl(y)), kind
    if kind == 'float_x_Int64':
        return pd.Series(fl(e)), pd.Series(pd.array(na(y, int), dtype='Int64')), kind
    if kind == 'category':
        return pd.Series(fl(e)).astype('category'), pd.Series(fl(y)), kind
    raise KeyError(kind)


#: (compared level, reference) codings of a binary exposure: 0/1 and its mirror, reference coded larger, negative
#: codes on either side (effect coding -1/+1), both negative, fractional codes, far-apart and large codes
BINARY_CODINGS = [(1, 0), (0, 1), (2, 5), (5, 2), (1, -1), (-1, 1), (0, -1), (-1, 0), (-3, -8), (-8, -3),
                  (0.5, 0), (0, 0.5), (1.5, -2.5), (-0.25, 0.25), (1, 2), (2, 1), (100, 3), (7, 120),
                  (1000000, 0), (-1, 1000000)]
#: level codes for exposures with more than two levels
MULTI_LEVEL_POOL = [0, 1, 2, 3, 5, 8, 9, 16, 17, 33, -1, -2, -7, 0.5, 1.5, -0.25, 2.5, 100000]


# ---- round 4: forms of a truncation bound, reporting / diagnostic methods, learners with the documented interfaces --------

def bound_form(rng, lo, hi=None, extras=True):
    """One of the forms in which the estimators accept a truncation bound (docstrings of `treatment_model`,
    `exposure_model`, `outcome_model`, `probability_bounds`): a single float `lo` (symmetric: [lo, 1-lo]) or a collection
    whose entries 0 and 1 are the lower and the upper limit -- a list or a tuple, of python floats or numpy floats,
    possibly LONGER than two entries (documented: "Only the first two specified bounds are used", with a warning); the
    further entries are arbitrary probabilities, so they would bite if they were used.  `hi=None`: symmetric bound,
    handed over as a float or as the equivalent pair.  Returns (bound object, JSON-able record for `bound_of`)."""
    if hi is None and rng.uniform() < 0.5:
        rec = {'form': 'float', 'values': [float(lo)], 'numpy': bool(rng.uniform() < 0.3)}
        return bound_of(rec), rec
    vals = [float(lo), float(1 - lo if hi is None else hi)]
    if extras and rng.uniform() < 0.5:
        for _ in range(int(rng.integers(1, 3))):
            vals.append(float(rng.choice([round(float(rng.uniform(0.05, 0.95)), 3), 0.5, 0.0, 1.0],
                                         p=[0.7, 0.1, 0.1, 0.1])))
    rec = {'form': str(rng.choice(['list', 'tuple'])), 'values': vals, 'numpy': bool(rng.uniform() < 0.3)}
    return bound_of(rec), rec


def bound_of(rec):
    """the bound object described by a record of `bound_form` (None / False: no bound)"""
    if not rec:
        return False
    vals = [np.float64(v) for v in rec['values']] if rec.get('numpy') else [float(v) for v in rec['values']]
    if rec['form'] == 'float':
        return vals[0]
    return tuple(vals) if rec['form'] == 'tuple' else list(vals)


def unreached_bound(rng, p, none_ok=True):
    """a truncation bound that none of the probabilities `p` (nor 1-p) reaches, so that it must change nothing; in any
    of the accepted forms; a limit may sit exactly on 0 / 1.  Returns (bound object, record)."""
    p = np.asarray(p, dtype=float)
    m = round(float(min(p.min(), 1 - p.max())) / 2, 4)
    k = int(rng.integers(0, 4 if none_ok else 3)) if m > 0 else 3
    if k == 3:
        return False, None
    if k == 0:
        return bound_form(rng, m)
    lo = [m / 2 or 0.0001, 0.0, m][int(rng.integers(0, 3))]
    hi = [1 - m, 1.0, 1 - m / 2][int(rng.integers(0, 3))]
    return bound_form(rng, lo, hi)


def biting_bound(rng):
    """a truncation bound well inside (0,1) -- it truncates whatever lies outside [0.2..0.5, lo+0.05..0.9]"""
    if rng.uniform() < 0.4:
        return bound_form(rng, round(float(rng.uniform(0.25, 0.45)), 3))
    lo = round(float(rng.uniform(0.2, 0.5)), 3)
    return bound_form(rng, lo, round(float(rng.uniform(lo + 0.05, 0.9)), 3))


# reporting / diagnostic methods of the time-fixed estimators (name, needs a completed fit, draws a figure, argument maker)
def _dec(rng):
    return {'decimal': int(rng.integers(0, 7))}


OBSERVERS = {
    'IPTW': [('summary', True, False, _dec),
             ('positivity', False, False, lambda rng: dict(_dec(rng), iptw_only=bool(rng.uniform() < 0.7))),
             ('standardized_mean_differences', False, False, lambda rng: {'iptw_only': bool(rng.uniform() < 0.7)}),
             ('run_diagnostics', False, True, lambda rng: {'iptw_only': bool(rng.uniform() < 0.7)}),
             ('plot_kde', False, True, lambda rng: {'measure': str(rng.choice(['probability', 'logit']))}),
             ('plot_boxplot', False, True, lambda rng: {'measure': str(rng.choice(['probability', 'logit']))}),
             ('plot_love', False, True, lambda rng: {})],
    'TimeFixedGFormula': [('run_diagnostics', False, True, _dec),
                          ('plot_kde', False, True, lambda rng: {'fill': bool(rng.uniform() < 0.5)})],
    'AIPTW': [('summary', True, False, _dec), ('positivity', False, False, _dec),
              ('standardized_mean_differences', False, False, lambda rng: {}),
              ('run_diagnostics', False, True, _dec),
              ('plot_kde', False, True, lambda rng: {'to_plot': str(rng.choice(['exposure', 'outcome']))}),
              ('plot_love', False, True, lambda rng: {})],
}
OBSERVERS['TMLE'] = OBSERVERS['AIPTW']


def observe(obj, kind, rng, fitted, plots=0.25, p_any=1.0):
    """Call a few (0-3) of the reporting / diagnostic methods of estimator `obj` with drawn arguments, as a user does
    between specifying the models, fit() and reading the results.  None of them is documented to change an estimate.
    A method that raises (several cannot run under the installed numpy / matplotlib) is recorded and otherwise ignored:
    what is judged afterwards are the estimates.  `plots`: chance that a call may be one that draws a figure (slow);
    `p_any`: chance that any call is made at all.  Returns the list of calls made (JSON-able)."""
    avail = [o for o in OBSERVERS[kind] if fitted or not o[1]]
    calls = []
    if rng.uniform() >= p_any:
        return calls
    for _ in range(int(rng.integers(1 if p_any < 1 else 0, 4))):
        cheap = [o for o in avail if not o[2]]
        pool = avail if (rng.uniform() < plots or not cheap) else cheap
        name, _, fig, mk = pool[int(rng.integers(0, len(pool)))]
        kw = mk(rng)
        try:
            getattr(obj, name)(**kw)
            status = 'ok'
        except Exception as ex:      # noqa: BLE001
            status = 'raised ' + type(ex).__name__
        if fig:
            import matplotlib.pyplot as plt
            plt.close('all')
        calls.append([name, kw, status])
    return calls


def replay_observers(obj, calls):
    """repeat a recorded list of observer calls"""
    for name, kw, _ in calls or []:
        try:
            getattr(obj, name)(**kw)
        except Exception:            # noqa: BLE001
            pass
        import matplotlib.pyplot as plt
        plt.close('all')


class CellMeanLearner:
    """User-supplied learner (custom_model=) that predicts, for every distinct row of the design matrix it is given, the
    mean of y among the training rows with that design row (unseen rows: the overall mean).  With a design that separates
    all covariate (x arm) cells this is the saturated model; with a sub-model's design it is that sub-model's
    nonparametric fit.  `interface` is one of the conventions zEpid documents for custom models:
      'proba2'  scikit-learn classifier: predict_proba -> (n, 2) columns [Pr(y=0), Pr(y=1)], predict -> class labels
      'proba1'  pygam LogisticGAM: predict_proba -> (n,) vector of Pr(y=1), predict -> boolean labels
      'predict' regressor / statsmodels-like: predict -> (n,) means, no predict_proba
    `returns`: 'self' (scikit-learn) or 'new' (fit returns a fitted copy and leaves the receiver unfitted)."""

    def __init__(self, interface='proba2', returns='self'):
        self.interface = interface
        self.returns = returns
        self.table_ = None
        self.overall_ = None
        if interface != 'predict':
            self.predict_proba = self._predict_proba

    def get_params(self, deep=True):
        return {'interface': self.interface, 'returns': self.returns}

    @staticmethod
    def _keys(X):
        X = np.asarray(X, dtype=float)
        return [tuple(r) for r in X.reshape(X.shape[0], -1)]

    def fit(self, X, y):
        tgt = self if self.returns == 'self' else CellMeanLearner(self.interface, self.returns)
        tab = {}
        yv = np.asarray(y, dtype=float)
        for k, v in zip(self._keys(X), yv):
            s = tab.setdefault(k, [0.0, 0])
            s[0] += v
            s[1] += 1
        tgt.table_ = {k: s[0] / s[1] for k, s in tab.items()}
        tgt.overall_ = float(yv.mean())
        return tgt

    def _means(self, X):
        return np.array([self.table_.get(k, self.overall_) for k in self._keys(X)], dtype=float)

    def _predict_proba(self, X):
        p = self._means(X)
        return p if self.interface == 'proba1' else np.column_stack((1 - p, p))

    def predict(self, X):
        p = self._means(X)
        if self.interface == 'proba2':
            return (p > 0.5).astype(int)
        if self.interface == 'proba1':
            return p > 0.5
        return p
