"""Shared generators and exact closed forms for the standardization family (C01, C02, C05, C09, C10, C14, C16).

Data sets have categorical covariates L1..Lk (arity 2-4), a binary treatment A, an outcome Y (binary / normal /
count), optionally integer frequency weights `w` and missing outcomes.  Positivity is enforced by construction:
every (stratum, arm) cell holds at least two rows with observed outcomes, and for binary outcomes both values occur
(so that the logistic MLE of a saturated model exists and the cell means are strictly inside (0,1)).
"""
import itertools
from fractions import Fraction

import numpy as np
import pandas as pd

from common import rq, enc_list


def cat_dataset(rng, outcome='binary', ncov=None, n_extra=None, weights=False, missing=None, index='default',
                max_strata=12):
    """missing: None | 'mcar' | 'mar' (depends on A and stratum).  Returns (df, covs)."""
    ncov = int(rng.integers(1, 4)) if ncov is None else ncov
    while True:
        arities = [int(rng.integers(2, 5)) for _ in range(ncov)]
        if int(np.prod(arities)) <= max_strata:
            break
    covs = ['L%d' % (i + 1) for i in range(ncov)]
    strata = list(itertools.product(*[range(k) for k in arities]))
    rows = []
    base_p = {s: rng.uniform(0.2, 0.8) for s in strata}          # Pr(A=1 | stratum)
    base_y = {(s, a): rng.uniform(0.15, 0.85) for s in strata for a in (0, 1)}

    def draw_y(s, a):
        if outcome == 'binary':
            return float(rng.uniform() < base_y[(s, a)])
        if outcome == 'normal':
            return float(np.round(10 * base_y[(s, a)] + rng.normal(0, 2), 3))
        return float(rng.poisson(1 + 4 * base_y[(s, a)]))
    for s in strata:
        for a in (0, 1):
            if outcome == 'binary':
                ys = [0.0, 1.0]
            else:
                ys = [draw_y(s, a), draw_y(s, a) + 1.0]
            for y in ys:
                rows.append(list(s) + [a, y, 1])                 # 1 = protected (never set missing)
    n_extra = int(rng.integers(20, 40 * len(strata))) if n_extra is None else n_extra
    for _ in range(n_extra):
        s = strata[int(rng.integers(0, len(strata)))]
        a = int(rng.uniform() < base_p[s])
        rows.append(list(s) + [a, draw_y(s, a), 0])
    rng.shuffle(rows)
    df = pd.DataFrame(rows, columns=covs + ['A', 'Y', '_prot'])
    for c in covs + ['A']:
        df[c] = df[c].astype(int)
    if weights == 'frac':
        # non-integer (sampling) weights, exact binary fractions, varying inside the cells
        df['w'] = rng.choice([0.5, 0.75, 1.25, 1.5, 2.5, 3.25], size=len(df))
    elif weights:
        df['w'] = rng.integers(1, 5, size=len(df)).astype(int)
    if missing:
        if missing == 'mcar':
            pm = np.full(len(df), rng.uniform(0.1, 0.3))
        else:
            sid = strata_ids(df, covs)
            pm = 0.05 + 0.35 * ((sid * 7 + df['A'].values * 3) % 5) / 4.0
        m = (rng.uniform(size=len(df)) < pm) & (df['_prot'].values == 0)
        df.loc[m, 'Y'] = np.nan
    df = df.drop(columns=['_prot'])
    if index == 'shifted':
        df.index = np.arange(len(df)) + 1000
    elif index == 'shuffled':
        df.index = rng.permutation(len(df))
    return df, covs


def strata_ids(df, covs):
    """integer id of the covariate pattern of each row (mixed radix over the observed level sets)"""
    sid = np.zeros(len(df), dtype=int)
    for c in covs:
        lv = {v: i for i, v in enumerate(sorted(df[c].unique()))}
        sid = sid * len(lv) + df[c].map(lv).values
    return sid


def sat_cov(covs):
    """saturated model in the covariates, patsy syntax"""
    return '*'.join('C(%s)' % c for c in covs)


def sat_out(covs, exposure='A'):
    return exposure + '*' + sat_cov(covs)


def submodels(covs, exposure=None):
    """misspecified sub-models of the saturated one: intercept only, each covariate dropped, main effects only"""
    outs = ['1']
    if len(covs) > 1:
        outs.append(' + '.join('C(%s)' % c for c in covs))                       # main effects only
        for c in covs:
            rest = [d for d in covs if d != c]
            outs.append('*'.join('C(%s)' % d for d in rest))                     # one covariate dropped
    if exposure is not None:
        outs = [exposure] + [exposure + ' + ' + o for o in outs if o != '1'] + ['1']
    return outs


def closed_form(df, covs, wcol=None, ycol='Y', acol='A'):
    """exact (Fraction) standardized means: dict[(target, arm)] -> Fraction, target in population/exposed/unexposed.
    Cell means over rows with observed outcome; target weights over all rows."""
    sid = strata_ids(df, covs)
    w = df[wcol].values if wcol else np.ones(len(df), dtype=int)
    A = df[acol].values
    Y = df[ycol].values
    S = sorted(set(sid.tolist()))
    cm, N = {}, {}
    for s in S:
        for a in (0, 1):
            sel = (sid == s) & (A == a) & ~np.isnan(Y)
            num = sum(Fraction(float(wi)) * Fraction(float(yi)) for wi, yi in zip(w[sel], Y[sel]))
            den = sum(Fraction(float(wi)) for wi in w[sel])
            cm[(s, a)] = num / den
        N[('population', s)] = sum(Fraction(float(wi)) for wi in w[sid == s])
        N[('exposed', s)] = sum(Fraction(float(wi)) for wi in w[(sid == s) & (A == 1)])
        N[('unexposed', s)] = sum(Fraction(float(wi)) for wi in w[(sid == s) & (A == 0)])
    out = {}
    for t in ('population', 'exposed', 'unexposed'):
        tot = sum(N[(t, s)] for s in S)
        for a in (0, 1):
            out[(t, a)] = sum(N[(t, s)] * cm[(s, a)] for s in S) / tot
    return out


def enc_rows(df, covs, wcol=None, ycol='Y', acol='A'):
    """driver arguments s= a= y= [w=] for a data set (exact rationals; `_` = missing outcome)"""
    sid = strata_ids(df, covs)
    kw = dict(s=enc_list(sid.tolist(), str), a=enc_list(df[acol].tolist(), lambda v: str(int(v))),
              y=','.join('_' if np.isnan(v) else rq(float(v)) for v in df[ycol].tolist()))
    if wcol:
        kw['w'] = enc_list(df[wcol].tolist(), lambda v: rq(float(v)))
    return kw


def describe(df, covs, **extra):
    d = {'n': int(len(df)), 'covariates': {c: int(df[c].nunique()) for c in covs},
         'strata': int(len(set(strata_ids(df, covs).tolist()))), 'missing_y': int(df['Y'].isna().sum())}
    d.update(extra)
    return d


def frame_record(df, limit=400):
    """exact, replayable record of a data set (values as floats; NaN as None)"""
    if len(df) > limit:
        return {'too_large': int(len(df))}
    return {'index': [int(i) if isinstance(i, (int, np.integer)) else str(i) for i in df.index],
            'columns': {c: [None if (isinstance(v, float) and np.isnan(v)) else (float(v)) for v in df[c].tolist()]
                        for c in df.columns}}


def frame_from_record(rec):
    df = pd.DataFrame({c: [np.nan if v is None else v for v in vals] for c, vals in rec['columns'].items()},
                      index=rec['index'])
    for c in df.columns:
        if c != 'Y' and not df[c].isna().any() and (df[c] == df[c].astype(int)).all():
            df[c] = df[c].astype(int)
    return df
