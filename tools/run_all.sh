#!/bin/sh
# run_all.sh [tier] [seed...] : run every registered check sequentially, one line per run; non-zero exit if any check != 0
cd "$(dirname "$0")/.."
tier=${1:-quick}; shift 2>/dev/null
seeds=${*:-0}
rc=0
for s in $seeds; do
  for p in $(python3 -c "import json;print(' '.join(c['property_id'] for c in json.load(open('MANIFEST.json'))['checks']))"); do
    out=$(VERIF_SEED=$s /venv/bin/python harness/check.py $p --tier $tier 2>&1); r=$?
    echo "seed=$s rc=$r $(echo "$out" | grep -E "^$p tier=" | tail -1)"
    echo "$out" | grep -E "^(VIOLATION|KNOWN-FINDING)" | cut -c1-200
    [ $r -ne 0 ] && rc=1
  done
done
exit $rc
