#!/usr/bin/env python3
"""Print (markdown) the table of confirmed seeded changes and which gate of which check caught each,
from seeded/<Cxx>/<mK>/meta.json.  `--write` replaces the block between the SEEDED-TABLE markers in DESIGN.md."""
import glob
import json
import os
import re
import sys

ROOT = os.path.dirname(os.path.dirname(os.path.abspath(__file__)))
rows = []
for f in sorted(glob.glob(os.path.join(ROOT, 'seeded', '*', '*', 'meta.json'))):
    m = json.load(open(f))
    pid, mk = f.split(os.sep)[-3:-1]
    d = m.get('detected', {})
    if d.get('violation'):
        res = 'caught: ' + (d.get('gate') or '?')
        first = (d.get('first_failure') or '')[:110]
    elif d:
        res = '**missed** (see notes)'
        first = ''
    else:
        res = 'not run'
        first = ''
    rows.append('| %s/%s | %s | %s | %s | %s |' % (pid, mk, (m.get('summary') or '').replace('|', '/')[:150],
                                                   (m.get('needs') or '').replace('|', '/')[:120], res,
                                                   first.replace('|', '/')))
table = ['| seed | change | needs | result of `check.py <id>` (quick) | first failing predicate |', '|---|---|---|---|---|'] + rows
text = '\n'.join(table)
if '--write' in sys.argv:
    p = os.path.join(ROOT, 'DESIGN.md')
    s = open(p).read()
    a, b = '<!-- SEEDED-TABLE-BEGIN -->', '<!-- SEEDED-TABLE-END -->'
    if a in s:
        s = re.sub(re.escape(a) + '.*?' + re.escape(b), a + '\n' + text + '\n' + b, s, flags=re.S)
        open(p, 'w').write(s)
        print('DESIGN.md updated: %d seeds' % len(rows))
    else:
        print('markers not found in DESIGN.md')
else:
    print(text)
