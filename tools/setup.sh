#!/bin/sh
# MANIFEST.setup_cmd: regenerate the translated part of the model from /repo, build every Lean module
# (models, lemmas, property theorems) and the native model driver.  Offline; uses files on disk only.
set -e
cd "$(dirname "$0")/../lean"
/venv/bin/python ../harness/py2lean.py || true   # a translator failure is reported by the checks, not by setup
lake build zvdriver || true                       # the checks rebuild it (with the pristine generated files if need be)
lake build ZepidVerif || true                    # a broken proof is reported by the check of its property
