#!/usr/bin/env python3
"""Regenerate lean/Driver/Table.lean from the ops modules present in lean/Driver/Ops/ (each exports `ops<Stem>`)."""
import glob, os
root = os.path.join(os.path.dirname(os.path.dirname(os.path.abspath(__file__))), 'lean', 'Driver')
stems = sorted(os.path.splitext(os.path.basename(f))[0] for f in glob.glob(os.path.join(root, 'Ops', '*.lean')))
out = '/- Operation table of the model driver: one import and one `++` entry per ops module\n   (regenerate with tools/gen_table.py after adding a module). -/\n'
out += ''.join('import Driver.Ops.%s\n' % s for s in stems)
out += 'namespace ZVD\n\ndef allOps : OpTable :=\n  [("ping", fun _ => pure "ok pong")]\n'
out += ''.join('  ++ ops%s\n' % s for s in stems)
out += '''
def dispatch (op : String) (a : Args) : Except String String :=
  match allOps.find? (·.1 == op) with
  | some (_, f) => f a
  | none => throw ("unknown-op:" ++ op)

end ZVD
'''
open(os.path.join(root, 'Table.lean'), 'w').write(out)
print('ops modules:', stems)
