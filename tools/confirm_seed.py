#!/usr/bin/env python3
"""confirm_seed.py <Cxx> <mK> [--round 2] [--tier quick|thorough] [--no-check]

Confirms a seeded change produced by an independent sub-agent (in /tmp/seed/out_<Cxx>/<mK>/: patch.diff, demo.py,
meta.json) in a scratch worktree of /repo (never in /repo itself):
  1. demo.py exits 0 on the clean tree and non-zero with the patch,
  2. every test of BASELINE.json's stable_pass still passes with the patch (hook guard off),
  3. runs /verif's check of that property against the patched copy (ZEPID_REPO=<scratch>) and records whether it
     raised a VIOLATION and through which gate.
On success of 1+2 the change is kept as /verif/seeded/<Cxx>/<mK>/ (patch.diff, demo.py, meta.json)."""
import json
import os
import re
import shutil
import subprocess
import sys
import xml.etree.ElementTree as ET

VERIF = os.path.dirname(os.path.dirname(os.path.abspath(__file__)))
pid, mut = sys.argv[1], sys.argv[2]
tier = sys.argv[sys.argv.index('--tier') + 1] if '--tier' in sys.argv else 'quick'
rnd = sys.argv[sys.argv.index('--round') + 1] if '--round' in sys.argv else ''   # '' = round one, '2' = round two
src = '/tmp/seed/out%s_%s/%s' % (rnd, pid, mut)
name = ('r%s' % rnd if rnd else '') + mut
wt = '/tmp/seed/confirm_%s_%s%s' % (pid, 'r' + (sys.argv[sys.argv.index('--round') + 1] if '--round' in sys.argv else ''), mut)
subprocess.run(['git', '-C', '/repo', 'worktree', 'remove', '--force', wt], stdout=subprocess.DEVNULL, stderr=subprocess.DEVNULL)
subprocess.run(['git', '-C', '/repo', 'worktree', 'add', '--detach', wt, 'HEAD'], check=True, stdout=subprocess.DEVNULL,
               stderr=subprocess.DEVNULL)
env = {k: v for k, v in os.environ.items() if k != 'ZEPID_VERIF'}
env.update(PYTHONPATH=wt, MPLBACKEND='Agg')


def sh(cmd, cwd=wt, e=env, **kw):
    return subprocess.run(cmd, cwd=cwd, env=e, stdout=subprocess.PIPE, stderr=subprocess.STDOUT, text=True, **kw)


recheck = '--recheck' in sys.argv
prev = os.path.join(VERIF, 'seeded', pid, name, 'meta.json')
try:
    if recheck and os.path.exists(prev) and 'confirmed' in json.load(open(prev)):
        # already confirmed (demo + baseline): only re-run the property's check against the patched copy
        meta = json.load(open(prev))
        a = sh(['git', 'apply', os.path.join(VERIF, 'seeded', pid, name, 'patch.diff')])
        if a.returncode != 0:
            print(pid, name, 'PATCH DOES NOT APPLY', a.stdout[-300:])
            sys.exit(1)
        e2 = dict(os.environ, ZEPID_REPO=wt)
        c = sh(['/venv/bin/python', 'harness/check.py', pid, '--tier', tier], cwd=VERIF, e=e2, timeout=7200)
        viol = [ln for ln in c.stdout.splitlines() if ln.startswith('VIOLATION')]
        summ = [ln for ln in c.stdout.splitlines() if ln.startswith(pid + ' tier=')]
        gate = None
        meta['detected'] = {}
        if viol:
            gate = 'P/K (no-failing-input-found)' if 'no-failing-input-found' in viol[0] else 'D (failing input replayed)'
            m = re.search(r'replay=(\S+)', viol[0])
            if m and os.path.exists(os.path.join(VERIF, m.group(1))):
                try:
                    rec = json.load(open(os.path.join(VERIF, m.group(1))))
                    meta['detected']['first_failure'] = (rec.get('failures') or [{}])[0].get('what') or \
                        (rec.get('no_longer_checks') or [''])[0]
                except Exception:
                    pass
        meta['detected'].update({'check': 'harness/check.py %s --tier %s (ZEPID_REPO=scratch copy with the patch)' % (pid, tier),
                                 'exit': c.returncode, 'violation': bool(viol), 'gate': gate,
                                 'summary': summ[-1] if summ else c.stdout[-300:]})
        print(pid, name, 'recheck exit=%d %s' % (c.returncode, 'CAUGHT via ' + gate if viol else 'MISSED'))
        sh(['/venv/bin/python', 'harness/py2lean.py'], cwd=VERIF, e=dict(os.environ))
        json.dump(meta, open(prev, 'w'), indent=1)
        sys.exit(0)
    shutil.copy(src + '/demo.py', wt + '/_demo.py')
    r0 = sh(['/venv/bin/python', '_demo.py'], timeout=1800)
    a = sh(['git', 'apply', src + '/patch.diff'])
    if a.returncode != 0:
        print(pid, mut, 'PATCH DOES NOT APPLY', a.stdout[-300:])
        sys.exit(1)
    r1 = sh(['/venv/bin/python', '_demo.py'], timeout=1800)
    xml = src + '.confirm.xml'
    sh(['/venv/bin/python', '-m', 'pytest', '-q', '-p', 'no:cacheprovider', '--timeout=900',
        '--continue-on-collection-errors', '--junitxml=' + xml], timeout=3000)
    stable = set(json.load(open('/root/.vp/BASELINE.json'))['stable_pass'])
    passed = set()
    for tc in ET.parse(xml).iter('testcase'):
        if not any(c.tag in ('failure', 'error', 'skipped') for c in tc):
            passed.add(tc.get('classname') + '::' + tc.get('name'))
    lost = sorted(stable - passed)
    ok = r0.returncode == 0 and r1.returncode != 0 and not lost
    print(pid, mut, 'demo clean rc=%d, patched rc=%d, stable tests lost=%d -> %s'
          % (r0.returncode, r1.returncode, len(lost), 'CONFIRMED' if ok else 'REJECTED'))
    if not ok:
        print(r0.stdout[-400:], r1.stdout[-400:], lost[:5])
        sys.exit(1)
    meta = json.load(open(os.path.join(src, 'meta.json')))
    meta['confirmed'] = {'demo_clean_rc': r0.returncode, 'demo_patched_rc': r1.returncode, 'stable_tests_lost': 0,
                         'stable_tests': len(stable), 'passing_with_patch': len(passed),
                         'ran': ['scratch worktree of /repo HEAD', 'python demo.py (clean)', 'git apply patch.diff',
                                 'python demo.py (patched)', 'pytest full suite (patched, guard off) vs BASELINE stable_pass']}
    if '--no-check' not in sys.argv and os.path.exists(os.path.join(VERIF, 'harness', 'props', pid.lower() + '.py')):
        e2 = dict(os.environ, ZEPID_REPO=wt)
        c = sh(['/venv/bin/python', 'harness/check.py', pid, '--tier', tier], cwd=VERIF, e=e2, timeout=7200)
        viol = [ln for ln in c.stdout.splitlines() if ln.startswith('VIOLATION')]
        summ = [ln for ln in c.stdout.splitlines() if ln.startswith(pid + ' tier=')]
        gate = None
        if viol:
            gate = 'P/K (no-failing-input-found)' if 'no-failing-input-found' in viol[0] else 'D (failing input replayed)'
            m = re.search(r'replay=(\S+)', viol[0])
            if m and os.path.exists(os.path.join(VERIF, m.group(1))):
                try:
                    rec = json.load(open(os.path.join(VERIF, m.group(1))))
                    meta.setdefault('detected', {})['first_failure'] = (rec.get('failures') or [{}])[0].get('what') or \
                        (rec.get('no_longer_checks') or [''])[0]
                except Exception:
                    pass
        meta.setdefault('detected', {}).update({'check': 'harness/check.py %s --tier %s (ZEPID_REPO=scratch copy with the patch)'
                                                % (pid, tier), 'exit': c.returncode, 'violation': bool(viol), 'gate': gate,
                                                'summary': summ[-1] if summ else c.stdout[-300:]})
        print('   check exit=%d %s %s' % (c.returncode, 'CAUGHT via ' + gate if viol else 'MISSED', summ[-1] if summ else ''))
        # leave Gen/ regenerated from the clean tree again
        sh(['/venv/bin/python', 'harness/py2lean.py'], cwd=VERIF, e=dict(os.environ))
    dst = os.path.join(VERIF, 'seeded', pid, name)
    os.makedirs(dst, exist_ok=True)
    for f in ('patch.diff', 'demo.py'):
        shutil.copy(os.path.join(src, f), dst)
    json.dump(meta, open(os.path.join(dst, 'meta.json'), 'w'), indent=1)
finally:
    subprocess.run(['git', '-C', '/repo', 'worktree', 'remove', '--force', wt], stdout=subprocess.DEVNULL,
                   stderr=subprocess.DEVNULL)
