#!/usr/bin/env python3
"""confirm_seed.py <Cxx> <mutK>  -- confirm a seeded change in its scratch worktree (/tmp/seed/Cxx):
demo passes on the clean tree, fails with the patch, and every baseline-stable test still passes with the patch.
On success copies patch.diff, demo.py, meta.json (+ confirmation record) to /verif/seeded/<Cxx>-<mutK>/."""
import json, os, shutil, subprocess, sys, xml.etree.ElementTree as ET
pid, mut = sys.argv[1], sys.argv[2]
wt = '/tmp/seed/%s' % pid
src = '/tmp/seed/out/%s/%s' % (pid, mut)
env = dict(os.environ, PYTHONPATH=wt, MPLBACKEND='Agg')
def sh(cmd, **kw):
    return subprocess.run(cmd, cwd=wt, env=env, stdout=subprocess.PIPE, stderr=subprocess.STDOUT, text=True, **kw)
sh(['git', 'checkout', '--', '.'])
r0 = sh(['/venv/bin/python', src + '/demo.py'], timeout=1200)
a = sh(['git', 'apply', src + '/patch.diff'])
if a.returncode != 0:
    print(pid, mut, 'PATCH DOES NOT APPLY', a.stdout[-300:]); sys.exit(1)
r1 = sh(['/venv/bin/python', src + '/demo.py'], timeout=1200)
xml = '/tmp/seed/out/%s/%s.confirm.xml' % (pid, mut)
sh(['/venv/bin/python', '-m', 'pytest', '-q', '-p', 'no:cacheprovider', '--timeout=900', '--continue-on-collection-errors',
    '--junitxml=' + xml], timeout=3000)
sh(['git', 'checkout', '--', '.'])
stable = set(json.load(open('/root/.vp/BASELINE.json'))['stable_pass'])
passed = set()
for tc in ET.parse(xml).iter('testcase'):
    if not any(c.tag in ('failure', 'error', 'skipped') for c in tc):
        passed.add(tc.get('classname') + '::' + tc.get('name'))
lost = sorted(stable - passed)
ok = r0.returncode == 0 and r1.returncode != 0 and not lost
print(pid, mut, 'demo clean rc=%d, patched rc=%d, stable tests lost=%d -> %s' % (r0.returncode, r1.returncode, len(lost), 'CONFIRMED' if ok else 'REJECTED'))
if ok:
    dst = '/verif/seeded/%s-%s' % (pid, mut)
    os.makedirs(dst, exist_ok=True)
    for f in ('patch.diff', 'demo.py'):
        shutil.copy(os.path.join(src, f), dst)
    meta = json.load(open(os.path.join(src, 'meta.json')))
    meta['confirmed'] = {'demo_clean_rc': r0.returncode, 'demo_patched_rc': r1.returncode, 'stable_tests_lost': 0,
                         'stable_tests': len(stable), 'passing_with_patch': len(passed),
                         'ran': ['python demo.py (clean)', 'git apply patch.diff', 'python demo.py (patched)',
                                 'pytest (full suite, patched) vs BASELINE.json stable_pass', 'git checkout -- .']}
    json.dump(meta, open(os.path.join(dst, 'meta.json'), 'w'), indent=1)
else:
    print(r0.stdout[-400:], r1.stdout[-400:], lost[:5])
sys.exit(0 if ok else 1)
