#!/venv/bin/python
"""Run /repo's test suite with the hook guard OFF and compare with /root/.vp/BASELINE.json stable_pass."""
import json, os, subprocess, sys, tempfile, xml.etree.ElementTree as ET
repo = os.environ.get('ZEPID_REPO', '/repo')
base = json.load(open('/root/.vp/BASELINE.json'))['stable_pass']
with tempfile.TemporaryDirectory() as d:
    x = os.path.join(d, 'j.xml')
    env = {k: v for k, v in os.environ.items() if k != 'ZEPID_VERIF'}
    subprocess.run(['/venv/bin/python', '-m', 'pytest', '-q', '-p', 'no:cacheprovider', '--timeout=900',
                    '--continue-on-collection-errors', '--junitxml=' + x], cwd=repo, env=env,
                   stdout=subprocess.DEVNULL, stderr=subprocess.DEVNULL)
    ok = set()
    for tc in ET.parse(x).getroot().iter('testcase'):
        if not any(c.tag in ('failure', 'error', 'skipped') for c in tc):
            ok.add('%s::%s' % (tc.get('classname'), tc.get('name')))
missing = [t for t in base if t not in ok]
print('baseline %d, passing now %d, baseline tests not passing: %d' % (len(base), len(ok), len(missing)))
for m in missing:
    print('  MISSING', m)
sys.exit(1 if missing else 0)
