#!/usr/bin/env python3
"""harmless_run.py [hNN ...] [--all-props | --props=C11,C17]

Measures false alarms on behaviour-preserving rewrites of /repo (harmless/hNN/patch.diff, written by an independent
sub-agent that verified before/after outputs bit for bit): each patch is applied in a scratch worktree of /repo (never in
/repo itself), the quick check of every property anchored in the touched file (or of all twenty with --all-props) is run
against it with ZEPID_REPO, and the outcome is recorded in harmless/hNN/result.json:
  quiet            exit 0, no VIOLATION line
  no-failing-input VIOLATION ... no-failing-input-found (a proof obligation / the correspondence broke; the task statement
                   allows it, we want it rare)
  FALSE-ALARM      VIOLATION with a replayed failing input on code whose behaviour is unchanged: a defect of the check
Run one instance at a time per checkout of /verif (Gen/ is per-checkout state)."""
import json
import os
import re
import subprocess
import sys

V = os.path.dirname(os.path.dirname(os.path.abspath(__file__)))
args = [a for a in sys.argv[1:] if not a.startswith('--')]
names = args or sorted(d for d in os.listdir(os.path.join(V, 'harmless')) if re.fullmatch(r'h\d+', d))
fmap, allp = {}, []
for ln in open(os.path.join(V, 'properties.jsonl')):
    p = json.loads(ln)
    allp.append(p['id'])
    for f in p['anchors']['files']:
        fmap.setdefault(f, []).append(p['id'])
wt = '/tmp/rw/harmless_%d' % os.getpid()
for h in names:
    d = os.path.join(V, 'harmless', h)
    patch = open(os.path.join(d, 'patch.diff')).read()
    files = re.findall(r'^\+\+\+ b/(\S+)', patch, flags=re.M)
    props = allp if '--all-props' in sys.argv else sorted({p for f in files for p in fmap.get(f, [])})
    only = [a.split('=', 1)[1].split(',') for a in sys.argv if a.startswith('--props=')]
    if only:
        props = [p for p in props if p in only[0]]
    subprocess.run(['git', '-C', '/repo', 'worktree', 'remove', '--force', wt], capture_output=True)
    subprocess.run(['git', '-C', '/repo', 'worktree', 'add', '--detach', wt, 'HEAD'], capture_output=True, check=True)
    res = {'files': files, 'repo_head': subprocess.run(['git', '-C', '/repo', 'rev-parse', '--short', 'HEAD'],
                                                         capture_output=True, text=True).stdout.strip(), 'checks': {}}
    try:
        a = subprocess.run(['git', '-C', wt, 'apply', os.path.join(d, 'patch.diff')], capture_output=True, text=True)
        if a.returncode:
            res['apply_failed'] = a.stderr[:300]
        else:
            for p in props:
                c = subprocess.run(['/venv/bin/python', 'harness/check.py', p], cwd=V, capture_output=True, text=True,
                                   env=dict(os.environ, ZEPID_REPO=wt, VERIF_SEED=os.environ.get('VERIF_SEED', '0')), timeout=7200)
                viol = [ln for ln in c.stdout.splitlines() if ln.startswith('VIOLATION')]
                summ = [ln for ln in c.stdout.splitlines() if ln.startswith(p + ' tier=')]
                kind = 'quiet' if (c.returncode == 0 and not viol) else \
                    ('no-failing-input' if viol and 'no-failing-input-found' in viol[0] else
                     ('FALSE-ALARM' if viol else 'exit-%d' % c.returncode))
                res['checks'][p] = {'outcome': kind, 'summary': (summ or [''])[-1][:200]}
                print(h, files[0], p, kind, flush=True)
    finally:
        subprocess.run(['/venv/bin/python', 'harness/py2lean.py'], cwd=V, capture_output=True)   # Gen/ back to /repo
        subprocess.run(['git', '-C', '/repo', 'worktree', 'remove', '--force', wt], capture_output=True)
    old = os.path.join(d, 'result.json')
    if only and os.path.exists(old):          # a partial run updates the record of the properties it ran
        prev = json.load(open(old))
        prev['checks'].update(res['checks'])
        prev['repo_head'] = res['repo_head']
        res = prev
    json.dump(res, open(old, 'w'), indent=1)
