#!/usr/bin/env python3
"""Driver/Ops modules are written independently and share the namespace ZVD: rename top-level definitions whose
name occurs in more than one ops module (suffix = module stem), so that Driver/Table.lean can import all of them."""
import glob, os, re, collections
root = os.path.join(os.path.dirname(os.path.dirname(os.path.abspath(__file__))), 'lean', 'Driver', 'Ops')
files = sorted(glob.glob(os.path.join(root, '*.lean')))
defs = collections.defaultdict(list)
pat = re.compile(r'^(?:private\s+|partial\s+|protected\s+|noncomputable\s+)*(?:def|abbrev|structure|inductive|instance|class)\s+([A-Za-z_][A-Za-z0-9_\.\']*)', re.M)
for f in files:
    for m in pat.finditer(open(f).read()):
        defs[m.group(1)].append(f)
for name, fs in defs.items():
    fs = sorted(set(fs))
    if len(fs) > 1:
        for f in fs:
            stem = os.path.splitext(os.path.basename(f))[0]
            s = open(f).read()
            s2 = re.sub(r'(?<![A-Za-z0-9_\.\'])' + re.escape(name) + r'(?![A-Za-z0-9_\'])', name + '_' + stem, s)
            open(f, 'w').write(s2)
        print('renamed', name, 'in', [os.path.basename(f) for f in fs])
