#!/usr/bin/env python3
"""Validate MANIFEST.json and every evidence file against the schemas (run with python3-vt, which has jsonschema)."""
import glob, json, sys
import jsonschema
ok = True
m = json.load(open('MANIFEST.json'))
jsonschema.validate(m, json.load(open('/root/.vp/MANIFEST.schema.json')))
es = json.load(open('/root/.vp/EVIDENCE.schema.json'))
for f in sorted(glob.glob('evidence/*.json')):
    try:
        jsonschema.validate(json.load(open(f)), es)
    except Exception as e:
        ok = False
        print('INVALID', f, str(e)[:300])
import os
for f in sorted(glob.glob('lean/ZepidVerif/Gen/*.lean')):
    pri = os.path.join('lean/pristine/Gen', os.path.basename(f))
    if not os.path.exists(pri) or open(pri).read() != open(f).read():
        ok = False
        print('STALE pristine copy of', f, '(run harness/py2lean.py --save-pristine on the unchanged /repo and commit)')
print('manifest valid; evidence files', 'valid' if ok else 'INVALID')
sys.exit(0 if ok else 1)
