#!/usr/bin/env python3
"""Validate MANIFEST.json and every evidence file against the schemas (run with python3-vt, which has jsonschema)."""
import glob, json, sys
import jsonschema
ok = True
m = json.load(open('MANIFEST.json'))
jsonschema.validate(m, json.load(open('/root/.vp/MANIFEST.schema.json')))
es = json.load(open('/root/.vp/EVIDENCE.schema.json'))
for f in sorted(glob.glob('evidence/*.json')):
    try:
        jsonschema.validate(json.load(open(f)), es)
    except Exception as e:
        ok = False
        print('INVALID', f, str(e)[:300])
print('manifest valid; evidence files', 'valid' if ok else 'INVALID')
sys.exit(0 if ok else 1)
