#!/usr/bin/env python3
"""Regenerate MANIFEST.json's checks / not_applicable from the table below (one place to edit)."""
import json
import os

HERE = os.path.dirname(os.path.abspath(__file__))
ROOT = os.path.dirname(HERE)

BASE_NOTE = ("Trusted base: Lean 4.33 kernel + {propext, Classical.choice, Quot.sound} (audited by #print axioms on every "
             "theorem each run; no sorry/native_decide/own axioms); the theorem statements; the py2lean translator and the "
             "correspondence harness (canonicalisation, tolerances); assumed behaviour of statsmodels/scipy/sklearn/numpy "
             "measured per case (gate H); Float instantiation of the model used for execution only; pandas/patsy glue "
             "reached only through the differential gates. ")

# property id -> (level text, extra note, technique, design ref)
ENTRIES = {
    'C01': ("Lean theorems, for data sets of any size / any number of strata / any positive weights / any outcome values: "
            "under the score equations of saturated models each of the 6 generated IPTW weight formulas, the g-formula "
            "under 3 targets and the AIPTW pseudo-outcome means equal the closed-form standardized mean (TMLE part: "
            "tmle_saturated in Props/C02). The weight and pseudo-outcome formulas are regenerated from /repo each run; "
            "the rest of the model is tied by a differential check that feeds the model the implementation's own fitted "
            "values, and the closed form is evaluated directly against the reported estimates.",
            "The GLM/GEE fits themselves are assumed to solve their score equations (measured: fitted values vs exact cell "
            "means).", "Lean 4 proof (regrouping by stratum + field algebra) + translator + differential correspondence",
            "DESIGN.md §6 C01"),
    'C02': ("Lean theorems (any data set size, strata count, weights): AIPTW's generated pseudo-outcome means equal the "
            "standardized mean when the outcome model satisfies the saturated score equations and the treatment "
            "probabilities are arbitrary non-zero functions of the stratum, and when the treatment model is saturated and "
            "the outcome predictions are arbitrary functions of (stratum, arm); same two halves for AIPSW (weights half "
            "proved for unstabilized weights; the stabilized case is refuted by a kernel-checked witness = known finding "
            "F11) and for TMLE (tmle_dr_*). Differential check feeds the model the implementation's fitted values for "
            "every sub-model of the saturated model on the misspecified side; closed form evaluated directly.",
            "GLM fits assumed to solve their score equations (measured).",
            "Lean 4 proof (stratum regrouping, cancellation algebra, witness by norm_num) + translator + differential correspondence",
            "DESIGN.md §6 C02"),
    'C03': ("Lean theorems on the model of TMLE.fit / crossfit.targeting_step (code's sign conventions, generic sigma/logit): "
            "targeted prediction under the observed arm = the arm's counterfactual prediction; the fluctuation GLM's own score "
            "equations imply both efficient-score equations (and any solver residual transfers exactly); plug-ins are the "
            "stated functions of the means over all rows; range theorems for binary (sigma into (0,1)) and continuous "
            "(generated unit map / back-map, round trip, clip distance) outcomes; instantiated at the reals with Mathlib's "
            "exp/log. Differential check on the guarded probe's arrays (Float model vs Qstar arrays, estimates, SEs, CIs) and "
            "direct evaluation of the score sums / ranges on the real arrays, incl. cross-fit per split. TMLE.fit (clever covariates to every reported estimate, SE, limit) and crossfit.targeting_step (per row of a split) are regenerated from /repo on every run and proved equal to the model (Props/C03_Gen).",
            "The fluctuation GLM is assumed to solve its score equations (measured on a reference fit, 1e-7*n); floating "
            "point is outside the theorems ('to numerical precision' = exact identity + measured residual).",
            "Lean 4 proof + translator (unit maps) + probe-based differential correspondence", "DESIGN.md §6 C03"),
    'C04': ('Lean theorems (only assumption: the chooser returns m distinct members of its argument): the split procedure yields n_splits pairwise-disjoint parts whose concatenation is a permutation of the rows, sizes floor(n/k) with the remainder in the last part (difference < k); the pairing indices (Python negative indexing made explicit) never pair a part with itself (k >= 2) and give three distinct parts for the double variant (k >= 3); in the modelled fit/predict schedule every row is predicted exactly once per nuisance and never by a copy whose training rows contain it. Spy learners carrying row ids: the model must reproduce the exact call trace of all four estimators; leak-freeness evaluated directly on the trace.',
            'DataFrame.sample enters as the chooser (reference invocation measured); determinism for a fixed random_state and independence of deepcopy copies are tested on the implementation, not proved.',
            'Lean 4 proof (list permutations, modular arithmetic by omega) + trace correspondence', 'DESIGN.md §6 C04'),
    'C05': ("Lean theorems: the IPTW weight formula regenerated from iptw_calculator equals the documented weights in all 6 cells (SMR weights as odds, bounded version at the clipped probabilities); outcome-IPMW; the stochastic numerator is the plan probability of the treatment received under the selecting condition; monotone IPMW weight = numerator / product of the conditional observation probabilities with the code's uniform shortcuts, fitting sets = rows observed on the previous variable, unobserved rows get none, weights recover n under saturated fits; IPCW weight = within-subject running product in time order independent of other subjects, sort step, uncensored-indicator characterization (long and flat paths). Differential check against reference maximum-likelihood fits made by the harness with the documented arguments.",
            'Logistic MLE assumed to exist and be what statsmodels returns (score equations measured).',
            'Lean 4 proof over translated source + differential correspondence', 'DESIGN.md §6 C05'),
    'C06': ("Lean theorems on the executed interval definitions (linear / log scale limits, containment for z,se >= 0, "
            "nestedness in z, z(alpha) = ppf(1-alpha/2) nonnegative and antitone for a strictly increasing ppf with "
            "ppf(1/2)=0, hence nestedness in alpha) and on the calculators generated from zepid/calc/utils.py (limits are "
            "literally linCI/logCI of point, ppf(1-alpha/2), se; point and se independent of alpha), the influence-curve SE "
            "(sum of squares /(m-1)/n >= 0), the cross-fit pooling rule (>= 0, equals the single value when partitions "
            "agree) and the saturated-MSM sandwich; known findings F12, F15, F16 are carried as a proved _partial statement "
            "plus a kernel-checked refutation of the full one. Differential + direct checks over a 33-point alpha grid for "
            "every calculator, frame class, AIPTW, TMLE, StochasticTMLE, IPTW (fixed 95%) and the four cross-fit classes. The influence values of crossfit.tmle_calculator (per measure), the ratio variance of aipw_calculator and the pooled term of calculate_joint_estimate are regenerated on every run and proved equal to the model's formulas, including the two known-finding formulas (Props/C06_Gen).",
            "norm.ppf is a parameter with two assumed properties (monotone grid check each run); exp/log/sqrt laws "
            "instantiated at the reals; weighted AIPTW reports NaN SE (judged for coherent NaN only).",
            "Lean 4 proof over translated source + differential correspondence", "DESIGN.md §6 C06"),
    'C07': ("Lean theorems on the definitions generated from zepid/calc/utils.py (textbook formulas, rejection iff a "
            "count is non-positive, swap/transpose laws) and on a hand model of the data-frame classes (cross-tab by "
            "masks, missing counters, one count-function call per level); the cross-tabulation statements and the keyword wiring of the count-function calls of the six fit methods are themselves regenerated from zepid/base.py on every run and proved equal to that model (Props/C07_Frames); generated code is re-translated every run and "
            "executed against the Python it came from.",
            "norm.ppf enters as a parameter (table entry supplied by scipy).",
            "Lean 4 proof over translated source + differential correspondence", "DESIGN.md §6 C07"),    'C08': ("Lean theorems on the shared models: every estimator model (std, hajek, gformula, aipw, aipw variance, ipsw, gtransport, "
            "aipsw, closed-form SNM, cross-tab counts and the whole frame fit) is a function of the row multiset (List.Perm) and "
            "invariant under injective recoding of stratum / level codes; under A -> not A (with n -> 1-n, d -> 1-d, exposed <-> "
            "unexposed) all six generated weight formulas are unchanged, arm means swap, RD negates, RR/OR invert, the AIPTW "
            "variance is unchanged; under Y -> cY+d the means map to c*m+d, ATE scales by c, variance by c^2, TMLE's generated unit "
            "map gives the same Y* for c>0 and 1-Y* for c<0; SNM psi scales by c and d drops out given the exposure model's score "
            "equation for the modifiers; an invertible reparametrisation of the design leaves linear predictors and score "
            "equations unchanged. 80 cells x 17 transformations on the real classes (nine index kinds, permutations, affine "
            "covariate maps, relabelled codes, 1-A, cY+d), each pair compared through the stated relation.",
            "Equivariance of the external GLM/GEE/Nelder-Mead fits is measured on each pair (gate H); pandas index alignment is "
            "glue reached only through gates K/D; SE theorems are at the variance level.",
            "Lean 4 proof (permutation / relabelling / affine-map algebra) + metamorphic differential check", 'DESIGN.md §6 C08'),
    'C09': ('Lean theorems for all data sets and all natural-number weights (no positivity hypothesis): a sum weighted by integer multiplicities equals the plain sum over the list with repeats, hence every weighted sum zEpid forms, the frequency-weighted GLM score equations (so the same fitted values solve both problems; for a saturated model they are unique), the closed-form standardization, and the models of IPTW (6 weight cells x missingness weight), StochasticIPTW, TimeFixedGFormula (any target, both predict_missing settings), GTransportFormula, AIPTW (incl. missing outcomes), closed-form GEstimationSNM and SurvivalGFormula are equal on the weighted data and on the physically replicated data. Weighted run vs df.loc[df.index.repeat(w)] run for every estimator and option cell.',
            'Determinism of the GLM on equal score equations is the external assumption (reference weighted and replicated fits measured); fit_stochastic and the Nelder-Mead SNM solver are excluded (random / tolerance-based).',
            'Lean 4 proof (replication algebra over sumBy) + differential correspondence', 'DESIGN.md §6 C09'),
    'C10': ('Lean theorems on the model of check_input_data: deleting incomplete rows is idempotent and any function of the checked data is unchanged by it (two data sets agreeing on their complete rows give the same result); drop_censoring=True equals the complete-case data with every outcome observed; outcome models are fitted on exactly the observed-outcome rows and values stored on unobserved rows are irrelevant; with saturated treatment and missingness models IPTW (corollary of P01.iptw_saturated with a real missingness fit) and TMLE (P02.tmle_dr_treatment) standardize observed-outcome cell means over all retained rows; both settings of the g-formula predict_missing switch; effect-measure classes ignore and count rows missing exposure or outcome (C07). Result on data == result after deletion for the 11 classes built on check_input_data (an smf.glm spy records the rows reaching each fit).',
            'AIPTW with missing outcomes is deliberately not claimed to standardize.',
            'Lean 4 proof + differential correspondence', 'DESIGN.md §6 C10'),
    'C11': ('Lean theorems by induction over arbitrary call histories on per-class tables (which method writes which slot, what fit/summary require): a slot holds its last accepted specification; a fit after any history equals the fit of a fresh object holding only the last specifications; running the normalised history (<= 2*nslots+1 calls) gives the same state as the full history; fit raises exactly when a required slot was never specified, summary exactly when no fit went through; a raising call leaves the state unchanged. 16 classes driven through random and structured histories: the real object must raise exactly where the model says and otherwise equal (results, printed text, public attributes) a fresh object driven by the canonical list.',
            "Non-mutation of the caller's DataFrame / arrays is Python aliasing: monitored at run time by deep snapshots before/after every call (a test, reported as such), not proved.",
            'Lean 4 proof (state machine, induction over op lists) + history correspondence + run-time non-mutation monitor', 'DESIGN.md §6 C11'),
    'C12': ("Lean theorems over any ordered field, any number of time points / individuals / covariate arities / plans: the "
            "backward recursion of IterativeCondGFormula with cell-fit outcome models equals the nonparametric g-formula "
            "recursion (count form proved equal to the textbook h + (1-h) sum f G form), by induction over the remaining "
            "time points; a plan given as n identical rows behaves exactly like the single row; K=1 equals the time-fixed "
            "g-formula; SurvivalGFormula with arm x time cell-fit hazards equals 1 - prod(1 - d/n); any hazards in [0,1] give "
            "cumulative incidences in [0,1], non-decreasing in time. Differential check keeps the recursion in Lean (the "
            "harness only makes the reference GLM call per step), exact rational closed forms for gate D.",
            "GLM fits assumed to solve their score equations (measured; rank-deficient designs discarded); stable sort and "
            "patsy NaN handling are glue reached by the differential gates only.",
            "Lean 4 proof (induction over time points, stratum regrouping) + differential correspondence", "DESIGN.md §6 C12"),
    'C13': ("Lean theorems (core Lean, any carrier, every configuration / baseline row / draw sequence / t_max / sample): exactly `sample` histories; a record with a successor has no event and is uncensored; at most one event and it is last; the last record is terminal; 1..t_max records with t_in = j, t_out = j+1; exposure equals the plan in every record (all / none / natural = the draw / custom rule on the frame the exposure model saw); every lag column holds the previous interval's value for any lag dictionary with distinct targets in any listing order (second-order chains included); low-memory output = last record of each full history. MonteCarloGFormula._predict is wrapped at run time to log and pin the draws and every frame each model sees; the model replays the same draws.",
            "The RNG is outside the model (identities are in the captured draws); exec/eval strings are modelled through the assignment / condition grammar the harness generates from.",
            'Lean 4 proof (induction over simulation steps) + trace correspondence', 'DESIGN.md §6 C13'),
    'C14': ("Lean theorems: for pairwise-exclusive conditions the per-row plan probability (StochasticIPTW numerator and estimate, StochasticTMLE clever covariate, Monte-Carlo assignment as a function of the captured draws) is invariant under any permutation of the (condition, p) list; p = 1 / p = 0 reduce StochasticIPTW to the unstabilized IPTW arm mean and the stochastic g-formula to fit('all') / fit('none') (int(1.0 n) = n); with a saturated treatment model StochasticIPTW equals the stratum mixture exactly; for any draw the simulating estimators equal the mixture at the realised treated fractions (mean over resamples = mixture at the mean fraction). Draws captured by wrapping numpy's RNG and replayed under every listing order.",
            "The seed-to-draw map of numpy is outside the model: 'within Monte Carlo error' is replaced by the exact identity at the realised fractions; |realised - nominal| is only reported.",
            'Lean 4 proof (List.Perm induction, stratum regrouping) + differential correspondence', 'DESIGN.md §6 C14'),
    'C15': ("Lean theorems, any field / any number of rows / any weights and fitted values: the estimating function is "
            "rha - lhm*psi with exactly the matrices _closed_form_solver_ assembles (given A*A = A); any solution of the "
            "linear system is an exact root and conversely; the modelled solve (Cramer, p <= 3) returns a root, fails iff "
            "det = 0, and any root equals it when det != 0 (general p: injective lhm); one-parameter model with a cell-fit "
            "exposure model gives the n*p*(1-p)-weighted average of stratum mean differences. Exact rational model fed "
            "reference GLM fitted values vs reported psi; exact rational residual of the estimating equations at the "
            "reported psi; closed vs search solver.",
            "Agreement of the Nelder-Mead search solver is numerical: stalls (objective > 1e-6) are counted as discards, "
            "run-away divergence is known finding F13.",
            "Lean 4 proof (linear algebra over lists) + differential correspondence", "DESIGN.md §6 C15"),
    'C16': ("Lean theorems: with saturated sampling / treatment / outcome models the IPSW weighted arm means (generated "
            "IPSW/IOSW formulas x generated population treatment weights), the g-transport mean and the AIPSW combination "
            "equal the sample's cell means standardized to all rows (generalize) or to the non-sampled rows (transport), "
            "for any data set and stratum count; RD/RR are difference/ratio; outcomes recorded outside the sample cannot "
            "influence any of the three (map-invariance theorem). Differential check on the implementation's fitted "
            "values, exact closed form, junk-outcome variant.",
            "GLM fits assumed to solve their score equations (measured).",
            "Lean 4 proof + translator + differential correspondence", "DESIGN.md §6 C16"),    'C17': ("Lean theorems: probability_bounds' accept/reject table in the code's branch order; the result is the elementwise clip (new list, same length), lands in [lo, hi], is idempotent and the identity on values inside; an unreached bound is a no-op for the six estimator use-site models; weights at clipped probabilities are bounded by 1/lo resp. 1/(1-hi). probability_bounds itself is regenerated from its source on every run (per element) and proved equal to the model's validation + clip for the float and the pair branch (Props/C17_Gen). Container sweep with before/after snapshots (no mutation, no shared memory), 55 bound forms, every estimator site run unbounded / unreached / reached.",
            "'Input untouched', container types and read-only buffers are Python aliasing: decided on the real code by gate D, not by a theorem.",
            'Lean 4 proof + differential correspondence', 'DESIGN.md §6 C17'),
    'C18': ("Lean theorems for every finite graph, node/arrow order and op sequence: executable reachability = reflexive-"
            "transitive closure of the edge relation; the code's six-step check = the moral-graph back-door criterion "
            "(no descendant of the exposure in the set; exposure and outcome disconnected in the moral graph of the "
            "ancestral part minus the set), invariant under reordering; a set is listed iff admissible; minimal sets = "
            "listed sets of smallest size; an arrow / batch is rejected iff it closes a directed cycle and a rejected call "
            "leaves the graph unchanged; acyclicity is an invariant of every op sequence. Differential check against "
            "DirectedAcyclicGraph on all DAGs up to 5 nodes under sampled orders and three construction APIs, random and "
            "seeded larger graphs, a malformed stream; independent path-blocking oracle for gate D.",
            "The moral-graph criterion is proved equal to path-blocking d-separation for every finite DAG (Lauritzen et al.: "
            "dsep_moral_iff_pathblocking, check_iff_backdoor_paths, check_eq_backdoorPaths); networkx reachability "
            "measured (gate H); the label <-> number mapping of the harness is outside the theorems.",
            "Lean 4 proof (induction on edge lists / op sequences) + differential correspondence", "DESIGN.md §6 C18"),    'C19': ("Lean theorems on the Frechet-bound expressions regenerated from RiskDifference.fit: rows + a completion of the "
            "unobserved potential outcomes are linked to counts; for every completion lower <= causal RD <= upper; both ends "
            "are attained by explicit completions; width is one; the crude RD lies inside (binary exposure). Exhaustive 2x2 "
            "tables (cells 0..6 / 0..8) with missing rows, exact rational comparison, literal enumeration of all completions on "
            "small tables.",
            "For multi-level exposures the code's bounds concern 'level i versus not i' (pooled comparison), modelled as such.",
            "Lean 4 proof over translated source + differential correspondence", "DESIGN.md §6 C19"),
    'C20': ("Lean theorems: KFold without shuffle holds each row out exactly once with train = complement; in the fit schedule every "
            "cross-validated prediction comes from a clone that never saw the row; thresholded-normalised nnls coefficients are "
            ">= 0 and sum to 1 whenever they exist (NaN iff all are below the threshold = known finding F21); discrete = one-hot "
            "at a maximal weight; predict = coefficient-weighted combination (logit scale for nloglik) and lies in the hull of the "
            "retained candidates; the stepwise search (AIC oracle, fuel p+1) returns an AIC <= the starting AIC with no admissible "
            "single step strictly better. Spy candidates with row ids; sm.GLM wrapped at run time to log (columns -> AIC).",
            "nnls and KFold are parameters with measured behaviour; Float execution of the nloglik predict is execution only.",
            "Lean 4 proof (induction over folds / search steps) + trace correspondence", "DESIGN.md §6 C20"),
}

# round 4: source lines moved under the translator (regenerated from /repo on every run, bridge theorem to the model,
# executed against the implementation by gate K), appended to the level text of the property concerned
ROUND4 = {
    'C04': "Round 4: _sample_split_, the nuisance helpers, the n_splits guards and the pairing slices of the four cross-fit classes are regenerated from source (Gen/XfitSplit, Props/C04_Gen).",
    'C05': "Round 4: StochasticIPTW.fit, the IPCW uncensored indicator and cumulative products, and the IPMW monotone / single-variable weight lines are regenerated from source (Gen/Stoch, Gen/Ipcw, Gen/Ipmw; Props/C05_Gen, C05_Ipcw, C05_Ipmw).",
    'C06': "Round 4: the rest of zepid/calc/utils.py that reports intervals (sensitivity, specificity, ppv/npv converters, rubins_rules, semibayes, counternull_pvalue, ...), interaction_contrast_ratio's delta interval and aipw_calculator's cross-fit (splits) branch are regenerated from source (Gen/Calc2, Gen/Icr, Gen/FitSplits; Props/C06_Calc, C06_Icr, C06_Splits, C06_Frames).",
    'C07': "Round 4: Sensitivity / Specificity / Diagnostics .fit regenerated from source (Gen/Diag, Props/C07_Diag).",
    'C08': "Round 4: theorems for the GEE sandwich of the IPTW marginal structural model, TMLE targeting under A -> 1-A (through the bridge: the regenerated TMLE.fit), the ICE recursion (permutation, relabelling) and SurvivalGFormula under the flip; SNM entries regenerated (Props/C08_Gen, C08_Snm).",
    'C09': "Round 4: the SNM closed-form entries and GTransportFormula.fit are regenerated from source and the replication theorems restated for them (Props/C09_Snm, C09_Transport); per-row weights that fall during follow-up (survival_replicate_rows).",
    'C10': "Round 4: check_input_data and its twelve call sites are regenerated from source (Gen/InputData, Props/C10_Gen).",
    'C11': "Round 4: the per-class tables are regenerated from /repo's source by a static effect analysis (harness/effects.py -> Gen/Tables; Props/C11_Gen: gen_tables_all, gen_history_independent, ...), which refuses in-place mutation of stored state or of the caller's arguments.",
    'C12': "Round 4: SurvivalGFormula.fit (unweighted) and the ICE step are regenerated from source (Gen/SurvGF, Gen/IceStep; Props/C12_Gen).",
    'C13': "Round 4: the Monte Carlo loop's bookkeeping (time index, plan chain, at-risk and low-memory masks, censoring) is regenerated from source (Gen/MonteCarlo, Props/C13_Gen).",
    'C14': "Round 4: StochasticIPTW.fit and TimeFixedGFormula.fit_stochastic (as a function of the recorded draws) are regenerated from source (Gen/Stoch, Gen/GfStoch; Props/C14_Gen, C14_GfStoch).",
    'C15': "Round 4: _closed_form_solver_, the weight-column choice of fit and the search objective are regenerated from source (Gen/Snm, Props/C15_Gen).",
    'C16': "Round 4: GTransportFormula.fit, its outcome-model call site and the sampling / treatment call sites of IPSW and AIPSW are regenerated from source (Gen/Transport, Gen/Sites; Props/C16_Transport, C16_Sites).",
    'C17': "Round 4: every call site of probability_bounds (15 sites, 4 caller flags) and the sampling / missing-model sites are regenerated from source and proved equal to the use-site models (Gen/BoundSites, Gen/Sites; Props/C17_BoundSites, C17_Sites).",
    'C18': "Round 4: moral-graph criterion = path-blocking d-separation proved for every finite DAG (Lemmas/DagPaths).",
    'C20': "Round 4: SuperLearner's coefficient post-processing, refit loops, predict combination and use of the folds, and StepwiseSL's search control are regenerated from source (Gen/Stack, Gen/Stepwise; Props/C20_Gen, C20_Step).",
}

NOT_APPLICABLE = {}


def main():
    p = os.path.join(ROOT, 'MANIFEST.json')
    m = json.load(open(p))
    checks = []
    for pid in sorted(ENTRIES):
        if not os.path.exists(os.path.join(ROOT, 'harness', 'props', pid.lower() + '.py')):
            continue
        text, note, tech, ref = ENTRIES[pid]
        if pid in ROUND4:
            text = text + ' ' + ROUND4[pid]
        checks.append({
            'property_id': pid,
            'quick_cmd': '/venv/bin/python harness/check.py %s --tier quick' % pid,
            'thorough_cmd': '/venv/bin/python harness/check.py %s --tier thorough' % pid,
            'evidence_file': 'evidence/%s.json' % pid,
            'replay_cmd_template': '/venv/bin/python harness/check.py %s --replay {path}' % pid,
            'engine': 'lean-proof+correspondence',
            'level_claimed': {'category': 'proof', 'text': text, 'design_ref': ref},
            'level_note': BASE_NOTE + note,
            'technique': tech,
        })
    m['checks'] = checks
    m['engines'][0]['serves_properties'] = [c['property_id'] for c in checks]
    props = [json.loads(l)['id'] for l in open(os.path.join(ROOT, 'properties.jsonl')) if l.strip()]
    claimed = {c['property_id'] for c in checks}
    m['not_applicable'] = [{'property_id': pid, 'reason': NOT_APPLICABLE.get(
        pid, 'check not built yet in this tree (planned, see DESIGN.md section 6); not claimed until its check exists')}
        for pid in props if pid not in claimed]
    json.dump(m, open(p, 'w'), indent=1)
    print('checks:', sorted(claimed), 'unclaimed:', [x['property_id'] for x in m['not_applicable']])


if __name__ == '__main__':
    main()
