#!/usr/bin/env python3
"""merge_p2l.py <branch>: resolve harness/py2lean.py during a conflicted merge: ours + the block the branch inserted
before GENERATORS + its new GENERATORS entries.  Only valid when the branch's diff to the merge base is one insertion hunk
(checked)."""
import re, subprocess, sys
br = sys.argv[1]
sh = lambda *a: subprocess.run(a, capture_output=True, text=True, check=True).stdout
base = sh('git', 'merge-base', 'HEAD', br).strip()
d = sh('git', 'diff', base, br, '--', 'harness/py2lean.py')
hunks = re.findall(r'^@@.*$', d, flags=re.M)
body = d[d.index('@@'):].splitlines()[1:]
minus = [l for l in body if l.startswith('-')]
plus = [l[1:] for l in body if l.startswith('+')]
print('hunks', len(hunks), 'removed lines', len(minus))
gi = [k for k, l in enumerate(plus) if l.startswith('GENERATORS = {')]
assert len(hunks) == 1 and all(m.startswith('-GENERATORS') or m[1:].strip().startswith("'") or m.strip() == '-}' for m in minus) and len(gi) == 1, (hunks, minus[:3])
ge = next(k for k in range(gi[0], len(plus)) if '}' in plus[k])
gl = [' '.join(plus[gi[0]:ge + 1])]
block = '\n'.join(plus[:gi[0]] + plus[ge + 1:]).strip('\n') + '\n'
ours = sh('git', 'show', 'HEAD:harness/py2lean.py')
have = dict(re.findall(r"'(\w+\.lean)': (\w+)", ours[ours.index('GENERATORS = {'):ours.index('}', ours.index('GENERATORS = {'))]))
new = [(k, v) for k, v in re.findall(r"'(\w+\.lean)': (\w+)", gl[0]) if k not in have]
i = ours.index('GENERATORS = {')
j = ours.index('}\n', i)
ours = ours[:i].rstrip('\n') + '\n\n\n' + block + '\n\n' + ours[i:j] + ''.join("    '%s': %s,\n" % kv for kv in new) + ours[j:]
open('harness/py2lean.py', 'w').write(ours)
import ast; ast.parse(ours)
print('added entries', new)
