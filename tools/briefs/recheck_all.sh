#!/bin/sh
copy=$1; list=$2
cd /tmp/vw/$copy
git reset -q --hard main
( cd lean && lake build zvdriver ZepidVerif > /tmp/r3/build_$copy.log 2>&1 )
while read pid mut r; do
  if [ $r = 1 ]; then args="$pid $mut --recheck"; nm=$mut; else args="$pid $mut --round $r --recheck"; nm=r$r$mut; fi
  out=$(timeout 5400 /venv/bin/python tools/confirm_seed.py $args 2>&1 | tail -1)
  echo "$copy $pid $nm :: $out" >> /tmp/r3/final.log
done < $list
echo "done $copy" >> /tmp/r3/final.log
