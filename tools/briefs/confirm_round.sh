#!/bin/sh
# usage: confirm4.sh <copy> <pid>
copy=$1; pid=$2
cd /tmp/vw/$copy
( cd lean && lake build zvdriver ZepidVerif > /tmp/r3/build_$copy.log 2>&1 )
for m in m1 m2 m3; do
  out=$(timeout 7200 /venv/bin/python tools/confirm_seed.py $pid $m --round 4 2>&1 | tail -4 | tr '\n' ' ')
  echo "$copy $pid r4$m :: $out" >> /tmp/r3/confirm4.log
done
echo "done $copy $pid" >> /tmp/r3/confirm4.log
