#!/bin/sh
# par_all.sh <seed> <tier> <props...> : run the given checks in /verif, 5 at a time
seed=$1; tier=$2; shift 2
cd /verif
printf '%s\n' "$@" | xargs -P 5 -I{} sh -c "VERIF_SEED=$seed timeout 3000 /venv/bin/python harness/check.py {} --tier $tier > /tmp/r3/run_{}_$seed.out 2>&1; echo \"{} rc=\$? \$(grep -E '^{} tier=' /tmp/r3/run_{}_$seed.out | tail -1 | cut -c1-150)\" >> /tmp/r3/par_all_$seed.log; grep -E '^VIOLATION' /tmp/r3/run_{}_$seed.out >> /tmp/r3/par_all_$seed.log"
echo done >> /tmp/r3/par_all_$seed.log
