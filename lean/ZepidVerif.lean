import ZepidVerif.Model.Core
import ZepidVerif.Model.Measures
import ZepidVerif.Model.Bounds
import ZepidVerif.Gen.Calc
import ZepidVerif.Gen.Weights
import ZepidVerif.Gen.Frechet
