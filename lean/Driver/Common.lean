/-
Shared helpers of the model driver: carriers, printing, argument access.
-/
import Driver.Parse
import ZepidVerif.Model.Core
namespace ZVD
open ZV

instance : NatCast Float := ⟨Float.ofNat⟩
instance : ZV.Transc Float := ⟨Float.exp, Float.log, Float.sqrt⟩
/-- `Rat` has no transcendental functions: ops that need them run at `Float`; at `Rat` they are never called
    (total placeholders so that generic definitions elaborate). -/
instance : ZV.Transc Rat := ⟨fun x => x, fun x => x, fun x => x⟩

def nan : Float := Float.ofBits 0x7ff8000000000000
def finf : Float := Float.ofBits 0x7ff0000000000000

/-- `norm.ppf` as a one-entry table supplied by the harness (scipy's value at the point the code must ask for);
    any other argument yields NaN, so a wrong quantile argument shows up in the correspondence. -/
def ppfTab (px pz : Float) : Float → Float := fun x => if x == px then pz else nan

def showErr : Err → String
  | .nonpositive => "nonpositive" | .negative => "negative" | .badBound => "badBound"
  | .badInput => "badInput" | .notSpecified => "notSpecified" | .cyclic => "cyclic"

def showResults (r : Results Float) : String :=
  s!"point={showFloat r.point} lower={showFloat r.lower} upper={showFloat r.upper} se={showFloat r.se}"

def fl (a : Args) (k : String) : Except String Float := need a k parseFloat
def rt (a : Args) (k : String) : Except String Rat := need a k parseRat
def fls (a : Args) (k : String) : Except String (List Float) := need a k (parseList parseFloat)
def rts (a : Args) (k : String) : Except String (List Rat) := need a k (parseList parseRat)
def nats (a : Args) (k : String) : Except String (List Nat) := need a k (parseList parseNat)
def bools (a : Args) (k : String) : Except String (List Bool) := need a k (parseList parseBool)

/-- an op table entry: name and handler -/
abbrev OpTable := List (String × (Args → Except String String))

end ZVD
