/-
Line-protocol helpers for the native model driver.  One request per line:
    <op> key=value key=value ...
values: rationals `n/d` or `n` (exact), floats as `x<16 hex digits>` (IEEE-754 bit pattern),
lists comma-separated, `_` for a missing value, anything else a raw string.
-/
namespace ZVD

abbrev Args := List (String × String)

def parseLine (line : String) : String × Args :=
  match (line.trimAscii.toString.splitOn " ").filter (· ≠ "") with
  | [] => ("", [])
  | op :: rest =>
    (op, rest.filterMap fun kv =>
      match kv.splitOn "=" with
      | [k, v] => some (k, v)
      | _ => none)

def Args.get? (a : Args) (k : String) : Option String := (a.find? (·.1 == k)).map (·.2)

def hexVal (c : Char) : Option Nat :=
  if c.isDigit then some (c.toNat - 48)
  else if 'a' ≤ c ∧ c ≤ 'f' then some (c.toNat - 87)
  else if 'A' ≤ c ∧ c ≤ 'F' then some (c.toNat - 55)
  else none

def parseHex (s : String) : Option Nat :=
  s.foldl (fun acc c => match acc, hexVal c with
    | some a, some v => some (a * 16 + v)
    | _, _ => none) (some 0)

def parseRat (s : String) : Option Rat :=
  match s.splitOn "/" with
  | [n] => n.toInt?.map (fun i => (i : Rat))
  | [n, d] => match n.toInt?, d.toNat? with
    | some i, some k => if k = 0 then none else some (mkRat i k)
    | _, _ => none
  | _ => none

def parseFloat (s : String) : Option Float :=
  if s.startsWith "x" then (parseHex (s.drop 1).toString).map (fun n => Float.ofBits n.toUInt64)
  else none

def splitList (s : String) : List String :=
  if s == "" || s == "[]" then [] else s.splitOn ","

def parseList {α} (p : String → Option α) (s : String) : Option (List α) :=
  (splitList s).mapM p

def parseOptList {α} (p : String → Option α) (s : String) : Option (List (Option α)) :=
  (splitList s).mapM (fun t => if t == "_" then some none else (p t).map some)

def parseBool (s : String) : Option Bool :=
  if s == "1" || s == "true" || s == "True" then some true
  else if s == "0" || s == "false" || s == "False" then some false else none

def parseNat (s : String) : Option Nat := s.toNat?

def showRat (q : Rat) : String :=
  if q.den == 1 then toString q.num else toString q.num ++ "/" ++ toString q.den

def hexDigits16 (n : Nat) : String :=
  let ds := Nat.toDigits 16 n
  String.ofList (List.replicate (16 - ds.length) '0' ++ ds)

def showFloat (f : Float) : String := "x" ++ hexDigits16 f.toBits.toNat

def showList {α} (sh : α → String) (l : List α) : String :=
  if l.isEmpty then "[]" else ",".intercalate (l.map sh)

def showBool (b : Bool) : String := if b then "1" else "0"

/-- Argument access with error reporting: a missing or malformed argument is a protocol error. -/
def need {α} (a : Args) (k : String) (p : String → Option α) : Except String α :=
  match a.get? k with
  | none => .error ("missing-arg:" ++ k)
  | some v => match p v with
    | none => .error ("bad-arg:" ++ k)
    | some x => .ok x

end ZVD
