/- Operation table of the model driver: one import and one `++` entry per ops module
   (regenerate with tools/gen_table.py after adding a module). -/
import Driver.Ops.C03
import Driver.Ops.C04
import Driver.Ops.C05
import Driver.Ops.C06
import Driver.Ops.C06Calc
import Driver.Ops.C06Splits
import Driver.Ops.C07
import Driver.Ops.C08
import Driver.Ops.C09
import Driver.Ops.C10
import Driver.Ops.C11
import Driver.Ops.C12
import Driver.Ops.C13
import Driver.Ops.C14
import Driver.Ops.C15
import Driver.Ops.C16
import Driver.Ops.C17
import Driver.Ops.C18
import Driver.Ops.C19
import Driver.Ops.C20
import Driver.Ops.Std
import Driver.Ops.Sites
namespace ZVD

def allOps : OpTable :=
  [("ping", fun _ => pure "ok pong")]
  ++ opsC03
  ++ opsC04
  ++ opsC05
  ++ opsC06
  ++ opsC06Calc
  ++ opsC06Splits
  ++ opsC07
  ++ opsC08
  ++ opsC09
  ++ opsC10
  ++ opsC11
  ++ opsC12
  ++ opsC13
  ++ opsC14
  ++ opsC15
  ++ opsC16
  ++ opsC17
  ++ opsC18
  ++ opsC19
  ++ opsC20
  ++ opsStd
  ++ opsSites

def dispatch (op : String) (a : Args) : Except String String :=
  match allOps.find? (·.1 == op) with
  | some (_, f) => f a
  | none => throw ("unknown-op:" ++ op)

end ZVD
