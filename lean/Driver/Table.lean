/- Operation table of the model driver: one import and one `++` entry per ops module. -/
import Driver.Ops.C07
import Driver.Ops.C17
import Driver.Ops.C11
namespace ZVD

def allOps : OpTable :=
  [("ping", fun _ => pure "ok pong")]
  ++ opsC07
  ++ opsC17
  ++ opsC11

def dispatch (op : String) (a : Args) : Except String String :=
  match allOps.find? (·.1 == op) with
  | some (_, f) => f a
  | none => throw ("unknown-op:" ++ op)

end ZVD
