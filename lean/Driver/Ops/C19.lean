/- Driver ops for C19: the specification side (causal risk difference of a completion), exact at `Rat`. -/
import Driver.Common
import ZepidVerif.Model.Measures
import ZepidVerif.Model.FrechetM
import ZepidVerif.Model.Potential
namespace ZVD
open ZV

/-- `crd e=… d=… lvl=i u=…`: `u` gives, per row with exposure and outcome observed (in row order), the
    outcome the unit did *not* show.  Replies with the causal risk difference of that completion, whether it
    is a completion (consistency reproduces the observed pairs), and the model's bounds. -/
def opCrd (a : Args) : Except String String := do
  let e ← need a "e" (parseOptList parseNat)
  let d ← need a "d" (parseOptList parseBool)
  let lvl ← need a "lvl" parseNat
  let u ← need a "u" (parseList parseBool)
  let rows : List (Measures.MRow Rat) := (e.zip d).map fun (e, d) => ⟨e, d, none⟩
  let obs := Potential.observed rows lvl
  if u.length ≠ obs.length then throw "bad-arg:u-length" else
  let po := Potential.fill obs u
  let ok := decide (po.map Potential.PO.obs = obs)
  let rd : Rat := Potential.causalRD po
  let (lo, hi) := Measures.frechet rows lvl
  let lo' : Rat := Potential.causalRD (Potential.complLower obs)
  let hi' : Rat := Potential.causalRD (Potential.complUpper obs)
  pure s!"ok rd={showRat rd} completion={showBool ok} n={po.length} lower={showRat lo} upper={showRat hi} attainlo={showRat lo'} attainhi={showRat hi'}"

def opsC19 : OpTable := [("crd", opCrd)]

end ZVD
