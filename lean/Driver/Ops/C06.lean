/- Driver ops for C06: interval arithmetic, influence-curve variance, pooling, saturated-MSM sandwich (Float). -/
import Driver.Common
import ZepidVerif.Model.Ci
namespace ZVD
open ZV ZV.Ci

def showPair (p : Float × Float) : String := s!"lower={showFloat p.1} upper={showFloat p.2}"

/-- `ci kind=lin|log|exp est= z= se=` -/
def opCi (a : Args) : Except String String := do
  let kind ← need a "kind" some
  let est ← fl a "est"; let z ← fl a "z"; let se ← fl a "se"
  match kind with
  | "lin" => pure ("ok " ++ showPair (linCI est z se))
  | "log" => pure ("ok " ++ showPair (logCI est z se))
  | "exp" => pure ("ok " ++ showPair (expCI est z se))
  | _ => throw ("unknown-kind:" ++ kind)

/-- `zof which=plain|tmle alpha= px= pz=`: the quantile the code asks scipy for (one-entry ppf table) -/
def opZof (a : Args) : Except String String := do
  let which ← need a "which" some
  let alpha ← fl a "alpha"
  let ppf := ppfTab (← fl a "px") (← fl a "pz")
  match which with
  | "plain" => pure s!"ok z={showFloat (zOf ppf alpha)}"
  | "tmle" => pure s!"ok z={showFloat (tmleZ ppf alpha)}"
  | _ => throw ("unknown-which:" ++ which)

def opIcSe (a : Args) : Except String String := do
  let ic ← need a "ic" (parseOptList parseFloat)
  let n ← need a "n" parseNat
  pure s!"ok se2={showFloat (icSe2 ic n)} se={showFloat (icSe ic n)}"

def opAipwDiff (a : Args) : Except String String := do
  let d ← need a "d" (parseOptList parseFloat)
  let r := aipwDiff d
  pure s!"ok est={showFloat r.1} var={showFloat r.2}"

def opPool (a : Args) : Except String String := do
  let m ← need a "method" (fun s => if s == "median" then some Method.median
                                    else if s == "mean" then some Method.mean else none)
  let pts ← fls a "pts"; let vars ← fls a "vars"
  match pool m pts vars with
  | .ok r => pure s!"ok est={showFloat r.1} var={showFloat r.2}"
  | .error e => pure ("err " ++ showErr e)

def opMsm (a : Args) : Except String String := do
  let av ← bools a "a"; let y ← fls a "y"; let w ← fls a "w"
  if y.length ≠ av.length || w.length ≠ av.length then throw "bad-arg:lengths"
  let rows : List (MRow Float) := (av.zip (y.zip w)).map fun (a, y, w) => ⟨a, y, w⟩
  let rd := msmRD rows; let rr := msmRR rows; let od := msmOR rows
  pure (s!"ok rd={showFloat rd.1} vrd={showFloat rd.2} rr={showFloat rr.1} vrr={showFloat rr.2} " ++
    s!"or={showFloat od.1} vor={showFloat od.2} m1={showFloat (armMean rows true)} m0={showFloat (armMean rows false)} " ++
    s!"v1={showFloat (armVar rows true)} v0={showFloat (armVar rows false)}")

/-- `icrr which=doc|aipw|xfit m1= m0= r1= r0= q1= q0= n=`: variance / n of the per-row log-RR influence values -/
def opIcRR (a : Args) : Except String String := do
  let which ← need a "which" some
  let f ← match which with
    | "doc" => pure (icLogRRDoc (F := Float))
    | "aipw" => pure (icLogRRAipw (F := Float))
    | "xfit" => pure (icLogRRXfit (F := Float))
    | _ => throw ("unknown-which:" ++ which)
  let ic := icRows f (← fl a "m1") (← fl a "m0") (← fls a "r1") (← fls a "r0") (← fls a "q1") (← fls a "q0")
  pure s!"ok var={showFloat (icSe2 ic (← need a "n" parseNat))} k={ic.length}"

def opsC06 : OpTable :=
  [("ci", opCi), ("zof", opZof), ("icse", opIcSe), ("aipwdiff", opAipwDiff), ("pool", opPool), ("msm", opMsm),
   ("icrr", opIcRR)]

end ZVD
