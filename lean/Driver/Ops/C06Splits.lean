/- Driver op for C06: the definition regenerated from `aipw_calculator` with `splits` given (cross-fit AIPTW). -/
import Driver.Ops.Std
import ZepidVerif.Gen.FitSplits
namespace ZVD
open ZV ZV.Std

section
variable {F : Type} [Carrier F] [Add F] [Sub F] [Mul F] [Div F] [Neg F] [NatCast F]
  [LT F] [LE F] [DecidableLT F] [DecidableLE F] [DecidableEq F] [Transc F]

/-- `aipwsplits s=<split label per row> a= y= [w=] difference= hasw= nan= q1= q0= g1= g0= [c=f]`: estimate and variance
    from `Gen.aipw_calc_splits`; the labels are the distinct values of `s` -/
def opAipwSplitsG (a : Args) : Except String String := do
  let l : List (Row F) ← parseRows a
  let diff ← need a "difference" parseBool
  let hasW ← need a "hasw" parseBool
  let nanv : F ← need a "nan" (Carrier.parse (F := F))
  let q1 : Array F ← vals a "q1"
  let q0 : Array F ← vals a "q0"
  let g1 : Array F ← vals a "g1"
  let g0 : Array F ← vals a "g0"
  let (est, var) := Gen.aipw_calc_splits diff hasW nanv l (strataOf l) (look q1) (look q0) (look g1) (look g0)
  pure s!"ok est={sh est} var={sh var}"

end

def opsC06Splits : OpTable := [
  ("aipwsplits", atCarrier (opAipwSplitsG (F := Rat)) (opAipwSplitsG (F := Float)))]

end ZVD
