/- Driver ops for C18: DirectedAcyclicGraph (graph editing, adjustment sets, moral vs path-blocking criterion).

   Encodings (no spaces, no '='):  edge `s>t`; edge list `s>t,s>t` (`[]` empty); node list `a,b,c` (`[]` empty);
   op list `;`-separated: `a:s>t` (add_arrow), `s:<edges>` (add_arrows), `g:<nodes>|<edges>` (add_from_networkx), `c` (calculate_adjustment_sets);
   set list `;`-separated, a set is `.`-separated, `e` the empty set, `[]` no set at all. -/
import Driver.Common
import ZepidVerif.Model.Dag
namespace ZVD
open ZV ZV.Dag

def parseEdge (s : String) : Option Edge :=
  match s.splitOn ">" with
  | [a, b] => match a.toNat?, b.toNat? with
    | some a, some b => some (a, b)
    | _, _ => none
  | _ => none

def parseEdges (s : String) : Option (List Edge) := parseList parseEdge s

def parseOp (s : String) : Option Op :=
  if s.startsWith "a:" then (parseEdge (s.drop 2).toString).map (fun e => .arrow e.1 e.2)
  else if s.startsWith "s:" then (parseEdges (s.drop 2).toString).map .arrows
  else if s.startsWith "g:" then
    match (s.drop 2).toString.splitOn "|" with
    | [ns, es] => match parseList parseNat ns, parseEdges es with
      | some ns, some es => some (.fromGraph ns es)
      | _, _ => none
    | _ => none
  else none

def parseOps (s : String) : Option (List Op) :=
  if s == "" || s == "[]" then some [] else (s.splitOn ";").mapM parseOp

def showEdge (e : Edge) : String := s!"{e.1}>{e.2}"
def showSet (z : List Nat) : String := if z.isEmpty then "e" else ".".intercalate (z.map toString)
def showSets (l : List (List Nat)) : String := if l.isEmpty then "[]" else ";".intercalate (l.map showSet)
def showStatus : Option Err → String
  | none => "ok"
  | some e => showErr e

def parseDagCall (s : String) : Option Call :=
  if s == "c" then some .calculate else (parseOp s).map .edit

def parseDagCalls (s : String) : Option (List Call) :=
  if s == "" || s == "[]" then some [] else (s.splitOn ";").mapM parseDagCall

/-- run a history (edits and `c` = calculate_adjustment_sets) on `DirectedAcyclicGraph(x, y)`.
    `calls` = outcome per call; `reports` = `<sets>:<minimal>` per calculate call, `/`-separated -/
def opDag (a : Args) : Except String String := do
  let x ← need a "x" parseNat
  let y ← need a "y" parseNat
  let cs ← need a "ops" parseDagCalls
  let (o, obs) := runObj x y (newObj x y) cs
  let reps := obs.filterMap (fun ob => ob.2)
  let showRep := fun (r : List (List Nat) × List (List Nat)) => showSets r.1 ++ ":" ++ showSets r.2
  let repStr := if reps.isEmpty then "[]" else "/".intercalate (reps.map showRep)
  pure (s!"ok nodes={showList toString o.dag.nodes} edges={showList showEdge o.dag.edges} " ++
    s!"calls={showList (fun ob => showStatus ob.1) obs} reports={repStr}")

/-- bounded supplement: the modelled check (moral-graph criterion) and path-blocking d-separation, evaluated on
    every candidate set of one graph -/
def opDagSep (a : Args) : Except String String := do
  let x ← need a "x" parseNat
  let y ← need a "y" parseNat
  let ns ← nats a "nodes"
  let es ← need a "edges" parseEdges
  let G : Graph := ⟨ns, es⟩
  let subs := allSubsets (cands G x y)
  let m := subs.map (fun Z => check G x y Z)
  let p := subs.map (fun Z => backdoorPaths G x y Z)
  pure s!"ok sets={showSets subs} moral={String.ofList (m.map fun b => if b then '1' else '0')} path={String.ofList (p.map fun b => if b then '1' else '0')}"

def opsC18 : OpTable := [("dag", opDag), ("dagsep", opDagSep)]

end ZVD
