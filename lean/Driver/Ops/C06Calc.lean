/- Driver ops for the second batch of zepid/calc/utils.py (`Gen/Calc2.lean`) and the diagnostic classes of
   zepid/base.py (`Gen/Diag.lean`): the generated definitions at the Float carrier (C06 / C07, gate K). -/
import Driver.Common
import Driver.Ops.C07
import ZepidVerif.Gen.Calc2
import ZepidVerif.Gen.Diag
import ZepidVerif.Gen.Icr
namespace ZVD
open ZV

/-- `norm.cdf(x, loc, scale)` as a two-entry table supplied by the harness (scipy's values at the two points the code
    must ask for); any other argument triple yields NaN -/
def cdfTab (t : List (Float × Float × Float × Float)) : Float → Float → Float → Float := fun x l s =>
  match t.find? (fun e => e.1 == x && e.2.1 == l && e.2.2.1 == s) with
  | some e => e.2.2.2
  | none => nan

def showValsFlags (r : List Float × List Bool) : String :=
  s!"vals={showList showFloat r.1} flags={showList showBool r.2}"

/-- `calc2 fn=<name> ...`: one generated function of `Gen/Calc2.lean` -/
def opCalc2 (a : Args) : Except String String := do
  let fn ← need a "fn" some
  let val (r : Except Err Float) : String := match r with
    | .ok v => "ok value=" ++ showFloat v | .error e => "err " ++ showErr e
  match fn with
  | "sensitivity" | "specificity" =>
    let ppf := ppfTab (← fl a "px") (← fl a "pz")
    let f := if fn == "sensitivity" then Gen.sensitivity (F := Float) else Gen.specificity (F := Float)
    match f ppf (← fl a "a") (← fl a "b") (← fl a "alpha") (← need a "confint" some) with
    | .ok r => pure ("ok " ++ showResults r) | .error e => pure ("err " ++ showErr e)
  | "ppv_converter" => pure (val (Gen.ppv_converter (← fl a "a") (← fl a "b") (← fl a "c")))
  | "npv_converter" => pure (val (Gen.npv_converter (← fl a "a") (← fl a "b") (← fl a "c")))
  | "logit" => pure (val (Gen.logit (← fl a "a")))
  | "inverse_logit" => pure (val (Gen.inverse_logit (← fl a "a")))
  | "s_value" => pure (val (Gen.s_value (← fl a "a")))
  | "screening_cost_analyzer" =>
    match Gen.screening_cost_analyzer (← fl a "a") (← fl a "b") (← fl a "c") (← fl a "d") (← fl a "e") (← fl a "f") with
    | .ok r => pure ("ok " ++ showValsFlags r) | .error e => pure ("err " ++ showErr e)
  | "rubins_rules" =>
    match Gen.rubins_rules (← fls a "pts") (← fls a "ses") with
    | .ok r => pure s!"ok est={showFloat r.1} se={showFloat r.2}" | .error e => pure ("err " ++ showErr e)
  | "semibayes" =>
    let ppf := ppfTab (← fl a "px") (← fl a "pz")
    -- the compatibility check (norm.sf) does not enter the returned tuple
    match Gen.semibayes ppf (fun _ => nan) (← fl a "m0") (← fl a "pl") (← fl a "pu") (← fl a "m") (← fl a "l") (← fl a "u")
        (← need a "ln" parseBool) (← fl a "alpha") with
    | .ok r => pure s!"ok point={showFloat r.1} lower={showFloat r.2.1} upper={showFloat r.2.2}"
    | .error e => pure ("err " ++ showErr e)
  | "counternull_pvalue" =>
    let ppf := ppfTab (← fl a "px") (← fl a "pz")
    let t ← fls a "cdf"
    let tab := match t with
      | [x1, l1, s1, v1, x2, l2, s2, v2] => [(x1, l1, s1, v1), (x2, l2, s2, v2)]
      | _ => []
    match Gen.counternull_pvalue ppf (cdfTab tab) (← fl a "e") (← fl a "l") (← fl a "u") (← need a "sided" some)
        (← fl a "alpha") with
    | .ok r => pure ("ok " ++ showValsFlags r) | .error e => pure ("err " ++ showErr e)
  | _ => throw ("unknown-fn:" ++ fn)

/-- `diag cls=Se|Sp|Diag e=<test results> d=<disease> alpha= px= pz=`: `fit` of the three diagnostic classes -/
def opDiag (a : Args) : Except String String := do
  let cls ← need a "cls" some
  let ppf := ppfTab (← fl a "px") (← fl a "pz")
  let alpha ← fl a "alpha"
  let e ← need a "e" (parseOptList parseNat)
  let d ← need a "d" (parseOptList parseBool)
  let rows := mkRows e d []
  let one (tag : String) (r : Results Float) : String :=
    s!"{tag}point={showFloat r.point} {tag}lower={showFloat r.lower} {tag}upper={showFloat r.upper} {tag}se={showFloat r.se}"
  match cls with
  | "Se" => match Gen.Sensitivity_fit ppf rows alpha with
    | .ok r => pure ("ok " ++ one "se_" r) | .error e => pure ("err " ++ showErr e)
  | "Sp" => match Gen.Specificity_fit ppf rows alpha with
    | .ok r => pure ("ok " ++ one "sp_" r) | .error e => pure ("err " ++ showErr e)
  | "Diag" => match Gen.Diagnostics_fit ppf rows alpha with
    | .ok (s, p) => pure ("ok " ++ one "se_" s ++ " " ++ one "sp_" p) | .error e => pure ("err " ++ showErr e)
  | _ => throw ("unknown-cls:" ++ cls)

/-- `icr b=<b10,b01,b11> v=<v10,v01,v11,c1001,c1011,c0111> alpha= px= pz=`: `interaction_contrast_ratio(ci='delta')` from
    the fitted coefficients and their covariance entries -/
def opIcr (a : Args) : Except String String := do
  let ppf := ppfTab (← fl a "px") (← fl a "pz")
  match (← fls a "b"), (← fls a "v") with
  | [b10, b01, b11], [v10, v01, v11, c1001, c1011, c0111] =>
    let r := Gen.icr_delta ppf b10 b01 b11 v10 v01 v11 c1001 c1011 c0111 (← fl a "alpha")
    pure s!"ok point={showFloat r.1} lower={showFloat r.2.1} upper={showFloat r.2.2}"
  | _, _ => throw "bad-arg:b/v"

def opsC06Calc : OpTable := [("calc2", opCalc2), ("diag", opDiag), ("icr", opIcr)]

end ZVD
