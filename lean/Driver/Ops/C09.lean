/-
Driver op for C09: run an estimator model of `Model/Std.lean` / `Model/Generalize.lean` /
`Model/Replicate.lean` on the data with an integer weights column (`weighted`) and on the physically
replicated data (`replicated`), at the exact carrier `Rat`, and report both results and whether they are
identical.  Per-row fitted values (indexed by the id of the original row, so that the copies carry the
value of their original) come from the harness.
    c09 est=<std|iptw|stoch|gform|gtrans|aipw|snm> s= a= y= k= [obs=] <estimator arguments>
    c09surv pid= t= h= k= times=            (k constant within a person)
    c09survrows pid= t= h= k= times=        (k per person-period row)
-/
import Driver.Ops.Std
import ZepidVerif.Model.Replicate
import ZepidVerif.Gen.Snm
import ZepidVerif.Gen.Transport
namespace ZVD
open ZV ZV.Std

/-- rows with integer weights from `s= a= y= k= [obs=]` (`y` may contain `_`) -/
def parseRowsK (a : Args) : Except String (List (Row Rat × Nat)) := do
  let rows : List (Row Rat) ← parseRows (F := Rat) (a.filter (·.1 != "w"))
  let k ← nats a "k"
  if k.length ≠ rows.length then throw "bad-arg:lengths"
  pure (rows.zip k)

/-- print pairs (name, value on weighted, value on replicated) and the overall identity flag -/
def showPairs (ps : List (String × Rat × Rat)) : String :=
  let body := " ".intercalate (ps.map fun (n, w, r) => s!"w_{n}={showRat w} r_{n}={showRat r}")
  let same := ps.all fun (_, w, r) => w == r
  s!"ok {body} same={showBool same}"

def qFun (q1 q0 : Array Rat) : Row Rat → Bool → Rat := fun r arm => if arm then look q1 r else look q0 r

def opC09 (a : Args) : Except String String := do
  let lw ← parseRowsK a
  let W := weighted lw
  let R := replicated lw
  let est ← need a "est" some
  let both := fun (n : String) (f : List (Row Rat) → Rat) => (n, f W, f R)
  match est with
  | "std" =>
    let S := strataOf W
    pure (showPairs ([Tgt.pop, Tgt.exposed, Tgt.unexposed].flatMap fun t =>
      [both (t.str ++ "1") (fun l => std l S t.mem true), both (t.str ++ "0") (fun l => std l S t.mem false)]))
  | "iptw" =>
    let stab ← need a "stab" parseBool
    let t ← need a "tgt" parseTgt
    let n : Array Rat ← vals a "n"
    let d : Array Rat ← vals a "d"
    let mw : Array Rat ← vals a "mw"
    let ω := iptwOmega stab t (look n) (look d) (look mw)
    pure (showPairs [both "m1" (fun l => hajek l ω true), both "m0" (fun l => hajek l ω false)])
  | "stoch" =>
    let om : Array Rat ← vals a "omega"
    pure (showPairs [both "m" (fun l => stochIptw l (look om))])
  | "gform" =>
    let t ← need a "tgt" parseTgt
    let q1 : Array Rat ← vals a "q1"
    let q0 : Array Rat ← vals a "q0"
    -- `pm=0`: predict_missing=False, rows with a missing outcome leave the target
    let pm ← match a.get? "pm" with | some _ => need a "pm" parseBool | none => pure true
    let tm : Row Rat → Bool := fun r => t.mem r && (pm || r.obs)
    pure (showPairs [both "g1" (fun l => gformula l (qFun q1 q0) tm true),
                     both "g0" (fun l => gformula l (qFun q1 q0) tm false)])
  | "gtrans" =>
    let g ← need a "gen" parseBool
    let q1 : Array Rat ← vals a "q1"
    let q0 : Array Rat ← vals a "q0"
    -- the definition regenerated from `GTransportFormula.fit`: weight column in use on the weighted data, none on the
    -- replicated rows (`Props/C09_Transport.gtransport_fit_generated_replicate`)
    let gw := Gen.gtransport_fit g true W (qFun q1 q0)
    let gr := Gen.gtransport_fit g false R (qFun q1 q0)
    pure (showPairs [both "r1" (fun l => gtransport g l (qFun q1 q0) true),
                     both "r0" (fun l => gtransport g l (qFun q1 q0) false),
                     ("grd", gw.1, gr.1), ("grr", gw.2, gr.2)])
  | "aipw" =>
    let q1 : Array Rat ← vals a "q1"
    let q0 : Array Rat ← vals a "q0"
    let g1 : Array Rat ← vals a "g1"
    let g0 : Array Rat ← vals a "g0"
    let Q := qFun q1 q0
    pure (showPairs [both "diff" (fun l => aipwDiffW l Q (look g1) (look g0)),
                     both "am1" (fun l => aipwArmMean true l Q (look g1) (look g0)),
                     both "am0" (fun l => aipwArmMean false l Q (look g1) (look g0)),
                     both "y1" (fun l => aipw1 l Q (look g1) (look g0)),
                     both "y0" (fun l => aipw0 l Q (look g1) (look g0))])
  | "snm" =>
    let om : Array Rat ← vals a "omega"
    let pi : Array Rat ← vals a "pi"
    let nv ← need a "nv" parseNat
    let vs : List (Array Rat) ← (List.range nv).mapM fun j => vals a s!"v{j}"
    let idx := List.range nv
    let lhs := idx.flatMap fun j => idx.map fun k =>
      both s!"l{j}{k}" (fun l => snmLhs l (look om) (look pi) (look (vs.getD j #[])) (look (vs.getD k #[])))
    let rhs := idx.map fun j => both s!"r{j}" (fun l => snmRhs l (look om) (look pi) (look (vs.getD j #[])))
    -- the `lhm` / `rha` regenerated from `_closed_form_solver_` with the weight column chosen by the regenerated lines
    -- of `GEstimationSNM.fit`: IPMW x weight column on the weighted data, IPMW alone on the replicated rows
    -- (`Props/C09_Snm.snm_generated_replicate`); rows = `df.dropna()` = outcome observed
    let v : Nat → Row Rat → Rat := fun c r => look (vs.getD c #[]) r
    let gl := fun (hasW : Bool) (l : List (Row Rat)) (j k : Nat) =>
      Gen.snm_closed_lhm (fun r : Row Rat => r.an) (look pi) (fun r c => r.an * v c r) (fun r c => r.y * v c r)
        (Gen.snm_fit_weight_col true hasW (fun r : Row Rat => r.w) (look om)) (l.filter fun r => r.obs) j k
    let gr := fun (hasW : Bool) (l : List (Row Rat)) (j : Nat) =>
      Gen.snm_closed_rha (fun r : Row Rat => r.an) (look pi) (fun r c => r.an * v c r) (fun r c => r.y * v c r)
        (Gen.snm_fit_weight_col true hasW (fun r : Row Rat => r.w) (look om)) (l.filter fun r => r.obs) j
    let glhs := idx.flatMap fun j => idx.map fun k => (s!"gl{j}{k}", gl true W j k, gl false R j k)
    let grhs := idx.map fun j => (s!"gr{j}", gr true W j, gr false R j)
    pure (showPairs (lhs ++ rhs ++ glhs ++ grhs ++ [both "psi1" (fun l => snmPsi1 l (look om) (look pi))]))
  | _ => throw "bad-arg:est"

/-- persons from long-format rows sorted by (pid, time): `pid= t= h= k=` (k constant within a person) -/
def groupPersons : List Nat → List Nat → List Rat → List Nat → List (Person Rat × Nat)
  | p :: ps, t :: ts, h :: hs, k :: ks =>
    match groupPersons ps ts hs ks with
    | (q, kq) :: rest => if q.pid == p then ({ q with h := (t, h) :: q.h }, kq) :: rest
                         else (⟨p, 0, [(t, h)]⟩, k) :: (q, kq) :: rest
    | [] => [(⟨p, 0, [(t, h)]⟩, k)]
  | _, _, _, _ => []

def opC09Surv (a : Args) : Except String String := do
  let pid ← nats a "pid"
  let t ← nats a "t"
  let h ← rts a "h"
  let k ← nats a "k"
  let times ← nats a "times"
  if pid.length ≠ t.length ∨ pid.length ≠ h.length ∨ pid.length ≠ k.length then throw "bad-arg:lengths"
  let P := groupPersons pid t h k
  let W := weightedP P
  let R := replicatedP P
  pure (showPairs (times.map fun tt => (s!"t{tt}", survMarginal W tt, survMarginal R tt)) ++ s!" persons={P.length}")

/-- individuals with a weight on every row, from long-format rows sorted by (pid, time): `pid= t= h= k=` -/
def groupRows : List Nat → List Nat → List Rat → List Nat → List (Nat × List (Nat × Rat × Nat))
  | p :: ps, t :: ts, h :: hs, k :: ks =>
    match groupRows ps ts hs ks with
    | (q, rows) :: rest => if q == p then (q, (t, h, k) :: rows) :: rest else (p, [(t, h, k)]) :: (q, rows) :: rest
    | [] => [(p, [(t, h, k)])]
  | _, _, _, _ => []

/-- `c09survrows`: row-level weights (theorem `survival_replicate_rows`); `mono` reports its hypothesis -/
def opC09SurvRows (a : Args) : Except String String := do
  let pid ← nats a "pid"
  let t ← nats a "t"
  let h ← rts a "h"
  let k ← nats a "k"
  let times ← nats a "times"
  if pid.length ≠ t.length ∨ pid.length ≠ h.length ∨ pid.length ≠ k.length then throw "bad-arg:lengths"
  let P := (groupRows pid t h k).map (·.2)
  let R := replicatedRows P
  let mono := P.all fun p => nonIncreasing p
  pure (showPairs (times.map fun tt => (s!"t{tt}", survMarginalRows P tt, survMarginal R tt))
    ++ s!" persons={P.length} copies={R.length} mono={showBool mono}")

def opsC09 : OpTable := [("c09", opC09), ("c09surv", opC09Surv), ("c09survrows", opC09SurvRows)]

end ZVD
