/- Driver ops for C12: IterativeCondGFormula / TimeFixedGFormula slice (`ZV.Ice`) and SurvivalGFormula (`ZV.SurvGF`),
   all at the exact carrier `Rat`. -/
import Driver.Common
import ZepidVerif.Model.Ice
import ZepidVerif.Model.SurvGF
import ZepidVerif.Gen.SurvGF
import ZepidVerif.Gen.IceStep
namespace ZVD
open ZV

/-- split a flat row-major list into rows of width `w` (`w = 0`: no rows) -/
partial def chunk {α} (w : Nat) (l : List α) : List (List α) :=
  if w = 0 then [] else if l.isEmpty then [] else l.take w :: chunk w (l.drop w)

def mkWRows (K : Nat) (a : List Bool) (l : List Nat) (y : List (Option Nat)) : List Ice.WRow :=
  let rec go : List (List Bool) → List (List Nat) → List (List (Option Nat)) → List Ice.WRow
    | a :: as, l :: ls, y :: ys => ⟨a, l, y⟩ :: go as ls ys
    | _, _, _ => []
  go (chunk K a) (chunk K l) (chunk K y)

/-- digits of `code` in base `b`, least significant first, exactly `len` of them -/
def digits (b : Nat) : Nat → Nat → List Nat
  | 0, _ => []
  | len + 1, code => (code % b) :: digits b len (code / b)

/-- the fitted-value table sent by the harness: entry `i` is the step-`mk[i]` model's prediction at the
    treatment history coded by `ma[i]` (bit `j` = treatment at time `j`) and covariate history `ml[i]` (base `mb`) -/
def muTable (a : Args) : Except String (List ((List Bool × List Nat) × Rat)) := do
  let mk ← match a.get? "mk" with | some _ => nats a "mk" | none => pure []
  let ma ← match a.get? "ma" with | some _ => nats a "ma" | none => pure []
  let ml ← match a.get? "ml" with | some _ => nats a "ml" | none => pure []
  let mv ← match a.get? "mv" with | some _ => rts a "mv" | none => pure []
  let mb ← match a.get? "mb" with | some _ => need a "mb" parseNat | none => pure 2
  if mk.length ≠ ma.length ∨ mk.length ≠ ml.length ∨ mk.length ≠ mv.length then throw "bad-arg:mu-table" else
  let rec go : List Nat → List Nat → List Nat → List Rat → List ((List Bool × List Nat) × Rat)
    | k :: ks, ca :: cas, cl :: cls, v :: vs =>
      (((digits 2 (k + 1) ca).map (· == 1), digits mb (k + 1) cl), v) :: go ks cas cls vs
    | _, _, _, _ => []
  pure (go mk ma ml mv)

def muFun (tab : List ((List Bool × List Nat) × Rat)) : List Bool → List Nat → Rat :=
  fun ab lb => match tab.lookup (ab, lb) with | some v => v | none => 0

/-- the keys of steps `from..K-1` the recursion can ask for -/
def neededKeys (K fromK : Nat) (plans : List (List Bool)) (rows : List Ice.WRow) : List (List Bool × List Nat) :=
  (List.zipWith (fun g (r : Ice.WRow) =>
    ((List.range K).filter (fun k => decide (fromK ≤ k))).map fun k => (g.take (k + 1), r.ls.take (k + 1))) plans rows).flatten

def parsePlan_C12 (a : Args) : Except String Ice.Plan := do
  let kind ← need a "plan" some
  let g ← bools a "g"
  if kind == "single" then pure (.single g)
  else if kind == "matrix" then
    let w ← need a "gw" parseNat
    pure (.matrix (chunk w g))
  else throw "bad-arg:plan"

def wideArgs (a : Args) : Except String (Nat × List Ice.WRow) := do
  let K ← need a "K" parseNat
  let av ← bools a "a"
  let lv ← nats a "l"
  let yv ← need a "y" (parseOptList parseNat)
  if av.length ≠ lv.length ∨ av.length ≠ yv.length ∨ (K ≠ 0 ∧ av.length % K ≠ 0) then throw "bad-arg:shape" else
  pure (K, mkWRows K av lv yv)

def showOptRat (x : Option Rat) : String := match x with | some v => showRat v | none => "_"

/-- `IterativeCondGFormula(df, exposures, outcomes)` + `outcome_model` (iff `spec=1`) + `fit(treatments)` -/
def opIceFit (a : Args) : Except String String := do
  let (K, rows) ← wideArgs a
  let nexp ← need a "nexp" parseNat
  let nout ← need a "nout" parseNat
  let spec ← need a "spec" parseBool
  let plan ← parsePlan_C12 a
  let tab ← muTable a
  match Ice.construct rows nexp nout with
  | .error e => pure ("err " ++ showErr e)
  | .ok () =>
    match Ice.expandPlan rows.length K plan with
    | .ok P =>
      if spec && !(neededKeys K 0 P rows).all (fun key => (tab.lookup key).isSome) then throw "missing-mu" else
      match Ice.fit (F := Rat) spec (muFun tab) plan rows K with
      | .ok v => pure ("ok value=" ++ showRat v)
      | .error e => pure ("err " ++ showErr e)
    | .error _ =>
      match Ice.fit (F := Rat) spec (muFun tab) plan rows K with
      | .ok v => pure ("ok value=" ++ showRat v)
      | .error e => pure ("err " ++ showErr e)

/-- the pseudo-outcome column the step-`k` model is fitted to, given the fitted values of the later steps -/
def opIceQ (a : Args) : Except String String := do
  let (K, rows) ← wideArgs a
  let k ← need a "k" parseNat
  let plan ← parsePlan_C12 a
  let tab ← muTable a
  match Ice.expandPlan rows.length K plan with
  | .error e => pure ("err " ++ showErr e)
  | .ok P =>
    if !(neededKeys K (k + 1) P rows).all (fun key => (tab.lookup key).isSome) then throw "missing-mu" else
    let q := List.zipWith (fun g r => Ice.pseudoAt (F := Rat) (muFun tab) g r k) P rows
    pure ("ok q=" ++ showList showOptRat q)

/-- the nonparametric g-formula by direct stratification, with the hypotheses of `ice_eq_npgformula` it needs -/
def opIceNpg (a : Args) : Except String String := do
  let (K, rows) ← wideArgs a
  let g ← bools a "g"
  let levels ← nats a "levels"
  let wf := Ice.wellFormed K rows && decide (g.length = K) && decide (0 < K)
  let st := rows.all fun r => Ice.survType r.ys
  let cov := Ice.levelsCover levels rows && decide levels.Nodup
  let pos := Ice.planPositive levels g rows K
  let v : Rat := Ice.npg levels g rows K
  pure s!"ok value={showRat v} wf={showBool wf} surv={showBool st} cover={showBool cov} pos={showBool pos}"

/-- `TimeFixedGFormula(...).fit('all'/'none', predict_missing)`; the fit is a table over (a, l) -/
def opTfFit (a : Args) : Except String String := do
  let av ← bools a "a"
  let lv ← nats a "l"
  let yv ← need a "y" (parseOptList parseNat)
  let treat ← need a "treat" parseBool
  let pm ← need a "pm" parseBool
  let ta ← bools a "ta"; let tl ← nats a "tl"; let tv ← rts a "tv"
  if av.length ≠ lv.length ∨ av.length ≠ yv.length ∨ ta.length ≠ tl.length ∨ ta.length ≠ tv.length then
    throw "bad-arg:shape" else
  let tab := (ta.zip tl).zip tv
  let rows : List Ice.TRow := ((av.zip lv).zip yv).map fun ((a, l), y) => ⟨a, l, y⟩
  if !(rows.all fun r => (tab.lookup (treat, r.l)).isSome) then throw "missing-mu" else
  let μ : Bool → Nat → Rat := fun b l => match tab.lookup (b, l) with | some v => v | none => 0
  pure ("ok value=" ++ showRat (Ice.tfMarginal μ treat pm rows))

def longRows (a : Args) : Except String (List (SurvGF.LRow Rat)) := do
  let id ← nats a "id"; let t ← nats a "t"; let av ← bools a "a"; let y ← nats a "y"
  let c ← bools a "c"; let ok ← bools a "ok"
  let h1 ← match a.get? "h1" with | some _ => rts a "h1" | none => pure (id.map fun _ => (0 : Rat))
  let h0 ← match a.get? "h0" with | some _ => rts a "h0" | none => pure (id.map fun _ => (0 : Rat))
  let n := id.length
  if t.length ≠ n ∨ av.length ≠ n ∨ y.length ≠ n ∨ c.length ≠ n ∨ ok.length ≠ n ∨ h1.length ≠ n ∨ h0.length ≠ n then
    throw "bad-arg:shape" else
  let rec go : List Nat → List Nat → List Bool → List Nat → List Bool → List Bool → List Rat → List Rat →
      List (SurvGF.LRow Rat)
    | i :: is, t :: ts, a :: as, y :: ys, c :: cs, o :: os, p :: ps, q :: qs =>
      ⟨i, t, a, y, c, o, p, q⟩ :: go is ts as ys cs os ps qs
    | _, _, _, _, _, _, _, _ => []
  pure (go id t av y c ok h1 h0)

def parseSPlan (s : String) : Option SurvGF.Plan :=
  if s == "all" then some .all else if s == "none" then some .none
  else if s == "natural" then some .natural else if s == "custom" then some .custom else none

/-- `SurvivalGFormula.fit(treatment)`: `predicted_df` (sorted) and `marginal_outcome` -/
def opSgfRun (a : Args) : Except String String := do
  let rows ← longRows a
  let p ← need a "plan" parseSPlan
  let s := SurvGF.prep rows
  let ci := SurvGF.cumInc p rows
  let tm := SurvGF.times rows
  let mg := SurvGF.marginal p rows
  pure (s!"ok sid={showList toString (s.map (·.id))} st={showList toString (s.map (·.t))} " ++
    s!"ci={showList showRat ci} times={showList toString tm} marg={showList showRat mg}")

/-- product-limit cumulative incidence of arm `arm` at every observed time (`_` where the arm's risk set is empty
    at or before that time), and whether the table has person-period structure -/
def opSgfPl (a : Args) : Except String String := do
  let rows ← longRows a
  let arm ← need a "arm" parseBool
  let tm := SurvGF.times rows
  let pl : List (Option Rat) := tm.map fun t =>
    if SurvGF.armPositive rows arm t then some (SurvGF.productLimit rows arm t) else none
  pure (s!"ok times={showList toString tm} pl={showList showOptRat pl} pp={showBool (SurvGF.personPeriod rows)} " ++
    s!"bin={showBool (rows.all fun r => decide (r.y ≤ 1))}")

/-- the definition regenerated from the text of `SurvivalGFormula.fit` (`Gen.survgf_fit`), run on the prepared table
    (the harness sends the complete records already sorted by (id, time)): `predicted_df[outcome]` and
    `marginal_outcome` at the observed times -/
def opSgfGen (a : Args) : Except String String := do
  let rows ← longRows a
  let plan ← need a "treatment" some
  if SurvGF.prep rows != rows then throw "bad-arg:not-prepared" else
  let out := Gen.survgf_fit (F := Rat) plan (fun b r => if b then r.h1 else r.h0) rows
  let tm := SurvGF.times rows
  pure (s!"ok ci={showList showRat out.2} times={showList toString tm} marg={showList showRat (tm.map out.1)}")

/-- the backward recursion of `IterativeCondGFormula.fit` run with the *generated* statements (`Gen.ice_pseudo`,
    `Gen.ice_pred`, `Gen.ice_marginal`); the loop is the driver's -/
def predFromGen (μ : List Bool → List Nat → Rat) (g : List Bool) (ls : List Nat) :
    Nat → List (Option Nat) → Option Rat
  | _, [] => none
  | k, y :: rest =>
    Gen.ice_pred (Gen.ice_pseudo (predFromGen μ g ls (k + 1) rest) (y.map fun v => ((v : Nat) : Rat)))
      (μ (g.take (k + 1)) (ls.take (k + 1)))

def opIceFitGen (a : Args) : Except String String := do
  let (K, rows) ← wideArgs a
  let plan ← parsePlan_C12 a
  let tab ← muTable a
  match Ice.expandPlan rows.length K plan with
  | .error e => pure ("err " ++ showErr e)
  | .ok P =>
    if !(neededKeys K 0 P rows).all (fun key => (tab.lookup key).isSome) then throw "missing-mu" else
    let col := List.zipWith (fun g (r : Ice.WRow) => predFromGen (muFun tab) g r.ls 0 r.ys) P rows
    pure ("ok value=" ++ showRat (Gen.ice_marginal col))

def opsC12 : OpTable :=
  [("ice_fit", opIceFit), ("ice_q", opIceQ), ("ice_npg", opIceNpg), ("tf_fit", opTfFit),
   ("sgf_run", opSgfRun), ("sgf_pl", opSgfPl), ("sgf_gen", opSgfGen), ("ice_fit_gen", opIceFitGen)]

end ZVD
