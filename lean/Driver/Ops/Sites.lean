/- Driver ops for the call sites regenerated into `Gen/Sites.lean` (C16 / C17): the per-row lines of
   `IPSW.sampling_model`, `AIPSW.sampling_model`, `GEstimationSNM.missing_model`, Float carrier.
     site kind=ipsw    gen= stab= spec= falsy= d= n=          -> d= n= w=   (stored __denom__, __numer__, __ipsw__)
     site kind=aipsw   gen= stab= sample= d= n=               -> d= n= w=
     site kind=snmmiss stab= spec= falsy= obs= d= n=          -> w=         (NaN where the outcome is missing)
   `d`, `n` = the raw predictions of the denominator / numerator model for each row. -/
import Driver.Ops.C17
import ZepidVerif.Gen.Sites
namespace ZVD
open ZV

def opSite (a : Args) : Except String String := do
  let kind ← need a "kind" some
  let stab ← need a "stab" parseBool
  let d ← fls a "d"
  let n ← fls a "n"
  if d.length ≠ n.length then throw "bad-arg:lengths"
  let sh3 := fun (out : List (Float × Float × Float)) =>
    s!"ok d={showList (fun r => showFloat r.1) out} n={showList (fun r => showFloat r.2.1) out} w={showList (fun r => showFloat r.2.2) out}"
  match kind with
  | "aipsw" =>
    let gen ← need a "gen" parseBool
    let smp ← bools a "sample"
    if smp.length ≠ d.length then throw "bad-arg:lengths"
    pure (sh3 ((zip3 smp d n).map fun (s, pd, pn) => Gen.aipsw_sampling_row gen stab s pd pn))
  | "ipsw" | "snmmiss" =>
    let spec ← need a "spec" parseSpec
    let falsy ← need a "falsy" parseBool
    match Bounds.estimatorBound falsy spec with
    | .error e => pure ("err " ++ showErr e)
    | .ok iv =>
      if kind == "ipsw" then
        let gen ← need a "gen" parseBool
        pure (sh3 ((d.zip n).map fun (pd, pn) => Gen.ipsw_sampling_row (Bounds.applyB iv) gen stab iv.isSome pd pn))
      else
        let obs ← bools a "obs"
        if obs.length ≠ d.length then throw "bad-arg:lengths"
        let out := (zip3 obs d n).map fun (o, pd, pn) => Gen.snm_missing_row (Bounds.applyB iv) stab iv.isSome o nan pd pn
        pure s!"ok w={showList showFloat out}"
  | _ => throw ("unknown-kind:" ++ kind)

def opsSites : OpTable := [("site", opSite)]

end ZVD
