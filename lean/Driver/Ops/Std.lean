/-
Driver ops for the standardization family (C01, C02, C05, C09, C10, C14, C16): the closed form
`std` and the estimator models of `Model/Std.lean`, at carrier `Rat` (exact; default) or `Float`
(`c=f`).  Per-row fitted values come from the harness (they are parameters of the model).
-/
import Driver.Common
import ZepidVerif.Model.Std
import ZepidVerif.Model.Generalize
import ZepidVerif.Gen.Fit
namespace ZVD
open ZV ZV.Std

/-- what a carrier needs to cross the line protocol -/
class Carrier (F : Type) where
  parse : String → Option F
  shw : F → String
instance : Carrier Rat := ⟨parseRat, showRat⟩
instance : Carrier Float := ⟨fun s => if s.startsWith "x" then parseFloat s else (parseRat s).map (fun q => Float.ofInt q.num / Float.ofNat q.den), showFloat⟩

section
variable {F : Type} [Carrier F] [Add F] [Sub F] [Mul F] [Div F] [Neg F] [NatCast F]
  [LT F] [LE F] [DecidableLT F] [DecidableLE F] [Transc F]

def vals (a : Args) (k : String) : Except String (Array F) :=
  (need a k (parseList (Carrier.parse (F := F)))).map List.toArray

/-- rows from `s= a= y= w= `; `y` may contain `_` (outcome missing); `w` optional (default 1) -/
def parseRows (a : Args) : Except String (List (Row F)) := do
  let s ← nats a "s"
  let tr ← bools a "a"
  let y ← need a "y" (parseOptList (Carrier.parse (F := F)))
  let w : List F ← match a.get? "w" with
    | some _ => need a "w" (parseList (Carrier.parse (F := F)))
    | none => pure (s.map fun _ => ((1 : Nat) : F))
  -- optional `obs=`: explicit flags (a row may then carry an outcome value and still be unobserved / non-sampled)
  let ob : List (Option Bool) ← match a.get? "obs" with
    | some _ => (need a "obs" (parseList parseBool)).map (·.map some)
    | none => pure (s.map fun _ => none)
  if s.length ≠ tr.length ∨ s.length ≠ y.length ∨ s.length ≠ w.length ∨ s.length ≠ ob.length then
    throw "bad-arg:lengths"
  let rec go (i : Nat) : List Nat → List Bool → List (Option F) → List F → List (Option Bool) → List (Row F)
    | s :: ss, t :: ts, y :: ys, w :: ws, o :: os =>
      (match y with
        | some v => ⟨i, s, t, v, w, o.getD true⟩
        | none => ⟨i, s, t, ((0 : Nat) : F), w, false⟩) :: go (i + 1) ss ts ys ws os
    | _, _, _, _, _ => []
  pure (go 0 s tr y w ob)

def strataOf (l : List (Row F)) : List Nat := (l.map (·.s)).eraseDups

def parseTgt (s : String) : Option Tgt :=
  if s == "population" then some .pop else if s == "exposed" then some .exposed
  else if s == "unexposed" then some .unexposed else none

def look (arr : Array F) (r : Row F) : F := arr.getD r.i ((0 : Nat) : F)

def sh (x : F) : String := Carrier.shw x

/-- the six standardized means of a data set -/
def opStdG (a : Args) : Except String String := do
  let l : List (Row F) ← parseRows a
  let S := strataOf l
  let f := fun (t : Tgt) (arm : Bool) => sh (std l S t.mem arm)
  pure s!"ok pop1={f .pop true} pop0={f .pop false} exp1={f .exposed true} exp0={f .exposed false} unx1={f .unexposed true} unx0={f .unexposed false} strata={S.length}"

/-- Hájek arm means under given per-row weights `omega` -/
def opHajekG (a : Args) : Except String String := do
  let l : List (Row F) ← parseRows a
  let om : Array F ← vals a "omega"
  pure s!"ok m1={sh (hajek l (look om) true)} m0={sh (hajek l (look om) false)}"

/-- IPTW: generated weight formula at per-row numerator `n`, denominator `d`, missingness weight `mw`
    → per-row weights and the two arm means of the saturated MSM -/
def opIptwG (a : Args) : Except String String := do
  let l : List (Row F) ← parseRows a
  let stab ← need a "stab" parseBool
  let t ← need a "tgt" parseTgt
  let n : Array F ← vals a "n"
  let d : Array F ← vals a "d"
  let mw : Array F ← vals a "mw"
  let ω := iptwOmega stab t (look n) (look d) (look mw)
  let ws := l.map fun r => Gen.iptw_weight stab t.str r.a (look n r) (look d r)
  pure s!"ok m1={sh (hajek l ω true)} m0={sh (hajek l ω false)} iptw={showList sh ws}"

def opGformG (a : Args) : Except String String := do
  let l : List (Row F) ← parseRows a
  let t ← need a "tgt" parseTgt
  let q1 : Array F ← vals a "q1"
  let q0 : Array F ← vals a "q0"
  let Q := fun (r : Row F) (arm : Bool) => if arm then look q1 r else look q0 r
  pure s!"ok g1={sh (gformula l Q t.mem true)} g0={sh (gformula l Q t.mem false)}"

def opAipwG (a : Args) : Except String String := do
  let l : List (Row F) ← parseRows a
  let q1 : Array F ← vals a "q1"
  let q0 : Array F ← vals a "q0"
  let g1 : Array F ← vals a "g1"
  let g0 : Array F ← vals a "g0"
  let Q := fun (r : Row F) (arm : Bool) => if arm then look q1 r else look q0 r
  pure s!"ok y1={sh (aipw1 l Q (look g1) (look g0))} y0={sh (aipw0 l Q (look g1) (look g0))}"

/-- IPSW: generated sampling weight (per-row numerator `ns`, denominator `ds`) × treatment weight `tw` -/
def opIpswG (a : Args) : Except String String := do
  let l : List (Row F) ← parseRows a
  let g ← need a "gen" parseBool
  let stab ← need a "stab" parseBool
  let ns : Array F ← vals a "ns"
  let ds : Array F ← vals a "ds"
  let tw : Array F ← vals a "tw"
  let ω := ipswOmega g stab (look ns) (look ds) (look tw)
  pure s!"ok r1={sh (ipsw l ω true)} r0={sh (ipsw l ω false)} w={showList sh (l.map fun r => Gen.ipsw_weight g stab (look ns r) (look ds r))}"

def opGtransG (a : Args) : Except String String := do
  let l : List (Row F) ← parseRows a
  let g ← need a "gen" parseBool
  let q1 : Array F ← vals a "q1"
  let q0 : Array F ← vals a "q0"
  let Q := fun (r : Row F) (arm : Bool) => if arm then look q1 r else look q0 r
  pure s!"ok r1={sh (gtransport g l Q true)} r0={sh (gtransport g l Q false)}"

def opAipswG (a : Args) : Except String String := do
  let l : List (Row F) ← parseRows a
  let g ← need a "gen" parseBool
  let stab ← need a "stab" parseBool
  let ns : Array F ← vals a "ns"
  let ds : Array F ← vals a "ds"
  let tw : Array F ← vals a "tw"
  let q1 : Array F ← vals a "q1"
  let q0 : Array F ← vals a "q0"
  let Q := fun (r : Row F) (arm : Bool) => if arm then look q1 r else look q0 r
  let ω := aipswOmega g stab (look ns) (look ds) (look tw)
  pure s!"ok r1={sh (aipsw g l Q ω true)} r0={sh (aipsw g l Q ω false)}"

/-- the definition *generated* from the text of `AIPSW.fit`, run on the implementation's own arrays -/
def opAipswFitG (a : Args) : Except String String := do
  let l : List (Row F) ← parseRows a
  let g ← need a "gen" parseBool
  let hasI ← need a "hasiptw" parseBool
  let ipsw : Array F ← vals a "ipsw"
  let iptw : Array F ← vals a "iptw"
  let q1 : Array F ← vals a "q1"
  let q0 : Array F ← vals a "q0"
  let (rd, rr) := Gen.aipsw_fit g false hasI l (look ipsw) (look iptw) (look q1) (look q0)
  pure s!"ok rd={sh rd} rr={sh rr}"

/-- generated `IPSW.fit` on the implementation's own arrays -/
def opIpswFitG (a : Args) : Except String String := do
  let l : List (Row F) ← parseRows a
  let hasW ← need a "hasw" parseBool
  let hasI ← need a "hasiptw" parseBool
  let sw : Array F ← vals a "ipsw"
  let tw : Array F ← vals a "iptw"
  let (rd, rr) := Gen.ipsw_fit hasW hasI l (look sw) (look tw)
  pure s!"ok rd={sh rd} rr={sh rr}"

/-- generated marginal-mean lines of `TimeFixedGFormula.fit` on the implementation's predictions -/
def opGfMargG (a : Args) : Except String String := do
  let l : List (Row F) ← parseRows a
  let hasW ← need a "hasw" parseBool
  let st ← need a "tgt" some
  let pred : Array F ← vals a "pred"
  pure s!"ok m={sh (Gen.gformula_marginal hasW st l (look pred) (fun _ => true))}"

/-- the definition generated from the text of `aipw_calculator` (splits=None): estimate and variance -/
def opAipwCalcG (a : Args) : Except String String := do
  let l : List (Row F) ← parseRows a
  let diff ← need a "difference" parseBool
  let hasW ← need a "hasw" parseBool
  let nanv : F ← need a "nan" (Carrier.parse (F := F))
  let q1 : Array F ← vals a "q1"
  let q0 : Array F ← vals a "q0"
  let g1 : Array F ← vals a "g1"
  let g0 : Array F ← vals a "g0"
  let (est, var) := Gen.aipw_calc diff hasW nanv l (look q1) (look q0) (look g1) (look g0)
  pure s!"ok est={sh est} var={sh var}"

/-- standardized means over the generalize / transport target -/
def opStdGenG (a : Args) : Except String String := do
  let l : List (Row F) ← parseRows a
  let S := strataOf l
  let f := fun (g : Bool) (arm : Bool) => sh (std l S (genTarget g) arm)
  pure s!"ok gen1={f true true} gen0={f true false} tr1={f false true} tr0={f false false}"

end

/-- choose the carrier by `c=f` (Float) / default Rat -/
def atCarrier (q : Args → Except String String) (f : Args → Except String String) (a : Args) :
    Except String String :=
  if a.get? "c" == some "f" then f a else q a

def opsStd : OpTable := [
  ("std", atCarrier (opStdG (F := Rat)) (opStdG (F := Float))),
  ("hajek", atCarrier (opHajekG (F := Rat)) (opHajekG (F := Float))),
  ("iptw", atCarrier (opIptwG (F := Rat)) (opIptwG (F := Float))),
  ("gform", atCarrier (opGformG (F := Rat)) (opGformG (F := Float))),
  ("aipw", atCarrier (opAipwG (F := Rat)) (opAipwG (F := Float))),
  ("ipsw", atCarrier (opIpswG (F := Rat)) (opIpswG (F := Float))),
  ("gtrans", atCarrier (opGtransG (F := Rat)) (opGtransG (F := Float))),
  ("aipsw", atCarrier (opAipswG (F := Rat)) (opAipswG (F := Float))),
  ("aipswfit", atCarrier (opAipswFitG (F := Rat)) (opAipswFitG (F := Float))),
  ("ipswfit", atCarrier (opIpswFitG (F := Rat)) (opIpswFitG (F := Float))),
  ("gfmarg", atCarrier (opGfMargG (F := Rat)) (opGfMargG (F := Float))),
  ("aipwcalc", atCarrier (opAipwCalcG (F := Rat)) (opAipwCalcG (F := Float))),
  ("stdgen", atCarrier (opStdGenG (F := Rat)) (opStdGenG (F := Float)))]

end ZVD
