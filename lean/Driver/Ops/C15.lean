/- Driver ops for C15: g-estimation of structural nested mean models (exact `Rat` carrier). -/
import Driver.Common
import ZepidVerif.Model.Snm
namespace ZVD
open ZV ZV.Snm

/-- split a row-major flattened matrix into rows of `p` entries -/
def chunkP {α} (p : Nat) : Nat → List α → List (List α)
  | 0, _ => []
  | n + 1, l => l.take p :: chunkP p n (l.drop p)

def mkSRows (p : Nat) (a y pi w v : List Rat) : Except String (List (SRow Rat)) := do
  let n := a.length
  if y.length ≠ n || pi.length ≠ n || w.length ≠ n || v.length ≠ n * p then throw "bad-arg:lengths"
  let vs := chunkP p n v
  let rec go : List Rat → List Rat → List Rat → List Rat → List (List Rat) → List (SRow Rat)
    | a :: as, y :: ys, q :: qs, w :: ws, v :: vs => ⟨a, y, q, w, v⟩ :: go as ys qs ws vs
    | _, _, _, _, _ => []
  pure (go a y pi w vs)

def readSRows (args : Args) : Except String (Nat × List (SRow Rat)) := do
  let p ← need args "p" parseNat
  let rows ← mkSRows p (← rts args "a") (← rts args "y") (← rts args "pi") (← rts args "w") (← rts args "v")
  pure (p, rows)

/-- closed-form psi (Cramer) and the determinant; `err singular` = LinAlgError -/
def opSnmClosed (args : Args) : Except String String := do
  let (p, rows) ← readSRows args
  if p = 0 || p > 3 then throw "unsupported-p"
  match closedForm rows p with
  | some psi => pure s!"ok psi={showList showRat psi} det={showRat (detLhm rows p)}"
  | none => pure "err singular"

/-- the estimating functions `E_j(psi)`, j < p, and `rha_j - (lhm psi)_j`, at a given psi -/
def opSnmEstEq (args : Args) : Except String String := do
  let (p, rows) ← readSRows args
  let psi ← rts args "psi"
  if psi.length ≠ p then throw "bad-arg:psi"
  let e := (List.range p).map (estEq rows p psi)
  let l := (List.range p).map (fun j => rha rows j - lhmApply rows p psi j)
  pure s!"ok e={showList showRat e} lin={showList showRat l}"

/-- stratified closed form for the one-parameter model: rows grouped by the stratum ids `s`
    (in order of first appearance); the stratum's `p_s` is the fitted value of its first row -/
def opSnmStrat (args : Args) : Except String String := do
  let (_, rows) ← readSRows args
  let s ← nats args "s"
  if s.length ≠ rows.length then throw "bad-arg:s"
  let ids := s.foldl (fun acc i => if acc.contains i then acc else acc ++ [i]) []
  let tagged := s.zip rows
  let strata : List (Rat × List (SRow Rat)) := ids.map fun i =>
    let l := (tagged.filter (·.1 == i)).map (·.2)
    (match l with | r :: _ => r.pi | [] => 0, l)
  let fitres := strata.map fun st => sumBy (fun r => r.w * (r.a - st.1)) st.2
  let arms := strata.all fun st => wTrt st.2 != 0 && wUnt st.2 != 0
  if !arms then pure "err emptyArm" else
  pure s!"ok psi={showRat (stratifiedPsi strata)} k={strata.length} fit={showList showRat fitres}"

def opsC15 : OpTable := [("snm_closed", opSnmClosed), ("snm_esteq", opSnmEstEq), ("snm_strat", opSnmStrat)]

end ZVD
