/- Driver ops for C15: g-estimation of structural nested mean models (exact `Rat` carrier). -/
import Driver.Common
import ZepidVerif.Model.Snm
import ZepidVerif.Gen.Snm
namespace ZVD
open ZV ZV.Snm

/-- split a row-major flattened matrix into rows of `p` entries -/
def chunkP {α} (p : Nat) : Nat → List α → List (List α)
  | 0, _ => []
  | n + 1, l => l.take p :: chunkP p n (l.drop p)

def mkSRows (p : Nat) (a y pi w v : List Rat) : Except String (List (SRow Rat)) := do
  let n := a.length
  if y.length ≠ n || pi.length ≠ n || w.length ≠ n || v.length ≠ n * p then throw "bad-arg:lengths"
  let vs := chunkP p n v
  let rec go : List Rat → List Rat → List Rat → List Rat → List (List Rat) → List (SRow Rat)
    | a :: as, y :: ys, q :: qs, w :: ws, v :: vs => ⟨a, y, q, w, v⟩ :: go as ys qs ws vs
    | _, _, _, _, _ => []
  pure (go a y pi w vs)

/-- one analysed row as `GEstimationSNM.fit` sees it: the model row (whose `w` is the user's weight column, 1 when
    there is none) and the missing-outcome weight `ipmw` (1 when no missing model was fitted) -/
abbrev GRow := SRow Rat × Rat

structure SnmIn where
  p : Nat
  hasIpmw : Bool
  hasWeight : Bool
  g : List GRow
  /-- the model's rows: `w` = the product of the weights in use -/
  rows : List (SRow Rat)

def readSnm (args : Args) : Except String SnmIn := do
  let p ← need args "p" parseNat
  let hasIpmw ← need args "hasipmw" parseBool
  let hasWeight ← need args "hasw" parseBool
  let uw ← rts args "uw"
  let ipmw ← rts args "ipmw"
  let urows ← mkSRows p (← rts args "a") (← rts args "y") (← rts args "pi") uw (← rts args "v")
  if ipmw.length ≠ urows.length then throw "bad-arg:lengths"
  let g := urows.zip ipmw
  let rows := g.map fun (r, m) =>
    { r with w := (if hasIpmw then m else 1) * (if hasWeight then r.w else 1) }
  pure ⟨p, hasIpmw, hasWeight, g, rows⟩

/-- the SNM design for treatment / treatment-covariate product terms (what patsy builds): value bound to the
    exposure's name times the modifier values of the row -/
def dmG (x : Rat) (r : GRow) (c : Nat) : Rat := x * nth r.1.v c

/-- closed-form psi through the code regenerated from `GEstimationSNM.fit` / `_closed_form_solver_`
    (`Gen.snm_fit_closed`; Cramer's rule stands for `np.linalg.solve`) and the determinant of the generated `lhm`;
    `hand` = the hand-written model's `closedForm` (equal by `Props/C15_Gen.snm_fit_closed_cramer`);
    `err singular` = LinAlgError -/
def opSnmClosed (args : Args) : Except String String := do
  let i ← readSnm args
  let p := i.p
  if p = 0 || p > 3 then throw "unsupported-p"
  let (psi, dt) := Gen.snm_fit_closed (fun S b => (cramer S b p, detP S p)) dmG i.hasIpmw i.hasWeight
    (fun r => r.1.a) (fun r => r.1.y) (fun r => r.1.w) (fun r => r.2) (fun r => r.1.pi) i.g
  let hand := match closedForm i.rows p with
    | some h => showList showRat h
    | none => "singular"
  match psi with
  | some psi => pure s!"ok psi={showList showRat psi} det={showRat dt} hand={hand}"
  | none => pure s!"err singular hand={hand}"

/-- at a given psi: the model's estimating functions `E_j(psi)` (`e`), `rha_j - (lhm psi)_j` with the regenerated
    `lhm`, `rha` of `_closed_form_solver_` under the weight column chosen by the regenerated `fit` (`lin`), and the
    estimating functions evaluated with the regenerated `H(psi)` of the search solver (`eg`) -/
def opSnmEstEq (args : Args) : Except String String := do
  let i ← readSnm args
  let p := i.p
  let psi ← rts args "psi"
  if psi.length ≠ p then throw "bad-arg:psi"
  let e := (List.range p).map (estEq i.rows p psi)
  let wc := Gen.snm_fit_weight_col i.hasIpmw i.hasWeight (fun r : GRow => r.1.w) (fun r => r.2)
  let sm : GRow → Nat → Rat := fun r c => dmG r.1.a r c
  let ym : GRow → Nat → Rat := fun r c => dmG r.1.y r c
  let L := Gen.snm_closed_lhm (fun r : GRow => r.1.a) (fun r => r.1.pi) sm ym wc i.g
  let b := Gen.snm_closed_rha (fun r : GRow => r.1.a) (fun r => r.1.pi) sm ym wc i.g
  let l := (List.range p).map fun j => b j - sumBy (fun k => L j k * nth psi k) (List.range p)
  let h := Gen.snm_search_hpsi p (nth psi) (fun r : SRow Rat => r.y) (fun r c => snmCol r c)
  let eg := (List.range p).map fun j => sumBy (fun r => dW r * nth r.v j * h r) i.rows
  pure s!"ok e={showList showRat e} lin={showList showRat l} eg={showList showRat eg}"

/-- the search solver's objective, regenerated from `_grid_search_`: `sum_j |alpha_j - shift_j|` -/
def opSnmObjective (args : Args) : Except String String := do
  let alpha ← rts args "alpha"
  let shift ← rts args "shift"
  if alpha.length ≠ shift.length then throw "bad-arg:lengths"
  pure s!"ok obj={showRat (Gen.snm_search_objective alpha.length (nth alpha) (nth shift))}"

/-- stratified closed form for the one-parameter model: rows grouped by the stratum ids `s`
    (in order of first appearance); the stratum's `p_s` is the fitted value of its first row -/
def opSnmStrat (args : Args) : Except String String := do
  let rows := (← readSnm args).rows
  let s ← nats args "s"
  if s.length ≠ rows.length then throw "bad-arg:s"
  let ids := s.foldl (fun acc i => if acc.contains i then acc else acc ++ [i]) []
  let tagged := s.zip rows
  let strata : List (Rat × List (SRow Rat)) := ids.map fun i =>
    let l := (tagged.filter (·.1 == i)).map (·.2)
    (match l with | r :: _ => r.pi | [] => 0, l)
  let fitres := strata.map fun st => sumBy (fun r => r.w * (r.a - st.1)) st.2
  let arms := strata.all fun st => wTrt st.2 != 0 && wUnt st.2 != 0
  if !arms then pure "err emptyArm" else
  pure s!"ok psi={showRat (stratifiedPsi strata)} k={strata.length} fit={showList showRat fitres}"

/-- split a flat list of factor ids at the separator 0 into terms -/
def splitTerms (l : List Nat) : List (List Nat) :=
  let r := l.foldr (fun x (acc : List Nat × List (List Nat)) =>
      if x = 0 then ([], acc.1 :: acc.2) else (x :: acc.1, acc.2)) ([], [])
  (r.1 :: r.2).filter (fun t => !t.isEmpty)

/-- the H(psi) terms of the search solver for the terms of the structural model (factor names numbered from 1, terms
    separated by 0, every term closed by a 0): the rewritten terms (`hTerm`), the effect modifiers of each term, and the
    value of each rewritten term's column in one row whose named values are `vals` (index = name id) and whose scratch
    column holds `hval` (`termVal (envH ..)`) -/
def opSnmHTerms (args : Args) : Except String String := do
  let treat ← need args "treat" parseNat
  let h ← need args "h" parseNat
  let terms := splitTerms (← nats args "terms")
  let vals ← rts args "vals"
  let hval ← rt args "hval"
  let env : Nat → Rat := nth vals
  let flat (ts : List (List Nat)) : List Nat := ts.flatMap (fun t => t ++ [0])
  let ht := terms.map (hTerm treat h)
  let mods := terms.map (modifiers treat)
  let col := ht.map (termVal (envH env h hval))
  pure s!"ok hterms={showList toString (flat ht)} mods={showList toString (flat mods)} col={showList showRat col}"

def opsC15 : OpTable := [("snm_closed", opSnmClosed), ("snm_esteq", opSnmEstEq), ("snm_strat", opSnmStrat),
  ("snm_objective", opSnmObjective), ("snm_hterms", opSnmHTerms)]

end ZVD
