/- Driver ops for C07 / C19: count calculators and data-frame effect-measure classes. -/
import Driver.Common
import ZepidVerif.Model.Measures
import ZepidVerif.Model.FrechetM
import ZepidVerif.Gen.Calc
import ZepidVerif.Gen.Frechet
namespace ZVD
open ZV

/-- the eight count-based calculators, dispatched by name (Float carrier; `infv` = +inf) -/
def calc4 (fn : String) (ppf : Float → Float) (a b c d alpha : Float) : Option (Except Err (Results Float)) :=
  match fn with
  | "risk_ratio" => some (Gen.risk_ratio ppf finf a b c d alpha)
  | "risk_difference" => some (Gen.risk_difference ppf finf a b c d alpha)
  | "number_needed_to_treat" => some (Gen.number_needed_to_treat ppf finf a b c d alpha)
  | "odds_ratio" => some (Gen.odds_ratio ppf finf a b c d alpha)
  | "incidence_rate_ratio" => some (Gen.incidence_rate_ratio ppf finf a b c d alpha)
  | "incidence_rate_difference" => some (Gen.incidence_rate_difference ppf finf a b c d alpha)
  | _ => none

def opCalc (a : Args) : Except String String := do
  let fn ← need a "fn" some
  let px ← fl a "px"; let pz ← fl a "pz"
  let ppf := ppfTab px pz
  let alpha ← fl a "alpha"
  match fn with
  | "risk_ci" =>
    let r := Gen.risk_ci ppf finf (← fl a "a") (← fl a "b") alpha (← need a "confint" some)
    match r with | .ok r => pure ("ok " ++ showResults r) | .error e => pure ("err " ++ showErr e)
  | "incidence_rate_ci" =>
    match Gen.incidence_rate_ci ppf finf (← fl a "a") (← fl a "b") alpha with
    | .ok r => pure ("ok " ++ showResults r) | .error e => pure ("err " ++ showErr e)
  | "attributable_community_risk" =>
    match Gen.attributable_community_risk ppf finf (← fl a "a") (← fl a "b") (← fl a "c") (← fl a "d") with
    | .ok r => pure ("ok value=" ++ showFloat r) | .error e => pure ("err " ++ showErr e)
  | "population_attributable_fraction" =>
    match Gen.population_attributable_fraction ppf finf (← fl a "a") (← fl a "b") (← fl a "c") (← fl a "d") with
    | .ok r => pure ("ok value=" ++ showFloat r) | .error e => pure ("err " ++ showErr e)
  | _ =>
    match calc4 fn ppf (← fl a "a") (← fl a "b") (← fl a "c") (← fl a "d") alpha with
    | some (.ok r) => pure ("ok " ++ showResults r)
    | some (.error e) => pure ("err " ++ showErr e)
    | none => throw ("unknown-fn:" ++ fn)

def mkRows (e : List (Option Nat)) (d : List (Option Bool)) (t : List (Option Float)) :
    List (Measures.MRow Float) :=
  let rec go : List (Option Nat) → List (Option Bool) → List (Option Float) → List (Measures.MRow Float)
    | e :: es, d :: ds, t :: ts => ⟨e, d, t⟩ :: go es ds ts
    | e :: es, d :: ds, [] => ⟨e, d, none⟩ :: go es ds []
    | _, _, _ => []
  go e d t

def opFrame (a : Args) : Except String String := do
  let cls ← need a "cls" some
  let ref ← need a "ref" parseNat
  let px ← fl a "px"; let pz ← fl a "pz"
  let ppf := ppfTab px pz
  let alpha ← fl a "alpha"
  let e ← need a "e" (parseOptList parseNat)
  let d ← need a "d" (parseOptList parseBool)
  let t ← match a.get? "t" with
    | some s => match parseOptList parseFloat s with | some l => pure l | none => throw "bad-arg:t"
    | none => pure []
  let rows := mkRows e d t
  let res : Except Err (List (Nat × Results Float)) ← match cls with
    | "RR" => pure (Measures.fitCounts (fun a b c d => Gen.risk_ratio ppf finf a b c d alpha) rows ref)
    | "RD" => pure (Measures.fitCounts (fun a b c d => Gen.risk_difference ppf finf a b c d alpha) rows ref)
    | "NNT" => pure (Measures.fitCounts (fun a b c d => Gen.number_needed_to_treat ppf finf a b c d alpha) rows ref)
    | "OR" => pure (Measures.fitCounts (fun a b c d => Gen.odds_ratio ppf finf a b c d alpha) rows ref)
    | "IRR" => pure (Measures.fitRates (fun a c t1 t2 => Gen.incidence_rate_ratio ppf finf a c t1 t2 alpha) rows ref)
    | "IRD" => pure (Measures.fitRates (fun a c t1 t2 => Gen.incidence_rate_difference ppf finf a c t1 t2 alpha) rows ref)
    | _ => throw ("unknown-cls:" ++ cls)
  match res with
  | .error e => pure ("err " ++ showErr e)
  | .ok rs =>
    let lv := rs.map (·.1)
    let fr := lv.map (fun i => Measures.frechet rows i)
    pure (s!"ok levels={showList toString lv} point={showList (fun r => showFloat r.2.point) rs} " ++
      s!"lower={showList (fun r => showFloat r.2.lower) rs} upper={showList (fun r => showFloat r.2.upper) rs} " ++
      s!"se={showList (fun r => showFloat r.2.se) rs} me={Measures.missingE rows} md={Measures.missingD rows} " ++
      s!"med={Measures.missingED rows} mt={Measures.missingT rows} n={(Measures.complete rows).length} " ++
      s!"frl={showList (fun p => showFloat p.1) fr} fru={showList (fun p => showFloat p.2) fr}")

/-- exact Fréchet bounds (Rat carrier) for a binary exposure given as lists -/
def opFrechetQ (a : Args) : Except String String := do
  let e ← need a "e" (parseOptList parseNat)
  let d ← need a "d" (parseOptList parseBool)
  let lvl ← need a "lvl" parseNat
  let rows : List (Measures.MRow Rat) := (e.zip d).map fun (e, d) => ⟨e, d, none⟩
  let (lo, hi) := Measures.frechet rows lvl
  pure s!"ok lower={showRat lo} upper={showRat hi}"

def opsC07 : OpTable := [("calc", opCalc), ("frame", opFrame), ("frechetq", opFrechetQ)]

end ZVD
