/- Driver ops for C20: SuperLearner folds / call sequence / coefficients / predict, StepwiseSL search. -/
import Driver.Common
import ZepidVerif.Model.SuperLearner
import ZepidVerif.Model.Stepwise
import ZepidVerif.Gen.Stack
import ZepidVerif.Model.StepwiseGen
namespace ZVD
open ZV ZV.SL

def showSLEv : SL.Ev → String
  | .fit r c rows => s!"F:{r}:{c}:{showList toString rows}"
  | .pred r c rows => s!"P:{r}:{c}:{showList toString rows}"

def showOptCoefs (c : Option (List Rat)) : String :=
  match c with | none => "nan" | some cs => showList showRat cs

/-- what `SuperLearner.fit` stores and whom it refits, **from the regenerated lines** (`Gen/Stack.lean`): Step 6
    (`sl_coefficients`), then Step 7.a (`sl_fit_discrete`) or 7.b (`sl_fit_full`).  The carrier has no NaN: numpy's
    all-NaN vector (`0 / 0`, thresholded sum zero) is reported as `none`, exactly the case `coef_nan_iff` describes;
    the refit decisions of the regenerated loops are taken on the carrier's value there (all comparisons false both
    for NaN and for the zero vector the carrier holds). -/
def genCoefs (thr : Rat) (discrete : Bool) (raw : List Rat) (m : Nat) : Option (List Rat) × List Nat :=
  let w := Gen.sl_coefficients thr raw
  let isNan := Np.sum (Np.maskSet raw (fun v => v < thr) ((0 : Nat) : Rat)) == 0
  if discrete then
    let r := Gen.sl_fit_discrete w m
    (some r.1, r.2.map Int.toNat)
  else
    (if isNan then none else some w, (Gen.sl_fit_full w m).map Int.toNat)

/-- the call sequence of `SuperLearner.fit` from the regenerated fold loop (`sl_cv_calls`, given `KFold`'s pairs) and
    the regenerated refit decisions -/
def genFitSchedule (n m : Nat) (folds : List (List Nat)) (keep : List Nat) : List SL.Ev :=
  (Gen.sl_cv_calls (folds.map (fun t => (trainRows n t, t))) m).flatMap
      (fun r => [SL.Ev.fit (r.1 - 1) r.2.1.toNat r.2.2.1, SL.Ev.pred (r.1 - 1) r.2.1.toNat r.2.2.2.1])
    ++ keep.map (fun c => SL.Ev.fit folds.length c (List.range n))

/-- `slfit n= k= m= thr= raw= discrete=`: folds (`KFold`, hand-modelled external), post-processed coefficients
    (exact), retained candidates and the complete call sequence of `SuperLearner.fit` — all **executed from the
    regenerated code**; `stored` = every record of the fold loop stores its predictions in the rows it predicted;
    `model` = the hand-written model of Props/C20.lean gives the same; `err badInput` when `KFold` rejects `(n, k)`. -/
def opSLFit (a : Args) : Except String String := do
  let n ← need a "n" parseNat
  let k ← need a "k" parseNat
  let m ← need a "m" parseNat
  let thr ← rt a "thr"
  let raw ← rts a "raw"
  let discrete ← need a "discrete" parseBool
  match kfold n k with
  | none => pure "err badInput"
  | some folds =>
    let (coefs, keep) := genCoefs thr discrete raw m
    let evs := genFitSchedule n m folds keep
    let mcoefs := coefficients thr discrete raw
    let agree := coefs == mcoefs && keep == retained mcoefs && evs == fitSchedule n m folds mcoefs
    let stored := (Gen.sl_cv_calls (folds.map (fun t => (trainRows n t, t))) m).all (fun r => r.2.2.2.2 == r.2.2.2.1)
    pure (s!"ok folds={";".intercalate (folds.map (showList toString))} coefs={showOptCoefs coefs} " ++
      s!"keep={showList toString keep} trace={"|".intercalate (evs.map showSLEv)} " ++
      s!"stored={showBool stored} model={showBool agree}")

def parseMatrix {α} (p : String → Option α) (s : String) : Option (List (List α)) :=
  if s == "" || s == "-" then some [] else (s.splitOn ";").mapM (parseList p)

/-- `slpredict loss=l2 coefs=<rat> preds=<row;row;…>` (exact) or `loss=nloglik b=<float> coefs=<float> preds=…`:
    the regenerated `predict` (`Gen.sl_predict_l2` / `Gen.sl_predict_nloglik`) per row; `model` = the hand-written
    `predictL2` / `predictNll` give the same (bit for bit at `Float`) -/
def opSLPredict (a : Args) : Except String String := do
  let loss ← need a "loss" some
  if loss == "l2" then
    let coefs ← rts a "coefs"
    let rows ← need a "preds" (parseMatrix parseRat)
    let y := rows.map (fun preds => Gen.sl_predict_l2 (0 : Rat) coefs preds coefs.length)
    pure ("ok y=" ++ showList showRat y ++ s!" model={showBool (y == rows.map (predictL2 coefs))}")
  else
    let coefs ← fls a "coefs"
    let b ← fl a "b"
    let rows ← need a "preds" (parseMatrix parseFloat)
    let y := rows.map (fun preds =>
      Gen.sl_predict_nloglik logit expit (Bounds.clip1 b (((1 : Nat) : Float) - b)) nan coefs preds coefs.length)
    let ym := rows.map (predictNll logit expit b coefs)
    pure ("ok y=" ++ showList showFloat y ++
      s!" model={showBool (y.map Float.toBits == ym.map Float.toBits)}")

/-- `slerr loss= y= p= [b=]`: the cross-validated error term of one candidate -/
def opSLErr (a : Args) : Except String String := do
  let loss ← need a "loss" some
  if loss == "l2" then
    pure ("ok err=" ++ showRat (errL2 (← rts a "y") (← rts a "p")))
  else
    pure ("ok err=" ++ showFloat (errNll (← fl a "b") (← fls a "y") (← fls a "p")))

def parseCols (s : String) : Option (List Nat) :=
  if s == "-" then some [] else (s.splitOn ".").mapM parseNat

def showCols (c : List Nat) : String := if c.isEmpty then "-" else ".".intercalate (c.map toString)

/-- `stepwise dir=<backward|forward> p=<columns> tab=<cols:aic;cols:aic;…>`: the AIC oracle is the table logged on
    the implementation (`nan` = NaN or +inf: never wins a comparison); a column set the model asks for that is
    not in the table is reported (`err oracleMiss`). -/
def opStepwise (a : Args) : Except String String := do
  let dir ← need a "dir" (fun s => if s == "backward" then some Stepwise.Dir.backward
    else if s == "forward" then some Stepwise.Dir.forward else none)
  let p ← need a "p" parseNat
  let tabS ← need a "tab" some
  let entries ← match (tabS.splitOn ";").mapM (fun e => match e.splitOn ":" with
      | [c, v] => match parseCols c with
        | some cols => if v == "nan" then some (cols, (none : Option Float)) else (parseFloat v).map (fun x => (cols, some x))
        | none => none
      | _ => none) with
    | some l => pure l
    | none => throw "bad-arg:tab"
  let aic : List Nat → Option Float := fun c =>
    match entries.find? (fun e => e.1 == c) with
    | some e => e.2
    | none => none
  -- executed: the search driven by the column bookkeeping regenerated from StepwiseSL.fit (Model/StepwiseGen.lean);
  -- `model` = the hand-written `Stepwise.search` (the subject of `stepwise_sound`) returns the same
  let same := match Stepwise.genSearch dir aic p, Stepwise.search dir aic p with
    | none, none => true
    | some R, some M => R.cols == M.cols && R.aic.toBits == M.aic.toBits && R.visited == M.visited && R.done == M.done
    | _, _ => false
  match Stepwise.genSearch dir aic p with
  | none => pure s!"err startNaN model={showBool same}"
  | some R =>
    let miss := R.visited.filter (fun c => (entries.find? (fun e => e.1 == c)).isNone)
    if !miss.isEmpty then pure ("err oracleMiss:" ++ showCols (miss.headD []))
    else
      pure (s!"ok cols={showCols R.cols} aic={showFloat R.aic} visited={";".intercalate (R.visited.map showCols)} " ++
        s!"done={showBool R.done} model={showBool same}")

/-- `kfold n= k=` → the test folds of `KFold(k, shuffle=False)` on `n` rows -/
def opKFold (a : Args) : Except String String := do
  match kfold (← need a "n" parseNat) (← need a "k" parseNat) with
  | none => pure "err badInput"
  | some folds => pure s!"ok folds={";".intercalate (folds.map (showList toString))}"

def opsC20 : OpTable := [("kfold", opKFold), ("slfit", opSLFit), ("slpredict", opSLPredict), ("slerr", opSLErr), ("stepwise", opStepwise)]

end ZVD
