/-
Driver ops for C14 (stochastic / conditional plans): `mixture` (closed form), `plansize` (`int(p·n)`),
`gfmc` (TimeFixedGFormula.fit_stochastic as a function of the captured index draws), `tmlemc`
(StochasticTMLE step 4 as a function of the captured Bernoulli draws; Float only: exp/log).
Samples are `|`-separated, conditions within a sample `;`-separated, entries `,`-separated.
-/
import Driver.Ops.C05
import ZepidVerif.Gen.GfStoch
namespace ZVD
open ZV ZV.Std

def splitBar (s : String) : List String := if s == "" then [] else s.splitOn "|"

def parse3 {α} (p : String → Option α) (s : String) : Option (List (List (List α))) :=
  (splitBar s).mapM fun t => (t.splitOn ";").mapM (parseList p)

section
variable {F : Type} [Carrier F] [Add F] [Sub F] [Mul F] [Div F] [Neg F] [NatCast F]
  [LT F] [LE F] [DecidableLT F] [DecidableLE F] [Transc F]

/-- closed-form mixture at per-stratum plan probabilities `pis` (indexed by stratum id) -/
def opMixture (a : Args) : Except String String := do
  let l : List (Row F) ← parseRows a
  let t ← need a "tgt" parseTgt
  let pis : Array F ← vals a "pis"
  let S := strataOf l
  pure s!"ok m={sh (Stoch.mixture l S t.mem (fun s => pis.getD s ((0 : Nat) : F)))}"

/-- stochastic g-formula: per-resample means and their mean, given the index sets drawn per condition -/
def opGfMc (a : Args) : Except String String := do
  let l : List (Row F) ← parseRows a
  let t ← need a "tgt" parseTgt
  let q1 : Array F ← vals a "q1"
  let q0 : Array F ← vals a "q0"
  let chosen ← need a "chosen" (parse3 parseNat)
  let Q := fun (r : Row F) (arm : Bool) => if arm then look q1 r else look q0 r
  let ms := chosen.map fun ch => Stoch.mcMean l Q (fun q => q) t.mem (fun r => Stoch.gfAssign ch r.i)
  pure s!"ok ms={showList sh ms} m={sh (Stoch.meanOf ms)}"

/-- `TimeFixedGFormula.fit_stochastic` **from the definition regenerated from its text** (`Gen.gf_stoch_fit`): rows with
    `obs=` (outcome observed), `hascond`, `hasw`, `pm` (predict_missing), `tgt` (the `standardize` string), `ps` / `masks`
    (listed probabilities / conditions; empty for an unconditional plan), `chosen` = the draws (resamples `|`, calls `;`).
    `mm` = the hand model (`mcMean` over the target rows with an observed outcome unless `pm`, `gfAssign`, `meanOf`). -/
def opGfStoch (a : Args) : Except String String := do
  let l : List (Row F) ← parseRows a
  let t ← need a "tgt" parseTgt
  let hasCond ← need a "hascond" parseBool
  let hasW ← need a "hasw" parseBool
  let pm ← need a "pm" parseBool
  let q1 : Array F ← vals a "q1"
  let q0 : Array F ← vals a "q0"
  let chosen ← need a "chosen" (parse3 parseNat)
  let ps : List F ← if hasCond then need a "ps" (parseList (Carrier.parse (F := F))) else pure []
  let ms : List (List Bool) ← if hasCond then need a "masks" (parseLists_C05 parseBool) else pure []
  let masks : List (Nat → Bool) := ms.map fun m => let arr := m.toArray; fun i => arr.getD i false
  let Q := fun (r : Row F) (arm : Bool) => if arm then look q1 r else look q0 r
  let m := Gen.gf_stoch_fit hasCond hasW pm t.str ps masks l Q chosen
  let tm := fun (r : Row F) => t.mem r && (pm || r.obs)
  let ms := chosen.map fun ch => Stoch.mcMean l Q (fun q => q) tm (fun r => Stoch.gfAssign ch r.i)
  pure s!"ok m={sh m} mm={sh (Stoch.meanOf ms)}"

end

def floorNatFloat (x : Float) : Nat := x.floor.toUInt64.toNat
def floorNatRat (x : Rat) : Nat := x.floor.toNat

/-- `size=` handed to `np.random.choice`, from the regenerated text of the call (`cond=1`: the call inside the loop over
    the conditions, else the unconditional one) -/
def opPlanSize (a : Args) : Except String String := do
  let n ← need a "n" parseNat
  let cond ← match a.get? "cond" with
    | some _ => need a "cond" parseBool
    | none => pure false
  match a.get? "c" with
  | some "f" => do
    let p ← fl a "p"
    pure s!"ok size={if cond then Gen.gf_stoch_size_cond floorNatFloat p n else Gen.gf_stoch_size_uncond floorNatFloat p n}"
  | _ => do
    let p ← rt a "p"
    pure s!"ok size={if cond then Gen.gf_stoch_size_cond floorNatRat p n else Gen.gf_stoch_size_uncond floorNatRat p n}"

/-- StochasticTMLE Monte-Carlo step at Float: masks per condition (listing order), Bernoulli draw vectors per
    resample per condition, fluctuation parameter `eps` -/
def opTmleMc (a : Args) : Except String String := do
  let l : List (Row Float) ← parseRows a
  let q1 : Array Float ← vals a "q1"
  let q0 : Array Float ← vals a "q0"
  let eps ← fl a "eps"
  let masks ← need a "masks" (parseLists_C05 parseBool)
  let draws ← need a "draws" (parse3 parseBool)
  let Q := fun (r : Row Float) (arm : Bool) => if arm then look q1 r else look q0 r
  let mA := masks.map List.toArray
  let res := draws.map fun smp =>
    let cds := (mA.zip (smp.map List.toArray)).map fun (m, d) =>
      ((fun i => m.getD i false), (fun i => d.getD i false))
    if l.all (fun r => (Stoch.mcAssign cds r.i).isSome) then
      some (Stoch.mcMean l Q (Stoch.tmleUpd eps) (fun _ => true) (fun r => (Stoch.mcAssign cds r.i).getD false))
    else none
  match res.mapM id with
  | some ms => pure s!"ok ms={showList showFloat ms} m={showFloat (Stoch.meanOf ms)}"
  | none => pure "ok ms=_ m=_"

def opsC14 : OpTable := [
  ("mixture", atCarrier (opMixture (F := Rat)) (opMixture (F := Float))),
  ("gfmc", atCarrier (opGfMc (F := Rat)) (opGfMc (F := Float))),
  ("gfstoch", atCarrier (opGfStoch (F := Rat)) (opGfStoch (F := Float))),
  ("plansize", opPlanSize),
  ("tmlemc", opTmleMc)]

end ZVD
