/- Driver op for C13: the Monte Carlo g-formula simulation loop (`ZV.MC`), carrier `Rat`. -/
import Driver.Common
import ZepidVerif.Model.MonteCarlo
import ZepidVerif.Model.MonteCarloGen
namespace ZVD
open ZV ZV.MC

/-- prefix-notation expression: tokens `v<k>`, `c<rat>`, `add`, `mul` -/
partial def parseExprToks : List String → Option (Expr Rat × List String)
  | [] => none
  | t :: ts =>
    if t == "add" || t == "mul" then
      match parseExprToks ts with
      | some (a, r1) => match parseExprToks r1 with
        | some (b, r2) => some (if t == "add" then .add a b else .mul a b, r2)
        | none => none
      | none => none
    else if t.startsWith "v" then (t.drop 1).toString.toNat?.map fun k => (.var k, ts)
    else if t.startsWith "c" then (parseRat (t.drop 1).toString).map fun c => (.const c, ts)
    else none

def cmpOf : String → Option Cmp
  | "eq" => some .eq | "ne" => some .ne | "lt" => some .lt | "le" => some .le | "gt" => some .gt
  | "ge" => some .ge | _ => none

/-- prefix-notation condition: `and p q`, `or p q`, `not p`, `<cmp> e1 e2` -/
partial def parseCondToks : List String → Option (Cond Rat × List String)
  | [] => none
  | t :: ts =>
    if t == "and" || t == "or" then
      match parseCondToks ts with
      | some (p, r1) => match parseCondToks r1 with
        | some (q, r2) => some (if t == "and" then .and p q else .or p q, r2)
        | none => none
      | none => none
    else if t == "not" then (parseCondToks ts).map fun (p, r) => (.not p, r)
    else match cmpOf t with
      | some op => match parseExprToks ts with
        | some (a, r1) => match parseExprToks r1 with
          | some (b, r2) => some (.cmp op a b, r2)
          | none => none
        | none => none
      | none => none

def parseCond (s : String) : Option (Cond Rat) :=
  match parseCondToks (s.splitOn ",") with
  | some (c, []) => some c
  | _ => none

/-- statements `dst:tokens` separated by `;` -/
def parseStmts (s : String) : Option (List (Assign Rat)) :=
  if s == "" || s == "[]" then some [] else
  (s.splitOn ";").mapM fun st =>
    match st.splitOn ":" with
    | [d, body] => match d.toNat?, parseExprToks (body.splitOn ",") with
      | some k, some (e, []) => some ⟨k, e⟩
      | _, _ => none
    | _ => none

def parseInt (s : String) : Option Int := s.toInt?

def opMcSim (a : Args) : Except String String := do
  let cl ← nats a "cols"
  let cols : Cols ← match cl with
    | [ca, cy, ctin, ctout, cunc] => pure ⟨ca, cy, ctin, ctout, cunc⟩
    | _ => throw "bad-arg:cols"
  let planS ← need a "plan" some
  let plan : Plan Rat ← match planS with
    | "all" => pure .all | "none" => pure .none | "natural" => pure .natural
    | "custom" => do let r ← need a "rule" parseCond; pure (.custom r)
    | _ => throw "bad-arg:plan"
  let cens ← need a "cens" parseBool
  let inrec ← need a "inrec" parseStmts
  let outrec ← need a "outrec" parseStmts
  let covlab ← need a "covlab" (parseList parseInt)
  let covcol ← nats a "covcol"
  if covlab.length ≠ covcol.length then throw "bad-arg:covcol"
  let mut covs : List (Cov Rat) := []
  for (lab, col) in covlab.zip covcol, j in List.range covlab.length do
    let rc ← need a ("covrec" ++ toString j) parseStmts
    covs := covs ++ [⟨lab, col, rc⟩]
  let lagk ← nats a "lagk"
  let lagv ← nats a "lagv"
  if lagk.length ≠ lagv.length then throw "bad-arg:lagv"
  let cfg : Config Rat := ⟨cols, covs, plan, cens, inrec, outrec, lagk.zip lagv⟩
  let tmax ← need a "tmax" parseNat
  let n ← need a "n" parseNat
  let bcols ← nats a "bcols"
  let base ← rts a "base"
  let nb := bcols.length
  if base.length ≠ n * nb then throw "bad-arg:base"
  let baseA := base.toArray
  let bases : List (Env Rat) := (List.range n).map fun u => ⟨fun j =>
    match bcols.idxOf? j with
    | some p => baseA.getD (u * nb + p) 0
    | none => 0⟩
  let nsteps ← nats a "nsteps"
  if nsteps.length ≠ n then throw "bad-arg:nsteps"
  let ncov := covs.length
  let dcov := (← rts a "dcov").toArray
  let da := (← bools a "da").toArray
  let dy := (← bools a "dy").toArray
  let dc := (← bools a "dc").toArray
  let tot := nsteps.foldl (· + ·) 0
  if dcov.size ≠ tot * ncov || da.size ≠ tot || dy.size ≠ tot || dc.size ≠ tot then throw "bad-arg:draws"
  let nstepsA := nsteps.toArray
  let offs : Array Nat := (nsteps.foldl (fun (acc : Array Nat × Nat) k => (acc.1.push acc.2, acc.2 + k)) (#[], 0)).1
  let draws : Nat → Nat → StepDraw Rat := fun u i =>
    if i < nstepsA.getD u 0 then
      let p := offs.getD u 0 + i
      ⟨fun j => dcov.getD (p * ncov + j) 0, da.getD p false, dy.getD p false, dc.getD p true⟩
    else ⟨fun _ => 0, false, false, true⟩
  let outcols ← nats a "outcols"
  let seencols ← nats a "seencols"
  match fit cfg tmax draws bases with
  | .error e => pure ("err " ++ showErr e)
  | .ok hs =>
    let full := fullRecords hs
    let low := lowRecords cfg hs
    let vals (cs : List Nat) (e : Env Rat) : List String := cs.map fun c => showRat (e c)
    let sh (l : List String) : String := if l.isEmpty then "[]" else ",".intercalate l
    -- the same loop run by the pieces REGENERATED from MonteCarloGFormula.fit (Gen/MonteCarlo.lean)
    let gh := genSimAllFrom 48 cfg (planStr plan) tmax draws 0 bases
    let gfull := genRecords cfg false gh
    let glow := genRecords cfg true gh
    pure (s!"ok glens={showList toString (gh.map (·.2.length))} " ++
      s!"gfulluid={showList toString (gfull.map (·.1))} " ++
      s!"gfull={sh (gfull.flatMap fun r => vals outcols r.2)} " ++
      s!"glowuid={showList toString (glow.map (·.1))} " ++
      s!"glow={sh (glow.flatMap fun r => vals outcols r.2)} " ++
      s!"lens={showList toString (hs.map (·.2.length))} " ++
      s!"fulluid={showList toString (full.map (·.1))} " ++
      s!"full={sh (full.flatMap fun r => vals outcols r.2.out)} " ++
      s!"lowuid={showList toString (low.map (·.1))} " ++
      s!"low={sh (low.flatMap fun r => vals outcols r.2.out)} " ++
      s!"seenn={showList toString (full.map (·.2.seen.length))} " ++
      s!"seen={sh (full.flatMap fun r => r.2.seen.flatMap fun f => vals seencols f)}")

def opsC13 : OpTable := [("mcsim", opMcSim)]

end ZVD
