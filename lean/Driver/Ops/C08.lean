/-
Driver ops for C08: the estimator models of `Model/Std.lean` run on rows to which the *model's own*
relabelling transformations (`Model/Relabel.lean`: row permutation, `flipRow`, `affRow`, `relabelRow`)
have been applied, the AIPTW influence-curve variance, the closed-form g-estimation equations and the
GLM score equations.  Carrier `Rat` (default) or `Float` (`c=f`).

Transformation arguments (all optional): `perm=` positions (row k of the transformed data is row perm[k]
of the original), `flip=1`, `yc= yd=` (outcome ↦ yc·y + yd), `phi=` (stratum id s ↦ phi[s]).
Per-row fitted values are always indexed by the row's original position (`Row.i` travels with the row).
-/
import Driver.Ops.Std
import ZepidVerif.Model.Relabel
namespace ZVD
open ZV ZV.Std

section
variable {F : Type} [Carrier F] [Add F] [Sub F] [Mul F] [Div F] [Neg F] [NatCast F]
  [LT F] [LE F] [DecidableLT F] [DecidableLE F] [DecidableEq F] [Transc F]

def optArg {α} (a : Args) (k : String) (p : String → Option α) : Except String (Option α) :=
  match a.get? k with
  | none => pure none
  | some v => match p v with
    | none => throw ("bad-arg:" ++ k)
    | some x => pure (some x)

/-- rows with the model's transformations applied -/
def parseRowsX (a : Args) : Except String (List (Row F)) := do
  let l : List (Row F) ← parseRows a
  let arr := l.toArray
  let l ← match (← optArg a "perm" (parseList parseNat)) with
    | none => pure l
    | some p =>
      if p.length ≠ l.length ∨ p.any (· ≥ l.length) then throw "bad-arg:perm"
      else pure (p.filterMap fun i => arr[i]?)
  let l := match (← optArg a "flip" parseBool) with
    | some true => l.map flipRow
    | _ => l
  let l ← match (← optArg a "yc" (Carrier.parse (F := F))), (← optArg a "yd" (Carrier.parse (F := F))) with
    | some c, some d => pure (l.map (affRow c d))
    | none, none => pure l
    | _, _ => throw "bad-arg:yc-yd"
  let l ← match (← optArg a "phi" (parseList parseNat)) with
    | none => pure l
    | some phi =>
      let pa := phi.toArray
      if l.any (fun r => r.s ≥ pa.size) then throw "bad-arg:phi"
      else pure (l.map (relabelRow fun s => pa.getD s 0))
  pure l

def opXStdG (a : Args) : Except String String := do
  let l : List (Row F) ← parseRowsX a
  let S := strataOf l
  let f := fun (t : Tgt) (arm : Bool) => sh (std l S t.mem arm)
  pure s!"ok pop1={f .pop true} pop0={f .pop false} exp1={f .exposed true} exp0={f .exposed false} unx1={f .unexposed true} unx0={f .unexposed false} strata={S.length} first={(l.head?.map (·.i)).getD 0}"

def opXIptwG (a : Args) : Except String String := do
  let l : List (Row F) ← parseRowsX a
  let stab ← need a "stab" parseBool
  let t ← need a "tgt" parseTgt
  let n : Array F ← vals a "n"
  let d : Array F ← vals a "d"
  let mw : Array F ← vals a "mw"
  let ω := iptwOmega stab t (look n) (look d) (look mw)
  let ws := l.map fun r => Gen.iptw_weight stab t.str r.a (look n r) (look d r)
  pure s!"ok m1={sh (hajek l ω true)} m0={sh (hajek l ω false)} iptw={showList sh ws}"

def opXGformG (a : Args) : Except String String := do
  let l : List (Row F) ← parseRowsX a
  let t ← need a "tgt" parseTgt
  let q1 : Array F ← vals a "q1"
  let q0 : Array F ← vals a "q0"
  let Q := fun (r : Row F) (arm : Bool) => if arm then look q1 r else look q0 r
  pure s!"ok g1={sh (gformula l Q t.mem true)} g0={sh (gformula l Q t.mem false)}"

def opXAipwG (a : Args) : Except String String := do
  let l : List (Row F) ← parseRowsX a
  let q1 : Array F ← vals a "q1"
  let q0 : Array F ← vals a "q0"
  let g1 : Array F ← vals a "g1"
  let g0 : Array F ← vals a "g0"
  let Q := fun (r : Row F) (arm : Bool) => if arm then look q1 r else look q0 r
  pure s!"ok y1={sh (aipw1 l Q (look g1) (look g0))} y0={sh (aipw0 l Q (look g1) (look g0))} est={sh (aipwEst l Q (look g1) (look g0))} var={sh (aipwVar l Q (look g1) (look g0))}"

/-- StochasticIPTW marginal outcome: per-row plan probability `p=` and fitted propensity `pi=` -/
def opXStochG (a : Args) : Except String String := do
  let l : List (Row F) ← parseRowsX a
  let p : Array F ← vals a "p"
  let pi : Array F ← vals a "pi"
  pure s!"ok m={sh (stochMean l (look p) (look pi))}"

/-- closed-form g-estimation: `a= y= w= p=` rows, modifier columns `v0= v1= …` (`D=` of them), candidate `psi=`;
    optional `flip=1`, `yc= yd=` apply the model's `flipA` / `affY` first -/
def opSnmG (a : Args) : Except String String := do
  let tr ← bools a "a"
  let y : Array F ← vals a "y"
  let w : Array F ← vals a "w"
  let p : Array F ← vals a "p"
  let D ← need a "D" parseNat
  let psi : Array F ← vals a "psi"
  let mut vs : Array (Array F) := #[]
  for k in List.range D do
    let col : Array F ← vals a s!"v{k}"
    vs := vs.push col
  let z : F := ((0 : Nat) : F)
  let n := tr.length
  if y.size ≠ n ∨ w.size ≠ n ∨ p.size ≠ n ∨ psi.size ≠ D ∨ vs.any (·.size ≠ n) then throw "bad-arg:lengths"
  let rows : List (SnmR.SRow F) := (List.range n).map fun i =>
    ⟨tr.getD i false, y.getD i z, w.getD i z, p.getD i z, fun k => (vs.getD k #[]).getD i z⟩
  let rows := match (← optArg a "flip" parseBool) with
    | some true => rows.map SnmR.flipA
    | _ => rows
  let rows ← match (← optArg a "yc" (Carrier.parse (F := F))), (← optArg a "yd" (Carrier.parse (F := F))) with
    | some c, some d => pure (rows.map (SnmR.affY c d))
    | none, none => pure rows
    | _, _ => throw "bad-arg:yc-yd"
  let ψ := fun j => psi.getD j z
  let ks := List.range D
  pure s!"ok resid={showList sh (ks.map (SnmR.resid rows D ψ))} rha={showList sh (ks.map (SnmR.rha rows))} psi1={sh (SnmR.solve1 rows)} mods={showList sh (ks.map (SnmR.modScore rows))}"

/-- GLM score equations: design columns `x0= x1= …` (`p=` of them), `y= mu= w=`; optional `m=` (p×p, row-major)
    re-expresses the design through the model's `reparamRow` first -/
def opScoreG (a : Args) : Except String String := do
  let p ← need a "p" parseNat
  let y : Array F ← vals a "y"
  let mu : Array F ← vals a "mu"
  let w : Array F ← vals a "w"
  let mut xs : Array (Array F) := #[]
  for k in List.range p do
    let col : Array F ← vals a s!"x{k}"
    xs := xs.push col
  let z : F := ((0 : Nat) : F)
  let n := y.size
  if mu.size ≠ n ∨ w.size ≠ n ∨ xs.any (·.size ≠ n) then throw "bad-arg:lengths"
  let rows : List (Glm.GRow F) := (List.range n).map fun i =>
    ⟨fun k => (xs.getD k #[]).getD i z, y.getD i z, w.getD i z, mu.getD i z⟩
  let rows ← match (← optArg a "m" (parseList (Carrier.parse (F := F)))) with
    | none => pure rows
    | some m =>
      let ma := m.toArray
      if ma.size ≠ p * p then throw "bad-arg:m"
      else pure (rows.map (Glm.reparamRow p fun j k => ma.getD (j * p + k) z))
  pure s!"ok score={showList sh ((List.range p).map (Glm.score rows))}"

end

def opsC08 : OpTable := [
  ("xstd", atCarrier (opXStdG (F := Rat)) (opXStdG (F := Float))),
  ("xiptw", atCarrier (opXIptwG (F := Rat)) (opXIptwG (F := Float))),
  ("xgform", atCarrier (opXGformG (F := Rat)) (opXGformG (F := Float))),
  ("xaipw", atCarrier (opXAipwG (F := Rat)) (opXAipwG (F := Float))),
  ("xstoch", atCarrier (opXStochG (F := Rat)) (opXStochG (F := Float))),
  ("snm", atCarrier (opSnmG (F := Rat)) (opSnmG (F := Float))),
  ("score", atCarrier (opScoreG (F := Rat)) (opScoreG (F := Float)))]

end ZVD
