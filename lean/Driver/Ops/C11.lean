/- Driver op for C11: run a call history through the class table *derived from zEpid's source* (`Gen/Tables.lean`,
   regenerated on every run by harness/py2lean.py + harness/effects.py); `Props/C11_Gen.lean` identifies those tables
   with the hand-written ones of `Model/History.lean` and proves the side conditions on them. -/
import Driver.Common
import ZepidVerif.Model.History
import ZepidVerif.Gen.Tables
namespace ZVD
open ZV ZV.History

/-- `m:flag` -/
def parseCall (s : String) : Option (Nat × Bool) :=
  match s.splitOn ":" with
  | [m, f] => match m.toNat?, parseBool f with
    | some m, some f => some (m, f)
    | _, _ => none
  | _ => none

def showDots (l : List Nat) : String := ".".intercalate (l.map toString)

/-- `hist cls=<name> miss=<0|1> ops=m:f,m:f,…`  →  `ok n=<len> steps=<s>;<s>;…` with
    `<s>` = `e/<replay>` (the call raises) or `k/<replay>/<stale registers>/<after>`; `<replay>` = positions (in the history)
    of the calls to replay on a fresh object before making the same call, dot-separated. -/
def opHist (a : Args) : Except String String := do
  let name ← need a "cls" some
  let miss ← need a "miss" parseBool
  let calls ← need a "ops" (parseList parseCall)
  match ZV.Gen.Tables.clsByName name miss with
  | none => throw ("unknown-cls:" ++ name)
  | some C =>
    let ops : List Op := (calls.zip (List.range calls.length)).map fun ((m, f), i) => ⟨m, i, f⟩
    let tr := trace C init ops
    let sh (t : Trace) : String :=
      if t.ok then s!"k/{showDots (t.replay.map (·.arg))}/{showDots t.stale}/{showDots (t.after.map (·.arg))}"
      else s!"e/{showDots (t.replay.map (·.arg))}"
    pure s!"ok n={ops.length} nslots={C.nslots} nregs={C.nregs} steps={";".intercalate (tr.map sh)} final={showDots ((normalize C ops).map (·.arg))} last={showDots ((lastSpecs C ops).map (·.arg))}"

def opsC11 : OpTable := [("hist", opHist)]

end ZVD
