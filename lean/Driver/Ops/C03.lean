/- Driver ops for C03: TMLE targeting step (`TMLE.fit`, cross-fit `targeting_step`), unit-interval maps. -/
import Driver.Common
import ZepidVerif.Model.Tmle
import ZepidVerif.Model.TmleInit
import ZepidVerif.Gen.TmleFit
import ZepidVerif.Gen.Weights
namespace ZVD
open ZV ZV.Tmle

/-- zip the seven per-row columns into rows; all columns must have the length of `a` -/
def mkTRows (a obs : List Bool) (y q1 q0 g1 g0 : List Float) : Except String (List (TRow Float)) :=
  let n := a.length
  if obs.length ≠ n || y.length ≠ n || q1.length ≠ n || q0.length ≠ n || g1.length ≠ n || g0.length ≠ n then
    throw "length-mismatch"
  else
    let rec go : List Bool → List Bool → List Float → List Float → List Float → List Float → List Float →
        List (TRow Float)
      | a :: as, o :: os, y :: ys, p :: ps, q :: qs, g :: gs, h :: hs => ⟨a, o, y, p, q, g, h⟩ :: go as os ys ps qs gs hs
      | _, _, _, _, _, _, _ => []
    pure (go a obs y q1 q0 g1 g0)

/-- `tmle kind=binary|continuous usemiss=0|1 a= obs= y= q1= q0= g1= g0= m1= m0= e1= e2= mini= maxi= alpha= px= pz=` -/
def opTmle (a : Args) : Except String String := do
  let kind ← need a "kind" some
  let useMiss ← need a "usemiss" parseBool
  let av ← bools a "a"; let obs ← bools a "obs"
  let y ← fls a "y"; let q1 ← fls a "q1"; let q0 ← fls a "q0"
  let g1 ← fls a "g1"; let g0 ← fls a "g0"; let m1 ← fls a "m1"; let m0 ← fls a "m0"
  let e1 ← fl a "e1"; let e2 ← fl a "e2"
  let alpha ← fl a "alpha"; let px ← fl a "px"; let pz ← fl a "pz"
  if m1.length ≠ g1.length || m0.length ≠ g0.length then throw "length-mismatch"
  let gt1 := List.zipWith (fun g m => gTotal useMiss g m) g1 m1
  let gt0 := List.zipWith (fun g m => gTotal useMiss g m) g0 m0
  let rows ← mkTRows av obs y q1 q0 gt1 gt0
  let z := zalpha (ppfTab px pz) alpha
  let σ : Float → Float := expit
  let lg : Float → Float := logitT
  let scores := s!"sc1={showFloat (scoreH1 σ lg e1 e2 rows)} sc0={showFloat (scoreH0 σ lg e1 e2 rows)} " ++
    s!"ef1={showFloat (eff1 σ lg e1 rows)} ef0={showFloat (eff0 σ lg e2 rows)} " ++
    s!"efa1={showFloat (effA1 σ lg e1 e2 rows)} efa0={showFloat (effA0 σ lg e1 e2 rows)}"
  let t := targets σ lg e1 e2 rows
  let common := fun (f : Fit Float) =>
    s!"gt1={showList showFloat gt1} gt0={showList showFloat gt0} sA={showList showFloat f.sA} " ++
    s!"s1={showList showFloat f.s1} s0={showList showFloat f.s0} r1={showFloat (risk1Of t)} r0={showFloat (risk0Of t)} " ++
    s!"z={showFloat z} " ++ scores
  match kind with
  | "binary" =>
    let f := fitBinary σ lg e1 e2 rows
    let (rdl, rdu) := ciLin f.rd z f.rdSe
    let (rrl, rru) := ciLog f.rr z f.rrSe
    let (orl, oru) := ciLog f.or_ z f.orSe
    -- the definition generated from the text of TMLE.fit, on the same inputs (totals already formed: `useMiss` false)
    let one : TRow Float → Float := fun _ => 1.0
    let (grd, grdse, (grdl, grdu), grr, grrse, (grrl, grru), gor, gorse, (gorl, goru)) :=
      Gen.tmle_fit_binary σ lg (ppfTab px pz) false alpha e1 e2 0.0 1.0 rows (fun r => r.g1) (fun r => r.g0) one one qa
    let gen := s!"grd={showFloat grd} grdse={showFloat grdse} grdl={showFloat grdl} grdu={showFloat grdu} " ++
      s!"grr={showFloat grr} grrse={showFloat grrse} grrl={showFloat grrl} grru={showFloat grru} " ++
      s!"gor={showFloat gor} gorse={showFloat gorse} gorl={showFloat gorl} goru={showFloat goru} "
    pure (s!"ok rd={showFloat f.rd} rdse={showFloat f.rdSe} rdl={showFloat rdl} rdu={showFloat rdu} " ++ gen ++
      s!"rr={showFloat f.rr} rrse={showFloat f.rrSe} rrl={showFloat rrl} rru={showFloat rru} " ++
      s!"or={showFloat f.or_} orse={showFloat f.orSe} orl={showFloat orl} oru={showFloat oru} " ++ common f)
  | "continuous" =>
    let mini ← fl a "mini"; let maxi ← fl a "maxi"
    let f := fitContinuous σ lg e1 e2 mini maxi rows
    let (l, u) := ciLin f.rd z f.rdSe
    let one : TRow Float → Float := fun _ => 1.0
    let (gate, gatese, (gatel, gateu)) :=
      Gen.tmle_fit_continuous σ lg (ppfTab px pz) false alpha e1 e2 mini maxi rows (fun r => r.g1) (fun r => r.g0) one one qa
    pure (s!"ok ate={showFloat f.rd} atese={showFloat f.rdSe} atel={showFloat l} ateu={showFloat u} " ++
      s!"gate={showFloat gate} gatese={showFloat gatese} gatel={showFloat gatel} gateu={showFloat gateu} " ++ common f)
  | _ => throw ("unknown-kind:" ++ kind)

/-- distinct split ids in increasing order (CPython iterates a set of small non-negative ints in that order) -/
def splitIds (s : List Nat) : List Nat :=
  let m := s.foldl max 0
  (List.range (m + 1)).filter (fun i => s.contains i)

/-- `tmlecf splits= a= y= q1= q0= g1= g0= e1= e2= [mini= maxi=]`: per-split coefficients `e1,e2` listed in the order
    of increasing split id; all outcomes observed (the cross-fit estimators drop rows with a missing outcome) -/
def opTmleCf (a : Args) : Except String String := do
  let sp ← nats a "splits"
  let av ← bools a "a"
  let y ← fls a "y"; let q1 ← fls a "q1"; let q0 ← fls a "q0"; let g1 ← fls a "g1"; let g0 ← fls a "g0"
  let e1s ← fls a "e1"; let e2s ← fls a "e2"
  let rows ← mkTRows av (av.map fun _ => true) y q1 q0 g1 g0
  if sp.length ≠ rows.length then throw "length-mismatch"
  let ids := splitIds sp
  if e1s.length ≠ ids.length || e2s.length ≠ ids.length then throw "length-mismatch"
  let tagged := sp.zip rows
  let splits : List (Float × Float × List (TRow Float)) :=
    (ids.zip (e1s.zip e2s)).map fun (i, e1, e2) => (e1, e2, (tagged.filter (·.1 == i)).map (·.2))
  let σ : Float → Float := expit
  let lg : Float → Float := logitT
  let t := cfTargets σ lg splits
  let sA := splits.flatMap fun s => s.2.2.map (qstarA σ lg s.1 s.2.1)
  let est ← match a.get? "mini", a.get? "maxi" with
    | some _, some _ => do
        let mini ← fl a "mini"; let maxi ← fl a "maxi"
        pure s!"ate={showFloat (ateOf mini maxi t)}"
    | _, _ => pure s!"rd={showFloat (rdOf t)} rr={showFloat (rrOf t)} or={showFloat (orOf t)}"
  pure (s!"ok {est} s1={showList (fun p => showFloat p.s1) t} s0={showList (fun p => showFloat p.s0) t} " ++
    s!"sA={showList showFloat sA} " ++
    s!"sc1={showList (fun s => showFloat (scoreH1 σ lg s.1 s.2.1 s.2.2)) splits} " ++
    s!"sc0={showList (fun s => showFloat (scoreH0 σ lg s.1 s.2.1 s.2.2)) splits} " ++
    s!"ef1={showList (fun s => showFloat (eff1 σ lg s.1 s.2.2)) splits} " ++
    s!"ef0={showList (fun s => showFloat (eff0 σ lg s.2.1 s.2.2)) splits}")

/-- `unit y= mini= maxi= cb=`: the generated unit-interval map and the back-map of its result -/
def opUnit (a : Args) : Except String String := do
  let y ← fls a "y"
  let mini ← fl a "mini"; let maxi ← fl a "maxi"; let cb ← fl a "cb"
  let b := y.map fun v => Gen.tmle_unit_bounds v mini maxi cb
  let u := b.map fun v => Gen.tmle_unit_unbound v mini maxi
  pure s!"ok bounded={showList showFloat b} back={showList showFloat u}"

/-- exact (`Rat`) run of the unit maps: lets K check the round-trip identity without rounding -/
def opUnitQ (a : Args) : Except String String := do
  let y ← rts a "y"
  let mini ← rt a "mini"; let maxi ← rt a "maxi"; let cb ← rt a "cb"
  let b := y.map fun v => Gen.tmle_unit_bounds v mini maxi cb
  let u := b.map fun v => Gen.tmle_unit_unbound v mini maxi
  pure s!"ok bounded={showList showRat b} back={showList showRat u}"

/-- `qinit spec=sym b= | spec=coll items=  a= q1= q0=`: `outcome_model`'s truncation of the initial predictions (the
    interval is entries 0 and 1 of a collection, [b, 1-b] for a float) and the offset `QAW` formed from the result -/
def opQInit (a : Args) : Except String String := do
  let spec ← need a "spec" some
  let b : QBound Float ← match spec with
    | "sym" => do pure (QBound.sym (← fl a "b"))
    | "coll" => do pure (QBound.coll (← fls a "items"))
    | _ => throw ("unknown-spec:" ++ spec)
  let av ← bools a "a"; let q1 ← fls a "q1"; let q0 ← fls a "q0"
  let ones := q1.map fun _ => (1.0 : Float)
  let rows ← mkTRows av (av.map fun _ => true) (q1.map fun _ => (0.0 : Float)) q1 q0 ones ones
  match truncate b rows with
  | none => pure "err noindex"
  | some w =>
    pure (s!"ok q1={showList (fun r => showFloat r.q1) w} q0={showList (fun r => showFloat r.q0) w} " ++
      s!"qa={showList (fun r => showFloat (qa r)) w}")

def opsC03 : OpTable :=
  [("tmle", opTmle), ("tmlecf", opTmleCf), ("unit", opUnit), ("unitq", opUnitQ), ("qinit", opQInit)]

end ZVD
