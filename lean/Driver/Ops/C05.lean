/-
Driver ops for C05 (inverse probability weights) and the stochastic-plan weights shared with C14:
`iptww` (bounded IPTW weight formula), `oipmw` (IPTW.missing_model weights), `stochw` (StochasticIPTW),
`ipmw` (IPMW, single / monotone), `ipcw` (IPCW long format), `ipcwflat` (IPCW `_dataprep`).
Carrier `Rat` (exact; default) or `Float` (`c=f`).  List-of-lists arguments are `;`-separated.
-/
import Driver.Ops.Std
import ZepidVerif.Model.Ipw
import ZepidVerif.Model.Ipmw
import ZepidVerif.Model.Ipcw
import ZepidVerif.Model.Stochastic
import ZepidVerif.Gen.Stoch
import ZepidVerif.Gen.Ipcw
import ZepidVerif.Gen.Ipmw
namespace ZVD
open ZV ZV.Std

def splitSemi (s : String) : List String := if s == "" || s == "[]" then [] else s.splitOn ";"

def parseLists_C05 {α} (p : String → Option α) (s : String) : Option (List (List α)) :=
  (splitSemi s).mapM (parseList p)

def parseOptLists {α} (p : String → Option α) (s : String) : Option (List (List (Option α))) :=
  (splitSemi s).mapM (parseOptList p)

def showOpt {α} (sh : α → String) : Option α → String
  | some x => sh x
  | none => "_"

section
variable {F : Type} [Carrier F] [Add F] [Sub F] [Mul F] [Div F] [Neg F] [NatCast F]
  [LT F] [LE F] [DecidableLT F] [DecidableLE F] [Transc F]

/-- `spec=` of a bound as the caller spelled it: `float:<x>`, `seq:<x>;<x>;…` (`s` = a string entry), `str`, `int`,
    `other` (the constructors of `Bounds.BoundSpec`) -/
def parseSpecG (s : String) : Option (Bounds.BoundSpec F) :=
  if s == "str" then some .str
  else if s == "int" then some .int
  else if s == "other" then some .other
  else if s.startsWith "float:" then (Carrier.parse (F := F) (s.drop 6).toString).map .float
  else if s.startsWith "seq:" then
    let body := (s.drop 4).toString
    let items := if body == "" then [] else body.splitOn ";"
    (items.mapM fun t => if t == "s" then some none else (Carrier.parse (F := F) t).map some).map .seq
  else none

/-- the interval applied: `lo=`/`hi=` given directly, or `spec=` + `falsy=` (the bound object as the caller spelled it
    and its Python truth value) read by the model's own `Bounds.estimatorBound` / `parseBound` (entries 0 and 1 of a
    collection; a falsy object = no truncation); neither = no bound.  A rejected specification is `.error` inside. -/
def parseBoundArg (a : Args) : Except String (Option (F × F)) :=
  match a.get? "spec" with
  | some _ => do
    let spec ← need a "spec" (parseSpecG (F := F))
    let falsy ← need a "falsy" parseBool
    match Bounds.estimatorBound falsy spec with
    | .ok iv => pure iv
    | .error e => throw ("model-rejects-bound:" ++ showErr e)
  | none =>
  match a.get? "lo", a.get? "hi" with
  | some _, some _ => do
    let lo ← need a "lo" (Carrier.parse (F := F))
    let hi ← need a "hi" (Carrier.parse (F := F))
    pure (some (lo, hi))
  | _, _ => pure none

/-- bounded IPTW weights from unbounded fitted values -/
def opIptwW (a : Args) : Except String String := do
  let tr ← bools a "a"
  let stab ← need a "stab" parseBool
  let t ← need a "tgt" parseTgt
  let n : Array F ← vals a "n"
  let d : Array F ← vals a "d"
  let b ← parseBoundArg (F := F) a
  if tr.length ≠ n.size ∨ tr.length ≠ d.size then throw "bad-arg:lengths"
  let ws := tr.zipIdx.map fun (ai, i) =>
    Ipw.iptwRow stab t.str b ai (n.getD i ((0 : Nat) : F)) (d.getD i ((0 : Nat) : F))
  pure s!"ok w={showList sh ws}"

def opOutcomeIpmw (a : Args) : Except String String := do
  let ob ← bools a "obs"
  let stab ← need a "stab" parseBool
  let n : Array F ← vals a "n"
  let d : Array F ← vals a "d"
  let b ← parseBoundArg (F := F) a
  let ws := ob.zipIdx.map fun (o, i) =>
    Ipw.outcomeIpmw stab b o (n.getD i ((0 : Nat) : F)) (d.getD i ((0 : Nat) : F))
  pure s!"ok w={showList (showOpt sh) ws}"

/-- plan from `p=` (unconditional) or `ps=` + `masks=` (conditional, listing order) -/
def parsePlan_C05 (a : Args) : Except String (Stoch.Plan F) :=
  match a.get? "p" with
  | some _ => do pure (.uncond (← need a "p" (Carrier.parse (F := F))))
  | none => do
    let ps ← need a "ps" (parseList (Carrier.parse (F := F)))
    let ms ← need a "masks" (parseLists_C05 parseBool)
    if ps.length ≠ ms.length then throw "bad-arg:lengths"
    pure (.cond ((ps.zip ms).map fun (p, m) => ⟨fun i => (m.toArray).getD i false, p⟩))

/-- the arguments of `StochasticIPTW.fit` as the generated definition takes them: `p=` (unconditional) or `ps=` +
    `masks=` (conditional, listing order) → (hasCond, p, ps, conditional) -/
def parsePlanArgs (a : Args) : Except String (Bool × F × List F × List (Nat → Bool)) :=
  match a.get? "p" with
  | some _ => do pure (false, ← need a "p" (Carrier.parse (F := F)), [], [])
  | none => do
    let ps ← need a "ps" (parseList (Carrier.parse (F := F)))
    let ms ← need a "masks" (parseLists_C05 parseBool)
    if ps.length ≠ ms.length then throw "bad-arg:lengths"
    pure (true, ((0 : Nat) : F), ps, ms.map fun m => let arr := m.toArray; fun i => arr.getD i false)

/-- StochasticIPTW: numerators, weights and the marginal outcome **from the definition regenerated from the text of
    `StochasticIPTW.fit`** (`Gen.stoch_iptw_fit`; `hasw=0` = no weight column was given, default 1 with `w=` all ones
    when absent); `haw` (StochasticTMLE's clever covariate) from the hand model -/
def opStochW (a : Args) : Except String String := do
  let l : List (Row F) ← parseRows a
  let g : Array F ← vals a "g"
  let pl ← parsePlan_C05 (F := F) a
  let (hasCond, p, ps, conditional) ← parsePlanArgs (F := F) a
  let hasW ← match a.get? "hasw" with
    | some _ => need a "hasw" parseBool
    | none => pure true
  let (numer, ipw, m) := Gen.stoch_iptw_fit hasCond hasW p ps conditional l (look g)
  let hw := l.map (Stoch.haw pl (look g))
  pure s!"ok numer={showList (showOpt sh) (l.map numer)} w={showList (showOpt sh) (l.map ipw)} haw={showList (showOpt sh) hw} m={showOpt sh m}"

/-- IPMW: `obs=` one `;`-separated list per variable; `d=`/`n=` likewise with `_` = NaN prediction -/
def opIpmw (a : Args) : Except String String := do
  let ob ← need a "obs" (parseLists_C05 parseBool)
  let stab ← need a "stab" parseBool
  let k := ob.length
  let nrow := (ob.headD []).length
  let dl ← need a "d" (parseOptLists (Carrier.parse (F := F)))
  let nl ← match a.get? "n" with
    | some _ => need a "n" (parseOptLists (Carrier.parse (F := F)))
    | none => pure []
  let obA := ob.toArray.map List.toArray
  let dA := dl.toArray.map List.toArray
  let nA := nl.toArray.map List.toArray
  let rows : List Ipmw.MRow := (List.range nrow).map fun i =>
    ⟨i, (List.range k).map fun j => (obA.getD j #[]).getD i false⟩
  let dfun := fun (j i : Nat) => (dA.getD j #[]).getD i none
  let nfun := fun (j i : Nat) => (nA.getD j #[]).getD i none
  match Ipmw.ipmw rows k stab nfun dfun with
  | .error e => pure ("err " ++ showErr e)
  | .ok o =>
    -- the weights come from the definitions regenerated from the text of `_monotone_variables` / `_single_variable` and
    -- `fit` (`Gen/Ipmw.lean`); which of the two runs (`regression_models`' dispatch on overall uniformity) and the
    -- fitting plan stay with the hand model
    let ws := rows.map fun r =>
      if Ipmw.overallUniform rows k then Gen.ipmw_single_weight stab nfun dfun r
      else Gen.ipmw_monotone_weight stab k (Ipmw.pairUniform rows) nfun dfun r
    let o : Ipmw.Out F := ⟨ws, o.plan⟩
    let vars := o.plan.map (·.1)
    let sets := ";".intercalate (o.plan.map fun p => if p.2.isEmpty then "[]" else "|".intercalate (p.2.map toString))
    pure s!"ok w={showList (showOpt sh) o.weights} vars={showList toString vars} sets={sets}"

def mkRecs (ids : List Nat) (ts : List F) (ev : List Bool) : List (Ipcw.Rec F) :=
  let rec go (i : Nat) : List Nat → List F → List Bool → List (Ipcw.Rec F)
    | g :: gs, t :: tt, e :: es => ⟨i, g, t, e⟩ :: go (i + 1) gs tt es
    | _, _, _ => []
  go 0 ids ts ev

/-- IPCW, long format: frame order in, sorted order + uncensored indicator (+ weights when `num=`/`den=`,
    indexed by frame position, are given) out -/
def opIpcw (a : Args) : Except String String := do
  let ids ← nats a "id"
  let ts ← need a "time" (parseList (Carrier.parse (F := F)))
  let ev ← bools a "event"
  if ids.length ≠ ts.length ∨ ids.length ≠ ev.length then throw "bad-arg:lengths"
  match Ipcw.prepLong (mkRecs ids ts ev) with
  | .error e => pure ("err " ++ showErr e)
  | .ok p =>
    -- the indicator column and the weights come from the definitions regenerated from the text of `IPCW.__init__`,
    -- `regression_models` and `fit` (`Gen/Ipcw.lean`), run on the sorted frame
    let unc := match Ipcw.maxTime (mkRecs ids ts ev) with
      | some m => (Gen.ipcw_uncensored m p.rows).map (· == 1)
      | none => []
    let base := s!"ok order={showList toString (p.rows.map (·.lab))} unc={showList showBool unc}"
    match a.get? "num" with
    | none => pure base
    | some _ =>
      let num : Array F ← vals a "num"
      let den : Array F ← vals a "den"
      let lk := fun (arr : Array F) (i : Nat) => arr.getD i ((0 : Nat) : F)
      pure (base ++ s!" w={showList sh (Gen.ipcw_weights p.rows (lk num) (lk den))}")

/-- IPCW `_dataprep` -/
def opIpcwFlat (a : Args) : Except String String := do
  let ids ← nats a "id"
  let ts ← need a "time" (parseList (Carrier.parse (F := F)))
  let ti ← nats a "tint"
  let ev ← bools a "event"
  if ids.length ≠ ts.length ∨ ids.length ≠ ev.length ∨ ids.length ≠ ti.length then throw "bad-arg:lengths"
  let rec go (i : Nat) : List Nat → List F → List Nat → List Bool → List (Ipcw.Flat F)
    | g :: gs, t :: tt, k :: ks, e :: es => ⟨i, g, t, k, e⟩ :: go (i + 1) gs tt ks es
    | _, _, _, _ => []
  match Ipcw.prepFlat (go 0 ids ts ti ev) with
  | .error e => pure ("err " ++ showErr e)
  | .ok (ex, _) =>
    let unc := match Ipcw.maxTime (ex.map (·.r)) with
      | some mo => (Gen.ipcw_flat_uncensored mo (ex.map (·.r))).map (· == 1)
      | none => []
    pure s!"ok lab={showList toString (ex.map (·.r.lab))} tenter={showList toString (ex.map (·.tenter))} tout={showList sh (ex.map (·.r.time))} delta={showList showBool (ex.map (·.r.event))} unc={showList showBool unc}"

end

def opsC05 : OpTable := [
  ("iptww", atCarrier (opIptwW (F := Rat)) (opIptwW (F := Float))),
  ("oipmw", atCarrier (opOutcomeIpmw (F := Rat)) (opOutcomeIpmw (F := Float))),
  ("stochw", atCarrier (opStochW (F := Rat)) (opStochW (F := Float))),
  ("ipmw", atCarrier (opIpmw (F := Rat)) (opIpmw (F := Float))),
  ("ipcw", atCarrier (opIpcw (F := Rat)) (opIpcw (F := Float))),
  ("ipcwflat", atCarrier (opIpcwFlat (F := Rat)) (opIpcwFlat (F := Float)))]

end ZVD
