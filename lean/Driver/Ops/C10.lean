/-
Driver op for C10: the model of `check_input_data` on rows with missing values, and the estimator models
composed with it, evaluated on the data and on the data with the incomplete (exposure / covariate missing) rows
deleted by the user.  Carrier `Rat` (exact).
    c10 est=<check|std|iptw|gform> dc=<0|1> a= l= y= [w=] <estimator arguments>
`a`, `l`, `y` are per-row lists in which `_` marks a missing value; fitted values are indexed by row position.

Row retention goes through the REGENERATED code (`Gen/InputData.lean`, translated from /repo on every run):
    c10 est=check cls=<Class> ...   the flags of `<Class>.__init__`'s call are looked up in the generated table
                                    `Gen.input_sites`, and `Gen.check_input_data` with those flags produces kept / obs /
                                    miss (the hand-written `checkInput` is reported next to it: `model=1` iff they agree)
    c10gen dc= dm= bo= e= l= y=     `Gen.check_input_data` on a frame with a numeric exposure column `e`
-/
import Driver.Ops.Std
import ZepidVerif.Model.Missing
import ZepidVerif.Gen.InputData
namespace ZVD
open ZV ZV.Std ZV.Miss

def parseRaw (a : Args) : Except String (List (Raw Rat)) := do
  let ex ← need a "a" (parseOptList parseBool)
  let cv ← need a "l" (parseOptList parseNat)
  let y ← need a "y" (parseOptList parseRat)
  let w : List Rat ← match a.get? "w" with
    | some _ => need a "w" (parseList parseRat)
    | none => pure (ex.map fun _ => (1 : Rat))
  if ex.length ≠ cv.length ∨ ex.length ≠ y.length ∨ ex.length ≠ w.length then throw "bad-arg:lengths"
  let rec go (i : Nat) : List (Option Bool) → List (Option Nat) → List (Option Rat) → List Rat → List (Raw Rat)
    | e :: es, c :: cs, v :: vs, u :: us => ⟨i, e, c, v, u⟩ :: go (i + 1) es cs vs us
    | _, _, _, _ => []
  pure (go 0 ex cv y w)

/-- the generated `check_input_data`, printed: `raise=1`, or kept labels / indicator column / miss_flag / continuous -/
def showGenCheck (r : Except ZV.Err (List (DRow Rat) × List Nat × Bool × Bool)) : String :=
  match r with
  | .error _ => "raise=1"
  | .ok (D, ind, flag, cont) =>
    s!"raise=0 kept={showList toString (D.map (·.i))} obs={showList toString ind} miss={showBool flag} cont={showBool cont} n={D.length}"

def opC10gen (a : Args) : Except String String := do
  let dc ← need a "dc" parseBool
  let dm ← need a "dm" parseBool
  let bo ← need a "bo" parseBool
  let ex ← need a "e" (parseOptList parseRat)
  let cv ← need a "l" (parseOptList parseNat)
  let y ← need a "y" (parseOptList parseRat)
  if ex.length ≠ cv.length ∨ ex.length ≠ y.length then throw "bad-arg:lengths"
  let rec go (i : Nat) : List (Option Rat) → List (Option Nat) → List (Option Rat) → List (DRow Rat)
    | e :: es, c :: cs, v :: vs => ⟨i, e, c, v, 1⟩ :: go (i + 1) es cs vs
    | _, _, _ => []
  pure ("ok " ++ showGenCheck (ZV.Gen.check_input_data dc dm bo (go 0 ex cv y)))

def opC10 (a : Args) : Except String String := do
  let rows ← parseRaw a
  let est ← need a "est" some
  -- the class's flags, from the generated call-site table when a class is named
  let flags : Option (Bool × Bool × Bool) ← match a.get? "cls" with
    | some c => match ZV.Gen.input_sites.lookup c with
      | some fl => pure (some fl)
      | none => throw ("no-call-site:" ++ c)
    | none => pure none
  let dc ← match flags with
    | some fl => pure fl.1
    | none => need a "dc" parseBool
  let D := checkInput dc rows                         -- what the estimator sees on the user's data
  let E := checkInput dc (deleteIncomplete rows)      -- ... after the user deleted the incomplete rows
  let pair := fun (n : String) (f : List (Row Rat) → Rat) => s!"{n}={showRat (f D)} del_{n}={showRat (f E)}"
  let same := fun (fs : List (List (Row Rat) → Rat)) => showBool (fs.all fun f => f D == f E)
  match est with
  | "check" =>
    let cc := checkInput true (completeCases rows)
    match flags with
    | some fl =>
      -- row retention by the regenerated code, on the data and after the user's deletion
      let g := ZV.Gen.check_input_data fl.1 fl.2.1 fl.2.2 (rows.map Raw.toD)
      let gE := ZV.Gen.check_input_data fl.1 fl.2.1 fl.2.2 ((deleteIncomplete rows).map Raw.toD)
      let fmt := fun (r : Except ZV.Err (List (DRow Rat) × List Nat × Bool × Bool)) =>
        match r with
        | .error _ => ([], false)
        | .ok (Dg, ind, flag, _) => (formatD Dg ind, flag)
      let (Dg, fg) := fmt g
      let (Eg, _) := fmt gE
      let agree := (Dg.map (·.i)) == (D.map (·.i)) && (Dg.map (·.obs)) == (D.map (·.obs)) && fg == missFlag dc rows
      pure s!"ok {showGenCheck g} fitrows={(outcomeFitRows Dg).length} same={showBool ((Dg.map (·.i)) == (Eg.map (·.i)))} cc={showList toString (cc.map (·.i))} dc={showBool fl.1} bo={showBool fl.2.2} model={showBool agree}"
    | none =>
    pure s!"ok kept={showList toString (D.map (·.i))} obs={showList showBool (D.map (·.obs))} miss={showBool (missFlag dc rows)} n={D.length} fitrows={(outcomeFitRows D).length} same={showBool ((D.map (·.i)) == (E.map (·.i)))} cc={showList toString (cc.map (·.i))}"
  | "std" =>
    let S := strataOf D
    let fs := [Tgt.pop, Tgt.exposed, Tgt.unexposed].flatMap fun t =>
      [(t.str ++ "1", fun l => std l S t.mem true), (t.str ++ "0", fun l => std l S t.mem false)]
    pure s!"ok {" ".intercalate (fs.map fun (n, f) => pair n f)} same={same (fs.map (·.2))}"
  | "iptw" =>
    let stab ← need a "stab" parseBool
    let t ← need a "tgt" parseTgt
    let n : Array Rat ← vals a "n"
    let d : Array Rat ← vals a "d"
    let mw : Array Rat ← vals a "mw"
    let ω := iptwOmega stab t (look n) (look d) (look mw)
    let f1 := fun l => hajek l ω true
    let f0 := fun l => hajek l ω false
    pure s!"ok {pair "m1" f1} {pair "m0" f0} same={same [f1, f0]}"
  | "gform" =>
    let t ← need a "tgt" parseTgt
    let q1 : Array Rat ← vals a "q1"
    let q0 : Array Rat ← vals a "q0"
    let pm ← need a "pm" parseBool
    let Q : Row Rat → Bool → Rat := fun r arm => if arm then look q1 r else look q0 r
    let tm : Row Rat → Bool := fun r => t.mem r && (pm || r.obs)
    let f1 := fun l => gformula l Q tm true
    let f0 := fun l => gformula l Q tm false
    pure s!"ok {pair "g1" f1} {pair "g0" f0} same={same [f1, f0]}"
  | _ => throw "bad-arg:est"

def opsC10 : OpTable := [("c10", opC10), ("c10gen", opC10gen)]

end ZVD
