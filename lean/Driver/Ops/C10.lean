/-
Driver op for C10: the model of `check_input_data` on rows with missing values, and the estimator models
composed with it, evaluated on the data and on the data with the incomplete (exposure / covariate missing) rows
deleted by the user.  Carrier `Rat` (exact).
    c10 est=<check|std|iptw|gform> dc=<0|1> a= l= y= [w=] <estimator arguments>
`a`, `l`, `y` are per-row lists in which `_` marks a missing value; fitted values are indexed by row position.
-/
import Driver.Ops.Std
import ZepidVerif.Model.Missing
namespace ZVD
open ZV ZV.Std ZV.Miss

def parseRaw (a : Args) : Except String (List (Raw Rat)) := do
  let ex ← need a "a" (parseOptList parseBool)
  let cv ← need a "l" (parseOptList parseNat)
  let y ← need a "y" (parseOptList parseRat)
  let w : List Rat ← match a.get? "w" with
    | some _ => need a "w" (parseList parseRat)
    | none => pure (ex.map fun _ => (1 : Rat))
  if ex.length ≠ cv.length ∨ ex.length ≠ y.length ∨ ex.length ≠ w.length then throw "bad-arg:lengths"
  let rec go (i : Nat) : List (Option Bool) → List (Option Nat) → List (Option Rat) → List Rat → List (Raw Rat)
    | e :: es, c :: cs, v :: vs, u :: us => ⟨i, e, c, v, u⟩ :: go (i + 1) es cs vs us
    | _, _, _, _ => []
  pure (go 0 ex cv y w)

def opC10 (a : Args) : Except String String := do
  let rows ← parseRaw a
  let dc ← need a "dc" parseBool
  let est ← need a "est" some
  let D := checkInput dc rows                         -- what the estimator sees on the user's data
  let E := checkInput dc (deleteIncomplete rows)      -- ... after the user deleted the incomplete rows
  let pair := fun (n : String) (f : List (Row Rat) → Rat) => s!"{n}={showRat (f D)} del_{n}={showRat (f E)}"
  let same := fun (fs : List (List (Row Rat) → Rat)) => showBool (fs.all fun f => f D == f E)
  match est with
  | "check" =>
    let cc := checkInput true (completeCases rows)
    pure s!"ok kept={showList toString (D.map (·.i))} obs={showList showBool (D.map (·.obs))} miss={showBool (missFlag dc rows)} n={D.length} fitrows={(outcomeFitRows D).length} same={showBool ((D.map (·.i)) == (E.map (·.i)))} cc={showList toString (cc.map (·.i))}"
  | "std" =>
    let S := strataOf D
    let fs := [Tgt.pop, Tgt.exposed, Tgt.unexposed].flatMap fun t =>
      [(t.str ++ "1", fun l => std l S t.mem true), (t.str ++ "0", fun l => std l S t.mem false)]
    pure s!"ok {" ".intercalate (fs.map fun (n, f) => pair n f)} same={same (fs.map (·.2))}"
  | "iptw" =>
    let stab ← need a "stab" parseBool
    let t ← need a "tgt" parseTgt
    let n : Array Rat ← vals a "n"
    let d : Array Rat ← vals a "d"
    let mw : Array Rat ← vals a "mw"
    let ω := iptwOmega stab t (look n) (look d) (look mw)
    let f1 := fun l => hajek l ω true
    let f0 := fun l => hajek l ω false
    pure s!"ok {pair "m1" f1} {pair "m0" f0} same={same [f1, f0]}"
  | "gform" =>
    let t ← need a "tgt" parseTgt
    let q1 : Array Rat ← vals a "q1"
    let q0 : Array Rat ← vals a "q0"
    let pm ← need a "pm" parseBool
    let Q : Row Rat → Bool → Rat := fun r arm => if arm then look q1 r else look q0 r
    let tm : Row Rat → Bool := fun r => t.mem r && (pm || r.obs)
    let f1 := fun l => gformula l Q tm true
    let f0 := fun l => gformula l Q tm false
    pure s!"ok {pair "g1" f1} {pair "g0" f0} same={same [f1, f0]}"
  | _ => throw "bad-arg:est"

def opsC10 : OpTable := [("c10", opC10)]

end ZVD
