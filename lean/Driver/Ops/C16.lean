/- Driver ops for C16 / C09 (GTransportFormula): the definition regenerated from `GTransportFormula.fit`
   (`Gen/Transport.lean`) at carrier `Rat` (default) or `Float` (`c=f`), on the implementation's own predictions. -/
import Driver.Ops.Std
import ZepidVerif.Gen.Transport
namespace ZVD
open ZV ZV.Std

section
variable {F : Type} [Carrier F] [Add F] [Sub F] [Mul F] [Div F] [Neg F] [NatCast F]
  [LT F] [LE F] [DecidableLT F] [DecidableLE F] [DecidableEq F] [Transc F]

/-- generated `GTransportFormula.fit`: rows `s= a= y= w= obs=` (`obs` = in the study sample), `gen`, `hasw`,
    predictions `q1`, `q0` of every row under treatment / no treatment -/
def opGtransFitG (a : Args) : Except String String := do
  let l : List (Row F) ← parseRows a
  let g ← need a "gen" parseBool
  let hasW ← need a "hasw" parseBool
  let q1 : Array F ← vals a "q1"
  let q0 : Array F ← vals a "q0"
  let Q := fun (r : Row F) (arm : Bool) => if arm then look q1 r else look q0 r
  let (rd, rr) := Gen.gtransport_fit g hasW l Q
  pure s!"ok rd={sh rd} rr={sh rr} nfit={(Gen.gtransport_outcome_rows l).length} fw={showBool (Gen.gtransport_outcome_freq (F := F) hasW).isSome}"
end

def opsC16 : OpTable := [
  ("gtransfit", atCarrier (opGtransFitG (F := Rat)) (opGtransFitG (F := Float)))]

end ZVD
