/- Driver ops for C04: cross-fit split / pairing / call sequence. -/
import Driver.Common
import ZepidVerif.Model.Crossfit
namespace ZVD
open ZV ZV.Crossfit

def showNuis : Nuis → String | .trt => "t" | .out => "y"

def showEv : Ev → String
  | .fit nu j rows => s!"F:{showNuis nu}:{j}:{showList toString rows}"
  | .pred nu j arm rows => s!"P:{showNuis nu}:{j}:{arm}:{showList toString rows}"

def parseLists_C04 (s : String) : Option (List (List Nat)) :=
  if s == "" || s == "-" then some [] else (s.splitOn ";").mapM (parseList parseNat)

/-- `crossfit double=<0|1> k=<n_splits> rows=<ids> picks=<draw_0;draw_1;…>`: the draws observed on the
    implementation (first `k-1` parts) become the chooser table, keyed by the length of the remainder they
    were drawn from; the model returns all parts (the last one is derived) and the full call sequence. -/
def opCrossfit (a : Args) : Except String String := do
  let double ← need a "double" parseBool
  let k ← need a "k" parseNat
  let rows ← nats a "rows"
  let picks ← need a "picks" parseLists_C04
  if k == 0 then throw "bad-arg:k"
  let m := rows.length / k
  let tab := picks.zipIdx.map (fun p => (rows.length - p.2 * m, p.1))
  match crossfit double (tablePick tab) rows k with
  | none => pure "err badInput"
  | some (s, evs) =>
    pure (s!"ok splits={";".intercalate (s.map (showList toString))} " ++
      s!"trace={"|".intercalate (evs.map showEv)} leakfree={showBool (leakFree evs)}")

/-- `pairidx k=<k> d=<1|2>` → the pairing list `[i - d for i in range(k)]` as non-negative indices -/
def opPairIdx (a : Args) : Except String String := do
  let k ← need a "k" parseNat
  let d ← need a "d" parseNat
  pure s!"ok idx={showList toString ((List.range k).map (fun i => pairIdx k i d))}"

def opsC04 : OpTable := [("crossfit", opCrossfit), ("pairidx", opPairIdx)]

end ZVD
