/- Driver ops for C04: cross-fit split / pairing / call sequence. -/
import Driver.Common
import ZepidVerif.Model.Crossfit
import ZepidVerif.Model.CrossfitGen
namespace ZVD
open ZV ZV.Crossfit

def showNuis : Nuis → String | .trt => "t" | .out => "y"

def showEv : Ev → String
  | .fit nu j rows => s!"F:{showNuis nu}:{j}:{showList toString rows}"
  | .pred nu j arm rows => s!"P:{showNuis nu}:{j}:{arm}:{showList toString rows}"

def parseLists_C04 (s : String) : Option (List (List Nat)) :=
  if s == "" || s == "-" then some [] else (s.splitOn ";").mapM (parseList parseNat)

def parseCls (s : String) : Option Cls :=
  if s == "SingleCrossfitAIPTW" then some .sAIPTW else if s == "DoubleCrossfitAIPTW" then some .dAIPTW
  else if s == "SingleCrossfitTMLE" then some .sTMLE else if s == "DoubleCrossfitTMLE" then some .dTMLE else none

def showOptList : Option (List Nat) → String
  | some l => showList toString l
  | none => "!"

/-- chooser table from the draws observed on the implementation (first `k-1` parts), keyed by the length of the
    remainder they were drawn from -/
def pickTable (rows : List Nat) (k : Nat) (picks : List (List Nat)) : List Nat → Nat → List Nat :=
  let m := rows.length / k
  tablePick (picks.zipIdx.map (fun p => (rows.length - p.2 * m, p.1)))

/-- `crossfit cls=<class name> k=<n_splits> rows=<ids> picks=<draw_0;draw_1;…>`: the draws observed on the
    implementation become the chooser table.  Executed: the partition **assembled from the regenerated code**
    (`genCrossfit`: regenerated guard, `_sample_split_`, nuisance functions, prediction loop) → `splits`, `trace`;
    `uses` = what the regenerated loop hands to `_generate_predictions_`, a fitted copy shown by its training rows;
    `model` = whether the hand-written model `Crossfit.crossfit` (the subject of `crossfit_sound`) returns the same. -/
def opCrossfit (a : Args) : Except String String := do
  let c ← need a "cls" parseCls
  let k ← need a "k" parseNat
  let rows ← nats a "rows"
  let picks ← need a "picks" parseLists_C04
  if k == 0 then throw "bad-arg:k"
  let pick := pickTable rows k picks
  let agree := showBool (genCrossfit c pick rows k == crossfit c.double pick rows k)
  match genCrossfit c pick rows k with
  | none => pure s!"err badInput model={agree}"
  | some (s, evs) =>
    let uses := genUses c pick (fun s => s) (fun s => s) rows k
    let showUse := fun (u : Option (List Nat) × Option (List Nat) × Option (List Nat)) =>
      s!"{showOptList u.1}>{showOptList u.2.1}>{showOptList u.2.2}"
    pure (s!"ok splits={";".intercalate (s.map (showList toString))} " ++
      s!"trace={"|".intercalate (evs.map showEv)} leakfree={showBool (leakFree evs)} " ++
      s!"uses={"|".intercalate (uses.map showUse)} model={agree}")

/-- `samplesplit k=<n_splits> rows=<ids> picks=<draws>` → the regenerated `_sample_split_` alone (any `k ≥ 1`,
    including more parts than rows), and whether the model's `sampleSplit` agrees -/
def opSampleSplit (a : Args) : Except String String := do
  let k ← need a "k" parseNat
  let rows ← nats a "rows"
  let picks ← need a "picks" parseLists_C04
  if k == 0 then throw "bad-arg:k"
  let pick := pickTable rows k picks
  let s := Gen.sample_split pick rows k
  pure s!"ok splits={";".intercalate (s.map (showList toString))} model={showBool (s == sampleSplit pick rows k)}"

/-- `pyget l=<ints> i=<int>` → Python's `l[i]` as modelled by `Py.get` (`err index` = IndexError) -/
def opPyGet (a : Args) : Except String String := do
  let l ← nats a "l"
  let i ← need a "i" (fun s => s.toInt?)
  match Py.get l i with
  | some v => pure s!"ok v={v}"
  | none => pure "err index"

/-- `pairidx k=<k> d=<1|2>` → the pairing list `[i - d for i in range(k)]` resolved to positions: `idx` by the model's
    `pairIdx`, `gen` by the regenerated prediction loop run on `k` one-row parts (`d = 1`: the treatment copy of a
    single cross-fit class, `d = 2`: the outcome copy of a double cross-fit class; `!` = IndexError) -/
def opPairIdx (a : Args) : Except String String := do
  let k ← need a "k" parseNat
  let d ← need a "d" parseNat
  let take : List Nat → Nat → List Nat := fun rem m => rem.take m
  let S := Gen.sample_split take (List.range k) k
  let uses := genUses (if d == 2 then Cls.dTMLE else Cls.sAIPTW) take (fun s => S.idxOf s) (fun s => S.idxOf s)
    (List.range k) k
  let g := uses.map (fun u => match (if d == 2 then u.2.2 else u.2.1) with | some j => toString j | none => "!")
  pure s!"ok idx={showList toString ((List.range k).map (fun i => pairIdx k i d))} gen={showList id g}"

def opsC04 : OpTable := [("crossfit", opCrossfit), ("pairidx", opPairIdx), ("samplesplit", opSampleSplit),
  ("pyget", opPyGet)]

end ZVD
