/- Driver ops for C17: probability_bounds and the places where estimators apply it. -/
import Driver.Common
import ZepidVerif.Model.Bounds
import ZepidVerif.Gen.BoundSites
namespace ZVD
open ZV

def parseSpec (s : String) : Option (Bounds.BoundSpec Float) :=
  if s == "str" then some .str
  else if s == "int" then some .int
  else if s == "other" then some .other
  else if s.startsWith "float:" then (parseFloat (s.drop 6).toString).map .float
  else if s.startsWith "seq:" then
    let body := (s.drop 4).toString
    let items := if body == "" then [] else body.splitOn ";"
    (items.mapM fun t => if t == "s" then some none else (parseFloat t).map some).map .seq
  else none

def opBounds (a : Args) : Except String String := do
  let spec ← need a "spec" parseSpec
  let v ← need a "v" (parseList parseFloat)
  match Bounds.parseBound spec with
  | .error e => pure ("err " ++ showErr e)
  | .ok (lo, hi) =>
    match Bounds.probabilityBounds v spec with
    | .ok r => pure s!"ok v={showList showFloat r} lo={showFloat lo} hi={showFloat hi} truncated={Bounds.truncCount lo hi v}"
    | .error e => pure ("err " ++ showErr e)

def zip3 {α β γ} : List α → List β → List γ → List (α × β × γ)
  | a :: as, b :: bs, c :: cs => (a, b, c) :: zip3 as bs cs
  | _, _, _ => []

/-! `bw … gsite=<site>`: the same use sites evaluated by the code REGENERATED from the estimator method
(`Gen/BoundSites.lean`): `pb` = clip by the accepted interval, `bound` = the argument was truthy.  The reply has the
format of the model's reply plus `model=1|0` (bitwise agreement with the hand-written use-site function). -/

def genPb (iv : Option (Float × Float)) : Float → Float :=
  match iv with
  | none => fun x => x
  | some (lo, hi) => Bounds.clip1 lo hi

def sameFl (x y : List Float) : Bool := x.map Float.toBits == y.map Float.toBits

/-- does the named caller of `iptw_calculator` hand its own `bound` on? (generated flags) -/
def callerPasses (c : String) : Except String Bool :=
  match c with
  | "IPTW" => pure ZV.Gen.IPTW_treatment_model_passes_bound
  | "IPSW" => pure ZV.Gen.IPSW_treatment_model_passes_bound
  | "AIPSW" => pure ZV.Gen.AIPSW_treatment_model_passes_bound
  | "AIPTW" => pure ZV.Gen.AIPTW_exposure_model_passes_bound
  | _ => throw ("unknown-caller:" ++ c)

def pairSite (g : String) : Except String ((Float → Float) → Bool → Float → Float × Float) :=
  match g with
  | "AIPTW_exposure_model" => pure ZV.Gen.AIPTW_exposure_model_site
  | "TMLE_exposure_model" => pure ZV.Gen.TMLE_exposure_model_site
  | "SingleCrossfitAIPTW" => pure ZV.Gen.SingleCrossfitAIPTW_site
  | "DoubleCrossfitAIPTW" => pure ZV.Gen.DoubleCrossfitAIPTW_site
  | "SingleCrossfitTMLE" => pure ZV.Gen.SingleCrossfitTMLE_site
  | "DoubleCrossfitTMLE" => pure ZV.Gen.DoubleCrossfitTMLE_site
  | _ => throw ("unknown-gsite:" ++ g)

def opBwGen (g kind : String) (iv : Option (Float × Float)) (a : Args) : Except String String := do
  let iv ← match a.get? "caller" with
    | some c => do pure (if (← callerPasses c) then iv else none)
    | none => pure iv
  let pb := genPb iv
  let b := iv.isSome
  match kind with
  | "iptw" =>
    if g != "iptw_calculator" then throw ("unknown-gsite:" ++ g)
    let stab ← need a "stab" parseBool
    let std ← need a "std" some
    let rows := zip3 (← bools a "a") (← fls a "n") (← fls a "d")
    let out := rows.map fun (a1, n, d) => ZV.Gen.iptw_calculator_site pb b stab std a1 n d
    let mdl := rows.map fun (a1, n, d) => Bounds.iptwRow stab std iv a1 n d
    let ok := sameFl (out.map (·.1)) (mdl.map (·.1)) && sameFl (out.map (·.2.1)) (mdl.map (·.2.1)) && sameFl (out.map (·.2.2)) (mdl.map (·.2.2))
    pure s!"ok d={showList (fun r => showFloat r.1) out} n={showList (fun r => showFloat r.2.1) out} w={showList (fun r => showFloat r.2.2) out} model={showBool ok}"
  | "gpair" =>
    let f ← pairSite g
    let ps ← fls a "p"
    let out := ps.map (f pb b)
    let mdl := ps.map (Bounds.gPair iv)
    pure s!"ok g1={showList (fun r => showFloat r.1) out} g0={showList (fun r => showFloat r.2) out} model={showBool (sameFl (out.map (·.1)) (mdl.map (·.1)) && sameFl (out.map (·.2)) (mdl.map (·.2)))}"
  | "cf" =>
    let f ← pairSite g
    let ps ← fls a "p"
    let out := ps.map (f pb b)
    let mdl := ps.map (Bounds.cfPair iv)
    pure s!"ok pa1={showList (fun r => showFloat r.1) out} pa0={showList (fun r => showFloat r.2) out} model={showBool (sameFl (out.map (·.1)) (mdl.map (·.1)) && sameFl (out.map (·.2)) (mdl.map (·.2)))}"
  | "clip" =>
    -- one vector of a site that clips several: `comp` says which one the values stand for
    let comp ← need a "comp" some
    let ps ← fls a "p"
    let f : Float → Float ← match g, comp with
      | "AIPTW_missing_model", "m1" => pure fun x => (ZV.Gen.AIPTW_missing_model_site pb b x x).1
      | "AIPTW_missing_model", "m0" => pure fun x => (ZV.Gen.AIPTW_missing_model_site pb b x x).2
      | "TMLE_missing_model", "m1" => pure fun x => (ZV.Gen.TMLE_missing_model_site pb b x x).1
      | "TMLE_missing_model", "m0" => pure fun x => (ZV.Gen.TMLE_missing_model_site pb b x x).2
      -- the unbounded run's predictions are already clipped by the continuous bound: pbcb = identity on them
      | "TMLE_outcome_model", "q1" => pure fun x => (ZV.Gen.TMLE_outcome_model_site pb (fun y => y) b 1 x x).1
      | "TMLE_outcome_model", "q0" => pure fun x => (ZV.Gen.TMLE_outcome_model_site pb (fun y => y) b 1 x x).2.1
      | "StochasticTMLE_outcome_model", "qinit" => pure fun x => ZV.Gen.StochasticTMLE_outcome_model_site pb (fun y => y) b x
      | _, _ => throw ("unknown-gsite:" ++ g ++ "/" ++ comp)
    let out := ps.map f
    pure s!"ok p={showList showFloat out} model={showBool (sameFl out (ps.map (Bounds.applyB iv)))}"
  | "qaw" =>
    -- TMLE.outcome_model: the prediction under the observed exposure, assembled by the generated lines
    if g != "TMLE_outcome_model" then throw ("unknown-gsite:" ++ g)
    let rows := zip3 (← fls a "a") (← fls a "q1") (← fls a "q0")
    let out := rows.map fun (x, q1, q0) => (ZV.Gen.TMLE_outcome_model_site pb (fun y => y) b x q1 q0).2.2
    pure s!"ok qaw={showList showFloat out}"
  | "stoch" =>
    if g != "StochasticTMLE_exposure_model" then throw ("unknown-gsite:" ++ g)
    let rows := (← bools a "a").zip (← fls a "p")
    let out := rows.map fun (a1, p) => ZV.Gen.StochasticTMLE_exposure_model_site pb b a1 p
    pure s!"ok den={showList showFloat out} model={showBool (sameFl out (rows.map fun (a1, p) => Bounds.stochDen iv a1 p))}"
  | "ipmw" =>
    let f ← match g with
      | "IPTW_missing_model" => pure (ZV.Gen.IPTW_missing_model_site (F := Float))
      | "GEstimationSNM_missing_model" => pure (ZV.Gen.GEstimationSNM_missing_model_site (F := Float))
      | _ => throw ("unknown-gsite:" ++ g)
    let rows := (← fls a "n").zip (← fls a "d")
    let out := rows.map fun (n, d) => f pb b true (0.0 / 0.0) n d
    pure s!"ok w={showList showFloat out} model={showBool (sameFl out (rows.map fun (n, d) => Bounds.ipmwRow iv n d))}"
  | "ipsw" =>
    if g != "IPSW_sampling_model" then throw ("unknown-gsite:" ++ g)
    let gen ← need a "gen" parseBool
    let stab ← need a "stab" parseBool
    let rows := (← fls a "n").zip (← fls a "d")
    let out := rows.map fun (n, d) => ZV.Gen.IPSW_sampling_model_site pb b gen stab n d
    let mdl := rows.map fun (n, d) => Bounds.ipswRow gen stab iv n d
    let ok := sameFl (out.map (·.1)) (mdl.map (·.1)) && sameFl (out.map (·.2.1)) (mdl.map (·.2.1)) && sameFl (out.map (·.2.2)) (mdl.map (·.2.2))
    pure s!"ok d={showList (fun r => showFloat r.1) out} n={showList (fun r => showFloat r.2.1) out} w={showList (fun r => showFloat r.2.2) out} model={showBool ok}"
  | _ => throw ("unknown-kind:" ++ kind)

/-- `bw kind=… spec=… falsy=0|1 [gsite=…] …`: the estimator use sites of the bound, Float carrier -/
def opBw (a : Args) : Except String String := do
  let kind ← need a "kind" some
  let spec ← need a "spec" parseSpec
  let falsy ← need a "falsy" parseBool
  match Bounds.estimatorBound falsy spec with
  | .error e => pure ("err " ++ showErr e)
  | .ok iv =>
    if let some g := a.get? "gsite" then return (← opBwGen g kind iv a)
    match kind with
    | "iptw" =>
      let stab ← need a "stab" parseBool
      let std ← need a "std" some
      let rows := zip3 (← bools a "a") (← fls a "n") (← fls a "d")
      let out := rows.map fun (a1, n, d) => Bounds.iptwRow stab std iv a1 n d
      pure s!"ok d={showList (fun r => showFloat r.1) out} n={showList (fun r => showFloat r.2.1) out} w={showList (fun r => showFloat r.2.2) out}"
    | "gpair" =>
      let out := (← fls a "p").map (Bounds.gPair iv)
      pure s!"ok g1={showList (fun r => showFloat r.1) out} g0={showList (fun r => showFloat r.2) out}"
    | "clip" =>
      let out := (← fls a "p").map (Bounds.applyB iv)
      pure s!"ok p={showList showFloat out}"
    | "stoch" =>
      let out := ((← bools a "a").zip (← fls a "p")).map fun (a1, p) => Bounds.stochDen iv a1 p
      pure s!"ok den={showList showFloat out}"
    | "cf" =>
      let out := (← fls a "p").map (Bounds.cfPair iv)
      pure s!"ok pa1={showList (fun r => showFloat r.1) out} pa0={showList (fun r => showFloat r.2) out}"
    | "ipmw" =>
      let out := ((← fls a "n").zip (← fls a "d")).map fun (n, d) => Bounds.ipmwRow iv n d
      pure s!"ok w={showList showFloat out}"
    | "ipsw" =>
      let gen ← need a "gen" parseBool
      let stab ← need a "stab" parseBool
      let out := ((← fls a "n").zip (← fls a "d")).map fun (n, d) => Bounds.ipswRow gen stab iv n d
      pure s!"ok d={showList (fun r => showFloat r.1) out} n={showList (fun r => showFloat r.2.1) out} w={showList (fun r => showFloat r.2.2) out}"
    | _ => throw ("unknown-kind:" ++ kind)

def opsC17 : OpTable := [("bounds", opBounds), ("bw", opBw)]

end ZVD
