/- Driver ops for C17: probability_bounds. -/
import Driver.Common
import ZepidVerif.Model.Bounds
namespace ZVD
open ZV

def parseSpec (s : String) : Option (Bounds.BoundSpec Float) :=
  if s == "str" then some .str
  else if s == "int" then some .int
  else if s.startsWith "float:" then (parseFloat (s.drop 6).toString).map .float
  else if s.startsWith "seq:" then
    let body := (s.drop 4).toString
    let items := if body == "" then [] else body.splitOn ";"
    (items.mapM fun t => if t == "s" then some none else (parseFloat t).map some).map .seq
  else none

def opBounds (a : Args) : Except String String := do
  let spec ← need a "spec" parseSpec
  let v ← need a "v" (parseList parseFloat)
  match Bounds.probabilityBounds v spec with
  | .ok r => pure ("ok v=" ++ showList showFloat r)
  | .error e => pure ("err " ++ showErr e)

def opsC17 : OpTable := [("bounds", opBounds)]

end ZVD
