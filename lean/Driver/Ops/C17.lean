/- Driver ops for C17: probability_bounds and the places where estimators apply it. -/
import Driver.Common
import ZepidVerif.Model.Bounds
namespace ZVD
open ZV

def parseSpec (s : String) : Option (Bounds.BoundSpec Float) :=
  if s == "str" then some .str
  else if s == "int" then some .int
  else if s == "other" then some .other
  else if s.startsWith "float:" then (parseFloat (s.drop 6).toString).map .float
  else if s.startsWith "seq:" then
    let body := (s.drop 4).toString
    let items := if body == "" then [] else body.splitOn ";"
    (items.mapM fun t => if t == "s" then some none else (parseFloat t).map some).map .seq
  else none

def opBounds (a : Args) : Except String String := do
  let spec ← need a "spec" parseSpec
  let v ← need a "v" (parseList parseFloat)
  match Bounds.parseBound spec with
  | .error e => pure ("err " ++ showErr e)
  | .ok (lo, hi) =>
    match Bounds.probabilityBounds v spec with
    | .ok r => pure s!"ok v={showList showFloat r} lo={showFloat lo} hi={showFloat hi} truncated={Bounds.truncCount lo hi v}"
    | .error e => pure ("err " ++ showErr e)

def zip3 {α β γ} : List α → List β → List γ → List (α × β × γ)
  | a :: as, b :: bs, c :: cs => (a, b, c) :: zip3 as bs cs
  | _, _, _ => []

/-- `bw kind=… spec=… falsy=0|1 …`: the estimator use sites of the bound, Float carrier -/
def opBw (a : Args) : Except String String := do
  let kind ← need a "kind" some
  let spec ← need a "spec" parseSpec
  let falsy ← need a "falsy" parseBool
  match Bounds.estimatorBound falsy spec with
  | .error e => pure ("err " ++ showErr e)
  | .ok iv =>
    match kind with
    | "iptw" =>
      let stab ← need a "stab" parseBool
      let std ← need a "std" some
      let rows := zip3 (← bools a "a") (← fls a "n") (← fls a "d")
      let out := rows.map fun (a1, n, d) => Bounds.iptwRow stab std iv a1 n d
      pure s!"ok d={showList (fun r => showFloat r.1) out} n={showList (fun r => showFloat r.2.1) out} w={showList (fun r => showFloat r.2.2) out}"
    | "gpair" =>
      let out := (← fls a "p").map (Bounds.gPair iv)
      pure s!"ok g1={showList (fun r => showFloat r.1) out} g0={showList (fun r => showFloat r.2) out}"
    | "clip" =>
      let out := (← fls a "p").map (Bounds.applyB iv)
      pure s!"ok p={showList showFloat out}"
    | "stoch" =>
      let out := ((← bools a "a").zip (← fls a "p")).map fun (a1, p) => Bounds.stochDen iv a1 p
      pure s!"ok den={showList showFloat out}"
    | "cf" =>
      let out := (← fls a "p").map (Bounds.cfPair iv)
      pure s!"ok pa1={showList (fun r => showFloat r.1) out} pa0={showList (fun r => showFloat r.2) out}"
    | "ipmw" =>
      let out := ((← fls a "n").zip (← fls a "d")).map fun (n, d) => Bounds.ipmwRow iv n d
      pure s!"ok w={showList showFloat out}"
    | "ipsw" =>
      let gen ← need a "gen" parseBool
      let stab ← need a "stab" parseBool
      let out := ((← fls a "n").zip (← fls a "d")).map fun (n, d) => Bounds.ipswRow gen stab iv n d
      pure s!"ok d={showList (fun r => showFloat r.1) out} n={showList (fun r => showFloat r.2.1) out} w={showList (fun r => showFloat r.2.2) out}"
    | _ => throw ("unknown-kind:" ++ kind)

def opsC17 : OpTable := [("bounds", opBounds), ("bw", opBw)]

end ZVD
