/-
Native line-protocol driver: runs the executable model (hand-written `Model/*` and the
translator output `Gen/*`) on requests produced by the Python harness.  Imports nothing
from Mathlib, so it links as a plain `lean_exe`.
-/
import Driver.Parse
import Driver.Table
open ZVD

partial def loop (h : IO.FS.Stream) (out : IO.FS.Stream) : IO Unit := do
  let line ← h.getLine
  if line.isEmpty then return ()
  let (op, args) := parseLine line
  if op == "" then
    out.putStrLn "err empty"
  else
    match ZVD.dispatch op args with
    | .ok s => out.putStrLn s
    | .error e => out.putStrLn ("err " ++ e)
  out.flush
  loop h out

def main : IO Unit := do
  let out ← IO.getStdout
  loop (← IO.getStdin) out
  out.flush
