/-
Lemmas about the standardization vocabulary of `Model/Std.lean`: regrouping a sum over rows by
covariate stratum, and the master lemma `hajek_eq_std` (a weighted arm mean whose weights
balance every stratum to the target distribution equals the standardized mean).
Helper lemmas only.
-/
import ZepidVerif.Model.Std
import ZepidVerif.Lemmas.Sum
import Mathlib.Tactic.FieldSimp
namespace ZV.Std
open ZV
variable {F : Type} [Field F]

theorem sumIf_def (p : Row F → Bool) (f : Row F → F) (l : List (Row F)) :
    sumIf p f l = sumBy (fun r => if p r then f r else 0) l := by
  simp [sumIf]

theorem sumIf_congr {p q : Row F → Bool} {f g : Row F → F} {l : List (Row F)}
    (h : ∀ r ∈ l, (if p r then f r else 0) = (if q r then g r else 0)) : sumIf p f l = sumIf q g l := by
  rw [sumIf_def, sumIf_def]; exact sumBy_congr h

theorem sumIf_mul_left (p : Row F → Bool) (c : F) (f : Row F → F) (l : List (Row F)) :
    sumIf p (fun r => c * f r) l = c * sumIf p f l := by
  rw [sumIf_def, sumIf_def, ← sumBy_mul_left]
  apply sumBy_congr; intro r _; split <;> simp

theorem sumIf_add (p : Row F → Bool) (f g : Row F → F) (l : List (Row F)) :
    sumIf p (fun r => f r + g r) l = sumIf p f l + sumIf p g l := by
  rw [sumIf_def, sumIf_def, sumIf_def, ← sumBy_add]
  apply sumBy_congr; intro r _; split <;> simp

theorem sumIf_true (f : Row F → F) (l : List (Row F)) : sumIf (fun _ => true) f l = sumBy f l := by
  rw [sumIf_def]; simp

/-- a sum over rows, regrouped by covariate stratum -/
theorem sumIf_regroup (S : List Nat) (hS : S.Nodup) (l : List (Row F)) (hl : ∀ r ∈ l, r.s ∈ S)
    (p : Row F → Bool) (f : Row F → F) :
    sumIf p f l = sumBy (fun s => sumIf (fun r => inStratum s r && p r) f l) S := by
  rw [sumIf_def, sumBy_regroup (fun r : Row F => r.s) S hS _ l hl]
  apply sumBy_congr; intro s _
  rw [sumIf_def]
  apply sumBy_congr; intro r _
  by_cases h : r.s = s <;> simp [inStratum, h]

theorem sumBy_regroup_rows (S : List Nat) (hS : S.Nodup) (l : List (Row F)) (hl : ∀ r ∈ l, r.s ∈ S)
    (f : Row F → F) :
    sumBy f l = sumBy (fun s => sumIf (fun r => inStratum s r) f l) S := by
  rw [← sumIf_true, sumIf_regroup S hS l hl]
  apply sumBy_congr; intro s _; apply sumIf_congr; intro r _; simp

/-- cell total = cell weight × cell mean -/
theorem WY_eq (l : List (Row F)) (s : Nat) (a : Bool) (h : W (inCell s a) l ≠ 0) :
    WY (inCell s a) l = W (inCell s a) l * cellMean l s a := by
  unfold cellMean; field_simp

/-- a weighted sum over the observed rows of arm `a`, whose weight is a function `Ω` of the stratum
    there, regrouped by stratum -/
theorem sumIf_arm_regroup (l : List (Row F)) (S : List Nat) (hS : S.Nodup) (hl : ∀ r ∈ l, r.s ∈ S)
    (a : Bool) (ω : Row F → F) (Ω : Nat → F) (hω : ∀ r ∈ l, r.a = a → r.obs = true → ω r = Ω r.s)
    (g : Row F → F) :
    sumIf (fun r => r.a == a && r.obs) (fun r => ω r * g r) l
      = sumBy (fun s => Ω s * sumIf (inCell s a) g l) S := by
  rw [sumIf_regroup S hS l hl]
  apply sumBy_congr; intro s _
  rw [← sumIf_mul_left]
  apply sumIf_congr; intro r hr
  by_cases h1 : r.s = s <;> by_cases h2 : r.a = a <;> by_cases h3 : r.obs = true <;>
    simp [inStratum, inCell, h1, h2, h3]
  · subst h1; rw [hω r hr h2 h3]; left; trivial

/-- **Master lemma.**  If, on the observed rows of arm `a`, the row weight `ω` is a function
    `Ω` of the stratum, and `Ω s` times the cell's weight is proportional (same constant `c ≠ 0`
    for all strata) to the target's weight in the stratum, then the Hájek mean of the arm is the
    standardized mean. -/
theorem hajek_eq_std (l : List (Row F)) (S : List Nat) (hS : S.Nodup) (hl : ∀ r ∈ l, r.s ∈ S)
    (t : Row F → Bool) (a : Bool) (ω : Row F → F) (Ω : Nat → F) (c : F) (hc : c ≠ 0)
    (hω : ∀ r ∈ l, r.a = a → r.obs = true → ω r = Ω r.s)
    (hcell : ∀ s ∈ S, W (inCell s a) l ≠ 0)
    (hbal : ∀ s ∈ S, Ω s * W (inCell s a) l = c * Ntgt t l s) :
    hajek l ω a = std l S t a := by
  have key := fun g => sumIf_arm_regroup l S hS hl a ω Ω hω g
  unfold hajek std
  rw [key, key]
  have hnum : sumBy (fun s => Ω s * sumIf (inCell s a) (fun r => r.w * r.y) l) S
      = c * sumBy (fun s => Ntgt t l s * cellMean l s a) S := by
    rw [← sumBy_mul_left]; apply sumBy_congr; intro s hs
    have := WY_eq l s a (hcell s hs)
    unfold WY at this
    rw [this, ← mul_assoc, hbal s hs]; ring
  have hden : sumBy (fun s => Ω s * sumIf (inCell s a) (fun r => r.w) l) S
      = c * sumBy (fun s => Ntgt t l s) S := by
    rw [← sumBy_mul_left]; apply sumBy_congr; intro s hs
    exact hbal s hs
  rw [hnum, hden, mul_div_mul_left _ _ hc]

end ZV.Std
