/-
Helper lemmas for the AIPTW pseudo-outcome means (`ZV.Std.aipw1 / aipw0`, built on the generated
lines of `aipw_calculator`): stratum-wise decomposition and the two cancellations behind double
robustness.
-/
import ZepidVerif.Lemmas.CellFit
namespace ZV.Std
open ZV
set_option linter.unusedSectionVars false
variable {F : Type} [Field F] [LinearOrder F] [IsStrictOrderedRing F] [Transc F]

theorem sumBy_w_eq (l : List (Row F)) (S : List Nat) (hS : Strata l S) :
    sumBy (fun r => r.w) l = sumBy (fun s => Ntgt Tgt.pop.mem l s) S := by
  rw [sumBy_regroup_rows S hS.1 l hS.2]
  apply sumBy_congr; intro s _; unfold Ntgt W; apply sumIf_congr; intro r _; simp [Tgt.mem]

/-- with all outcomes observed the two flavours of cell coincide -/
theorem W_inCell_eq_all (l : List (Row F)) (hobs : ∀ r ∈ l, r.obs = true) (s : Nat) (a : Bool) :
    W (inCell s a) l = W (inCellAll s a) l := by
  unfold W; apply sumIf_congr; intro r hr; simp [inCell, inCellAll, hobs r hr]

/-- stratum-wise form of the numerator of `aipw1`: the treated contribute `(y − Q₁(1−g))/g`, the
    untreated `Q₁` -/
theorem aipw1_num (l : List (Row F)) (S : List Nat) (hS : Strata l S) (hobs : ∀ r ∈ l, r.obs = true)
    (Q : Nat → Bool → F) (g1 g0 : Nat → F) :
    sumBy (fun r => r.w * Gen.aipw_y1 r.a r.y (Q r.s true) (Q r.s false) (g1 r.s) (g0 r.s)) l
      = sumBy (fun s => (WY (inCell s true) l - Q s true * (1 - g1 s) * W (inCell s true) l) / g1 s
          + Q s true * W (inCell s false) l) S := by
  rw [sumBy_regroup_rows S hS.1 l hS.2]
  apply sumBy_congr; intro s _
  have e1 : (WY (inCell s true) l - Q s true * (1 - g1 s) * W (inCell s true) l) / g1 s
      = sumIf (inCell s true) (fun r => r.w * ((r.y - Q s true * (1 - g1 s)) / g1 s)) l := by
    have h : sumIf (inCell s true) (fun r => r.w * ((r.y - Q s true * (1 - g1 s)) / g1 s)) l
        = sumIf (inCell s true) (fun r => (g1 s)⁻¹ * (r.w * r.y) + (-(Q s true * (1 - g1 s) * (g1 s)⁻¹)) * r.w) l := by
      apply sumIf_congr; intro r _; split <;> ring
    rw [h, sumIf_add, sumIf_mul_left, sumIf_mul_left]; unfold WY W; ring
  have e2 : Q s true * W (inCell s false) l = sumIf (inCell s false) (fun r => r.w * Q s true) l := by
    unfold W; rw [← sumIf_mul_left]; apply sumIf_congr; intro r _; split <;> ring
  rw [e1, e2, sumIf_def, sumIf_def, sumIf_def, ← sumBy_add]
  apply sumBy_congr; intro r hr
  by_cases h : r.s = s
  · subst h
    cases ha : r.a <;> simp [inStratum, inCell, Gen.aipw_y1, ha, hobs r hr]
  · simp [inStratum, inCell, h]

theorem aipw0_num (l : List (Row F)) (S : List Nat) (hS : Strata l S) (hobs : ∀ r ∈ l, r.obs = true)
    (Q : Nat → Bool → F) (g1 g0 : Nat → F) :
    sumBy (fun r => r.w * Gen.aipw_y0 r.a r.y (Q r.s true) (Q r.s false) (g1 r.s) (g0 r.s)) l
      = sumBy (fun s => (WY (inCell s false) l - Q s false * (1 - g0 s) * W (inCell s false) l) / g0 s
          + Q s false * W (inCell s true) l) S := by
  rw [sumBy_regroup_rows S hS.1 l hS.2]
  apply sumBy_congr; intro s _
  have e1 : (WY (inCell s false) l - Q s false * (1 - g0 s) * W (inCell s false) l) / g0 s
      = sumIf (inCell s false) (fun r => r.w * ((r.y - Q s false * (1 - g0 s)) / g0 s)) l := by
    have h : sumIf (inCell s false) (fun r => r.w * ((r.y - Q s false * (1 - g0 s)) / g0 s)) l
        = sumIf (inCell s false) (fun r => (g0 s)⁻¹ * (r.w * r.y) + (-(Q s false * (1 - g0 s) * (g0 s)⁻¹)) * r.w) l := by
      apply sumIf_congr; intro r _; split <;> ring
    rw [h, sumIf_add, sumIf_mul_left, sumIf_mul_left]; unfold WY W; ring
  have e2 : Q s false * W (inCell s true) l = sumIf (inCell s true) (fun r => r.w * Q s false) l := by
    unfold W; rw [← sumIf_mul_left]; apply sumIf_congr; intro r _; split <;> ring
  rw [e1, e2, sumIf_def, sumIf_def, sumIf_def, ← sumBy_add]
  apply sumBy_congr; intro r hr
  by_cases h : r.s = s
  · subst h
    cases ha : r.a <;> simp [inStratum, inCell, Gen.aipw_y0, ha, hobs r hr]
  · simp [inStratum, inCell, h]

/-- per-stratum value the numerator must take for the mean to be the standardized mean -/
theorem std_pop_of_terms (l : List (Row F)) (S : List Nat) (hS : Strata l S) (a : Bool) (T : Nat → F)
    (hT : ∀ s ∈ S, T s = W (inStratum s) l * cellMean l s a) (num : F) (hnum : num = sumBy T S) :
    num / sumBy (fun r => r.w) l = std l S Tgt.pop.mem a := by
  unfold std
  rw [sumBy_w_eq l S hS, hnum]
  congr 1
  apply sumBy_congr; intro s hs; rw [hT s hs]
  unfold Ntgt; congr 1
  unfold W; apply sumIf_congr; intro r _; simp [Tgt.mem]

/-- outcome model saturated, *any* treatment probabilities (non-zero): arm-1 AIPW mean = standardized mean -/
theorem aipw1_of_outfit (l : List (Row F)) (S : List Nat) (hS : Strata l S) (hpos : Positivity l S)
    (hobs : ∀ r ∈ l, r.obs = true) (Q : Nat → Bool → F) (hQ : OutFit l S Q) (g1 g0 : Nat → F)
    (hg : ∀ s ∈ S, g1 s ≠ 0) : aipw1 l (fun r => Q r.s) (fun r => g1 r.s) (fun r => g0 r.s) = std l S Tgt.pop.mem true := by
  unfold aipw1 wmean
  refine std_pop_of_terms l S hS true _ ?_ _ (aipw1_num l S hS hobs Q g1 g0)
  intro s hs
  have hg' := hg s hs
  have e := hQ s hs true
  have hc := hQ.eq_cellMean hs true (hpos.cell_pos hs true).ne'
  rw [W_stratum_split, ← W_inCell_eq_all l hobs, ← W_inCell_eq_all l hobs, ← e, ← hc]
  field_simp; ring

theorem aipw0_of_outfit (l : List (Row F)) (S : List Nat) (hS : Strata l S) (hpos : Positivity l S)
    (hobs : ∀ r ∈ l, r.obs = true) (Q : Nat → Bool → F) (hQ : OutFit l S Q) (g1 g0 : Nat → F)
    (hg : ∀ s ∈ S, g0 s ≠ 0) : aipw0 l (fun r => Q r.s) (fun r => g1 r.s) (fun r => g0 r.s) = std l S Tgt.pop.mem false := by
  unfold aipw0 wmean
  refine std_pop_of_terms l S hS false _ ?_ _ (aipw0_num l S hS hobs Q g1 g0)
  intro s hs
  have hg' := hg s hs
  have e := hQ s hs false
  have hc := hQ.eq_cellMean hs false (hpos.cell_pos hs false).ne'
  rw [W_stratum_split, ← W_inCell_eq_all l hobs, ← W_inCell_eq_all l hobs, ← e, ← hc]
  field_simp; ring

/-- treatment model saturated, *any* outcome predictions (functions of stratum and arm) -/
theorem aipw1_of_propfit (l : List (Row F)) (S : List Nat) (hS : Strata l S) (hpos : Positivity l S)
    (hobs : ∀ r ∈ l, r.obs = true) (Q : Nat → Bool → F) (p : Nat → F) (hp : PropFit l S p) (g0 : Nat → F) :
    aipw1 l (fun r => Q r.s) (fun r => p r.s) (fun r => g0 r.s) = std l S Tgt.pop.mem true := by
  unfold aipw1 wmean
  refine std_pop_of_terms l S hS true _ ?_ _ (aipw1_num l S hS hobs Q p g0)
  intro s hs
  have hp0 := (hp.mem_Ioo hpos hs).1.ne'
  have e := hp s hs
  have hsplit := W_stratum_split l s
  have hW1 := (hpos.cell_pos hs true).ne'
  have h1 : W (inCell s true) l = p s * W (inStratum s) l := by rw [W_inCell_eq_all l hobs]; exact e.symm
  have h0 : W (inCell s false) l = (1 - p s) * W (inStratum s) l := by
    rw [W_inCell_eq_all l hobs, sub_mul, one_mul, e, hsplit]; ring
  rw [WY_eq l s true hW1, h0, h1]
  field_simp; ring

theorem aipw0_of_propfit (l : List (Row F)) (S : List Nat) (hS : Strata l S) (hpos : Positivity l S)
    (hobs : ∀ r ∈ l, r.obs = true) (Q : Nat → Bool → F) (p : Nat → F) (hp : PropFit l S p) (g1 : Nat → F) :
    aipw0 l (fun r => Q r.s) (fun r => g1 r.s) (fun r => 1 - p r.s) = std l S Tgt.pop.mem false := by
  unfold aipw0 wmean
  refine std_pop_of_terms l S hS false _ ?_ _ (aipw0_num l S hS hobs Q g1 (fun s => 1 - p s))
  intro s hs
  have hp1 := (sub_pos.mpr (hp.mem_Ioo hpos hs).2).ne'
  have e := hp s hs
  have hsplit := W_stratum_split l s
  have hW0 := (hpos.cell_pos hs false).ne'
  have h1 : W (inCell s true) l = p s * W (inStratum s) l := by rw [W_inCell_eq_all l hobs]; exact e.symm
  have h0 : W (inCell s false) l = (1 - p s) * W (inStratum s) l := by
    rw [W_inCell_eq_all l hobs, sub_mul, one_mul, e, hsplit]; ring
  rw [WY_eq l s false hW0, h0, h1]
  field_simp; ring

end ZV.Std
