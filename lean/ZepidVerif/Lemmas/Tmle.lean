/-
Helper lemmas for C03: linearity / congruence / bounds of `ZV.sumBy` and `ZV.Tmle.mean`.
-/
import ZepidVerif.Model.Tmle
import Mathlib.Algebra.Order.Field.Basic
import Mathlib.Tactic.FieldSimp
import Mathlib.Tactic.Ring
import Mathlib.Tactic.Linarith
import Mathlib.Tactic.Positivity
set_option linter.unusedSectionVars false
namespace ZV.Tmle.L
open ZV ZV.Tmle

variable {F : Type} [Field F] [LinearOrder F] [IsStrictOrderedRing F] {α : Type}

theorem sumBy_nil (f : α → F) : sumBy f [] = 0 := by simp [sumBy]

theorem sumBy_cons (f : α → F) (x : α) (l : List α) : sumBy f (x :: l) = f x + sumBy f l := rfl

theorem sumBy_congr (f g : α → F) (l : List α) (h : ∀ x ∈ l, f x = g x) : sumBy f l = sumBy g l := by
  induction l with
  | nil => rfl
  | cons x xs ih =>
    rw [sumBy_cons, sumBy_cons, h x (List.mem_cons_self ..), ih (fun y hy => h y (List.mem_cons_of_mem _ hy))]

theorem sumBy_neg (f : α → F) (l : List α) : sumBy (fun x => -f x) l = -sumBy f l := by
  induction l with
  | nil => simp [sumBy]
  | cons x xs ih => rw [sumBy_cons, sumBy_cons, ih]; ring

theorem sumBy_sub (f g : α → F) (l : List α) : sumBy (fun x => f x - g x) l = sumBy f l - sumBy g l := by
  induction l with
  | nil => simp [sumBy]
  | cons x xs ih => rw [sumBy_cons, sumBy_cons, sumBy_cons, ih]; ring

theorem sumBy_mul_right (f : α → F) (c : F) (l : List α) : sumBy (fun x => f x * c) l = sumBy f l * c := by
  induction l with
  | nil => simp [sumBy]
  | cons x xs ih => rw [sumBy_cons, sumBy_cons, ih]; ring

theorem sumBy_append (f : α → F) (l₁ l₂ : List α) : sumBy f (l₁ ++ l₂) = sumBy f l₁ + sumBy f l₂ := by
  induction l₁ with
  | nil => simp [sumBy]
  | cons x xs ih => rw [List.cons_append, sumBy_cons, sumBy_cons, ih]; ring

theorem sumBy_map {β : Type} (g : β → α) (f : α → F) (l : List β) : sumBy f (l.map g) = sumBy (fun x => f (g x)) l := by
  induction l with
  | nil => rfl
  | cons x xs ih => rw [List.map_cons, sumBy_cons, sumBy_cons, ih]

/-- a sum of values all `≥ lo` / `≤ hi` -/
theorem sumBy_le (f : α → F) (lo hi : F) (l : List α) (h : ∀ x ∈ l, lo ≤ f x ∧ f x ≤ hi) :
    lo * (l.length : F) ≤ sumBy f l ∧ sumBy f l ≤ hi * (l.length : F) := by
  induction l with
  | nil => simp [sumBy]
  | cons x xs ih =>
    have hx := h x (List.mem_cons_self ..)
    have := ih (fun y hy => h y (List.mem_cons_of_mem _ hy))
    rw [sumBy_cons, List.length_cons, Nat.cast_succ]
    constructor <;> nlinarith [this.1, this.2, hx.1, hx.2]

/-- strict version on a non-empty list -/
theorem sumBy_lt (f : α → F) (lo hi : F) (l : List α) (hne : l ≠ []) (h : ∀ x ∈ l, lo < f x ∧ f x < hi) :
    lo * (l.length : F) < sumBy f l ∧ sumBy f l < hi * (l.length : F) := by
  induction l with
  | nil => exact absurd rfl hne
  | cons x xs ih =>
    have hx := h x (List.mem_cons_self ..)
    have hw := sumBy_le f lo hi xs (fun y hy => ⟨(h y (List.mem_cons_of_mem _ hy)).1.le,
      (h y (List.mem_cons_of_mem _ hy)).2.le⟩)
    rw [sumBy_cons, List.length_cons, Nat.cast_succ]
    constructor <;> nlinarith [hw.1, hw.2, hx.1, hx.2]

theorem length_pos_cast (l : List α) (hne : l ≠ []) : (0 : F) < (l.length : F) := by
  have : 0 < l.length := List.length_pos_iff.mpr hne
  exact_mod_cast this

/-- the mean of values in an open interval lies in it -/
theorem mean_mem_Ioo (f : α → F) (lo hi : F) (l : List α) (hne : l ≠ []) (h : ∀ x ∈ l, lo < f x ∧ f x < hi) :
    lo < mean f l ∧ mean f l < hi := by
  have hn := length_pos_cast (F := F) l hne
  have hs := sumBy_lt f lo hi l hne h
  unfold mean
  constructor
  · rw [lt_div_iff₀ hn]; exact hs.1
  · rw [div_lt_iff₀ hn]; exact hs.2

/-- the mean of values in a closed interval lies in it -/
theorem mean_mem_Icc (f : α → F) (lo hi : F) (l : List α) (hne : l ≠ []) (h : ∀ x ∈ l, lo ≤ f x ∧ f x ≤ hi) :
    lo ≤ mean f l ∧ mean f l ≤ hi := by
  have hn := length_pos_cast (F := F) l hne
  have hs := sumBy_le f lo hi l h
  unfold mean
  constructor
  · rw [le_div_iff₀ hn]; exact hs.1
  · rw [div_le_iff₀ hn]; exact hs.2

theorem mean_sub (f g : α → F) (l : List α) : mean (fun x => f x - g x) l = mean f l - mean g l := by
  unfold mean; rw [sumBy_sub]; ring

theorem mean_mul_right (f : α → F) (c : F) (l : List α) : mean (fun x => f x * c) l = mean f l * c := by
  unfold mean; rw [sumBy_mul_right]; ring

theorem mean_congr (f g : α → F) (l : List α) (h : ∀ x ∈ l, f x = g x) : mean f l = mean g l := by
  unfold mean; rw [sumBy_congr f g l h]

end ZV.Tmle.L
