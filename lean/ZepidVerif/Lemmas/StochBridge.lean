/-
Bridge: the definition regenerated from the text of `StochasticIPTW.fit` (`Gen.stoch_iptw_fit`, `Gen/Stoch.lean`)
computes the hand model of `Model/Stochastic.lean` (`planNumer`, `stochWeight`, `stochIptw`) at the plan the
arguments denote.  Helper lemmas; the audited statements are in `Props/C05_Gen.lean` and `Props/C14_Gen.lean`.

Only the three lemmas `gen_numer_eq`, `gen_ipw_eq`, `gen_marginal_eq` look inside the generated definition, and they
do it by unfolding + case analysis on the row (treatment, condition hit or not, numerator NaN or not), so that
equivalent spellings of the source lines (`A == 0` with swapped branches, `~eval(c)` with swapped branches, commuted
products, temporaries) still go through; a change of what is computed does not.
-/
import ZepidVerif.Gen.Stoch
import ZepidVerif.Lemmas.Stochastic
import Mathlib.Algebra.Order.Field.Basic
import Mathlib.Tactic.Ring
namespace ZV.Stoch
open ZV ZV.Std
set_option linter.unusedSectionVars false
set_option linter.unusedVariables false
set_option linter.unusedSimpArgs false
set_option linter.unreachableTactic false
set_option linter.unusedTactic false
variable {F : Type} [Field F] [LinearOrder F] [IsStrictOrderedRing F] [Transc F]

/-- the (condition, probability) pairs of `zip(conditional, p)`, **in listing order** -/
def condsOf (ps : List F) (conditional : List (Nat → Bool)) : List (Cond F) :=
  (List.zip conditional ps).map fun cv => ⟨cv.1, cv.2⟩

/-- the plan the arguments of `StochasticIPTW.fit(p, conditional)` denote: `conditional is None` = one probability
    for everyone; otherwise the listed pairs -/
def planOf (hasCond : Bool) (p : F) (ps : List F) (conditional : List (Nat → Bool)) : Plan F :=
  if hasCond then .cond (condsOf ps conditional) else .uncond p

/-- two loops over the same list whose bodies agree compute the same thing -/
theorem foldl_body_congr {α β : Type} (f g : β → α → β) (h : ∀ b a, f b a = g b a) (l : List α) (b : β) :
    l.foldl f b = l.foldl g b := by
  have : f = g := by funext b a; exact h b a
  rw [this]

/-- the model's numerator of a conditional plan, as a loop over `zip(conditional, p)` -/
theorem planNumer_cond_eq_foldl (ps : List F) (conditional : List (Nat → Bool)) (r : Row F) :
    planNumer (.cond (condsOf ps conditional)) r
      = (List.zip conditional ps).foldl (fun acc cv => if cv.1 r.i = true then some (recv r.a cv.2) else acc) none := by
  show overwrite (numerPairs r.a (condsOf ps conditional)) r.i = _
  unfold overwrite numerPairs condsOf
  rw [List.map_map, List.foldl_map]
  rfl

/-- the `_numer_` column of the generated code, at every row -/
theorem gen_numer_eq (hasCond hasWeights : Bool) (p : F) (ps : List F) (conditional : List (Nat → Bool))
    (l : List (Row F)) (g : Row F → F) (r : Row F) :
    (Gen.stoch_iptw_fit hasCond hasWeights p ps conditional l g).1 r
      = planNumer (planOf hasCond p ps conditional) r := by
  cases hasCond
  · have hpl : planOf false p ps conditional = .uncond p := rfl
    rw [hpl]
    cases hasWeights <;>
      simp only [Gen.stoch_iptw_fit, Bool.false_eq_true, Bool.true_eq_false, ↓reduceIte, planNumer] <;>
      cases r.a <;> simp [recv]
  · have hpl : planOf true p ps conditional = .cond (condsOf ps conditional) := rfl
    rw [hpl, planNumer_cond_eq_foldl]
    cases hasWeights <;>
      simp only [Gen.stoch_iptw_fit, Bool.false_eq_true, Bool.true_eq_false, ↓reduceIte] <;>
      apply foldl_body_congr <;> intro acc cv <;> cases cv.1 r.i <;> cases r.a <;> simp [recv]

/-- the `_ipw_` column of the generated code, at every row: numerator over the fitted probability of the treatment
    received, times the weight column when there is one -/
theorem gen_ipw_eq (hasCond hasWeights : Bool) (p : F) (ps : List F) (conditional : List (Nat → Bool))
    (l : List (Row F)) (g : Row F → F) (r : Row F) :
    (Gen.stoch_iptw_fit hasCond hasWeights p ps conditional l g).2.1 r
      = (planNumer (planOf hasCond p ps conditional) r).map fun nu =>
          if hasWeights then nu / recv r.a (g r) * r.w else nu / recv r.a (g r) := by
  have hn := gen_numer_eq hasCond hasWeights p ps conditional l g r
  cases hasCond
  · have hpl : planOf false p ps conditional = .uncond p := rfl
    rw [hpl] at hn ⊢
    cases hasWeights <;>
      simp only [Gen.stoch_iptw_fit, Bool.false_eq_true, Bool.true_eq_false, ↓reduceIte, planNumer] at hn ⊢ <;>
      cases r.a <;> simp [recv] <;> ring
  · cases hasWeights <;>
      simp only [Gen.stoch_iptw_fit, Bool.false_eq_true, Bool.true_eq_false, ↓reduceIte] at hn ⊢ <;>
      rw [hn] <;>
      cases planNumer (planOf true p ps conditional) r <;> cases r.a <;>
      simp [Nan.div, Nan.mul, Nan.lift2, recv] <;> ring

/-- `marginal_outcome` of the generated code in terms of its own `_ipw_` column: NaN as soon as one row has no
    numerator, else the ratio `Σ y·ipw / Σ ipw` -/
theorem gen_marginal_eq (hasCond hasWeights : Bool) (p : F) (ps : List F) (conditional : List (Nat → Bool))
    (l : List (Row F)) (g : Row F → F) :
    (Gen.stoch_iptw_fit hasCond hasWeights p ps conditional l g).2.2
      = if l.all (fun r => (planNumer (planOf hasCond p ps conditional) r).isSome) then
          some (sumBy (fun r => r.y * ((Gen.stoch_iptw_fit hasCond hasWeights p ps conditional l g).2.1 r).getD 0) l /
                sumBy (fun r => ((Gen.stoch_iptw_fit hasCond hasWeights p ps conditional l g).2.1 r).getD 0) l)
        else none := by
  have hall : (l.all fun r => (some r.y).isSome &&
        ((Gen.stoch_iptw_fit hasCond hasWeights p ps conditional l g).2.1 r).isSome)
      = l.all (fun r => (planNumer (planOf hasCond p ps conditional) r).isSome) := by
    congr 1; funext r; rw [gen_ipw_eq]; simp
  have hav : (Gen.stoch_iptw_fit hasCond hasWeights p ps conditional l g).2.2
      = Nan.average (fun r => some r.y) (fun r => (Gen.stoch_iptw_fit hasCond hasWeights p ps conditional l g).2.1 r) l := by
    cases hasCond <;> cases hasWeights <;>
      simp only [Gen.stoch_iptw_fit, Bool.false_eq_true, Bool.true_eq_false, ↓reduceIte] <;>
      first
        | rfl
        | simp [Nan.average]
  rw [hav]
  unfold Nan.average
  rw [hall]
  simp

/-- **the generated `StochasticIPTW.fit` is the model** at the plan its arguments denote: the `_numer_` column is
    `planNumer`, the `_ipw_` column `stochWeight` (on the rows of the data; without a weight column the model's
    frequency weight is 1), the marginal outcome `stochIptw` -/
theorem stoch_iptw_fit_eq (hasCond hasWeights : Bool) (p : F) (ps : List F) (conditional : List (Nat → Bool))
    (l : List (Row F)) (g : Row F → F) (hw : hasWeights = false → ∀ r ∈ l, r.w = 1) :
    (∀ r, (Gen.stoch_iptw_fit hasCond hasWeights p ps conditional l g).1 r
            = planNumer (planOf hasCond p ps conditional) r) ∧
    (∀ r ∈ l, (Gen.stoch_iptw_fit hasCond hasWeights p ps conditional l g).2.1 r
            = stochWeight (planOf hasCond p ps conditional) g r) ∧
    (Gen.stoch_iptw_fit hasCond hasWeights p ps conditional l g).2.2
            = stochIptw (planOf hasCond p ps conditional) g l := by
  have hrow : ∀ r ∈ l, (Gen.stoch_iptw_fit hasCond hasWeights p ps conditional l g).2.1 r
      = stochWeight (planOf hasCond p ps conditional) g r := by
    intro r hr
    rw [gen_ipw_eq, stochWeight]
    cases hasWeights
    · simp [hw rfl r hr]
    · simp
  refine ⟨gen_numer_eq hasCond hasWeights p ps conditional l g, hrow, ?_⟩
  rw [gen_marginal_eq]
  unfold stochIptw stochW
  rw [sumBy_congr (fun r hr => by rw [hrow r hr, Nat.cast_zero] : ∀ r ∈ l,
        r.y * ((Gen.stoch_iptw_fit hasCond hasWeights p ps conditional l g).2.1 r).getD 0
          = r.y * (stochWeight (planOf hasCond p ps conditional) g r).getD ((0 : Nat) : F)),
    sumBy_congr (fun r hr => by rw [hrow r hr, Nat.cast_zero] : ∀ r ∈ l,
        ((Gen.stoch_iptw_fit hasCond hasWeights p ps conditional l g).2.1 r).getD 0
          = (stochWeight (planOf hasCond p ps conditional) g r).getD ((0 : Nat) : F))]

end ZV.Stoch
