/-
Bridge: the definition regenerated from the text of `StochasticIPTW.fit` (`Gen.stoch_iptw_fit`, `Gen/Stoch.lean`)
computes the hand model of `Model/Stochastic.lean` (`planNumer`, `stochWeight`, `stochIptw`) at the plan the
arguments denote.  Helper lemmas; the audited statements are in `Props/C05_Gen.lean` and `Props/C14_Gen.lean`.
-/
import ZepidVerif.Gen.Stoch
import ZepidVerif.Lemmas.Stochastic
import Mathlib.Algebra.Order.Field.Basic
namespace ZV.Stoch
open ZV ZV.Std
set_option linter.unusedSectionVars false
set_option linter.unusedVariables false
set_option linter.unusedSimpArgs false
variable {F : Type} [Field F] [LinearOrder F] [IsStrictOrderedRing F] [Transc F]

/-- the plan the arguments of `StochasticIPTW.fit(p, conditional)` denote: `conditional is None` = one probability
    for everyone; otherwise the (condition, probability) pairs **in listing order** (`zip(conditional, p)`) -/
def condsOf (ps : List F) (conditional : List (Nat → Bool)) : List (Cond F) :=
  (List.zip conditional ps).map fun cv => ⟨cv.1, cv.2⟩

def planOf (hasCond : Bool) (p : F) (ps : List F) (conditional : List (Nat → Bool)) : Plan F :=
  if hasCond then .cond (condsOf ps conditional) else .uncond p

theorem nan_mul_div_some (x : Option F) (d w : F) :
    Nan.mul (Nan.div x (some d)) (some w) = x.map fun nu => nu / d * w := by
  cases x <;> rfl

theorem nan_div_some (x : Option F) (d : F) : Nan.div x (some d) = x.map fun nu => nu / d := by
  cases x <;> rfl

/-- the numerator loop of the generated code is the model's `overwrite` of the plan's pairs -/
theorem gen_numer_loop (a : Bool) (i : Nat) (ps : List F) (conditional : List (Nat → Bool)) :
    (List.zip conditional ps).foldl
        (fun acc cv => if cv.1 i = true then some (if a = true then cv.2 else ((1 : Nat) : F) - cv.2) else acc) none
      = overwrite (numerPairs a ((List.zip conditional ps).map fun cv => (⟨cv.1, cv.2⟩ : Cond F))) i := by
  unfold overwrite numerPairs
  rw [List.map_map, List.foldl_map]
  rfl

/-- `np.average` of a NaN-able weight vector = the model's "NaN as soon as one row has no numerator" -/
theorem nan_average_map (l : List (Row F)) (x : Row F → Option F) (f : Row F → F → F) :
    Nan.average (fun r => some r.y) (fun r => (x r).map (f r)) l
      = if l.all (fun r => (x r).isSome) then
          some (sumBy (fun r => r.y * ((x r).map (f r)).getD ((0 : Nat) : F)) l /
                sumBy (fun r => ((x r).map (f r)).getD ((0 : Nat) : F)) l)
        else none := by
  unfold Nan.average
  have h : (l.all fun r => (some r.y).isSome && ((x r).map (f r)).isSome) = l.all (fun r => (x r).isSome) := by
    congr 1; funext r; simp
  rw [h]
  simp

/-- **the generated `StochasticIPTW.fit` is the model** at the plan its arguments denote: the `_numer_` column is
    `planNumer`, the `_ipw_` column `stochWeight` (on the rows of the data; without a weight column the model's
    frequency weight is 1), the marginal outcome `stochIptw` -/
theorem stoch_iptw_fit_eq (hasCond hasWeights : Bool) (p : F) (ps : List F) (conditional : List (Nat → Bool))
    (l : List (Row F)) (g : Row F → F) (hw : hasWeights = false → ∀ r ∈ l, r.w = 1) :
    (∀ r, (Gen.stoch_iptw_fit hasCond hasWeights p ps conditional l g).1 r
            = planNumer (planOf hasCond p ps conditional) r) ∧
    (∀ r ∈ l, (Gen.stoch_iptw_fit hasCond hasWeights p ps conditional l g).2.1 r
            = stochWeight (planOf hasCond p ps conditional) g r) ∧
    (Gen.stoch_iptw_fit hasCond hasWeights p ps conditional l g).2.2
            = stochIptw (planOf hasCond p ps conditional) g l := by
  have hW : ∀ r ∈ l, (if hasWeights = true then r.w else 1) = r.w := by
    intro r hr; cases hasWeights
    · simp [hw rfl r hr]
    · simp
  cases hasCond
  · -- unconditional plan: no NaN anywhere
    have hpl : planOf false p ps conditional = .uncond p := rfl
    rw [hpl]
    have hsw : ∀ r ∈ l, stochW (.uncond p) g r = recv r.a p / recv r.a (g r) * r.w := by
      intro r hr; simp [stochW, stochWeight, planNumer]
    have hall : l.all (fun r => (planNumer (.uncond p) r).isSome) = true := by
      rw [List.all_eq_true]; intro r hr; rfl
    have hm : stochIptw (.uncond p) g l
        = some (sumBy (fun r => r.y * (recv r.a p / recv r.a (g r) * r.w)) l /
                sumBy (fun r => recv r.a p / recv r.a (g r) * r.w) l) := by
      unfold stochIptw
      rw [if_pos hall, sumBy_congr hsw,
        sumBy_congr (fun r hr => by rw [hsw r hr] :
          ∀ r ∈ l, r.y * stochW (.uncond p) g r = r.y * (recv r.a p / recv r.a (g r) * r.w))]
    cases hasWeights
    · have hw' := hw rfl
      refine ⟨fun r => by simp [Gen.stoch_iptw_fit, planNumer, recv], fun r hr => ?_, ?_⟩
      · simp [Gen.stoch_iptw_fit, stochWeight, planNumer, recv, hw' r hr]
      · rw [hm]
        simp only [Gen.stoch_iptw_fit]
        simp only [Bool.false_eq_true, ↓reduceIte, Nat.cast_one, Option.some.injEq]
        congr 1 <;> apply sumBy_congr <;> intro r hr <;> simp [recv, hw' r hr]
    · refine ⟨fun r => by simp [Gen.stoch_iptw_fit, planNumer, recv], fun r hr => ?_, ?_⟩
      · simp [Gen.stoch_iptw_fit, stochWeight, planNumer, recv]
      · rw [hm]
        simp only [Gen.stoch_iptw_fit]
        simp only [Bool.false_eq_true, ↓reduceIte, Nat.cast_one, Option.some.injEq]
        congr 1 <;> apply sumBy_congr <;> intro r hr <;> simp [recv]
  · -- conditional plan: the loop, NaN where no condition holds
    have hpl : planOf true p ps conditional
        = .cond ((List.zip conditional ps).map fun cv => (⟨cv.1, cv.2⟩ : Cond F)) := rfl
    rw [hpl]
    generalize hcs : ((List.zip conditional ps).map fun cv => (⟨cv.1, cv.2⟩ : Cond F)) = cs
    have hn : ∀ r : Row F, (List.zip conditional ps).foldl
        (fun acc cv => if cv.1 r.i = true then some (if r.a = true then cv.2 else ((1 : Nat) : F) - cv.2) else acc) none
          = planNumer (.cond cs) r := by
      intro r; rw [gen_numer_loop, hcs]; rfl
    have hd : ∀ r : Row F, (if r.a = true then g r else ((1 : Nat) : F) - g r) = recv r.a (g r) := fun r => rfl
    cases hasWeights
    · have hw' := hw rfl
      refine ⟨fun r => ?_, fun r hr => ?_, ?_⟩
      · simp only [Gen.stoch_iptw_fit]; exact hn r
      · simp only [Gen.stoch_iptw_fit, Bool.true_eq_false, Bool.false_eq_true, ↓reduceIte]
        rw [hn r, hd r, nan_div_some, stochWeight]
        congr 1; funext nu; rw [hw' r hr, mul_one]
      · simp only [Gen.stoch_iptw_fit, Bool.true_eq_false, Bool.false_eq_true, ↓reduceIte]
        simp only [hn, hd, nan_div_some]
        rw [nan_average_map l (fun r => planNumer (.cond cs) r) (fun r nu => nu / recv r.a (g r))]
        unfold stochIptw
        congr 1
        congr 1
        congr 1 <;> apply sumBy_congr <;> intro r hr <;> simp [stochW, stochWeight, hw' r hr]
    · refine ⟨fun r => ?_, fun r hr => ?_, ?_⟩
      · simp only [Gen.stoch_iptw_fit]; exact hn r
      · simp only [Gen.stoch_iptw_fit, Bool.true_eq_false, ↓reduceIte]
        rw [hn r, hd r, nan_mul_div_some, stochWeight]
      · simp only [Gen.stoch_iptw_fit, Bool.true_eq_false, ↓reduceIte]
        simp only [hn, hd, nan_mul_div_some]
        rw [nan_average_map l (fun r => planNumer (.cond cs) r) (fun r nu => nu / recv r.a (g r) * r.w)]
        rfl

/-- the `_numer_` column of the generated code, at every row -/
theorem gen_numer_eq (hasCond hasWeights : Bool) (p : F) (ps : List F) (conditional : List (Nat → Bool))
    (l : List (Row F)) (g : Row F → F) (r : Row F) :
    (Gen.stoch_iptw_fit hasCond hasWeights p ps conditional l g).1 r
      = planNumer (planOf hasCond p ps conditional) r := by
  cases hasCond <;> cases hasWeights <;>
    simp only [Gen.stoch_iptw_fit, Bool.false_eq_true, Bool.true_eq_false, ↓reduceIte] <;>
    first
      | rfl
      | (rw [gen_numer_loop]; rfl)

/-- the `_ipw_` column of the generated code, at every row: numerator over the fitted probability of the treatment
    received, times the weight column when there is one -/
theorem gen_ipw_eq (hasCond hasWeights : Bool) (p : F) (ps : List F) (conditional : List (Nat → Bool))
    (l : List (Row F)) (g : Row F → F) (r : Row F) :
    (Gen.stoch_iptw_fit hasCond hasWeights p ps conditional l g).2.1 r
      = (planNumer (planOf hasCond p ps conditional) r).map fun nu =>
          if hasWeights then nu / recv r.a (g r) * r.w else nu / recv r.a (g r) := by
  have hn := gen_numer_eq hasCond hasWeights p ps conditional l g r
  cases hasCond <;> cases hasWeights <;>
    simp only [Gen.stoch_iptw_fit, Bool.false_eq_true, Bool.true_eq_false, ↓reduceIte] at hn ⊢
  · simp [planOf, planNumer, recv]
  · simp [planOf, planNumer, recv]
  · rw [hn, nan_div_some]; rfl
  · rw [hn, nan_mul_div_some]; rfl

/-- `marginal_outcome` of the generated code in terms of its own `_ipw_` column: NaN as soon as one row has no
    numerator, else the ratio `Σ y·ipw / Σ ipw` -/
theorem gen_marginal_eq (hasCond hasWeights : Bool) (p : F) (ps : List F) (conditional : List (Nat → Bool))
    (l : List (Row F)) (g : Row F → F) :
    (Gen.stoch_iptw_fit hasCond hasWeights p ps conditional l g).2.2
      = if l.all (fun r => (planNumer (planOf hasCond p ps conditional) r).isSome) then
          some (sumBy (fun r => r.y * ((Gen.stoch_iptw_fit hasCond hasWeights p ps conditional l g).2.1 r).getD 0) l /
                sumBy (fun r => ((Gen.stoch_iptw_fit hasCond hasWeights p ps conditional l g).2.1 r).getD 0) l)
        else none := by
  have hall : (l.all fun r => (some r.y).isSome &&
        ((Gen.stoch_iptw_fit hasCond hasWeights p ps conditional l g).2.1 r).isSome)
      = l.all (fun r => (planNumer (planOf hasCond p ps conditional) r).isSome) := by
    congr 1; funext r; rw [gen_ipw_eq]; simp
  have hav : (Gen.stoch_iptw_fit hasCond hasWeights p ps conditional l g).2.2
      = Nan.average (fun r => some r.y) (fun r => (Gen.stoch_iptw_fit hasCond hasWeights p ps conditional l g).2.1 r) l := by
    cases hasCond <;> cases hasWeights <;>
      simp only [Gen.stoch_iptw_fit, Bool.false_eq_true, Bool.true_eq_false, ↓reduceIte] <;>
      first
        | rfl
        | simp [Nan.average]
  rw [hav]
  unfold Nan.average
  rw [hall]
  simp

end ZV.Stoch
