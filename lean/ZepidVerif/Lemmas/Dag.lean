/-
Helper lemmas and specification vocabulary for C18 (DAG adjustment sets).
-/
import ZepidVerif.Model.Dag
import Mathlib.Logic.Relation
import Mathlib.Data.List.Basic
namespace ZV.Dag
open Relation

/-- the edge relation of an edge list -/
def edgeRel (E : List Edge) : Nat → Nat → Prop := fun a b => (a, b) ∈ E

/-! ### reachability -/

theorem rtg_nil {u v : Nat} : ReflTransGen (edgeRel []) u v ↔ u = v := by
  constructor
  · intro h
    induction h with
    | refl => rfl
    | tail _ h _ => simp [edgeRel] at h
  · rintro rfl; exact .refl

theorem rtg_mono {E E' : List Edge} (h : ∀ e ∈ E, e ∈ E') {u v : Nat} :
    ReflTransGen (edgeRel E) u v → ReflTransGen (edgeRel E') u v := by
  intro h'
  induction h' with
  | refl => exact .refl
  | tail _ hab ih => exact ih.tail (h _ hab)

/-- a path that may use the new edge `e` either avoids it, or reaches its tail and continues from its head -/
theorem rtg_cons (e : Edge) (E : List Edge) (u v : Nat) :
    ReflTransGen (edgeRel (e :: E)) u v ↔
      ReflTransGen (edgeRel E) u v ∨ (ReflTransGen (edgeRel E) u e.1 ∧ ReflTransGen (edgeRel E) e.2 v) := by
  constructor
  · intro h
    induction h with
    | refl => exact .inl .refl
    | @tail w v _ hwv ih =>
      have hwv' : (w, v) = e ∨ (w, v) ∈ E := by simpa [edgeRel] using hwv
      rcases hwv' with he | hE
      · subst he
        rcases ih with h1 | ⟨h1, _⟩
        · exact .inr ⟨h1, .refl⟩
        · exact .inr ⟨h1, .refl⟩
      · rcases ih with h1 | ⟨h1, h2⟩
        · exact .inl (h1.tail hE)
        · exact .inr ⟨h1, h2.tail hE⟩
  · have mono : ∀ {a b}, ReflTransGen (edgeRel E) a b → ReflTransGen (edgeRel (e :: E)) a b :=
      fun h => rtg_mono (fun x hx => List.mem_cons_of_mem _ hx) h
    rintro (h | ⟨h1, h2⟩)
    · exact mono h
    · exact (mono h1).trans (ReflTransGen.head (by simp [edgeRel]) (mono h2))

theorem mem_dedup {a : Nat} {l : List Nat} : a ∈ dedup l ↔ a ∈ l := by
  induction l generalizing a with
  | nil => simp [dedup]
  | cons b l ih =>
    simp only [dedup]
    split
    · rename_i h
      have hb : b ∈ l := ih.mp (by simpa using h)
      constructor
      · intro h'; exact List.mem_cons_of_mem _ (ih.mp h')
      · intro h'
        rcases List.mem_cons.mp h' with rfl | h'
        · exact ih.mpr hb
        · exact ih.mpr h'
    · simp [ih]

theorem tstep_keys (T : Tab) (e : Edge) : (tstep T e).map (·.1) = T.map (·.1) := by
  simp only [tstep, List.map_map]
  apply List.map_congr_left
  intro p _
  simp only [Function.comp]
  split <;> rfl

theorem rtab_keys (V : List Nat) (E : List Edge) : (rtab V E).map (·.1) = V := by
  induction E with
  | nil => simp [rtab, Function.comp_def]
  | cons e E ih => simp [rtab, tstep_keys, ih]

theorem tlookup_of_not_key {T : Tab} {u : Nat} (h : u ∉ T.map (·.1)) : tlookup T u = [u] := by
  have : T.find? (fun p => p.1 == u) = none := by
    rw [List.find?_eq_none]
    intro p hp hpu
    exact h (List.mem_map.mpr ⟨p, hp, by simpa using hpu⟩)
  simp [tlookup, this]

theorem mem_tlookup_tstep (T : Tab) (e : Edge) (u v : Nat) :
    v ∈ tlookup (tstep T e) u ↔
      v ∈ tlookup T u ∨ (u ∈ T.map (·.1) ∧ e.1 ∈ tlookup T u ∧ v ∈ tlookup T e.2) := by
  by_cases hk : u ∈ T.map (·.1)
  · -- the row exists
    have hfind : ∃ p, T.find? (fun p => p.1 == u) = some p := by
      rcases h : T.find? (fun p => p.1 == u) with _ | p
      · rw [List.find?_eq_none] at h
        obtain ⟨p, hp, hpu⟩ := List.mem_map.mp hk
        exact absurd (by simpa using hpu) (h p hp)
      · exact ⟨p, h⟩
    obtain ⟨p, hp⟩ := hfind
    have h1 : tlookup T u = p.2 := by simp [tlookup, hp]
    have h2 : tlookup (tstep T e) u =
        if p.2.contains e.1 then p.2 ++ (tlookup T e.2).filter (fun w => !p.2.contains w) else p.2 := by
      unfold tlookup tstep
      rw [List.find?_map]
      have : ((fun p : Nat × List Nat => p.1 == u) ∘ fun p : Nat × List Nat =>
          if p.2.contains e.1 then (p.1, p.2 ++ (tlookup T e.2).filter (fun w => !p.2.contains w)) else p)
          = fun p => p.1 == u := by
        funext q; simp only [Function.comp]; split <;> rfl
      simp only [tlookup] at this ⊢
      rw [this, hp]
      simp only [Option.map_some]
      split <;> rfl
    rw [h2, h1]
    by_cases hc : p.2.contains e.1 = true
    · have hc' : e.1 ∈ p.2 := by simpa using hc
      simp only [hc, if_true, List.mem_append, List.mem_filter]
      constructor
      · rintro (h | ⟨h, _⟩)
        · exact .inl h
        · exact .inr ⟨hk, hc', h⟩
      · rintro (h | ⟨_, _, h⟩)
        · exact .inl h
        · by_cases hv : v ∈ p.2
          · exact .inl hv
          · exact .inr ⟨h, by simpa using hv⟩
    · have hc' : e.1 ∉ p.2 := by simpa using hc
      simp only [hc, if_false, Bool.false_eq_true]
      constructor
      · exact .inl
      · rintro (h | ⟨_, h, _⟩)
        · exact h
        · exact absurd h hc'
  · have hk' : u ∉ (tstep T e).map (·.1) := by rwa [tstep_keys]
    rw [tlookup_of_not_key hk, tlookup_of_not_key hk']
    simp [hk]

theorem mem_rtab (V : List Nat) (E : List Edge) (hV : ∀ e ∈ E, e.1 ∈ V) (u v : Nat) :
    v ∈ tlookup (rtab V E) u ↔ ReflTransGen (edgeRel E) u v := by
  induction E generalizing u v with
  | nil =>
    rw [rtg_nil]
    by_cases hu : u ∈ V
    · have : tlookup (rtab V []) u = [u] := by
        unfold tlookup rtab
        rw [List.find?_map]
        rcases h : V.find? ((fun p : Nat × List Nat => p.1 == u) ∘ fun u => (u, [u])) with _ | w
        · simp
        · have := List.find?_some h
          simp only [Function.comp, beq_iff_eq] at this
          simp [this]
      rw [this]; simp [eq_comm]
    · rw [tlookup_of_not_key (by rwa [rtab_keys])]; simp [eq_comm]
  | cons e E ih =>
    have hV' : ∀ e' ∈ E, e'.1 ∈ V := fun e' h => hV e' (List.mem_cons_of_mem _ h)
    have ih' := ih hV'
    show v ∈ tlookup (tstep (rtab V E) e) u ↔ _
    rw [mem_tlookup_tstep, rtg_cons, ih', ih', ih', rtab_keys]
    constructor
    · rintro (h | ⟨_, h1, h2⟩)
      · exact .inl h
      · exact .inr ⟨h1, h2⟩
    · rintro (h | ⟨h1, h2⟩)
      · exact .inl h
      · by_cases hu : u ∈ V
        · exact .inr ⟨hu, h1, h2⟩
        · -- `u` has no outgoing edge in `E`, so `u = e.1 ∈ V`
          have : e.1 ∈ tlookup (rtab V E) u := (ih' u e.1).mpr h1
          rw [tlookup_of_not_key (by rwa [rtab_keys])] at this
          have he : e.1 = u := by simpa using this
          exact absurd (he ▸ hV e (List.mem_cons_self ..)) hu

/-- the executable reachability is the reflexive-transitive closure of the edge relation -/
theorem mem_reach (E : List Edge) (u v : Nat) : v ∈ reach E u ↔ ReflTransGen (edgeRel E) u v := by
  unfold reach reachTab
  apply mem_rtab
  intro e he
  exact mem_dedup.mpr (List.mem_map.mpr ⟨e, he, rfl⟩)


/-! ### specification vocabulary (Lauritzen moral-graph criterion for back-door admissibility) -/

/-- `v` is a proper descendant of `x` -/
def IsDesc (E : List Edge) (x v : Nat) : Prop := v ≠ x ∧ ReflTransGen (edgeRel E) x v

/-- `v ∈ An({x,y} ∪ Z)`: `v` is a member, or an ancestor of a member, of `{x,y} ∪ Z` -/
def InAn (E : List Edge) (x y : Nat) (Z : List Nat) (v : Nat) : Prop :=
  ∃ n, (n = x ∨ n = y ∨ n ∈ Z) ∧ ReflTransGen (edgeRel E) v n

/-- arrow of the back-door graph `G` minus the arrows leaving `x`, restricted to `An({x,y} ∪ Z)` -/
def BdEdge (E : List Edge) (x y : Nat) (Z : List Nat) (a b : Nat) : Prop :=
  (a, b) ∈ E ∧ a ≠ x ∧ InAn E x y Z a ∧ InAn E x y Z b

/-- adjacency in the moral graph: joined by an arrow, or distinct parents of a common child -/
def MoralAdj (E : List Edge) (x y : Nat) (Z : List Nat) (a b : Nat) : Prop :=
  BdEdge E x y Z a b ∨ BdEdge E x y Z b a ∨ (a ≠ b ∧ ∃ c, BdEdge E x y Z a c ∧ BdEdge E x y Z b c)

/-- adjacency in the moral graph after deleting `Z` -/
def MoralMinus (E : List Edge) (x y : Nat) (Z : List Nat) (a b : Nat) : Prop :=
  a ∉ Z ∧ b ∉ Z ∧ MoralAdj E x y Z a b

/-- back-door admissibility: `Z` holds no descendant of `x`, and `Z` separates `x` from `y` in the moral graph of
    the ancestral part of the graph without the arrows leaving `x` (= d-separation, Lauritzen et al. 1990) -/
def Admissible (E : List Edge) (x y : Nat) (Z : List Nat) : Prop :=
  (∀ z ∈ Z, ¬ IsDesc E x z) ∧ ¬ ReflTransGen (MoralMinus E x y Z) x y

/-- edge endpoints are nodes (invariant of the networkx container) -/
def Graph.WF (G : Graph) : Prop := ∀ e ∈ G.edges, e.1 ∈ G.nodes ∧ e.2 ∈ G.nodes

instance (G : Graph) : Decidable G.WF := by unfold Graph.WF; infer_instance

/-- no directed cycle -/
def Acyclic (E : List Edge) : Prop := ∀ v, ¬ TransGen (edgeRel E) v v

theorem mem_desc {E : List Edge} {x v : Nat} : v ∈ desc E x ↔ IsDesc E x v := by
  simp [desc, IsDesc, mem_reach, and_comm]

theorem edgeRel_swap (E : List Edge) : edgeRel (E.map Prod.swap) = Function.swap (edgeRel E) := by
  funext a b
  simp only [edgeRel, Function.swap, List.mem_map, eq_iff_iff]
  constructor
  · rintro ⟨⟨c, d⟩, h, he⟩
    simp only [Prod.swap, Prod.mk.injEq] at he
    obtain ⟨rfl, rfl⟩ := he; exact h
  · intro h; exact ⟨(b, a), h, rfl⟩

theorem mem_anc {E : List Edge} {n v : Nat} : v ∈ anc E n ↔ v ≠ n ∧ ReflTransGen (edgeRel E) v n := by
  simp [anc, mem_reach, edgeRel_swap, reflTransGen_swap, and_comm]

theorem mem_removeSet {G : Graph} {x y : Nat} {Z : List Nat} {v : Nat} :
    v ∈ removeSet G x y Z ↔ v ∈ G.nodes ∧ ¬ InAn G.edges x y Z v := by
  have hanc : ∀ n, (tlookup (reachTab (G.edges.map Prod.swap)) n).filter (fun v => v != n) = anc G.edges n :=
    fun _ => rfl
  simp only [removeSet, hanc, List.mem_filter, Bool.and_eq_true, List.all_eq_true, List.mem_map,
    Bool.not_eq_true', Bool.or_eq_false_iff, beq_eq_false_iff_ne, forall_exists_index, and_imp,
    forall_apply_eq_imp_iff₂, List.contains_eq_mem, decide_eq_false_iff_not, mem_anc, List.mem_append,
    List.mem_cons, List.not_mem_nil, or_false, ne_eq, InAn, not_exists, not_and]
  constructor
  · rintro ⟨hv, ⟨h1, hx, hy⟩, hz⟩
    refine ⟨hv, ?_⟩
    intro n hn hr
    have hn' : n ∈ Z ∨ n = x ∨ n = y := by tauto
    by_cases hvn : v = n
    · subst hvn; tauto
    · exact h1 n hn' hvn hr
  · rintro ⟨hv, h⟩
    refine ⟨hv, ⟨?_, ?_, ?_⟩, ?_⟩
    · intro n hn _ hr; exact h n (by tauto) hr
    · intro hx; exact h x (by tauto) (hx ▸ .refl)
    · intro hy; exact h y (by tauto) (hy ▸ .refl)
    · intro hz; exact h v (by tauto) .refl

theorem mem_keptNodes {G : Graph} {x y : Nat} {Z : List Nat} {v : Nat} :
    v ∈ keptNodes G x y Z ↔ v ∈ G.nodes ∧ InAn G.edges x y Z v := by
  simp only [keptNodes, List.mem_filter, Bool.not_eq_true', List.contains_eq_mem, decide_eq_false_iff_not,
    mem_removeSet, not_and, not_not]
  tauto

theorem mem_bdEdges {G : Graph} (hwf : G.WF) {x y : Nat} {Z : List Nat} {a b : Nat} :
    (a, b) ∈ bdEdges G x y Z ↔ BdEdge G.edges x y Z a b := by
  simp only [bdEdges, List.mem_filter, Bool.and_eq_true, Bool.not_eq_true', List.contains_eq_mem,
    decide_eq_false_iff_not, mem_removeSet, not_and, not_not, bne_iff_ne, ne_eq, BdEdge]
  constructor
  · rintro ⟨⟨hE, ha, hb⟩, hx⟩
    exact ⟨hE, hx, ha (hwf _ hE).1, hb (hwf _ hE).2⟩
  · rintro ⟨hE, hx, ha, hb⟩
    exact ⟨⟨hE, fun _ => ha, fun _ => hb⟩, hx⟩

theorem mem_pairs {l : List Nat} {a b : Nat} (h : (a, b) ∈ pairs l) : a ∈ l ∧ b ∈ l := by
  induction l with
  | nil => simp [pairs] at h
  | cons c l ih =>
    simp only [pairs, List.mem_append, List.mem_map, Prod.mk.injEq] at h
    rcases h with ⟨d, hd, rfl, rfl⟩ | h
    · exact ⟨List.mem_cons_self .., List.mem_cons_of_mem _ hd⟩
    · exact ⟨List.mem_cons_of_mem _ (ih h).1, List.mem_cons_of_mem _ (ih h).2⟩

theorem pairs_complete {l : List Nat} {a b : Nat} (ha : a ∈ l) (hb : b ∈ l) (hab : a ≠ b) :
    (a, b) ∈ pairs l ∨ (b, a) ∈ pairs l := by
  induction l with
  | nil => simp at ha
  | cons c l ih =>
    simp only [pairs, List.mem_append, List.mem_map, Prod.mk.injEq]
    rcases List.mem_cons.mp ha with rfl | ha' <;> rcases List.mem_cons.mp hb with rfl | hb'
    · exact absurd rfl hab
    · exact .inl (.inl ⟨b, hb', rfl, rfl⟩)
    · exact .inr (.inl ⟨a, ha', rfl, rfl⟩)
    · rcases ih ha' hb' with h | h
      · exact .inl (.inr h)
      · exact .inr (.inr h)

theorem length_gt_one_of_two {l : List Nat} {a b : Nat} (ha : a ∈ l) (hb : b ∈ l) (hab : a ≠ b) :
    1 < l.length := by
  match l, ha, hb with
  | [c], ha, hb => simp at ha hb; exact absurd (ha.trans hb.symm) hab
  | _ :: _ :: _, _, _ => simp

theorem marry_sound {N : List Nat} {E : List Edge} {a b : Nat} (h : (a, b) ∈ marryList N E) :
    ∃ n, (a, n) ∈ E ∧ (b, n) ∈ E := by
  simp only [marryList, List.mem_flatMap] at h
  obtain ⟨n, _, h⟩ := h
  split at h
  · have := mem_pairs (List.mem_filter.mp h).1
    simp only [List.mem_map, List.mem_filter, beq_iff_eq] at this
    obtain ⟨⟨⟨a', n1⟩, ⟨h1, rfl⟩, rfl⟩, ⟨⟨b', n2⟩, ⟨h2, h2'⟩, rfl⟩⟩ := this
    simp only at h2'; subst h2'
    exact ⟨_, h1, h2⟩
  · simp at h

theorem marry_complete {N : List Nat} {E : List Edge} {a b n : Nat} (hn : n ∈ N) (ha : (a, n) ∈ E)
    (hb : (b, n) ∈ E) (hab : a ≠ b) (h1 : (a, b) ∉ E) (h2 : (b, a) ∉ E) :
    (a, b) ∈ marryList N E ∨ (b, a) ∈ marryList N E := by
  have hsa : a ∈ (E.filter (fun e => e.2 == n)).map (·.1) :=
    List.mem_map.mpr ⟨(a, n), List.mem_filter.mpr ⟨ha, by simp⟩, rfl⟩
  have hsb : b ∈ (E.filter (fun e => e.2 == n)).map (·.1) :=
    List.mem_map.mpr ⟨(b, n), List.mem_filter.mpr ⟨hb, by simp⟩, rfl⟩
  have hlen := length_gt_one_of_two hsa hsb hab
  simp only [marryList, List.mem_flatMap]
  rcases pairs_complete hsa hsb hab with h | h
  · left; refine ⟨n, hn, ?_⟩
    rw [if_pos hlen]
    exact List.mem_filter.mpr ⟨h, by simp [hasEdge, h1, h2]⟩
  · right; refine ⟨n, hn, ?_⟩
    rw [if_pos hlen]
    exact List.mem_filter.mpr ⟨h, by simp [hasEdge, h1, h2]⟩

theorem moralEdges_sound {G : Graph} (hwf : G.WF) {x y : Nat} {Z : List Nat} {a b : Nat}
    (h : (a, b) ∈ moralEdges G x y Z) : MoralMinus G.edges x y Z a b ∨ a = b := by
  simp only [moralEdges, List.mem_filter, List.mem_append, List.mem_map, Bool.and_eq_true,
    Bool.not_eq_true', List.contains_eq_mem, decide_eq_false_iff_not] at h
  obtain ⟨h, ha, hb⟩ := h
  by_cases hab : a = b
  · exact .inr hab
  left
  refine ⟨ha, hb, ?_⟩
  have key : ∀ {a b : Nat}, a ≠ b →
      ((a, b) ∈ bdEdges G x y Z ∨ (a, b) ∈ marryList (keptNodes G x y Z) (bdEdges G x y Z)) →
      BdEdge G.edges x y Z a b ∨ (a ≠ b ∧ ∃ c, BdEdge G.edges x y Z a c ∧ BdEdge G.edges x y Z b c) := by
    intro a b hab h
    rcases h with h | h
    · exact .inl ((mem_bdEdges hwf).mp h)
    · obtain ⟨n, h1, h2⟩ := marry_sound h
      exact .inr ⟨hab, n, (mem_bdEdges hwf).mp h1, (mem_bdEdges hwf).mp h2⟩
  rcases h with h | ⟨⟨c, d⟩, h, he⟩
  · rcases key hab h with h | h
    · exact .inl h
    · exact .inr (.inr h)
  · simp only [Prod.swap, Prod.mk.injEq] at he
    obtain ⟨rfl, rfl⟩ := he
    rcases key (Ne.symm hab) h with h | ⟨_, c, h1, h2⟩
    · exact .inr (.inl h)
    · exact .inr (.inr ⟨hab, c, h2, h1⟩)

theorem moralEdges_complete {G : Graph} (hwf : G.WF) {x y : Nat} {Z : List Nat} {a b : Nat}
    (h : MoralMinus G.edges x y Z a b) : (a, b) ∈ moralEdges G x y Z := by
  obtain ⟨ha, hb, h⟩ := h
  simp only [moralEdges, List.mem_filter, List.mem_append, List.mem_map, Bool.and_eq_true,
    Bool.not_eq_true', List.contains_eq_mem, decide_eq_false_iff_not]
  refine ⟨?_, ha, hb⟩
  rcases h with h | h | ⟨hab, c, h1, h2⟩
  · exact .inl (.inl ((mem_bdEdges hwf).mpr h))
  · exact .inr ⟨(b, a), .inl ((mem_bdEdges hwf).mpr h), rfl⟩
  · by_cases e1 : (a, b) ∈ bdEdges G x y Z
    · exact .inl (.inl e1)
    by_cases e2 : (b, a) ∈ bdEdges G x y Z
    · exact .inr ⟨(b, a), .inl e2, rfl⟩
    have hc : c ∈ keptNodes G x y Z := mem_keptNodes.mpr ⟨(hwf _ h1.1).2, h1.2.2.2⟩
    rcases marry_complete hc ((mem_bdEdges hwf).mpr h1) ((mem_bdEdges hwf).mpr h2) hab e1 e2 with h | h
    · exact .inl (.inr h)
    · exact .inr ⟨(b, a), .inr h, rfl⟩

/-- two relations that differ only by loops have the same reflexive-transitive closure -/
theorem rtg_congr_loops {R R' : Nat → Nat → Prop} (h1 : ∀ a b, R a b → R' a b ∨ a = b)
    (h2 : ∀ a b, R' a b → R a b) (u v : Nat) : ReflTransGen R u v ↔ ReflTransGen R' u v := by
  constructor
  · intro h
    induction h with
    | refl => exact .refl
    | tail _ hab ih =>
      rcases h1 _ _ hab with h | rfl
      · exact ih.tail h
      · exact ih
  · intro h
    induction h with
    | refl => exact .refl
    | tail _ hab ih => exact ih.tail (h2 _ _ hab)

theorem check_iff {G : Graph} (hwf : G.WF) (x y : Nat) (Z : List Nat) :
    check G x y Z = true ↔ Admissible G.edges x y Z := by
  have hr : y ∈ reach (moralEdges G x y Z) x ↔ ReflTransGen (MoralMinus G.edges x y Z) x y := by
    rw [mem_reach]
    exact rtg_congr_loops (fun a b h => moralEdges_sound hwf h) (fun a b h => moralEdges_complete hwf h) x y
  have hd : (Z.any (fun z => (desc G.edges x).contains z)) = true ↔ ∃ z ∈ Z, IsDesc G.edges x z := by
    simp [mem_desc]
  show (if (Z.any (fun z => (desc G.edges x).contains z)) = true then false
        else !(reach (moralEdges G x y Z) x).contains y) = true ↔ _
  unfold Admissible
  by_cases h : (Z.any (fun z => (desc G.edges x).contains z)) = true
  · rw [if_pos h]
    obtain ⟨z, hz, hdz⟩ := hd.mp h
    simp only [Bool.false_eq_true, false_iff, not_and, not_not]
    intro h'; exact absurd hdz (h' z hz)
  · rw [if_neg h]
    simp only [Bool.not_eq_true', List.contains_eq_mem, decide_eq_false_iff_not, hr]
    constructor
    · intro h'; exact ⟨fun z hz hdz => h (hd.mpr ⟨z, hz, hdz⟩), h'⟩
    · exact fun h' => h'.2


/-! ### enumeration of candidate sets -/

theorem mem_combos {l : List Nat} {k : Nat} {Z : List Nat} :
    Z ∈ combos k l ↔ Z.Sublist l ∧ Z.length = k := by
  induction l generalizing k Z with
  | nil =>
    cases k with
    | zero => simp [combos]
    | succ k =>
      simp only [combos, List.not_mem_nil, List.sublist_nil, false_iff, not_and]
      rintro rfl; simp
  | cons a l ih =>
    cases k with
    | zero =>
      simp only [combos, List.mem_singleton, List.length_eq_zero_iff]
      constructor
      · rintro rfl; simp
      · exact fun h => h.2
    | succ k =>
      simp only [combos, List.mem_append, List.mem_map, ih, List.sublist_cons_iff]
      constructor
      · rintro (⟨r, ⟨hr, hk⟩, rfl⟩ | ⟨hs, hk⟩)
        · exact ⟨.inr ⟨r, rfl, hr⟩, by simp [hk]⟩
        · exact ⟨.inl hs, hk⟩
      · rintro ⟨hs | ⟨r, rfl, hr⟩, hk⟩
        · exact .inr ⟨hs, hk⟩
        · exact .inl ⟨r, ⟨hr, by simpa using hk⟩, rfl⟩

theorem mem_allSubsets {l Z : List Nat} : Z ∈ allSubsets l ↔ Z.Sublist l := by
  simp only [allSubsets, List.mem_flatMap, List.mem_range, mem_combos]
  constructor
  · rintro ⟨_, _, h, _⟩; exact h
  · intro h; exact ⟨Z.length, Nat.lt_succ_of_le h.length_le, h, rfl⟩

theorem mem_listAll {G : Graph} {x y : Nat} {Z : List Nat} :
    Z ∈ listAll G x y ↔ Z.Sublist (cands G x y) ∧ check G x y Z = true := by
  simp [listAll, mem_allSubsets]

theorem mem_cands {G : Graph} (hnd : G.nodes.Nodup) {x y v : Nat} :
    v ∈ cands G x y ↔ v ∈ G.nodes ∧ v ≠ x ∧ v ≠ y := by
  unfold cands
  rw [(hnd.erase x).mem_erase_iff, hnd.mem_erase_iff]
  tauto

/-! ### the specification only depends on the members of `Z` and on the edge set -/

theorem admissible_congr {E E' : List Edge} {x y : Nat} {Z Z' : List Nat} (hE : ∀ e, e ∈ E ↔ e ∈ E')
    (hZ : ∀ v, v ∈ Z ↔ v ∈ Z') : Admissible E x y Z ↔ Admissible E' x y Z' := by
  have h0 : edgeRel E = edgeRel E' := by funext a b; exact propext (hE (a, b))
  have h1 : InAn E x y Z = InAn E' x y Z' := by
    funext v; simp only [InAn, h0, hZ]
  have h2 : BdEdge E x y Z = BdEdge E' x y Z' := by
    funext a b; simp only [BdEdge, h1, hE]
  have h3 : MoralMinus E x y Z = MoralMinus E' x y Z' := by
    funext a b; simp only [MoralMinus, MoralAdj, h2, hZ]
  simp only [Admissible, IsDesc, h0, h3, hZ]

/-! ### minimal sets -/

theorem minLen_le {L : List (List Nat)} {W : List Nat} (h : W ∈ L) : minLen L ≤ W.length := by
  induction L with
  | nil => simp at h
  | cons a L ih =>
    cases L with
    | nil => simp at h; subst h; simp [minLen]
    | cons b L =>
      simp only [minLen]
      rcases List.mem_cons.mp h with rfl | h
      · exact Nat.min_le_left ..
      · exact Nat.le_trans (Nat.min_le_right ..) (ih h)

theorem minLen_attained {L : List (List Nat)} (h : L ≠ []) : ∃ W ∈ L, W.length = minLen L := by
  induction L with
  | nil => exact absurd rfl h
  | cons a L ih =>
    cases L with
    | nil => exact ⟨a, by simp, by simp [minLen]⟩
    | cons b L =>
      obtain ⟨W, hW, hl⟩ := ih (by simp)
      simp only [minLen]
      rcases Nat.le_total a.length (minLen (b :: L)) with h' | h'
      · exact ⟨a, by simp, by rw [Nat.min_eq_left h']⟩
      · exact ⟨W, List.mem_cons_of_mem _ hW, by rw [Nat.min_eq_right h', hl]⟩

theorem mem_minimal {L : List (List Nat)} {Z : List Nat} :
    Z ∈ minimal L ↔ Z ∈ L ∧ ∀ W ∈ L, Z.length ≤ W.length := by
  simp only [minimal, List.mem_filter, beq_iff_eq]
  constructor
  · rintro ⟨hZ, hl⟩
    exact ⟨hZ, fun W hW => hl ▸ minLen_le hW⟩
  · rintro ⟨hZ, hmin⟩
    refine ⟨hZ, ?_⟩
    obtain ⟨W, hW, hl⟩ := minLen_attained (L := L) (by rintro rfl; simp at hZ)
    exact Nat.le_antisymm (hl ▸ hmin W hW) (minLen_le hZ)

/-! ### acyclicity and the editing state machine -/

theorem isAcyclic_iff {E : List Edge} : isAcyclic E = true ↔ Acyclic E := by
  have h : isAcyclic E = E.all (fun e => !(reach E e.2).contains e.1) := rfl
  rw [h]
  simp only [List.all_eq_true, Bool.not_eq_true', List.contains_eq_mem, decide_eq_false_iff_not, mem_reach,
    Acyclic, TransGen.head'_iff, not_exists, not_and]
  constructor
  · intro h v b hvb; exact h (v, b) hvb
  · rintro h ⟨a, b⟩ he; exact h a b he

theorem acyclic_congr {E E' : List Edge} (hE : ∀ e, e ∈ E ↔ e ∈ E') : Acyclic E ↔ Acyclic E' := by
  have h0 : edgeRel E = edgeRel E' := by funext a b; exact propext (hE (a, b))
  simp only [Acyclic, h0]

theorem tg_mono {E E' : List Edge} (h : ∀ e ∈ E, e ∈ E') {u v : Nat} :
    TransGen (edgeRel E) u v → TransGen (edgeRel E') u v := by
  intro h'
  induction h' with
  | single hab => exact .single (h _ hab)
  | tail _ hab ih => exact ih.tail (h _ hab)

theorem tg_cons {e : Edge} {E : List Edge} {u v : Nat} (h : TransGen (edgeRel (e :: E)) u v) :
    TransGen (edgeRel E) u v ∨ (ReflTransGen (edgeRel E) u e.1 ∧ ReflTransGen (edgeRel E) e.2 v) := by
  obtain ⟨b, hub, hbv⟩ := TransGen.head'_iff.mp h
  have hub' : (u, b) = e ∨ (u, b) ∈ E := by simpa [edgeRel] using hub
  rw [rtg_cons] at hbv
  rcases hub' with rfl | hE
  · rcases hbv with h1 | ⟨_, h2⟩
    · exact .inr ⟨.refl, h1⟩
    · exact .inr ⟨.refl, h2⟩
  · rcases hbv with h1 | ⟨h1, h2⟩
    · exact .inl (TransGen.head' hE h1)
    · exact .inr ⟨ReflTransGen.head hE h1, h2⟩

/-- adding the arrow `e = (a,b)` keeps the graph acyclic exactly when `b` does not already reach `a` -/
theorem acyclic_cons {e : Edge} {E : List Edge} :
    Acyclic (e :: E) ↔ Acyclic E ∧ ¬ ReflTransGen (edgeRel E) e.2 e.1 := by
  constructor
  · intro h
    refine ⟨fun v hv => h v (tg_mono (fun x hx => List.mem_cons_of_mem _ hx) hv), fun hr => ?_⟩
    have hr' : ReflTransGen (edgeRel (e :: E)) e.2 e.1 := rtg_mono (fun x hx => List.mem_cons_of_mem _ hx) hr
    exact h e.1 (TransGen.head' (by simp [edgeRel]) hr')
  · rintro ⟨hE, hr⟩ v hv
    rcases tg_cons hv with h | ⟨h1, h2⟩
    · exact hE v h
    · exact hr (h2.trans h1)

theorem mem_addNode {ns : List Nat} {v a : Nat} : a ∈ addNode ns v ↔ a ∈ ns ∨ a = v := by
  unfold addNode
  split
  · rename_i h
    have : v ∈ ns := by simpa using h
    constructor
    · exact .inl
    · rintro (h | rfl) <;> assumption
  · simp

theorem nodup_addNode {ns : List Nat} {v : Nat} (h : ns.Nodup) : (addNode ns v).Nodup := by
  unfold addNode
  split
  · exact h
  · rename_i hc
    have : v ∉ ns := by simpa using hc
    exact List.nodup_append.mpr ⟨h, by simp, by
      intro a ha b hb; simp at hb; subst hb; exact fun hab => this (hab ▸ ha)⟩

theorem mem_addEdge_edges {G : Graph} {e e' : Edge} : e' ∈ (addEdge G e).edges ↔ e' ∈ G.edges ∨ e' = e := by
  unfold addEdge
  simp only
  split
  · rename_i h
    have : e ∈ G.edges := by simpa using h
    constructor
    · exact .inl
    · rintro (h | rfl) <;> assumption
  · simp

theorem mem_addEdge_nodes {G : Graph} {e : Edge} {a : Nat} :
    a ∈ (addEdge G e).nodes ↔ a ∈ G.nodes ∨ a = e.1 ∨ a = e.2 := by
  simp [addEdge, mem_addNode, or_assoc]

theorem mem_foldl_addEdge_edges {ps : List Edge} {G : Graph} {e' : Edge} :
    e' ∈ (ps.foldl addEdge G).edges ↔ e' ∈ G.edges ∨ e' ∈ ps := by
  induction ps generalizing G with
  | nil => simp
  | cons p ps ih => simp only [List.foldl_cons, ih, mem_addEdge_edges, List.mem_cons]; tauto

/-- container invariant: endpoints of arrows are nodes, no node is listed twice -/
structure Graph.Inv (G : Graph) : Prop where
  wf : G.WF
  nodup : G.nodes.Nodup

theorem inv_addEdge {G : Graph} (h : G.Inv) (e : Edge) : (addEdge G e).Inv := by
  refine ⟨?_, ?_⟩
  · intro e' he'
    rw [mem_addEdge_nodes, mem_addEdge_nodes]
    rcases mem_addEdge_edges.mp he' with h' | rfl
    · exact ⟨.inl (h.wf _ h').1, .inl (h.wf _ h').2⟩
    · exact ⟨.inr (.inl rfl), .inr (.inr rfl)⟩
  · exact nodup_addNode (nodup_addNode h.nodup)

theorem inv_foldl_addEdge {ps : List Edge} {G : Graph} (h : G.Inv) : (ps.foldl addEdge G).Inv := by
  induction ps generalizing G with
  | nil => exact h
  | cons p ps ih => exact ih (inv_addEdge h p)

theorem nodup_foldl_addNode {ns acc : List Nat} (h : acc.Nodup) : (ns.foldl addNode acc).Nodup := by
  induction ns generalizing acc with
  | nil => exact h
  | cons p ps ih => exact ih (nodup_addNode h)

theorem inv_build (ns : List Nat) (es : List Edge) : (build ns es).Inv := by
  unfold build
  apply inv_foldl_addEdge
  exact ⟨by intro e he; simp at he, nodup_foldl_addNode List.nodup_nil⟩

theorem inv_init (x y : Nat) : (init x y).Inv :=
  inv_addEdge ⟨by intro e he; simp at he, List.nodup_nil⟩ _

theorem mem_foldl_addEdge_nodes_of_mem {ps : List Edge} {G : Graph} {a : Nat} (h : a ∈ G.nodes) :
    a ∈ (ps.foldl addEdge G).nodes := by
  induction ps generalizing G with
  | nil => exact h
  | cons p ps ih => exact ih (mem_addEdge_nodes.mpr (.inl h))

/-- what `applyOp` returns when it succeeds -/
theorem applyOp_ok {x y : Nat} {G G' : Graph} {op : Op} (h : applyOp x y G op = .ok G') :
    Acyclic G'.edges ∧
    (match op with
      | .arrow s t => G' = addEdge G (s, t)
      | .arrows ps => G' = ps.foldl addEdge G
      | .fromGraph ns es => G' = build ns es ∧ x ∈ G'.nodes ∧ y ∈ G'.nodes) := by
  cases op with
  | arrow s t =>
    simp only [applyOp] at h
    split at h
    · rename_i hc; cases h; exact ⟨isAcyclic_iff.mp hc, rfl⟩
    · cases h
  | arrows ps =>
    simp only [applyOp] at h
    split at h
    · rename_i hc; cases h; exact ⟨isAcyclic_iff.mp hc, rfl⟩
    · cases h
  | fromGraph ns es =>
    simp only [applyOp] at h
    split at h
    · cases h
    · rename_i hc
      split at h
      · cases h
      · rename_i hx
        split at h
        · cases h
        · rename_i hy
          cases h
          refine ⟨isAcyclic_iff.mp (by simpa using hc), rfl, by simpa using hx, by simpa using hy⟩

theorem step_error_unchanged {x y : Nat} {G : Graph} {op : Op} {e : Err} (h : (step x y G op).2 = some e) :
    (step x y G op).1 = G := by
  unfold step at h ⊢
  split
  · rename_i h'; rw [h'] at h; cases h
  · rfl


/-! ### the specification in textbook form: d-separation (moral criterion) in the graph without the arrows leaving `x` -/

/-- `Z` d-separates `x` and `y` in the DAG `E` (Lauritzen–Dawid–Larsen–Leimer): `x` and `y` are disconnected in
    the moral graph of the sub-DAG induced by `An({x,y} ∪ Z)` after deleting `Z` -/
def DSepMoral (E : List Edge) (x y : Nat) (Z : List Nat) : Prop :=
  let A : Nat → Prop := fun v => ∃ n, (n = x ∨ n = y ∨ n ∈ Z) ∧ ReflTransGen (edgeRel E) v n
  let ed : Nat → Nat → Prop := fun a b => (a, b) ∈ E ∧ A a ∧ A b
  let adj : Nat → Nat → Prop := fun a b => ed a b ∨ ed b a ∨ (a ≠ b ∧ ∃ c, ed a c ∧ ed b c)
  ¬ ReflTransGen (fun a b => a ∉ Z ∧ b ∉ Z ∧ adj a b) x y

/-- removing the arrows that leave `x` does not change the ancestral set of a set containing `x` -/
theorem inAn_mutilated {E : List Edge} {x y : Nat} {Z : List Nat} {v : Nat} :
    InAn E x y Z v ↔ InAn (E.filter (fun e => e.1 != x)) x y Z v := by
  constructor
  · rintro ⟨n, hn, hr⟩
    have key : ReflTransGen (edgeRel (E.filter (fun e => e.1 != x))) v n ∨
        ReflTransGen (edgeRel (E.filter (fun e => e.1 != x))) v x := by
      induction hr using ReflTransGen.head_induction_on with
      | refl => exact .inl .refl
      | @head a b hab _ ih =>
        by_cases ha : a = x
        · exact .inr (ha ▸ .refl)
        · have hab' : edgeRel (E.filter (fun e => e.1 != x)) a b :=
            List.mem_filter.mpr ⟨hab, by simpa using ha⟩
          rcases ih with h | h
          · exact .inl (ReflTransGen.head hab' h)
          · exact .inr (ReflTransGen.head hab' h)
    rcases key with h | h
    · exact ⟨n, hn, h⟩
    · exact ⟨x, .inl rfl, h⟩
  · rintro ⟨n, hn, hr⟩
    exact ⟨n, hn, rtg_mono (fun e he => (List.mem_filter.mp he).1) hr⟩

theorem admissible_iff_dsep {E : List Edge} {x y : Nat} {Z : List Nat} :
    Admissible E x y Z ↔
      (∀ z ∈ Z, ¬ IsDesc E x z) ∧ DSepMoral (E.filter (fun e => e.1 != x)) x y Z := by
  have hed : BdEdge E x y Z = fun a b => (a, b) ∈ E.filter (fun e => e.1 != x) ∧
      InAn (E.filter (fun e => e.1 != x)) x y Z a ∧ InAn (E.filter (fun e => e.1 != x)) x y Z b := by
    funext a b
    simp only [BdEdge, List.mem_filter, bne_iff_ne, ne_eq, ← inAn_mutilated (E := E), eq_iff_iff]
    tauto
  unfold Admissible DSepMoral MoralMinus MoralAdj
  simp only [hed, InAn]


/-! ### histories on one object -/

theorem runObj_dag (x y : Nat) (o : Obj) (cs : List Call) :
    (runObj x y o cs).1.dag = (run x y o.dag (edits cs)).1 := by
  induction cs generalizing o with
  | nil => rfl
  | cons c cs ih =>
    cases c with
    | edit op => simp only [runObj, edits, run]; rw [ih]; rfl
    | calculate => simp only [runObj, edits]; rw [ih]; rfl

theorem runObj_append (x y : Nat) (o : Obj) (cs ds : List Call) :
    (runObj x y o (cs ++ ds)).1 = (runObj x y (runObj x y o cs).1 ds).1 := by
  induction cs generalizing o with
  | nil => rfl
  | cons c cs ih => simp only [List.cons_append, runObj]; rw [ih]


theorem runObj_calc_last (x y : Nat) (o : Obj) (cs : List Call) :
    (runObj x y o (cs ++ [.calculate])).1.dag = (runObj x y o cs).1.dag ∧
    (runObj x y o (cs ++ [.calculate])).1.adj =
      some (listAll (runObj x y o (cs ++ [.calculate])).1.dag x y) ∧
    (runObj x y o (cs ++ [.calculate])).1.minAdj =
      some (minimal (listAll (runObj x y o (cs ++ [.calculate])).1.dag x y)) := by
  rw [runObj_append]
  exact ⟨rfl, rfl, rfl⟩

end ZV.Dag
