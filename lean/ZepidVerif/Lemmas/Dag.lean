/-
Helper lemmas and specification vocabulary for C18 (DAG adjustment sets).
-/
import ZepidVerif.Model.Dag
import Mathlib.Logic.Relation
import Mathlib.Data.List.Basic
namespace ZV.Dag
open Relation

/-- the edge relation of an edge list -/
def edgeRel (E : List Edge) : Nat → Nat → Prop := fun a b => (a, b) ∈ E

/-! ### reachability -/

theorem rtg_nil {u v : Nat} : ReflTransGen (edgeRel []) u v ↔ u = v := by
  constructor
  · intro h
    induction h with
    | refl => rfl
    | tail _ h _ => simp [edgeRel] at h
  · rintro rfl; exact .refl

theorem rtg_mono {E E' : List Edge} (h : ∀ e ∈ E, e ∈ E') {u v : Nat} :
    ReflTransGen (edgeRel E) u v → ReflTransGen (edgeRel E') u v := by
  intro h'
  induction h' with
  | refl => exact .refl
  | tail _ hab ih => exact ih.tail (h _ hab)

/-- a path that may use the new edge `e` either avoids it, or reaches its tail and continues from its head -/
theorem rtg_cons (e : Edge) (E : List Edge) (u v : Nat) :
    ReflTransGen (edgeRel (e :: E)) u v ↔
      ReflTransGen (edgeRel E) u v ∨ (ReflTransGen (edgeRel E) u e.1 ∧ ReflTransGen (edgeRel E) e.2 v) := by
  constructor
  · intro h
    induction h with
    | refl => exact .inl .refl
    | @tail w v _ hwv ih =>
      have hwv' : (w, v) = e ∨ (w, v) ∈ E := by simpa [edgeRel] using hwv
      rcases hwv' with he | hE
      · subst he
        rcases ih with h1 | ⟨h1, _⟩
        · exact .inr ⟨h1, .refl⟩
        · exact .inr ⟨h1, .refl⟩
      · rcases ih with h1 | ⟨h1, h2⟩
        · exact .inl (h1.tail hE)
        · exact .inr ⟨h1, h2.tail hE⟩
  · have mono : ∀ {a b}, ReflTransGen (edgeRel E) a b → ReflTransGen (edgeRel (e :: E)) a b :=
      fun h => rtg_mono (fun x hx => List.mem_cons_of_mem _ hx) h
    rintro (h | ⟨h1, h2⟩)
    · exact mono h
    · exact (mono h1).trans (ReflTransGen.head (by simp [edgeRel]) (mono h2))

theorem mem_dedup {a : Nat} {l : List Nat} : a ∈ dedup l ↔ a ∈ l := by
  induction l generalizing a with
  | nil => simp [dedup]
  | cons b l ih =>
    simp only [dedup]
    split
    · rename_i h
      have hb : b ∈ l := ih.mp (by simpa using h)
      constructor
      · intro h'; exact List.mem_cons_of_mem _ (ih.mp h')
      · intro h'
        rcases List.mem_cons.mp h' with rfl | h'
        · exact ih.mpr hb
        · exact ih.mpr h'
    · simp [ih]

theorem tstep_keys (T : Tab) (e : Edge) : (tstep T e).map (·.1) = T.map (·.1) := by
  simp only [tstep, List.map_map]
  apply List.map_congr_left
  intro p _
  simp only [Function.comp]
  split <;> rfl

theorem rtab_keys (V : List Nat) (E : List Edge) : (rtab V E).map (·.1) = V := by
  induction E with
  | nil => simp [rtab, Function.comp_def]
  | cons e E ih => simp [rtab, tstep_keys, ih]

theorem tlookup_of_not_key {T : Tab} {u : Nat} (h : u ∉ T.map (·.1)) : tlookup T u = [u] := by
  have : T.find? (fun p => p.1 == u) = none := by
    rw [List.find?_eq_none]
    intro p hp hpu
    exact h (List.mem_map.mpr ⟨p, hp, by simpa using hpu⟩)
  simp [tlookup, this]

theorem mem_tlookup_tstep (T : Tab) (e : Edge) (u v : Nat) :
    v ∈ tlookup (tstep T e) u ↔
      v ∈ tlookup T u ∨ (u ∈ T.map (·.1) ∧ e.1 ∈ tlookup T u ∧ v ∈ tlookup T e.2) := by
  by_cases hk : u ∈ T.map (·.1)
  · -- the row exists
    have hfind : ∃ p, T.find? (fun p => p.1 == u) = some p := by
      rcases h : T.find? (fun p => p.1 == u) with _ | p
      · rw [List.find?_eq_none] at h
        obtain ⟨p, hp, hpu⟩ := List.mem_map.mp hk
        exact absurd (by simpa using hpu) (h p hp)
      · exact ⟨p, h⟩
    obtain ⟨p, hp⟩ := hfind
    have h1 : tlookup T u = p.2 := by simp [tlookup, hp]
    have h2 : tlookup (tstep T e) u =
        if p.2.contains e.1 then p.2 ++ (tlookup T e.2).filter (fun w => !p.2.contains w) else p.2 := by
      unfold tlookup tstep
      rw [List.find?_map]
      have : ((fun p : Nat × List Nat => p.1 == u) ∘ fun p : Nat × List Nat =>
          if p.2.contains e.1 then (p.1, p.2 ++ (tlookup T e.2).filter (fun w => !p.2.contains w)) else p)
          = fun p => p.1 == u := by
        funext q; simp only [Function.comp]; split <;> rfl
      simp only [tlookup] at this ⊢
      rw [this, hp]
      simp only [Option.map_some]
      split <;> rfl
    rw [h2, h1]
    by_cases hc : p.2.contains e.1 = true
    · have hc' : e.1 ∈ p.2 := by simpa using hc
      simp only [hc, if_true, List.mem_append, List.mem_filter]
      constructor
      · rintro (h | ⟨h, _⟩)
        · exact .inl h
        · exact .inr ⟨hk, hc', h⟩
      · rintro (h | ⟨_, _, h⟩)
        · exact .inl h
        · by_cases hv : v ∈ p.2
          · exact .inl hv
          · exact .inr ⟨h, by simpa using hv⟩
    · have hc' : e.1 ∉ p.2 := by simpa using hc
      simp only [hc, if_false, Bool.false_eq_true]
      constructor
      · exact .inl
      · rintro (h | ⟨_, h, _⟩)
        · exact h
        · exact absurd h hc'
  · have hk' : u ∉ (tstep T e).map (·.1) := by rwa [tstep_keys]
    rw [tlookup_of_not_key hk, tlookup_of_not_key hk']
    simp [hk]

theorem mem_rtab (V : List Nat) (E : List Edge) (hV : ∀ e ∈ E, e.1 ∈ V) (u v : Nat) :
    v ∈ tlookup (rtab V E) u ↔ ReflTransGen (edgeRel E) u v := by
  induction E generalizing u v with
  | nil =>
    rw [rtg_nil]
    by_cases hu : u ∈ V
    · have : tlookup (rtab V []) u = [u] := by
        unfold tlookup rtab
        rw [List.find?_map]
        rcases h : V.find? ((fun p : Nat × List Nat => p.1 == u) ∘ fun u => (u, [u])) with _ | w
        · simp
        · have := List.find?_some h
          simp only [Function.comp, beq_iff_eq] at this
          simp [this]
      rw [this]; simp [eq_comm]
    · rw [tlookup_of_not_key (by rwa [rtab_keys])]; simp [eq_comm]
  | cons e E ih =>
    have hV' : ∀ e' ∈ E, e'.1 ∈ V := fun e' h => hV e' (List.mem_cons_of_mem _ h)
    have ih' := ih hV'
    show v ∈ tlookup (tstep (rtab V E) e) u ↔ _
    rw [mem_tlookup_tstep, rtg_cons, ih', ih', ih', rtab_keys]
    constructor
    · rintro (h | ⟨_, h1, h2⟩)
      · exact .inl h
      · exact .inr ⟨h1, h2⟩
    · rintro (h | ⟨h1, h2⟩)
      · exact .inl h
      · by_cases hu : u ∈ V
        · exact .inr ⟨hu, h1, h2⟩
        · -- `u` has no outgoing edge in `E`, so `u = e.1 ∈ V`
          have : e.1 ∈ tlookup (rtab V E) u := (ih' u e.1).mpr h1
          rw [tlookup_of_not_key (by rwa [rtab_keys])] at this
          have he : e.1 = u := by simpa using this
          exact absurd (he ▸ hV e (List.mem_cons_self ..)) hu

/-- the executable reachability is the reflexive-transitive closure of the edge relation -/
theorem mem_reach (E : List Edge) (u v : Nat) : v ∈ reach E u ↔ ReflTransGen (edgeRel E) u v := by
  unfold reach reachTab
  apply mem_rtab
  intro e he
  exact mem_dedup.mpr (List.mem_map.mpr ⟨e, he, rfl⟩)


/-! ### specification vocabulary (Lauritzen moral-graph criterion for back-door admissibility) -/

/-- `v` is a proper descendant of `x` -/
def IsDesc (E : List Edge) (x v : Nat) : Prop := v ≠ x ∧ ReflTransGen (edgeRel E) x v

/-- `v ∈ An({x,y} ∪ Z)`: `v` is a member, or an ancestor of a member, of `{x,y} ∪ Z` -/
def InAn (E : List Edge) (x y : Nat) (Z : List Nat) (v : Nat) : Prop :=
  ∃ n, (n = x ∨ n = y ∨ n ∈ Z) ∧ ReflTransGen (edgeRel E) v n

/-- arrow of the back-door graph `G` minus the arrows leaving `x`, restricted to `An({x,y} ∪ Z)` -/
def BdEdge (E : List Edge) (x y : Nat) (Z : List Nat) (a b : Nat) : Prop :=
  (a, b) ∈ E ∧ a ≠ x ∧ InAn E x y Z a ∧ InAn E x y Z b

/-- adjacency in the moral graph: joined by an arrow, or distinct parents of a common child -/
def MoralAdj (E : List Edge) (x y : Nat) (Z : List Nat) (a b : Nat) : Prop :=
  BdEdge E x y Z a b ∨ BdEdge E x y Z b a ∨ (a ≠ b ∧ ∃ c, BdEdge E x y Z a c ∧ BdEdge E x y Z b c)

/-- adjacency in the moral graph after deleting `Z` -/
def MoralMinus (E : List Edge) (x y : Nat) (Z : List Nat) (a b : Nat) : Prop :=
  a ∉ Z ∧ b ∉ Z ∧ MoralAdj E x y Z a b

/-- back-door admissibility: `Z` holds no descendant of `x`, and `Z` separates `x` from `y` in the moral graph of
    the ancestral part of the graph without the arrows leaving `x` (= d-separation, Lauritzen et al. 1990) -/
def Admissible (E : List Edge) (x y : Nat) (Z : List Nat) : Prop :=
  (∀ z ∈ Z, ¬ IsDesc E x z) ∧ ¬ ReflTransGen (MoralMinus E x y Z) x y

/-- edge endpoints are nodes (invariant of the networkx container) -/
def Graph.WF (G : Graph) : Prop := ∀ e ∈ G.edges, e.1 ∈ G.nodes ∧ e.2 ∈ G.nodes

/-- no directed cycle -/
def Acyclic (E : List Edge) : Prop := ∀ v, ¬ TransGen (edgeRel E) v v

theorem mem_desc {E : List Edge} {x v : Nat} : v ∈ desc E x ↔ IsDesc E x v := by
  simp [desc, IsDesc, mem_reach, and_comm]

theorem edgeRel_swap (E : List Edge) : edgeRel (E.map Prod.swap) = Function.swap (edgeRel E) := by
  funext a b
  simp only [edgeRel, Function.swap, List.mem_map, eq_iff_iff]
  constructor
  · rintro ⟨⟨c, d⟩, h, he⟩
    simp only [Prod.swap, Prod.mk.injEq] at he
    obtain ⟨rfl, rfl⟩ := he; exact h
  · intro h; exact ⟨(b, a), h, rfl⟩

theorem mem_anc {E : List Edge} {n v : Nat} : v ∈ anc E n ↔ v ≠ n ∧ ReflTransGen (edgeRel E) v n := by
  simp [anc, mem_reach, edgeRel_swap, reflTransGen_swap, and_comm]

theorem mem_removeSet {G : Graph} {x y : Nat} {Z : List Nat} {v : Nat} :
    v ∈ removeSet G x y Z ↔ v ∈ G.nodes ∧ ¬ InAn G.edges x y Z v := by
  have hanc : ∀ n, (tlookup (reachTab (G.edges.map Prod.swap)) n).filter (fun v => v != n) = anc G.edges n :=
    fun _ => rfl
  simp only [removeSet, hanc, List.mem_filter, Bool.and_eq_true, List.all_eq_true, List.mem_map,
    Bool.not_eq_true', Bool.or_eq_false_iff, beq_eq_false_iff_ne, forall_exists_index, and_imp,
    forall_apply_eq_imp_iff₂, List.contains_eq_mem, decide_eq_false_iff_not, mem_anc, List.mem_append,
    List.mem_cons, List.not_mem_nil, or_false, ne_eq, InAn, not_exists, not_and]
  constructor
  · rintro ⟨hv, ⟨h1, hx, hy⟩, hz⟩
    refine ⟨hv, ?_⟩
    intro n hn hr
    have hn' : n ∈ Z ∨ n = x ∨ n = y := by tauto
    by_cases hvn : v = n
    · subst hvn; tauto
    · exact h1 n hn' hvn hr
  · rintro ⟨hv, h⟩
    refine ⟨hv, ⟨?_, ?_, ?_⟩, ?_⟩
    · intro n hn _ hr; exact h n (by tauto) hr
    · intro hx; exact h x (by tauto) (hx ▸ .refl)
    · intro hy; exact h y (by tauto) (hy ▸ .refl)
    · intro hz; exact h v (by tauto) .refl

theorem mem_keptNodes {G : Graph} {x y : Nat} {Z : List Nat} {v : Nat} :
    v ∈ keptNodes G x y Z ↔ v ∈ G.nodes ∧ InAn G.edges x y Z v := by
  simp only [keptNodes, List.mem_filter, Bool.not_eq_true', List.contains_eq_mem, decide_eq_false_iff_not,
    mem_removeSet, not_and, not_not]
  tauto

theorem mem_bdEdges {G : Graph} (hwf : G.WF) {x y : Nat} {Z : List Nat} {a b : Nat} :
    (a, b) ∈ bdEdges G x y Z ↔ BdEdge G.edges x y Z a b := by
  simp only [bdEdges, List.mem_filter, Bool.and_eq_true, Bool.not_eq_true', List.contains_eq_mem,
    decide_eq_false_iff_not, mem_removeSet, not_and, not_not, bne_iff_ne, ne_eq, BdEdge]
  constructor
  · rintro ⟨⟨hE, ha, hb⟩, hx⟩
    exact ⟨hE, hx, ha (hwf _ hE).1, hb (hwf _ hE).2⟩
  · rintro ⟨hE, hx, ha, hb⟩
    exact ⟨⟨hE, fun _ => ha, fun _ => hb⟩, hx⟩

theorem mem_pairs {l : List Nat} {a b : Nat} (h : (a, b) ∈ pairs l) : a ∈ l ∧ b ∈ l := by
  induction l with
  | nil => simp [pairs] at h
  | cons c l ih =>
    simp only [pairs, List.mem_append, List.mem_map, Prod.mk.injEq] at h
    rcases h with ⟨d, hd, rfl, rfl⟩ | h
    · exact ⟨List.mem_cons_self .., List.mem_cons_of_mem _ hd⟩
    · exact ⟨List.mem_cons_of_mem _ (ih h).1, List.mem_cons_of_mem _ (ih h).2⟩

theorem pairs_complete {l : List Nat} {a b : Nat} (ha : a ∈ l) (hb : b ∈ l) (hab : a ≠ b) :
    (a, b) ∈ pairs l ∨ (b, a) ∈ pairs l := by
  induction l with
  | nil => simp at ha
  | cons c l ih =>
    simp only [pairs, List.mem_append, List.mem_map, Prod.mk.injEq]
    rcases List.mem_cons.mp ha with rfl | ha' <;> rcases List.mem_cons.mp hb with rfl | hb'
    · exact absurd rfl hab
    · exact .inl (.inl ⟨b, hb', rfl, rfl⟩)
    · exact .inr (.inl ⟨a, ha', rfl, rfl⟩)
    · rcases ih ha' hb' with h | h
      · exact .inl (.inr h)
      · exact .inr (.inr h)

theorem length_gt_one_of_two {l : List Nat} {a b : Nat} (ha : a ∈ l) (hb : b ∈ l) (hab : a ≠ b) :
    1 < l.length := by
  match l, ha, hb with
  | [c], ha, hb => simp at ha hb; exact absurd (ha.trans hb.symm) hab
  | _ :: _ :: _, _, _ => simp

theorem marry_sound {N : List Nat} {E : List Edge} {a b : Nat} (h : (a, b) ∈ marryList N E) :
    ∃ n, (a, n) ∈ E ∧ (b, n) ∈ E := by
  simp only [marryList, List.mem_flatMap] at h
  obtain ⟨n, _, h⟩ := h
  split at h
  · have := mem_pairs (List.mem_filter.mp h).1
    simp only [List.mem_map, List.mem_filter, beq_iff_eq] at this
    obtain ⟨⟨⟨a', n1⟩, ⟨h1, rfl⟩, rfl⟩, ⟨⟨b', n2⟩, ⟨h2, h2'⟩, rfl⟩⟩ := this
    simp only at h2'; subst h2'
    exact ⟨_, h1, h2⟩
  · simp at h

theorem marry_complete {N : List Nat} {E : List Edge} {a b n : Nat} (hn : n ∈ N) (ha : (a, n) ∈ E)
    (hb : (b, n) ∈ E) (hab : a ≠ b) (h1 : (a, b) ∉ E) (h2 : (b, a) ∉ E) :
    (a, b) ∈ marryList N E ∨ (b, a) ∈ marryList N E := by
  have hsa : a ∈ (E.filter (fun e => e.2 == n)).map (·.1) :=
    List.mem_map.mpr ⟨(a, n), List.mem_filter.mpr ⟨ha, by simp⟩, rfl⟩
  have hsb : b ∈ (E.filter (fun e => e.2 == n)).map (·.1) :=
    List.mem_map.mpr ⟨(b, n), List.mem_filter.mpr ⟨hb, by simp⟩, rfl⟩
  have hlen := length_gt_one_of_two hsa hsb hab
  simp only [marryList, List.mem_flatMap]
  rcases pairs_complete hsa hsb hab with h | h
  · left; refine ⟨n, hn, ?_⟩
    rw [if_pos hlen]
    exact List.mem_filter.mpr ⟨h, by simp [hasEdge, h1, h2]⟩
  · right; refine ⟨n, hn, ?_⟩
    rw [if_pos hlen]
    exact List.mem_filter.mpr ⟨h, by simp [hasEdge, h1, h2]⟩

theorem moralEdges_sound {G : Graph} (hwf : G.WF) {x y : Nat} {Z : List Nat} {a b : Nat}
    (h : (a, b) ∈ moralEdges G x y Z) : MoralMinus G.edges x y Z a b ∨ a = b := by
  simp only [moralEdges, List.mem_filter, List.mem_append, List.mem_map, Bool.and_eq_true,
    Bool.not_eq_true', List.contains_eq_mem, decide_eq_false_iff_not] at h
  obtain ⟨h, ha, hb⟩ := h
  by_cases hab : a = b
  · exact .inr hab
  left
  refine ⟨ha, hb, ?_⟩
  have key : ∀ {a b : Nat}, a ≠ b →
      ((a, b) ∈ bdEdges G x y Z ∨ (a, b) ∈ marryList (keptNodes G x y Z) (bdEdges G x y Z)) →
      BdEdge G.edges x y Z a b ∨ (a ≠ b ∧ ∃ c, BdEdge G.edges x y Z a c ∧ BdEdge G.edges x y Z b c) := by
    intro a b hab h
    rcases h with h | h
    · exact .inl ((mem_bdEdges hwf).mp h)
    · obtain ⟨n, h1, h2⟩ := marry_sound h
      exact .inr ⟨hab, n, (mem_bdEdges hwf).mp h1, (mem_bdEdges hwf).mp h2⟩
  rcases h with h | ⟨⟨c, d⟩, h, he⟩
  · rcases key hab h with h | h
    · exact .inl h
    · exact .inr (.inr h)
  · simp only [Prod.swap, Prod.mk.injEq] at he
    obtain ⟨rfl, rfl⟩ := he
    rcases key (Ne.symm hab) h with h | ⟨_, c, h1, h2⟩
    · exact .inr (.inl h)
    · exact .inr (.inr ⟨hab, c, h2, h1⟩)

theorem moralEdges_complete {G : Graph} (hwf : G.WF) {x y : Nat} {Z : List Nat} {a b : Nat}
    (h : MoralMinus G.edges x y Z a b) : (a, b) ∈ moralEdges G x y Z := by
  obtain ⟨ha, hb, h⟩ := h
  simp only [moralEdges, List.mem_filter, List.mem_append, List.mem_map, Bool.and_eq_true,
    Bool.not_eq_true', List.contains_eq_mem, decide_eq_false_iff_not]
  refine ⟨?_, ha, hb⟩
  rcases h with h | h | ⟨hab, c, h1, h2⟩
  · exact .inl (.inl ((mem_bdEdges hwf).mpr h))
  · exact .inr ⟨(b, a), .inl ((mem_bdEdges hwf).mpr h), rfl⟩
  · by_cases e1 : (a, b) ∈ bdEdges G x y Z
    · exact .inl (.inl e1)
    by_cases e2 : (b, a) ∈ bdEdges G x y Z
    · exact .inr ⟨(b, a), .inl e2, rfl⟩
    have hc : c ∈ keptNodes G x y Z := mem_keptNodes.mpr ⟨(hwf _ h1.1).2, h1.2.2.2⟩
    rcases marry_complete hc ((mem_bdEdges hwf).mpr h1) ((mem_bdEdges hwf).mpr h2) hab e1 e2 with h | h
    · exact .inl (.inr h)
    · exact .inr ⟨(b, a), .inr h, rfl⟩

/-- two relations that differ only by loops have the same reflexive-transitive closure -/
theorem rtg_congr_loops {R R' : Nat → Nat → Prop} (h1 : ∀ a b, R a b → R' a b ∨ a = b)
    (h2 : ∀ a b, R' a b → R a b) (u v : Nat) : ReflTransGen R u v ↔ ReflTransGen R' u v := by
  constructor
  · intro h
    induction h with
    | refl => exact .refl
    | tail _ hab ih =>
      rcases h1 _ _ hab with h | rfl
      · exact ih.tail h
      · exact ih
  · intro h
    induction h with
    | refl => exact .refl
    | tail _ hab ih => exact ih.tail (h2 _ _ hab)

theorem check_iff {G : Graph} (hwf : G.WF) (x y : Nat) (Z : List Nat) :
    check G x y Z = true ↔ Admissible G.edges x y Z := by
  have hr : y ∈ reach (moralEdges G x y Z) x ↔ ReflTransGen (MoralMinus G.edges x y Z) x y := by
    rw [mem_reach]
    exact rtg_congr_loops (fun a b h => moralEdges_sound hwf h) (fun a b h => moralEdges_complete hwf h) x y
  have hd : (Z.any (fun z => (desc G.edges x).contains z)) = true ↔ ∃ z ∈ Z, IsDesc G.edges x z := by
    simp [mem_desc]
  show (if (Z.any (fun z => (desc G.edges x).contains z)) = true then false
        else !(reach (moralEdges G x y Z) x).contains y) = true ↔ _
  unfold Admissible
  by_cases h : (Z.any (fun z => (desc G.edges x).contains z)) = true
  · rw [if_pos h]
    obtain ⟨z, hz, hdz⟩ := hd.mp h
    simp only [Bool.false_eq_true, false_iff, not_and, not_not]
    intro h'; exact absurd hdz (h' z hz)
  · rw [if_neg h]
    simp only [Bool.not_eq_true', List.contains_eq_mem, decide_eq_false_iff_not, hr]
    constructor
    · intro h'; exact ⟨fun z hz hdz => h (hd.mpr ⟨z, hz, hdz⟩), h'⟩
    · exact fun h' => h'.2

end ZV.Dag
