/-
Bridge between the pandas group primitives the generated `ZV.Gen.survgf_fit` is written with
(`SurvGF.groupCumprod / groupMeanAt / groupSumAt`, Model/SurvGF.lean) and the hand-written model of
`SurvivalGFormula.fit` (`SurvGF.cumInc`, `SurvGF.marginalAt`) that the C12 theorems are about.
-/
import ZepidVerif.Model.SurvGF
import ZepidVerif.Lemmas.Sum
namespace ZV.SurvGF
open ZV
set_option linter.unusedSectionVars false
variable {F : Type} [Field F]

/-- a group reduction over (key column, value column) is the reduction over (row, value) pairs filtered by the row's key -/
theorem zip_key_filter {α : Type} (key : α → Nat) (l : List α) (c : List F) (k : Nat) :
    ((l.map key).zip c).filter (fun q => q.1 == k)
      = ((l.zip c).filter fun q => key q.1 == k).map fun q => (key q.1, q.2) := by
  rw [List.zip_map_left, List.filter_map]
  rfl

theorem groupSumAt_eq {α : Type} (key : α → Nat) (l : List α) (c : List F) (k : Nat) :
    groupSumAt (l.map key) c k = sumBy (fun q => q.2) ((l.zip c).filter fun q => key q.1 == k) := by
  unfold groupSumAt
  rw [zip_key_filter, sumBy_map]

theorem groupMeanAt_eq {α : Type} (key : α → Nat) (l : List α) (c : List F) (k : Nat) :
    groupMeanAt (l.map key) c k
      = sumBy (fun q => q.2) ((l.zip c).filter fun q => key q.1 == k)
        / ((((l.zip c).filter fun q => key q.1 == k).length : Nat) : F) := by
  unfold groupMeanAt
  simp only [zip_key_filter, sumBy_map, List.length_map]

theorem groupCumprod_map {α : Type} (key : α → Nat) (f : α → F) (l : List α) :
    groupCumprod (l.map key) (l.map f) = cumprodBy (fun _ => one) (l.map fun r => (key r, f r)) := by
  unfold groupCumprod
  rw [List.zip_map']

end ZV.SurvGF
