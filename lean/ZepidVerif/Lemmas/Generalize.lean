/-
Helper lemmas for the generalize / transport estimators: saturated sampling and (within-sample)
treatment models, the balance of the generated sampling-weight formulas, the two cancellations
behind AIPSW's double robustness.
-/
import ZepidVerif.Model.Generalize
import ZepidVerif.Lemmas.IpwPop
import ZepidVerif.Lemmas.GFormula
namespace ZV.Std
open ZV
set_option linter.unusedSectionVars false
variable {F : Type} [Field F] [LinearOrder F] [IsStrictOrderedRing F] [Transc F]

/-- sampled rows of a stratum -/
def inSample (s : Nat) (r : Row F) : Bool := r.s == s && r.obs

/-- saturated sampling model `S ~ stratum`, fitted on all rows -/
def SampFit (l : List (Row F)) (S : List Nat) (π : Nat → F) : Prop :=
  ∀ s ∈ S, π s * W (inStratum s) l = W (inSample s) l

/-- saturated treatment model `A ~ stratum`, fitted on the sampled rows -/
def PropFitS (l : List (Row F)) (S : List Nat) (p : Nat → F) : Prop :=
  ∀ s ∈ S, p s * W (inSample s) l = W (inCell s true) l

theorem W_sample_split (l : List (Row F)) (s : Nat) :
    W (inSample s) l = W (inCell s true) l + W (inCell s false) l := by
  unfold W
  rw [sumIf_def, sumIf_def, sumIf_def, ← sumBy_add]
  apply sumBy_congr; intro r _
  by_cases h1 : r.s = s <;> cases h2 : r.a <;> cases h3 : r.obs <;> simp [inSample, inCell, h1, h2, h3]

theorem W_stratum_split_obs (l : List (Row F)) (s : Nat) :
    W (inStratum s) l = W (inSample s) l + W (fun r => inStratum s r && !r.obs) l := by
  unfold W
  rw [sumIf_def, sumIf_def, sumIf_def, ← sumBy_add]
  apply sumBy_congr; intro r _
  by_cases h1 : r.s = s <;> cases h3 : r.obs <;> simp [inSample, inStratum, h1, h3]

theorem Positivity.sample_pos {l : List (Row F)} {S : List Nat} (h : Positivity l S) {s : Nat} (hs : s ∈ S) :
    0 < W (inSample s) l := by
  rw [W_sample_split]; exact add_pos (h.cell_pos hs true) (h.cell_pos hs false)

theorem PropFitS.mem_Ioo {l : List (Row F)} {S : List Nat} {p : Nat → F} (hp : PropFitS l S p)
    (h : Positivity l S) {s : Nat} (hs : s ∈ S) : 0 < p s ∧ p s < 1 := by
  have h1 := h.cell_pos hs true
  have h0 := h.cell_pos hs false
  have hW := h.sample_pos hs
  have e := hp s hs
  have e2 := W_sample_split l s
  constructor
  · by_contra hneg
    have : p s * W (inSample s) l ≤ 0 := mul_nonpos_of_nonpos_of_nonneg (not_lt.mp hneg) hW.le
    linarith
  · by_contra hge
    have : W (inSample s) l ≤ p s * W (inSample s) l := le_mul_of_one_le_left hW.le (not_lt.mp hge)
    linarith

/-- weight of the arm among the sampled rows of a stratum, in terms of the fitted treatment probability -/
theorem PropFitS.arm {l : List (Row F)} {S : List Nat} {p : Nat → F} (hp : PropFitS l S p) {s : Nat} (hs : s ∈ S)
    (a : Bool) : W (inCell s a) l = if a then p s * W (inSample s) l else (1 - p s) * W (inSample s) l := by
  have e := hp s hs
  have e2 := W_sample_split l s
  cases a
  · simp only [Bool.false_eq_true, if_false]; rw [sub_mul, one_mul, e, e2]; ring
  · simp only [if_true]; exact e.symm

/-- the stratum-independent constant of the sampling-weight formula -/
def ipswConst (generalize stab : Bool) (n : F) : F :=
  match generalize, stab with
  | true, _ => n
  | false, true => n / (1 - n)
  | false, false => 1

/-- generated sampling weight × sampled weight of the stratum (`π·T`, `T` the stratum's total weight)
    = constant × target weight of the stratum (`T` for generalize, `(1−π)·T` for transport) -/
theorem ipsw_weight_balance (generalize stab : Bool) (n π T : F) (hπ0 : π ≠ 0)
    (hn1 : generalize = false → stab = true → n ≠ 1) :
    Gen.ipsw_weight generalize stab n π * (π * T)
      = ipswConst generalize stab n * (if generalize then T else (1 - π) * T) := by
  cases generalize <;> cases stab <;> simp [Gen.ipsw_weight, ipswConst]
  · field_simp
  · have hn1' : (1 : F) - n ≠ 0 := sub_ne_zero.mpr (Ne.symm (hn1 rfl rfl))
    field_simp
  · field_simp
  · field_simp

theorem aipsw_weight_eq (generalize stab : Bool) (n π : F) :
    Gen.aipsw_weight generalize stab n π = Gen.ipsw_weight generalize stab n π := by
  cases generalize <;> cases stab <;> simp [Gen.aipsw_weight, Gen.ipsw_weight]

/-- target weight of a stratum under a saturated sampling model -/
theorem Ntgt_genTarget (generalize : Bool) (l : List (Row F)) (S : List Nat) (π : Nat → F) (hπ : SampFit l S π)
    (s : Nat) (hs : s ∈ S) :
    Ntgt (genTarget generalize) l s
      = if generalize then W (inStratum s) l else (1 - π s) * W (inStratum s) l := by
  cases generalize
  · simp only [Bool.false_eq_true, if_false]
    have e := W_stratum_split_obs l s
    rw [sub_mul, one_mul, hπ s hs]
    have : Ntgt (genTarget false) l s = W (fun r => inStratum s r && !r.obs) l := by
      unfold Ntgt W; apply sumIf_congr; intro r _; simp [genTarget]
    rw [this, e]; ring
  · simp only [if_true]; unfold Ntgt W; apply sumIf_congr; intro r _; simp [genTarget]


/-- the AIPSW numerator, regrouped by stratum: predictions over the target plus weighted cell residuals -/
theorem aipsw_num (generalize : Bool) (l : List (Row F)) (S : List Nat) (hS : Strata l S) (Q : Nat → Bool → F)
    (a : Bool) (ω : Row F → F) (Ω : Nat → F) (hω : ∀ r ∈ l, r.a = a → r.obs = true → ω r = Ω r.s) :
    sumIf (genTarget generalize) (fun r => r.w * Q r.s a) l
        + sumIf (fun r => r.a == a && r.obs) (fun r => ω r * (r.w * (r.y - Q r.s a))) l
      = sumBy (fun s => Ntgt (genTarget generalize) l s * Q s a
          + Ω s * (WY (inCell s a) l - Q s a * W (inCell s a) l)) S := by
  rw [sumBy_add, sumIf_arm_regroup l S hS.1 hS.2 a ω Ω hω, sumIf_regroup S hS.1 l hS.2]
  congr 1
  · apply sumBy_congr; intro s _
    unfold Ntgt W; rw [mul_comm, ← sumIf_mul_left]
    apply sumIf_congr; intro r _
    by_cases h : r.s = s
    · subst h; simp [inStratum, mul_comm]
    · simp [inStratum, h]
  · apply sumBy_congr; intro s _
    congr 1
    unfold WY W
    have : sumIf (inCell s a) (fun r => r.w * (r.y - Q r.s a)) l
        = sumIf (inCell s a) (fun r => r.w * r.y + (-(Q s a)) * r.w) l := by
      apply sumIf_congr; intro r _
      by_cases h : r.s = s
      · subst h; split <;> ring
      · simp [inCell, h]
    rw [this, sumIf_add, sumIf_mul_left]; ring

theorem W_genTarget (generalize : Bool) (l : List (Row F)) (S : List Nat) (hS : Strata l S) :
    W (genTarget generalize) l = sumBy (fun s => Ntgt (genTarget generalize) l s) S := by
  unfold W Ntgt W; rw [sumIf_regroup S hS.1 l hS.2]

end ZV.Std
