/-
Bridge: the definition regenerated from the text of `TimeFixedGFormula.fit_stochastic` (`Gen.gf_stoch_fit`,
`Gen/GfStoch.lean`) computes the hand model of `Model/Stochastic.lean`: per resample `mcMean` over the target rows at
the assignment `gfAssign` of that resample's draws, then `meanOf`.  Helper lemmas; the audited statement is in
`Props/C14_GfStoch.lean`.
-/
import ZepidVerif.Gen.GfStoch
import ZepidVerif.Lemmas.Stochastic
import ZepidVerif.Lemmas.Std
import Mathlib.Algebra.Order.Field.Basic
import Mathlib.Tactic.Ring
namespace ZV.Stoch
open ZV ZV.Std
set_option linter.unusedSectionVars false
set_option linter.unusedVariables false
set_option linter.unusedSimpArgs false
set_option linter.unreachableTactic false
set_option linter.unusedTactic false
variable {F : Type} [Field F] [LinearOrder F] [IsStrictOrderedRing F] [Transc F]

/-- a loop that appends one value per element is `map` -/
theorem foldl_append_singleton {α β : Type} (f : α → β) (l : List α) (init : List β) :
    l.foldl (fun acc d => acc ++ [f d]) init = init ++ l.map f := by
  induction l generalizing init with
  | nil => simp
  | cons x xs ih => simp [ih]

/-- the loop `treated = []; for (c, prop), tr in zip(zip(conditional, p), draws): treated.extend(tr)` collects the draws
    in listing order — all of them when there is at most one draw per listed pair -/
theorem foldl_extend_zip {α : Type} (cs : List α) (d : List (List Nat)) (init : List Nat) (h : d.length ≤ cs.length) :
    (List.zip cs d).foldl (fun acc x => acc ++ x.2) init = init ++ d.flatMap id := by
  induction cs generalizing d init with
  | nil =>
    have : d = [] := List.eq_nil_of_length_eq_zero (Nat.le_zero.mp h)
    simp [this]
  | cons c cs ih =>
    cases d with
    | nil => simp
    | cons x xs =>
      simp only [List.zip_cons_cons, List.foldl_cons, List.flatMap_cons, id]
      rw [ih xs (init ++ x) (by simpa using h), List.append_assoc]

/-- the single draw of an unconditional plan -/
theorem getD_zero_flatMap (d : List (List Nat)) (h : d.length ≤ 1) : d.getD 0 [] = d.flatMap id := by
  match d, h with
  | [], _ => rfl
  | [x], _ => simp
  | _ :: _ :: _, h => simp at h

/-- the treated set of one resample, as the generated code builds it -/
def treatedOf (hasCond : Bool) {α : Type} (cs : List α) (d : List (List Nat)) : List Nat :=
  if hasCond then (List.zip cs d).foldl (fun acc x => acc ++ x.2) [] else d.getD 0 []

theorem treatedOf_contains (hasCond : Bool) {α : Type} (cs : List α) (d : List (List Nat))
    (h : d.length ≤ (if hasCond then cs.length else 1)) (i : Nat) :
    (treatedOf hasCond cs d).contains i = gfAssign d i := by
  unfold treatedOf gfAssign
  cases hasCond
  · simp only [Bool.false_eq_true, ↓reduceIte] at h ⊢; rw [getD_zero_flatMap d h]
  · simp only [↓reduceIte] at h ⊢; rw [foldl_extend_zip cs d [] h]; simp

/-- `np.mean(marginals)` -/
theorem mean_list_eq (xs : List F) : sumBy (fun x => x) xs / ((xs.length : Nat) : F) = meanOf xs := rfl

/-- **the generated `fit_stochastic` is the model**: per resample the weighted mean (`mcMean`), over the rows of the
    standardization target (with an observed outcome unless `predict_missing`), of the prediction at the treatment the
    resample's draws assign (`gfAssign`: membership in the concatenation of the drawn index lists); then the mean over
    the resamples.  One draw per resample for an unconditional plan, at most one per listed (condition, p) pair
    otherwise; without a weight column the model's frequency weight is 1. -/
theorem gf_stoch_fit_eq (hasCond hasWeights pm : Bool) (t : Tgt) (ps : List F) (conditional : List (Nat → Bool))
    (l : List (Row F)) (Q : Row F → Bool → F) (draws : List (List (List Nat)))
    (hw : hasWeights = false → ∀ r ∈ l, r.w = 1)
    (hlen : ∀ d ∈ draws, d.length ≤ (if hasCond then (List.zip conditional ps).length else 1)) :
    Gen.gf_stoch_fit hasCond hasWeights pm t.str ps conditional l Q draws
      = meanOf (draws.map fun d =>
          mcMean l Q (fun q => q) (fun r => t.mem r && (pm || r.obs)) (fun r => gfAssign d r.i)) := by
  have hone : sumBy (fun _ : Row F => (1 : F)) l = (l.length : F) := sumBy_const_one l
  have hT : ∀ d ∈ draws, ∀ i, (treatedOf hasCond (List.zip conditional ps) d).contains i = gfAssign d i :=
    fun d hd i => treatedOf_contains hasCond (List.zip conditional ps) d (hlen d hd) i
  cases hasCond <;> cases pm <;> cases hasWeights <;> cases t <;>
    simp only [Gen.gf_stoch_fit, Tgt.str, Bool.false_eq_true, Bool.true_eq_false, ↓reduceIte, not_true_eq_false,
      not_false_eq_true, String.reduceEq, treatedOf] at hT ⊢ <;>
    rw [foldl_append_singleton, List.nil_append, mean_list_eq] <;>
    congr 1 <;> apply List.map_congr_left <;> intro d hd <;>
    unfold mcMean W <;> rw [sumIf_def, sumIf_def] <;>
    (try rw [← hone]) <;>
    congr 1 <;> apply sumBy_congr <;> intro r hr <;>
    (try simp only [hT d hd r.i]) <;>
    cases ho : r.obs <;> cases ha : r.a <;> simp [Tgt.mem, ho, ha] <;>
    first
      | done
      | ring1
      | (simp [hw rfl r hr]; done)
      | (simp [hw rfl r hr]; ring1)
end ZV.Stoch
