/-
Helper lemmas for C12: algebra of `ZV.sumBy` (incl. regrouping a row sum by stratum), and the row-level
facts about the backward recursion of `ZV.Ice` on survival-type outcome histories.
-/
import ZepidVerif.Model.Ice
import ZepidVerif.Model.SurvGF
import Mathlib.Algebra.Order.Field.Basic
import Mathlib.Tactic.FieldSimp
import Mathlib.Tactic.Ring
import Mathlib.Tactic.Linarith
import Mathlib.Tactic.LinearCombination
set_option linter.unusedSectionVars false
set_option linter.unusedVariables false
namespace ZV.IceL
open ZV

section sums
variable {F : Type} [Field F] {α β : Type}

@[simp] theorem sumBy_nil (f : α → F) : sumBy f [] = 0 := by simp [sumBy]
@[simp] theorem sumBy_cons (f : α → F) (x : α) (l : List α) : sumBy f (x :: l) = f x + sumBy f l := rfl

theorem sumBy_congr {f g : α → F} {l : List α} (h : ∀ x ∈ l, f x = g x) : sumBy f l = sumBy g l := by
  induction l with
  | nil => simp
  | cons x xs ih =>
    simp only [sumBy_cons]
    rw [h x (by simp), ih (fun y hy => h y (by simp [hy]))]

theorem sumBy_add (f g : α → F) (l : List α) : sumBy (fun x => f x + g x) l = sumBy f l + sumBy g l := by
  induction l with
  | nil => simp
  | cons x xs ih => simp only [sumBy_cons, ih]; ring

theorem sumBy_sub (f g : α → F) (l : List α) : sumBy (fun x => f x - g x) l = sumBy f l - sumBy g l := by
  induction l with
  | nil => simp
  | cons x xs ih => simp only [sumBy_cons, ih]; ring

theorem sumBy_mul_right (f : α → F) (c : F) (l : List α) : sumBy (fun x => f x * c) l = sumBy f l * c := by
  induction l with
  | nil => simp
  | cons x xs ih => simp only [sumBy_cons, ih]; ring

theorem sumBy_zero (l : List α) : sumBy (fun _ => (0 : F)) l = 0 := by
  induction l with
  | nil => simp
  | cons x xs ih => simp [ih]

theorem sumBy_const (c : F) (l : List α) : sumBy (fun _ => c) l = (l.length : F) * c := by
  induction l with
  | nil => simp
  | cons x xs ih => simp only [sumBy_cons, ih, List.length_cons, Nat.cast_succ]; ring

theorem sumBy_map (f : β → F) (h : α → β) (l : List α) : sumBy f (l.map h) = sumBy (fun x => f (h x)) l := by
  induction l with
  | nil => simp
  | cons x xs ih => simp [ih]

/-- a sum of indicators counts -/
theorem sumBy_ind (p : α → Bool) (l : List α) :
    sumBy (fun x => if p x then (1 : F) else 0) l = ((l.filter p).length : F) := by
  induction l with
  | nil => simp
  | cons x xs ih =>
    simp only [sumBy_cons, ih, List.filter_cons]
    cases p x <;> simp; ring

/-- a sum restricted by an indicator is the sum over the filtered list -/
theorem sumBy_ite (p : α → Bool) (f : α → F) (l : List α) :
    sumBy (fun x => if p x then f x else 0) l = sumBy f (l.filter p) := by
  induction l with
  | nil => simp
  | cons x xs ih =>
    simp only [sumBy_cons, ih, List.filter_cons]
    cases p x <;> simp

theorem sumBy_single [DecidableEq β] (levels : List β) (hnd : levels.Nodup) (c : β) (hc : c ∈ levels) (v : F) :
    sumBy (fun s => if s = c then v else 0) levels = v := by
  induction levels with
  | nil => simp at hc
  | cons s ss ih =>
    rw [List.nodup_cons] at hnd
    simp only [sumBy_cons]
    by_cases h : s = c
    · subst h
      have : sumBy (fun t => if t = s then v else (0 : F)) ss = 0 := by
        have h0 : sumBy (fun t => if t = s then v else (0 : F)) ss = sumBy (fun _ => (0 : F)) ss := by
          apply sumBy_congr
          intro t ht
          have : t ≠ s := fun e => hnd.1 (e ▸ ht)
          simp [this]
        rw [h0, sumBy_zero]
      simp [this]
    · have hc' : c ∈ ss := by
        rcases List.mem_cons.mp hc with h' | h'
        · exact absurd h'.symm h
        · exact h'
      simp [h, ih hnd.2 hc']

/-- Regrouping by stratum: for a duplicate-free list of strata containing every element's stratum,
    `Σ_{x∈L} f x = Σ_{s∈strata} Σ_{x∈L, key x = s} f x`. -/
theorem sumBy_strata [DecidableEq β] (key : α → β) (levels : List β) (hnd : levels.Nodup) (f : α → F)
    (L : List α) (hmem : ∀ x ∈ L, key x ∈ levels) :
    sumBy f L = sumBy (fun s => sumBy f (L.filter fun x => decide (key x = s))) levels := by
  induction L with
  | nil => simp [sumBy_zero]
  | cons x xs ih =>
    have h1 : ∀ s, sumBy f ((x :: xs).filter fun y => decide (key y = s)) =
        (if s = key x then f x else 0) + sumBy f (xs.filter fun y => decide (key y = s)) := by
      intro s
      simp only [List.filter_cons]
      by_cases h : key x = s
      · simp [h]
      · have h' : ¬ s = key x := fun e => h e.symm
        simp [h, h']
    rw [sumBy_congr (fun s _ => h1 s), sumBy_add, sumBy_single levels hnd (key x) (hmem x (by simp)),
      ← ih (fun y hy => hmem y (by simp [hy]))]
    simp

/-- regrouping when the summand depends on the element only through its stratum -/
theorem sumBy_strata_const [DecidableEq β] (key : α → β) (levels : List β) (hnd : levels.Nodup) (φ : β → F)
    (L : List α) (hmem : ∀ x ∈ L, key x ∈ levels) :
    sumBy (fun x => φ (key x)) L =
      sumBy (fun s => (((L.filter fun x => decide (key x = s)).length : Nat) : F) * φ s) levels := by
  rw [sumBy_strata key levels hnd _ L hmem]
  apply sumBy_congr
  intro s _
  rw [← sumBy_const]
  apply sumBy_congr
  intro x hx
  simp only [List.mem_filter, decide_eq_true_eq] at hx
  rw [hx.2]

end sums
section rows
open ZV.Ice
variable {F : Type} [Field F]

theorem filter_length_congr {α : Type} {p q : α → Bool} {l : List α} (h : ∀ x ∈ l, p x = q x) :
    (l.filter p).length = (l.filter q).length := by rw [List.filter_congr h]

theorem predFrom_allNone (μ : List Bool → List Nat → F) (g : List Bool) (ls : List Nat) :
    ∀ (l : List (Option Nat)) (k : Nat), allNone l = true → predFrom μ g ls k l = none := by
  intro l
  induction l with
  | nil => intro k _; rfl
  | cons y rest ih =>
    intro k h
    simp only [allNone, Bool.and_eq_true] at h
    cases y with
    | some v => simp at h
    | none => simp only [predFrom, ih (k + 1) h.2, orObs, Option.map_none, mask]

theorem predFrom_cons_some (μ : List Bool → List Nat → F) (g : List Bool) (ls : List Nat) (k v : Nat)
    (rest : List (Option Nat)) :
    predFrom μ g ls k (some v :: rest) = some (μ (g.take (k + 1)) (ls.take (k + 1))) := by
  simp only [predFrom]
  cases predFrom μ g ls (k + 1) rest <;> simp [orObs, mask]

theorem allNone_survType : ∀ l : List (Option Nat), allNone l = true → survType l = true := by
  intro l
  cases l with
  | nil => intro _; rfl
  | cons y rest =>
    intro h
    simp only [allNone, Bool.and_eq_true] at h
    cases y with
    | some v => simp at h
    | none => simpa [survType] using h.2

theorem survType_tail (y : Option Nat) (rest : List (Option Nat)) (h : survType (y :: rest) = true) :
    survType rest = true := by
  cases y with
  | none => exact allNone_survType _ (by simpa [survType] using h)
  | some v =>
    simp only [survType] at h
    split_ifs at h with h1 h0
    · exact allNone_survType _ h
    · cases rest with
      | nil => rfl
      | cons z zs =>
        cases z with
        | none => simp at h
        | some w => simpa using h

theorem survType_drop : ∀ (k : Nat) (l : List (Option Nat)), survType l = true → survType (l.drop k) = true := by
  intro k
  induction k with
  | zero => intro l h; simpa using h
  | succ k ih =>
    intro l h
    cases l with
    | nil => simp [survType]
    | cons y rest => simpa using ih rest (survType_tail y rest h)

/-- the pseudo-outcome of a survival-type suffix -/
theorem pseudoFrom_cases (μ : List Bool → List Nat → F) (g : List Bool) (ls : List Nat) (k : Nat)
    (y : Option Nat) (rest : List (Option Nat)) (h : survType (y :: rest) = true) :
    (y = none ∧ pseudoFrom μ g ls k (y :: rest) = none) ∨
    (y = some 1 ∧ pseudoFrom μ g ls k (y :: rest) = some 1) ∨
    (y = some 0 ∧ rest = [] ∧ pseudoFrom μ g ls k (y :: rest) = some 0) ∨
    (y = some 0 ∧ (∃ v rest', rest = some v :: rest') ∧
      pseudoFrom μ g ls k (y :: rest) = some (μ (g.take (k + 2)) (ls.take (k + 2)))) := by
  cases y with
  | none =>
    left
    have : allNone rest = true := by simpa [survType] using h
    simp [pseudoFrom, predFrom_allNone μ g ls rest (k + 1) this, orObs]
  | some v =>
    simp only [survType] at h
    split_ifs at h with h1 h0
    · right; left
      subst h1
      simp [pseudoFrom, predFrom_allNone μ g ls rest (k + 1) h, orObs]
    · subst h0
      right; right
      cases rest with
      | nil => left; simp [pseudoFrom, predFrom, orObs]
      | cons z zs =>
        cases z with
        | none => simp at h
        | some w =>
          right
          refine ⟨rfl, ⟨w, zs, rfl⟩, ?_⟩
          simp [pseudoFrom, predFrom_cons_some, orObs]

theorem yAt_eq (r : WRow) (k : Nat) (h : k < r.ys.length) : yAt r k = r.ys[k] := by
  simp [yAt, List.getD_eq_getElem?_getD, List.getElem?_eq_getElem h]

/-- the pseudo-outcome of a survival-type row at step `k` -/
theorem pseudoAt_cases (μ : List Bool → List Nat → F) (g : List Bool) (r : WRow) (K k : Nat)
    (hlen : r.ys.length = K) (hk : k < K) (hs : survType r.ys = true) :
    (yAt r k = none ∧ pseudoAt μ g r k = none) ∨
    (yAt r k = some 1 ∧ pseudoAt μ g r k = some 1) ∨
    (yAt r k = some 0 ∧ k + 1 = K ∧ pseudoAt μ g r k = some 0) ∨
    (yAt r k = some 0 ∧ k + 1 < K ∧ (yAt r (k + 1)).isSome = true ∧
      pseudoAt μ g r k = some (μ (g.take (k + 2)) (r.ls.take (k + 2)))) := by
  have hk' : k < r.ys.length := by omega
  have hd : r.ys.drop k = r.ys[k] :: r.ys.drop (k + 1) := List.drop_eq_getElem_cons hk'
  have hs' : survType (r.ys[k] :: r.ys.drop (k + 1)) = true := by
    rw [← hd]; exact survType_drop k _ hs
  have hy : yAt r k = r.ys[k] := yAt_eq r k hk'
  unfold pseudoAt
  rw [hd, hy]
  rcases pseudoFrom_cases μ g r.ls k _ _ hs' with h | h | h | h
  · exact Or.inl h
  · exact Or.inr (Or.inl h)
  · right; right; left
    refine ⟨h.1, ?_, h.2.2⟩
    have := h.2.1
    have hl : (r.ys.drop (k + 1)).length = 0 := by rw [this]; rfl
    rw [List.length_drop] at hl
    omega
  · right; right; right
    obtain ⟨h0, ⟨v, rest', hr⟩, hp⟩ := h
    have hl : (r.ys.drop (k + 1)).length = rest'.length + 1 := by rw [hr]; rfl
    rw [List.length_drop] at hl
    have hk1 : k + 1 < r.ys.length := by omega
    refine ⟨h0, by omega, ?_, hp⟩
    rw [yAt_eq r (k + 1) hk1]
    have hd1 : r.ys.drop (k + 1) = r.ys[k + 1] :: r.ys.drop (k + 1 + 1) := List.drop_eq_getElem_cons hk1
    rw [hd1] at hr
    have := (List.cons.inj hr).1
    rw [this]; rfl

end rows
section main
open ZV.Ice
variable {F : Type} [Field F] [CharZero F]

/-- the standing assumptions of `ice_eq_npgformula` -/
structure Hyp (μ : List Bool → List Nat → F) (g : List Bool) (rows : List WRow) (K : Nat)
    (levels : List Nat) : Prop where
  wf : wellFormed K rows = true
  glen : g.length = K
  surv : ∀ r ∈ rows, survType r.ys = true
  nodup : levels.Nodup
  cover : levelsCover levels rows = true
  fit : IsCellFit μ g rows K

theorem wf_row {K : Nat} {rows : List WRow} (h : wellFormed K rows = true) {r : WRow} (hr : r ∈ rows) :
    r.as.length = K ∧ r.ls.length = K ∧ r.ys.length = K := by
  simp only [wellFormed, List.all_eq_true, Bool.and_eq_true, decide_eq_true_eq] at h
  have := h r hr
  exact ⟨this.1.1, this.1.2, this.2⟩

theorem cover_row {levels : List Nat} {rows : List WRow} (h : levelsCover levels rows = true) {r : WRow}
    (hr : r ∈ rows) {l : Nat} (hl : l ∈ r.ls) : l ∈ levels := by
  simp only [levelsCover, List.all_eq_true] at h
  simpa using h r hr l hl

/-- prediction of the next step for a row still event-free (0 after the last time point) -/
def nx (μ : List Bool → List Nat → F) (g : List Bool) (K k : Nat) (r : WRow) : F :=
  if k + 1 < K then μ (g.take (k + 2)) (r.ls.take (k + 2)) else 0

theorem summand_eq (μ : List Bool → List Nat → F) (g : List Bool) (r : WRow) (K k : Nat) (m : F)
    (hlen : r.ys.length = K) (hk : k < K) (hs : survType r.ys = true) :
    (match pseudoAt μ g r k with | some q => q - m | none => ((0 : Nat) : F)) =
      (if yAt r k == some 1 then (1 : F) else 0) + (if yAt r k == some 0 then nx μ g K k r else 0)
        - (if (yAt r k).isSome then m else 0) := by
  rcases pseudoAt_cases μ g r K k hlen hk hs with ⟨hy, hp⟩ | ⟨hy, hp⟩ | ⟨hy, hK, hp⟩ | ⟨hy, hK, _, hp⟩
  · rw [hp, hy]; simp
  · rw [hp, hy]; simp
  · rw [hp, hy]; simp [nx, hK]
  · rw [hp, hy]; simp [nx, hK]

theorem cell_eq {μ : List Bool → List Nat → F} {g : List Bool} {rows : List WRow} {K : Nat}
    {levels : List Nat} (H : Hyp μ g rows K levels) (k : Nat) (hk : k < K) (lbar : List Nat) :
    ((nAt g rows k lbar : Nat) : F) * μ (g.take (k + 1)) lbar =
      ((dAt g rows k lbar : Nat) : F) +
        sumBy (nx μ g K k) ((rows.filter (inCell g k lbar)).filter fun r => yAt r k == some 0) := by
  have h := H.fit k hk lbar
  set m := μ (g.take (k + 1)) lbar with hm
  set cell := rows.filter (inCell g k lbar) with hcell
  have h : sumBy (fun r => (if yAt r k == some 1 then (1 : F) else 0) +
      (if yAt r k == some 0 then nx μ g K k r else 0) - (if (yAt r k).isSome then m else 0)) cell = ((0 : Nat) : F) := by
    refine Eq.trans (sumBy_congr ?_) h
    intro r hr
    have hr' : r ∈ rows := (List.mem_filter.mp hr).1
    exact (summand_eq μ g r K k m (wf_row H.wf hr').2.2 hk (H.surv r hr')).symm
  rw [sumBy_sub, sumBy_add, sumBy_ind, sumBy_ite, sumBy_ite, sumBy_const] at h
  have hd : (cell.filter fun r => yAt r k == some 1).length = dAt g rows k lbar := by
    rw [hcell, List.filter_filter]
    exact filter_length_congr (fun x _ => Bool.and_comm _ _)
  have hn : (cell.filter fun r => (yAt r k).isSome).length = nAt g rows k lbar := by
    rw [hcell, List.filter_filter]
    exact filter_length_congr (fun x _ => Bool.and_comm _ _)
  rw [hd, hn, Nat.cast_zero] at h
  linear_combination -h

end main
section main2
open ZV.Ice
variable {F : Type} [Field F] [CharZero F]

theorem take_succ_of_lt (l : List Nat) (k : Nat) (h : k < l.length) : l.take (k + 1) = l.take k ++ [l.getD k 0] := by
  rw [List.take_add_one, List.getD_eq_getElem?_getD, List.getElem?_eq_getElem h]; rfl

theorem getD_mem (l : List Nat) (k : Nat) (h : k < l.length) : l.getD k 0 ∈ l := by
  rw [List.getD_eq_getElem?_getD, List.getElem?_eq_getElem h]; simp

theorem getElem?_eq_some_iff_getD (l : List Nat) (k : Nat) (h : k < l.length) (v : Nat) :
    (l[k]? == some v) = decide (l.getD k 0 = v) := by
  rw [List.getD_eq_getElem?_getD, List.getElem?_eq_getElem h, Bool.eq_iff_iff]
  simp

theorem posOk_succ (levels : List Nat) (g : List Bool) (rows : List WRow) (fuel k : Nat) (lbar : List Nat) :
    posOk levels g rows (fuel + 1) k lbar = true ↔
      nAt g rows k lbar ≠ 0 ∧ ∀ l ∈ levels, sAt g rows k lbar l = 0 ∨
        posOk levels g rows fuel (k + 1) (lbar ++ [l]) = true := by
  simp only [posOk, Bool.and_eq_true, decide_eq_true_eq, List.all_eq_true, Bool.or_eq_true]

/-- the fitted value of every cell reached along the plan is the stratified g-formula value -/
theorem mu_eq_G {μ : List Bool → List Nat → F} {g : List Bool} {rows : List WRow} {K : Nat}
    {levels : List Nat} (H : Hyp μ g rows K levels) :
    ∀ fuel k, k + fuel + 1 = K → ∀ lbar, posOk levels g rows (fuel + 1) k lbar = true →
      μ (g.take (k + 1)) lbar = G levels g rows (fuel + 1) k lbar := by
  intro fuel
  induction fuel with
  | zero =>
    intro k hK lbar hp
    have hk : k < K := by omega
    have hc := cell_eq H k hk lbar
    have hz : sumBy (nx μ g K k) ((rows.filter (inCell g k lbar)).filter fun r => yAt r k == some 0) = 0 := by
      have : ¬ (k + 1 < K) := by omega
      rw [sumBy_congr (g := fun _ => (0 : F)) (fun r _ => by simp [nx, this]), sumBy_zero]
    rw [posOk_succ] at hp
    have hn : ((nAt g rows k lbar : Nat) : F) ≠ 0 := Nat.cast_ne_zero.mpr hp.1
    have hG : G (F := F) levels g rows (0 + 1) k lbar = ((dAt g rows k lbar : Nat) : F) / ((nAt g rows k lbar : Nat) : F) := by
      simp only [G, Nat.cast_zero, mul_zero]
      rw [sumBy_zero, add_zero]
    rw [hG, eq_div_iff hn, mul_comm, hc, hz, add_zero]
  | succ fuel ih =>
    intro k hK lbar hp
    have hk : k < K := by omega
    have hk1 : k + 1 < K := by omega
    have hc := cell_eq H k hk lbar
    rw [posOk_succ] at hp
    obtain ⟨hn0, hpl⟩ := hp
    have hn : ((nAt g rows k lbar : Nat) : F) ≠ 0 := Nat.cast_ne_zero.mpr hn0
    set surv := (rows.filter (inCell g k lbar)).filter fun r => yAt r k == some 0 with hsurv
    let key : WRow → Nat := fun r => r.ls.getD (k + 1) 0
    let φ : Nat → F := fun l => G levels g rows (fuel + 1) (k + 1) (lbar ++ [l])
    have hmem : ∀ r ∈ surv, r ∈ rows ∧ inCell g k lbar r = true ∧ (yAt r k == some 0) = true := by
      intro r hr
      rw [hsurv, List.mem_filter, List.mem_filter] at hr
      exact ⟨hr.1.1, hr.1.2, hr.2⟩
    have hs_eq : ∀ l, (surv.filter fun r => decide (key r = l)).length = sAt g rows k lbar l := by
      intro l
      rw [hsurv, List.filter_filter, List.filter_filter]
      apply filter_length_congr
      intro r hr
      have hl : k + 1 < r.ls.length := by rw [(wf_row H.wf hr).2.1]; exact hk1
      rw [getElem?_eq_some_iff_getD r.ls (k + 1) hl l]
      cases inCell g k lbar r <;> cases (yAt r k == some 0) <;> simp [key]
    have hkey : ∀ r ∈ surv, key r ∈ levels := by
      intro r hr
      have hr' := (hmem r hr).1
      have hl : k + 1 < r.ls.length := by rw [(wf_row H.wf hr').2.1]; exact hk1
      exact cover_row H.cover hr' (getD_mem r.ls (k + 1) hl)
    have h1 : sumBy (nx μ g K k) surv = sumBy (fun r => φ (key r)) surv := by
      apply sumBy_congr
      intro r hr
      obtain ⟨hr', hcell, hy0⟩ := hmem r hr
      have hl : k + 1 < r.ls.length := by rw [(wf_row H.wf hr').2.1]; exact hk1
      have hlb : r.ls.take (k + 1) = lbar := by
        simp only [inCell, Bool.and_eq_true, beq_iff_eq] at hcell
        exact hcell.2
      have htk : r.ls.take (k + 2) = lbar ++ [key r] := by
        rw [take_succ_of_lt r.ls (k + 1) hl, hlb]
      have hs_ne : sAt g rows k lbar (key r) ≠ 0 := by
        rw [← hs_eq (key r)]
        have : r ∈ surv.filter fun r' => decide (key r' = key r) := by
          rw [List.mem_filter]; exact ⟨hr, by simp⟩
        exact Nat.ne_of_gt (List.length_pos_of_mem this)
      have hpos := (hpl (key r) (hkey r hr)).resolve_left hs_ne
      have := ih (k + 1) (by omega) (lbar ++ [key r]) hpos
      simp only [nx, hk1, if_true, htk]
      exact this
    have h2 := sumBy_strata_const key levels H.nodup φ surv hkey
    have hG : G (F := F) levels g rows (fuel + 1 + 1) k lbar =
        (((dAt g rows k lbar : Nat) : F) +
          sumBy (fun l => ((sAt g rows k lbar l : Nat) : F) * φ l) levels) / ((nAt g rows k lbar : Nat) : F) := by
      simp only [G, φ]
    rw [hG, eq_div_iff hn, mul_comm, hc, h1, h2]
    congr 1
    apply sumBy_congr
    intro l _
    rw [hs_eq l]

end main2
section top
open ZV.Ice
variable {F : Type} [Field F] [CharZero F]

theorem zipWith_replicate_left {α β γ : Type} (f : α → β → γ) (a : α) (l : List β) :
    List.zipWith f (List.replicate l.length a) l = l.map (f a) := by
  induction l with
  | nil => rfl
  | cons x xs ih => simp [List.replicate_succ, ih]

theorem predAt_eq_mask (μ : List Bool → List Nat → F) (g : List Bool) (r : WRow) (k : Nat)
    (h : k < r.ys.length) :
    predAt μ g r k = mask (pseudoAt μ g r k) (μ (g.take (k + 1)) (r.ls.take (k + 1))) := by
  unfold predAt pseudoAt
  rw [List.drop_eq_getElem_cons h]
  rfl

/-- for a survival-type row the first prediction is present exactly when the first outcome is -/
theorem pred0 (μ : List Bool → List Nat → F) (g : List Bool) (r : WRow) (K : Nat) (hK : 0 < K)
    (hlen : r.ys.length = K) (hs : survType r.ys = true) :
    predAt μ g r 0 = if (yAt r 0).isSome then some (μ (g.take 1) (r.ls.take 1)) else none := by
  rw [predAt_eq_mask μ g r 0 (by omega)]
  rcases pseudoAt_cases μ g r K 0 hlen hK hs with ⟨hy, hp⟩ | ⟨hy, hp⟩ | ⟨hy, _, hp⟩ | ⟨hy, _, _, hp⟩ <;>
    rw [hp, hy] <;> simp [mask]

theorem meanPresent_map {α : Type} (f : α → Option F) (l : List α) :
    meanPresent (l.map f) =
      sumBy (fun x => val0 (f x)) l / sumBy (fun x => if (f x).isSome then (1 : F) else 0) l := by
  unfold meanPresent cntBy
  rw [sumBy_map, sumBy_ind, List.filter_map, List.length_map]
  rfl

/-- static plan, saturated fits, survival-type data, positivity along the plan:
    the iterative conditional estimate is the stratified nonparametric g-formula -/
theorem marginal_eq_npg {μ : List Bool → List Nat → F} {g : List Bool} {rows : List WRow} {K : Nat}
    {levels : List Nat} (H : Hyp μ g rows K levels) (hK : 0 < K)
    (hpos : planPositive levels g rows K = true) :
    marginal μ (List.replicate rows.length g) rows = npg levels g rows K := by
  unfold marginal npg
  rw [zipWith_replicate_left, meanPresent_map]
  obtain ⟨K', rfl⟩ : ∃ K', K = K' + 1 := ⟨K - 1, by omega⟩
  simp only [planPositive, List.all_eq_true, Bool.or_eq_true, decide_eq_true_eq] at hpos
  let at0 : WRow → Bool := fun r => (yAt r 0).isSome
  let key : WRow → Nat := fun r => r.ls.getD 0 0
  let φ : Nat → F := fun l => G levels g rows (K' + 1) 0 [l]
  have hc0 : ∀ l, ((rows.filter at0).filter fun r => decide (key r = l)).length = c0 rows l := by
    intro l
    rw [List.filter_filter]
    apply filter_length_congr
    intro r hr
    have hl : 0 < r.ls.length := by rw [(wf_row H.wf hr).2.1]; omega
    rw [getElem?_eq_some_iff_getD r.ls 0 hl l]
    simp [at0, key, Bool.and_comm]
  have hkey : ∀ r ∈ rows.filter at0, key r ∈ levels := by
    intro r hr
    have hr' := (List.mem_filter.mp hr).1
    have hl : 0 < r.ls.length := by rw [(wf_row H.wf hr').2.1]; omega
    exact cover_row H.cover hr' (getD_mem r.ls 0 hl)
  have hnum : sumBy (fun r => val0 (predAt μ g r 0)) rows = sumBy (fun r => φ (key r)) (rows.filter at0) := by
    rw [← sumBy_ite]
    apply sumBy_congr
    intro r hr
    have hlen := wf_row H.wf hr
    rw [pred0 μ g r (K' + 1) hK hlen.2.2 (H.surv r hr)]
    by_cases hy : (yAt r 0).isSome = true
    · have hl : 0 < r.ls.length := by rw [hlen.2.1]; omega
      have htk : r.ls.take 1 = [key r] := by
        have := take_succ_of_lt r.ls 0 hl
        rw [List.take_zero, List.nil_append] at this
        exact this
      have hmem : r ∈ (rows.filter at0).filter fun r' => decide (key r' = key r) := by
        rw [List.mem_filter, List.mem_filter]; exact ⟨⟨hr, hy⟩, by simp⟩
      have hc_ne : c0 rows (key r) ≠ 0 := by
        rw [← hc0 (key r)]; exact Nat.ne_of_gt (List.length_pos_of_mem hmem)
      have hkl : key r ∈ levels := hkey r (List.mem_filter.mpr ⟨hr, hy⟩)
      have hp := (hpos (key r) hkl).resolve_left hc_ne
      have := mu_eq_G H K' 0 (by omega) [key r] hp
      simp only [at0, hy, if_true, val0, htk]
      exact this
    · simp only [at0, hy, val0]
      simp
  have hden : sumBy (fun r => if (predAt μ g r 0).isSome then (1 : F) else 0) rows =
      sumBy (fun _ => (1 : F)) (rows.filter at0) := by
    rw [← sumBy_ite]
    apply sumBy_congr
    intro r hr
    have hlen := wf_row H.wf hr
    rw [pred0 μ g r (K' + 1) hK hlen.2.2 (H.surv r hr)]
    by_cases hy : (yAt r 0).isSome = true <;> simp [at0, hy]
  rw [hnum, hden, sumBy_strata_const key levels H.nodup φ _ hkey,
    sumBy_strata_const key levels H.nodup (fun _ => (1 : F)) _ hkey]
  congr 1
  · apply sumBy_congr; intro l _; rw [hc0 l]
  · apply sumBy_congr; intro l _; rw [hc0 l, mul_one]

end top
section textbook
open ZV.Ice
variable {F : Type} [Field F] [CharZero F]

theorem filter_len_split {α : Type} (p q1 q2 : α → Bool) (L : List α)
    (h : ∀ x ∈ L, p x = (q1 x || q2 x) ∧ ¬ (q1 x = true ∧ q2 x = true)) :
    (L.filter p).length = (L.filter q1).length + (L.filter q2).length := by
  induction L with
  | nil => rfl
  | cons x xs ih =>
    have hx := h x (by simp)
    have := ih (fun y hy => h y (by simp [hy]))
    simp only [List.filter_cons, hx.1]
    cases h1 : q1 x <;> cases h2 : q2 x <;> simp_all <;> omega

/-- event-free at `k` in the cell -/
def zAt (g : List Bool) (rows : List WRow) (k : Nat) (lbar : List Nat) : Nat :=
  (rows.filter fun r => inCell g k lbar r && yAt r k == some 0).length

theorem yAt_binary {rows : List WRow} (hb : nonBinary rows = false) {r : WRow} (hr : r ∈ rows) (k : Nat) :
    yAt r k = none ∨ yAt r k = some 0 ∨ yAt r k = some 1 := by
  unfold yAt
  rw [List.getD_eq_getElem?_getD]
  cases hk : r.ys[k]? with
  | none => left; rfl
  | some y =>
    have hy : y ∈ r.ys := List.mem_of_getElem? hk
    cases y with
    | none => left; rfl
    | some v =>
      right
      have : ¬ (1 < v) := by
        intro hv
        have : nonBinary rows = true := by
          simp only [nonBinary, List.any_eq_true]
          exact ⟨r, hr, some v, hy, by simpa using hv⟩
        rw [hb] at this; cases this
      have : v = 0 ∨ v = 1 := by omega
      rcases this with h | h <;> simp [h]

theorem nAt_split (g : List Bool) (rows : List WRow) (hb : nonBinary rows = false) (k : Nat) (lbar : List Nat) :
    nAt g rows k lbar = dAt g rows k lbar + zAt g rows k lbar := by
  unfold nAt dAt zAt
  apply filter_len_split
  intro r hr
  rcases yAt_binary hb hr k with h | h | h <;> simp [h]

theorem sAt_le_zAt (g : List Bool) (rows : List WRow) (k : Nat) (lbar : List Nat) (l : Nat) :
    sAt g rows k lbar l ≤ zAt g rows k lbar := by
  unfold sAt zAt
  have : (rows.filter fun r => inCell g k lbar r && yAt r k == some 0 && r.ls[k + 1]? == some l) =
      (rows.filter fun r => inCell g k lbar r && yAt r k == some 0).filter fun r => r.ls[k + 1]? == some l := by
    rw [List.filter_filter]
    apply List.filter_congr
    intro r _
    rw [Bool.and_comm]
  rw [this]
  exact List.length_filter_le _ _

/-- The count form of `G` is the textbook recursion `h + (1 − h) Σ_l f(l) G_{k+1}(l̄,l)` with the empirical hazard
    `h = d/n` and the empirical distribution `f(l) = s_l/(n − d)` of the next covariate among the event-free. -/
theorem G_textbook (levels : List Nat) (g : List Bool) (rows : List WRow) (hb : nonBinary rows = false)
    (fuel k : Nat) (lbar : List Nat) (hn : nAt g rows k lbar ≠ 0) :
    G (F := F) levels g rows (fuel + 1) k lbar =
      ((dAt g rows k lbar : Nat) : F) / ((nAt g rows k lbar : Nat) : F) +
        (1 - ((dAt g rows k lbar : Nat) : F) / ((nAt g rows k lbar : Nat) : F)) *
          sumBy (fun l => ((sAt g rows k lbar l : Nat) : F) /
              (((nAt g rows k lbar : Nat) : F) - ((dAt g rows k lbar : Nat) : F)) *
            G levels g rows fuel (k + 1) (lbar ++ [l])) levels := by
  have hn' : ((nAt g rows k lbar : Nat) : F) ≠ 0 := Nat.cast_ne_zero.mpr hn
  have hsplit := nAt_split g rows hb k lbar
  have hz : ((nAt g rows k lbar : Nat) : F) - ((dAt g rows k lbar : Nat) : F) = ((zAt g rows k lbar : Nat) : F) := by
    rw [hsplit]; push_cast; ring
  show (((dAt g rows k lbar : Nat) : F) +
      sumBy (fun l => ((sAt g rows k lbar l : Nat) : F) * G levels g rows fuel (k + 1) (lbar ++ [l])) levels)
    / ((nAt g rows k lbar : Nat) : F) = _
  rw [hz]
  by_cases h0 : zAt g rows k lbar = 0
  · have hs : ∀ l, sAt g rows k lbar l = 0 := fun l => Nat.le_zero.mp (h0 ▸ sAt_le_zAt g rows k lbar l)
    have e1 : sumBy (fun l => ((sAt g rows k lbar l : Nat) : F) * G levels g rows fuel (k + 1) (lbar ++ [l])) levels = 0 := by
      rw [sumBy_congr (g := fun _ => (0 : F)) (fun l _ => by simp [hs l]), sumBy_zero]
    have e2 : sumBy (fun l => ((sAt g rows k lbar l : Nat) : F) / ((zAt g rows k lbar : Nat) : F) *
        G levels g rows fuel (k + 1) (lbar ++ [l])) levels = 0 := by
      rw [sumBy_congr (g := fun _ => (0 : F)) (fun l _ => by simp [hs l]), sumBy_zero]
    rw [e1, e2]; ring
  · have hz' : ((zAt g rows k lbar : Nat) : F) ≠ 0 := Nat.cast_ne_zero.mpr h0
    have e : sumBy (fun l => ((sAt g rows k lbar l : Nat) : F) / ((zAt g rows k lbar : Nat) : F) *
        G levels g rows fuel (k + 1) (lbar ++ [l])) levels =
        sumBy (fun l => ((sAt g rows k lbar l : Nat) : F) * G levels g rows fuel (k + 1) (lbar ++ [l])) levels
          / ((zAt g rows k lbar : Nat) : F) := by
      rw [div_eq_mul_inv, ← sumBy_mul_right]
      apply sumBy_congr
      intro l _
      ring
    rw [e]
    have hd : ((dAt g rows k lbar : Nat) : F) = ((nAt g rows k lbar : Nat) : F) - ((zAt g rows k lbar : Nat) : F) := by
      rw [← hz]; ring
    rw [hd]
    field_simp
    ring

end textbook
end ZV.IceL
