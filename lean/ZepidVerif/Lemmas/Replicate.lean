/-
Helper lemmas for C09: a sum weighted by integer multiplicities equals the plain sum over the list with
each element repeated that many times; specialised to rows (`weighted` / `replicated`) for summands that
are linear in the frequency weight and predicates that do not read it.
-/
import ZepidVerif.Model.Replicate
import ZepidVerif.Lemmas.CellFit
namespace ZV
variable {F : Type} [Field F] {α β : Type}

/-- **core**: `Σ k·f(x)` over (x, k) pairs = `Σ f` over the list with x repeated k times -/
theorem sumBy_mult (f : α → F) (l : List (α × Nat)) :
    sumBy (fun x => (x.2 : F) * f x.1) l = sumBy f (l.flatMap fun x => List.replicate x.2 x.1) := by
  rw [sumBy_flatMap]; apply sumBy_congr; intro x _; rw [sumBy_replicate]

end ZV

namespace ZV.Std
open ZV
set_option linter.unusedSectionVars false
variable {F : Type} [Field F] {β : Type}

/-- `g` does not read the frequency weight of the row -/
def WFree (g : Row F → β) : Prop := ∀ (r : Row F) (c : F), g (r.setW c) = g r

/-- `f` is linear in the frequency weight of the row -/
def WLin (f : Row F → F) : Prop := ∀ (r : Row F) (c : F), f (r.setW c) = c * f (r.setW 1)

theorem WFree.const (b : β) : WFree (fun _ : Row F => b) := fun _ _ => rfl
theorem wfree_s {g : Nat → β} : WFree (fun r : Row F => g r.s) := fun _ _ => rfl
theorem wfree_i {g : Nat → β} : WFree (fun r : Row F => g r.i) := fun _ _ => rfl
theorem wfree_y : WFree (fun r : Row F => r.y) := fun _ _ => rfl
theorem wfree_obs : WFree (fun r : Row F => r.obs) := fun _ _ => rfl
theorem wfree_an : WFree (fun r : Row F => r.an) := fun _ _ => rfl
theorem wfree_inCell (s : Nat) (a : Bool) : WFree (inCell (F := F) s a) := fun _ _ => rfl
theorem wfree_inCellAll (s : Nat) (a : Bool) : WFree (inCellAll (F := F) s a) := fun _ _ => rfl
theorem wfree_inStratum (s : Nat) : WFree (inStratum (F := F) s) := fun _ _ => rfl
theorem wfree_tgt (t : Tgt) : WFree (t.mem (F := F)) := fun r _ => by cases t <;> rfl
theorem wfree_genTarget (g : Bool) : WFree (genTarget (F := F) g) := fun r _ => by cases g <;> rfl
theorem wfree_arm (a : Bool) : WFree (fun r : Row F => r.a == a && r.obs) := fun _ _ => rfl
theorem WFree.and {p q : Row F → Bool} (hp : WFree p) (hq : WFree q) : WFree (fun r => p r && q r) := by
  intro r c; simp only [hp r c, hq r c]

/-- weight × weight-free quantity is linear in the weight -/
theorem WLin.w_mul {g : Row F → F} (hg : WFree g) : WLin (fun r => r.w * g r) := by
  intro r c; simp only [hg r c, hg r 1]; show c * g r = c * (1 * g r); ring

theorem WLin.w : WLin (fun r : Row F => r.w) := by
  intro r c; show c = c * 1; ring

/-- weight-free factor × linear is linear -/
theorem WLin.mul_left {ω f : Row F → F} (hω : WFree ω) (hf : WLin f) : WLin (fun r => ω r * f r) := by
  intro r c; simp only [hω r c, hω r 1, hf r c]; ring

theorem WLin.ite {p : Row F → Bool} {f : Row F → F} (hp : WFree p) (hf : WLin f) :
    WLin (fun r => if p r then f r else 0) := by
  intro r c; simp only [hp r c, hp r 1, hf r c]; split <;> simp

variable (l : List (Row F × Nat))

/-- a sum of a weight-linear summand over the weighted data = over the replicated data -/
theorem sumBy_weighted_eq_replicated {f : Row F → F} (hf : WLin f) :
    sumBy f (weighted l) = sumBy f (replicated l) := by
  unfold weighted replicated
  rw [sumBy_map, sumBy_flatMap]
  apply sumBy_congr; intro x _
  rw [sumBy_replicate, hf x.1 (x.2 : F)]; simp

/-- the same for a sum restricted to the rows satisfying a weight-free predicate -/
theorem sumIf_weighted_eq_replicated {p : Row F → Bool} {f : Row F → F} (hp : WFree p) (hf : WLin f) :
    sumIf p f (weighted l) = sumIf p f (replicated l) := by
  rw [sumIf_def, sumIf_def]; exact sumBy_weighted_eq_replicated l (WLin.ite hp hf)

theorem W_weighted {p : Row F → Bool} (hp : WFree p) : W p (weighted l) = W p (replicated l) :=
  sumIf_weighted_eq_replicated l hp WLin.w

theorem WY_weighted {p : Row F → Bool} (hp : WFree p) : WY p (weighted l) = WY p (replicated l) :=
  sumIf_weighted_eq_replicated l hp (WLin.w_mul wfree_y)

theorem cellMean_weighted (s : Nat) (a : Bool) : cellMean (weighted l) s a = cellMean (replicated l) s a := by
  unfold cellMean; rw [W_weighted l (wfree_inCell s a), WY_weighted l (wfree_inCell s a)]

theorem Ntgt_weighted {tm : Row F → Bool} (htm : WFree tm) (s : Nat) :
    Ntgt tm (weighted l) s = Ntgt tm (replicated l) s :=
  W_weighted l ((wfree_inStratum s).and htm)

section pseudo
variable [LinearOrder F] [IsStrictOrderedRing F] [Transc F]

theorem wfree_y1 (Q : Row F → Bool → F) (g1 g0 : Row F → F) (hQ : WFree Q) (h1 : WFree g1) (h0 : WFree g0) :
    WFree (fun r => Gen.aipw_y1 r.a r.y (Q r true) (Q r false) (g1 r) (g0 r)) := by
  intro r c
  show Gen.aipw_y1 r.a r.y (Q (r.setW c) true) (Q (r.setW c) false) (g1 (r.setW c)) (g0 (r.setW c)) = _
  rw [hQ r c, h1 r c, h0 r c]

theorem wfree_y0 (Q : Row F → Bool → F) (g1 g0 : Row F → F) (hQ : WFree Q) (h1 : WFree g1) (h0 : WFree g0) :
    WFree (fun r => Gen.aipw_y0 r.a r.y (Q r true) (Q r false) (g1 r) (g0 r)) := by
  intro r c
  show Gen.aipw_y0 r.a r.y (Q (r.setW c) true) (Q (r.setW c) false) (g1 (r.setW c)) (g0 (r.setW c)) = _
  rw [hQ r c, h1 r c, h0 r c]

theorem wfree_pseudo (arm : Bool) (Q : Row F → Bool → F) (g1 g0 : Row F → F) (hQ : WFree Q) (h1 : WFree g1)
    (h0 : WFree g0) : WFree (aipwPseudo arm Q g1 g0) := by
  cases arm
  · exact wfree_y0 Q g1 g0 hQ h1 h0
  · exact wfree_y1 Q g1 g0 hQ h1 h0

end pseudo

end ZV.Std
