/-
`SurvivalGFormula` under the recoding `A ↦ 1 − A` of the exposure: the recoded record carries the same id, time,
outcome and completeness and the two predictions of the recoded outcome model exchanged (`h1 ↔ h0`: "exposure set to
1" in the new coding is "exposure set to 0" in the old one).  Used by `Props/C08.lean`.
-/
import ZepidVerif.Model.SurvGF
import ZepidVerif.Lemmas.Sum
namespace ZV.SurvGF
open ZV
set_option linter.unusedSectionVars false
variable {F : Type} [Field F]

/-- recode the exposure of a person-period record -/
def flipL (r : LRow F) : LRow F := { r with a := !r.a, h1 := r.h0, h0 := r.h1 }

/-- the same plan in the new coding: treat-all ↔ treat-none, the natural course stays the natural course -/
def Plan.flip : Plan → Plan
  | .all => .none | .none => .all | .natural => .natural | .custom => .custom

theorem insertRow_map (f : LRow F → LRow F) (hk : ∀ x y, keyLe (f x) (f y) = keyLe x y) (x : LRow F) (l : List (LRow F)) :
    insertRow (f x) (l.map f) = (insertRow x l).map f := by
  induction l with
  | nil => rfl
  | cons y ys ih =>
    simp only [List.map_cons, insertRow, hk]
    split
    · rfl
    · rw [ih]; rfl

theorem sortRows_map (f : LRow F → LRow F) (hk : ∀ x y, keyLe (f x) (f y) = keyLe x y) (l : List (LRow F)) :
    sortRows (l.map f) = (sortRows l).map f := by
  induction l with
  | nil => rfl
  | cons x xs ih =>
    show insertRow (f x) (sortRows (xs.map f)) = (insertRow x (sortRows xs)).map f
    rw [ih, insertRow_map f hk]

theorem prep_flip (rows : List (LRow F)) : prep (rows.map flipL) = (prep rows).map flipL := by
  unfold prep
  rw [List.filter_map, sortRows_map flipL (fun _ _ => rfl)]
  rfl

theorem hazard_flip (p : Plan) (hp : p ≠ .custom) (r : LRow F) : hazard p.flip (flipL r) = hazard p r := by
  cases p
  · rfl
  · rfl
  · show (if (!r.a) = true then r.h0 else r.h1) = if r.a = true then r.h1 else r.h0
    cases r.a <;> rfl
  · exact absurd rfl hp

theorem cumInc_flip (p : Plan) (hp : p ≠ .custom) (rows : List (LRow F)) :
    cumInc p.flip (rows.map flipL) = cumInc p rows := by
  unfold cumInc
  rw [prep_flip, List.map_map]
  congr 2
  apply List.map_congr_left
  intro r _
  show ((flipL r).id, one - hazard p.flip (flipL r)) = (r.id, one - hazard p r)
  rw [hazard_flip p hp]
  rfl

theorem marginalAt_flip (p : Plan) (hp : p ≠ .custom) (rows : List (LRow F)) (t : Nat) :
    marginalAt p.flip (rows.map flipL) t = marginalAt p rows t := by
  unfold marginalAt
  simp only [cumInc_flip p hp, prep_flip, List.zip_map_left, List.filter_map, sumBy_map, List.length_map]
  rfl

theorem times_flip (rows : List (LRow F)) : times (rows.map flipL) = times rows := by
  unfold times
  rw [prep_flip, List.foldr_map]
  rfl

theorem nArm_flip (rows : List (LRow F)) (b : Bool) (u : Nat) : nArm (rows.map flipL) (!b) u = nArm rows b u := by
  unfold nArm
  rw [prep_flip, List.filter_map, List.length_map]
  congr 1
  apply List.filter_congr
  intro r _
  show ((!r.a) == !b && r.t == u) = (r.a == b && r.t == u)
  cases r.a <;> cases b <;> rfl

theorem dArm_flip (rows : List (LRow F)) (b : Bool) (u : Nat) : dArm (rows.map flipL) (!b) u = dArm rows b u := by
  unfold dArm
  rw [prep_flip, List.filter_map, List.length_map]
  congr 1
  apply List.filter_congr
  intro r _
  show ((!r.a) == !b && r.t == u && r.y == 1) = (r.a == b && r.t == u && r.y == 1)
  cases r.a <;> cases b <;> rfl

theorem productLimit_flip (rows : List (LRow F)) (b : Bool) (t : Nat) :
    productLimit (rows.map flipL) (!b) t = productLimit rows b t := by
  unfold productLimit
  simp only [nArm_flip, dArm_flip]

end ZV.SurvGF
