/-
Observer methods in the history model (`Model/History.lean`): a method whose table row writes no specification slot,
records no fitted result and sets no register leaves the state of the object unchanged, whether the call goes
through or raises.  Used by Props/C15_Observers, Props/C16_Observers on the tables regenerated from the source.
-/
import ZepidVerif.Model.History
namespace ZV.Obs
open ZV.History

/-- a method that writes no slot, records no fitted result and sets no register -/
def observes (g : Sig) : Bool := g.writes.isNone && !g.isFit && g.sticky.isNone

/-- **observer_leaves_state** — whether the call goes through or raises, the state is the one before the call -/
theorem observer_leaves_state (C : Cls) (s : State) (o : Op) (h : observes (C.sig o.m) = true) : next C s o = s := by
  unfold observes at h
  simp only [Bool.and_eq_true, Option.isNone_iff_eq_none, Bool.not_eq_true'] at h
  obtain ⟨⟨hw, hf⟩, hs⟩ := h
  unfold next
  split
  · unfold apply
    simp only [hw, hf, hs]
    rfl
  · rfl

end ZV.Obs
