/- Bridge: the generated `Gen.gformula_marginal` (marginal-mean lines of `TimeFixedGFormula.fit`) = the model's `gformula`. -/
import ZepidVerif.Gen.Fit
import ZepidVerif.Lemmas.FitBridge
namespace ZV.Std
open ZV
set_option linter.unusedSectionVars false
variable {F : Type} [Field F] [LinearOrder F] [IsStrictOrderedRing F] [Transc F]

/-- the generated marginal mean of `TimeFixedGFormula.fit` (no row lost to `dropna`) = the model's `gformula` -/
theorem gformula_marginal_eq (hasWeights : Bool) (t : Tgt) (l : List (Row F)) (pred : Row F → F) (a : Bool)
    (hw : hasWeights = false → ∀ r ∈ l, r.w = 1) :
    Gen.gformula_marginal hasWeights t.str l pred (fun _ => true) = gformula l (fun r _ => pred r) t.mem a := by
  unfold gformula W
  cases hasWeights
  · have hw' := hw rfl
    cases t <;> simp only [Gen.gformula_marginal, Tgt.str] <;> simp <;> congr 1 <;> rw [sumIf_def] <;>
      apply sumBy_congr <;> intro r hr <;> cases ha : r.a <;> simp [ha, Tgt.mem, hw' r hr]
  · cases t <;> simp only [Gen.gformula_marginal, Tgt.str] <;> simp <;> congr 1 <;> rw [sumIf_def] <;>
      apply sumBy_congr <;> intro r hr <;> cases ha : r.a <;> simp [ha, Tgt.mem]

end ZV.Std
