/-
Helper lemma for the IPTW weight formulas generated from `iptw_calculator`
(`ZV.Gen.iptw_weight`): under a saturated treatment model every one of the six
(stabilized × standardize) weight formulas balances each stratum to its target.
(Constants and the population case: `Lemmas/IpwPop.lean`.)
-/
import ZepidVerif.Lemmas.IpwPop
namespace ZV.Std
open ZV
variable {F : Type} [Field F]

/-- the generated weight formula times the arm's weight in the stratum = constant × target weight -/
theorem iptw_weight_balance [DecidableEq F] [LT F] [LE F] [DecidableLT F] [DecidableLE F] [Transc F]
    (stab : Bool) (t : Tgt) (a : Bool) (n p Ws : F) (hn0 : n ≠ 0) (hn1 : n ≠ 1) (hp0 : p ≠ 0) (hp1 : p ≠ 1) :
    Gen.iptw_weight stab t.str a n p * (if a then p * Ws else (1 - p) * Ws)
      = iptwConst stab t a n * tgtShare t p Ws := by
  have hn1' : (1 : F) - n ≠ 0 := sub_ne_zero.mpr (Ne.symm hn1)
  have hp1' : (1 : F) - p ≠ 0 := sub_ne_zero.mpr (Ne.symm hp1)
  cases stab <;> cases t <;> cases a <;>
    simp [Gen.iptw_weight, Tgt.str, iptwConst, tgtShare] <;> field_simp

end ZV.Std
