/-
Algebra of `ZV.sumBy` over a commutative (semi)ring: linearity, exchange of two sums, and the
regrouping lemma "a sum over rows is the sum over strata of the sums within each stratum".
Helper lemmas only (no property theorem lives here).
-/
import ZepidVerif.Model.Core
import Mathlib.Algebra.Order.Field.Basic
import Mathlib.Tactic.Ring
import Mathlib.Tactic.Linarith
namespace ZV
variable {F : Type} [Field F] {α β : Type}

@[simp] theorem sumBy_nil (f : α → F) : sumBy f [] = 0 := by simp [sumBy]
@[simp] theorem sumBy_cons (f : α → F) (x : α) (l : List α) : sumBy f (x :: l) = f x + sumBy f l := rfl

theorem sumBy_append (f : α → F) (l₁ l₂ : List α) : sumBy f (l₁ ++ l₂) = sumBy f l₁ + sumBy f l₂ := by
  induction l₁ with
  | nil => simp
  | cons x l ih => simp [ih, add_assoc]

theorem sumBy_congr {f g : α → F} {l : List α} (h : ∀ x ∈ l, f x = g x) : sumBy f l = sumBy g l := by
  induction l with
  | nil => simp
  | cons x l ih =>
    simp only [sumBy_cons]
    rw [h x (List.mem_cons_self), ih (fun y hy => h y (List.mem_cons_of_mem _ hy))]

theorem sumBy_zero (l : List α) : sumBy (fun _ => (0 : F)) l = 0 := by
  induction l with
  | nil => simp
  | cons x l ih => simp [ih]

theorem sumBy_add (f g : α → F) (l : List α) : sumBy (fun x => f x + g x) l = sumBy f l + sumBy g l := by
  induction l with
  | nil => simp
  | cons x l ih => simp only [sumBy_cons, ih]; ring

theorem sumBy_sub (f g : α → F) (l : List α) : sumBy (fun x => f x - g x) l = sumBy f l - sumBy g l := by
  induction l with
  | nil => simp
  | cons x l ih => simp only [sumBy_cons, ih]; ring

theorem sumBy_mul_left (c : F) (f : α → F) (l : List α) : sumBy (fun x => c * f x) l = c * sumBy f l := by
  induction l with
  | nil => simp
  | cons x l ih => simp only [sumBy_cons, ih]; ring

theorem sumBy_mul_right (c : F) (f : α → F) (l : List α) : sumBy (fun x => f x * c) l = sumBy f l * c := by
  induction l with
  | nil => simp
  | cons x l ih => simp only [sumBy_cons, ih]; ring

theorem sumBy_comm (f : α → β → F) (l₁ : List α) (l₂ : List β) :
    sumBy (fun x => sumBy (fun y => f x y) l₂) l₁ = sumBy (fun y => sumBy (fun x => f x y) l₁) l₂ := by
  induction l₁ with
  | nil => simp [sumBy_zero]
  | cons x l ih => simp only [sumBy_cons, ih, sumBy_add]

theorem sumBy_perm {f : α → F} {l₁ l₂ : List α} (h : l₁.Perm l₂) : sumBy f l₁ = sumBy f l₂ := by
  induction h with
  | nil => rfl
  | cons x _ ih => simp [ih]
  | swap x y l => simp only [sumBy_cons]; ring
  | trans _ _ ih₁ ih₂ => exact ih₁.trans ih₂

theorem sumBy_replicate (f : α → F) (x : α) (k : Nat) : sumBy f (List.replicate k x) = (k : F) * f x := by
  induction k with
  | zero => simp
  | succ k ih => simp only [List.replicate_succ, sumBy_cons, ih]; push_cast; ring

theorem sumBy_flatMap (f : β → F) (g : α → List β) (l : List α) :
    sumBy f (l.flatMap g) = sumBy (fun x => sumBy f (g x)) l := by
  induction l with
  | nil => simp
  | cons x l ih => simp [List.flatMap_cons, sumBy_append, ih]

theorem sumBy_nonneg [LinearOrder F] [IsStrictOrderedRing F] {f : α → F} {l : List α}
    (h : ∀ x ∈ l, 0 ≤ f x) : 0 ≤ sumBy f l := by
  induction l with
  | nil => simp
  | cons x l ih =>
    simp only [sumBy_cons]
    exact add_nonneg (h x (List.mem_cons_self)) (ih (fun y hy => h y (List.mem_cons_of_mem _ hy)))

theorem sumBy_pos [LinearOrder F] [IsStrictOrderedRing F] {f : α → F} {l : List α}
    (h : ∀ x ∈ l, 0 ≤ f x) (x : α) (hx : x ∈ l) (hpos : 0 < f x) : 0 < sumBy f l := by
  induction l with
  | nil => cases hx
  | cons y l ih =>
    simp only [sumBy_cons]
    rcases List.mem_cons.mp hx with rfl | hx'
    · exact add_pos_of_pos_of_nonneg hpos (sumBy_nonneg (fun z hz => h z (List.mem_cons_of_mem _ hz)))
    · exact add_pos_of_nonneg_of_pos (h y (List.mem_cons_self))
        (ih (fun z hz => h z (List.mem_cons_of_mem _ hz)) hx')

theorem sumBy_map (f : β → F) (g : α → β) (l : List α) : sumBy f (l.map g) = sumBy (fun x => f (g x)) l := by
  induction l with
  | nil => simp
  | cons x l ih => simp [ih]

theorem sumBy_filter (f : α → F) (p : α → Bool) (l : List α) :
    sumBy f (l.filter p) = sumBy (fun x => if p x then f x else 0) l := by
  induction l with
  | nil => simp
  | cons x l ih =>
    by_cases h : p x = true
    · simp [List.filter_cons, h, ih]
    · simp [List.filter_cons, h, ih]

theorem sumBy_const_one (l : List α) : sumBy (fun _ => (1 : F)) l = (l.length : F) := by
  induction l with
  | nil => simp
  | cons x l ih => simp only [sumBy_cons, ih, List.length_cons]; push_cast; ring

/-- a one-hot sum over a duplicate-free list picks out its value -/
theorem sumBy_onehot [DecidableEq β] (S : List β) (hS : S.Nodup) (s₀ : β) (h₀ : s₀ ∈ S) (c : F) :
    sumBy (fun s => if s₀ = s then c else 0) S = c := by
  induction S with
  | nil => cases h₀
  | cons t S ih =>
    have hnd := List.nodup_cons.mp hS
    simp only [sumBy_cons]
    rcases List.mem_cons.mp h₀ with rfl | hmem
    · have : sumBy (fun s => if s₀ = s then c else (0 : F)) S = 0 := by
        refine (sumBy_congr (g := fun _ => (0 : F)) ?_).trans (sumBy_zero S)
        intro s hs
        have : s₀ ≠ s := fun e => hnd.1 (e ▸ hs)
        simp [this]
      simp [this]
    · have hne : s₀ ≠ t := fun e => hnd.1 (e ▸ hmem)
      simp [hne, ih hnd.2 hmem]

/-- **regrouping**: if every element's key lies in the duplicate-free list `S`, the sum over the
    elements is the sum over `S` of the sums over the elements with that key -/
theorem sumBy_regroup [DecidableEq β] (key : α → β) (S : List β) (hS : S.Nodup) (f : α → F) (l : List α)
    (hl : ∀ x ∈ l, key x ∈ S) :
    sumBy f l = sumBy (fun s => sumBy (fun x => if key x = s then f x else 0) l) S := by
  rw [sumBy_comm (fun s x => if key x = s then f x else 0) S l]
  apply sumBy_congr
  intro x hx
  exact (sumBy_onehot S hS (key x) (hl x hx) (f x)).symm

end ZV
