/-
Helper lemmas for C15 (and reusable elsewhere): algebra of `ZV.sumBy` over a commutative ring.
-/
import ZepidVerif.Model.Core
import ZepidVerif.Model.Snm
import Mathlib.Algebra.Order.Field.Basic
import Mathlib.Tactic.Ring
import Mathlib.Tactic.Linarith
import Mathlib.Tactic.FieldSimp
namespace ZV.L

variable {F : Type} [Field F] {α β : Type}

@[simp] theorem sumBy_nil (f : α → F) : sumBy f [] = 0 := by simp [sumBy]
@[simp] theorem sumBy_cons (f : α → F) (x : α) (xs : List α) : sumBy f (x :: xs) = f x + sumBy f xs := rfl

theorem sumBy_congr {f g : α → F} {l : List α} (h : ∀ x ∈ l, f x = g x) : sumBy f l = sumBy g l := by
  induction l with
  | nil => simp
  | cons x xs ih =>
    simp only [sumBy_cons]
    rw [h x (by simp), ih (fun y hy => h y (by simp [hy]))]

theorem sumBy_zero (l : List α) : sumBy (fun _ => (0 : F)) l = 0 := by
  induction l with
  | nil => simp
  | cons x xs ih => simp [ih]

theorem sumBy_add (f g : α → F) (l : List α) : sumBy (fun x => f x + g x) l = sumBy f l + sumBy g l := by
  induction l with
  | nil => simp
  | cons x xs ih => simp only [sumBy_cons, ih]; ring

theorem sumBy_sub (f g : α → F) (l : List α) : sumBy (fun x => f x - g x) l = sumBy f l - sumBy g l := by
  induction l with
  | nil => simp
  | cons x xs ih => simp only [sumBy_cons, ih]; ring

theorem sumBy_mul_left (c : F) (f : α → F) (l : List α) : sumBy (fun x => c * f x) l = c * sumBy f l := by
  induction l with
  | nil => simp
  | cons x xs ih => simp only [sumBy_cons, ih]; ring

theorem sumBy_mul_right (c : F) (f : α → F) (l : List α) : sumBy (fun x => f x * c) l = sumBy f l * c := by
  induction l with
  | nil => simp
  | cons x xs ih => simp only [sumBy_cons, ih]; ring

/-- exchange of two finite sums -/
theorem sumBy_comm (f : α → β → F) (l₁ : List α) (l₂ : List β) :
    sumBy (fun x => sumBy (fun y => f x y) l₂) l₁ = sumBy (fun y => sumBy (fun x => f x y) l₁) l₂ := by
  induction l₁ with
  | nil => simp [sumBy_zero]
  | cons x xs ih => simp only [sumBy_cons, ih, sumBy_add]

theorem sumBy_append (f : α → F) (l₁ l₂ : List α) : sumBy f (l₁ ++ l₂) = sumBy f l₁ + sumBy f l₂ := by
  induction l₁ with
  | nil => simp
  | cons x xs ih => simp only [List.cons_append, sumBy_cons, ih]; ring

/-- a sum over the concatenation of groups is the sum of the group sums -/
theorem sumBy_flatMap (f : α → F) (g : β → List α) (l : List β) :
    sumBy f (l.flatMap g) = sumBy (fun s => sumBy f (g s)) l := by
  induction l with
  | nil => simp
  | cons x xs ih => simp only [List.flatMap_cons, sumBy_append, sumBy_cons, ih]

/-- sums do not depend on the order of the rows -/
theorem sumBy_perm (f : α → F) {l₁ l₂ : List α} (h : l₁.Perm l₂) : sumBy f l₁ = sumBy f l₂ := by
  induction h with
  | nil => rfl
  | cons x _ ih => simp only [sumBy_cons, ih]
  | swap x y l => simp only [sumBy_cons]; ring
  | trans _ _ ih₁ ih₂ => rw [ih₁, ih₂]

/-! ### small-index expansions and the per-stratum identities behind `one_param_saturated` -/
section snm
open ZV.Snm
theorem range1 (f : Nat → F) : sumBy f (List.range 1) = f 0 := by
  simp [List.range_succ]
theorem range2 (f : Nat → F) : sumBy f (List.range 2) = f 0 + f 1 := by
  simp [List.range_succ]
theorem range3 (f : Nat → F) : sumBy f (List.range 3) = f 0 + (f 1 + f 2) := by
  simp [List.range_succ]

theorem nth0 (x : F) (l : List F) : nth (x :: l) 0 = x := rfl
theorem nth1 (x y : F) (l : List F) : nth (x :: y :: l) 1 = y := rfl
theorem nth2 (x y z : F) (l : List F) : nth (x :: y :: z :: l) 2 = z := rfl

theorem stratum_lhm (p : F) (l : List (SRow F))
    (hrow : ∀ r ∈ l, r.pi = p ∧ r.a * r.a = r.a ∧ nth r.v 0 = 1)
    (hfit : sumBy (fun r => r.w * (r.a - p)) l = 0) :
    sumBy (fun r => snmCol r 0 * dW r * snmCol r 0) l = wTot l * p * (1 - p) := by
  have h1 : sumBy (fun r => snmCol r 0 * dW r * snmCol r 0) l
      = (1 - p) * sumBy (fun r => r.w * r.a) l := by
    rw [← sumBy_mul_left]
    apply sumBy_congr; intro r hr
    obtain ⟨hpi, ha, hv⟩ := hrow r hr
    unfold snmCol dW
    rw [hv, hpi]
    have : r.a * 1 * ((r.a - p) * r.w) * (r.a * 1) = (r.a * r.a) * r.a * r.w - (r.a * r.a) * p * r.w := by ring
    rw [this, ha, ha]; ring
  have h2 : sumBy (fun r => r.w * r.a) l = p * wTot l := by
    have : sumBy (fun r => r.w * (r.a - p)) l = sumBy (fun r => r.w * r.a) l - p * wTot l := by
      unfold wTot
      rw [← sumBy_mul_left, ← sumBy_sub]
      apply sumBy_congr; intro r _; ring
    rw [this] at hfit
    exact sub_eq_zero.mp hfit
  rw [h1, h2]; ring

theorem stratum_rha (p : F) (l : List (SRow F))
    (hrow : ∀ r ∈ l, r.pi = p ∧ r.a * r.a = r.a ∧ nth r.v 0 = 1)
    (hfit : sumBy (fun r => r.w * (r.a - p)) l = 0)
    (h1 : wTrt l ≠ 0) (h0 : wUnt l ≠ 0) :
    sumBy (fun r => yCol r 0 * dW r) l = wTot l * p * (1 - p) * (yTrt l - yUnt l) := by
  -- T1, T0: weighted outcome totals among treated / untreated
  have hsplit : sumBy (fun r => yCol r 0 * dW r) l
      = (1 - p) * sumBy (fun r => r.w * r.a * r.y) l - p * sumBy (fun r => r.w * (((1 : Nat) : F) - r.a) * r.y) l := by
    rw [← sumBy_mul_left, ← sumBy_mul_left, ← sumBy_sub]
    apply sumBy_congr; intro r hr
    obtain ⟨hpi, ha, hv⟩ := hrow r hr
    unfold yCol dW
    rw [hv, hpi]
    simp only [Nat.cast_one]
    ring
  have hW1 : wTrt l = p * wTot l := by
    have : sumBy (fun r => r.w * (r.a - p)) l = wTrt l - p * wTot l := by
      unfold wTot wTrt
      rw [← sumBy_mul_left, ← sumBy_sub]
      apply sumBy_congr; intro r _; ring
    rw [this] at hfit
    exact sub_eq_zero.mp hfit
  have hW0 : wUnt l = (1 - p) * wTot l := by
    have : wUnt l = wTot l - wTrt l := by
      unfold wUnt wTot wTrt
      rw [← sumBy_sub]
      apply sumBy_congr; intro r _
      simp only [Nat.cast_one]; ring
    rw [this, hW1]; ring
  rw [hsplit]
  unfold yTrt yUnt
  have hpW : p * wTot l ≠ 0 := by rw [← hW1]; exact h1
  have hqW : (1 - p) * wTot l ≠ 0 := by rw [← hW0]; exact h0
  rw [hW1, hW0]
  have hp : p ≠ 0 := left_ne_zero_of_mul hpW
  have hq : 1 - p ≠ 0 := left_ne_zero_of_mul hqW
  have hW : wTot l ≠ 0 := right_ne_zero_of_mul hpW
  field_simp

end snm

end ZV.L
