/-
Helper lemmas for C15 (and reusable elsewhere): algebra of `ZV.sumBy` over a commutative ring.
-/
import ZepidVerif.Model.Core
import Mathlib.Algebra.Order.Field.Basic
import Mathlib.Tactic.Ring
import Mathlib.Tactic.Linarith
namespace ZV.L

variable {F : Type} [Field F] {α β : Type}

@[simp] theorem sumBy_nil (f : α → F) : sumBy f [] = 0 := by simp [sumBy]
@[simp] theorem sumBy_cons (f : α → F) (x : α) (xs : List α) : sumBy f (x :: xs) = f x + sumBy f xs := rfl

theorem sumBy_congr {f g : α → F} {l : List α} (h : ∀ x ∈ l, f x = g x) : sumBy f l = sumBy g l := by
  induction l with
  | nil => simp
  | cons x xs ih =>
    simp only [sumBy_cons]
    rw [h x (by simp), ih (fun y hy => h y (by simp [hy]))]

theorem sumBy_zero (l : List α) : sumBy (fun _ => (0 : F)) l = 0 := by
  induction l with
  | nil => simp
  | cons x xs ih => simp [ih]

theorem sumBy_add (f g : α → F) (l : List α) : sumBy (fun x => f x + g x) l = sumBy f l + sumBy g l := by
  induction l with
  | nil => simp
  | cons x xs ih => simp only [sumBy_cons, ih]; ring

theorem sumBy_sub (f g : α → F) (l : List α) : sumBy (fun x => f x - g x) l = sumBy f l - sumBy g l := by
  induction l with
  | nil => simp
  | cons x xs ih => simp only [sumBy_cons, ih]; ring

theorem sumBy_mul_left (c : F) (f : α → F) (l : List α) : sumBy (fun x => c * f x) l = c * sumBy f l := by
  induction l with
  | nil => simp
  | cons x xs ih => simp only [sumBy_cons, ih]; ring

theorem sumBy_mul_right (c : F) (f : α → F) (l : List α) : sumBy (fun x => f x * c) l = sumBy f l * c := by
  induction l with
  | nil => simp
  | cons x xs ih => simp only [sumBy_cons, ih]; ring

/-- exchange of two finite sums -/
theorem sumBy_comm (f : α → β → F) (l₁ : List α) (l₂ : List β) :
    sumBy (fun x => sumBy (fun y => f x y) l₂) l₁ = sumBy (fun y => sumBy (fun x => f x y) l₁) l₂ := by
  induction l₁ with
  | nil => simp [sumBy_zero]
  | cons x xs ih => simp only [sumBy_cons, ih, sumBy_add]

theorem sumBy_append (f : α → F) (l₁ l₂ : List α) : sumBy f (l₁ ++ l₂) = sumBy f l₁ + sumBy f l₂ := by
  induction l₁ with
  | nil => simp
  | cons x xs ih => simp only [List.cons_append, sumBy_cons, ih]; ring

/-- a sum over the concatenation of groups is the sum of the group sums -/
theorem sumBy_flatMap (f : α → F) (g : β → List α) (l : List β) :
    sumBy f (l.flatMap g) = sumBy (fun s => sumBy f (g s)) l := by
  induction l with
  | nil => simp
  | cons x xs ih => simp only [List.flatMap_cons, sumBy_append, sumBy_cons, ih]

/-- sums do not depend on the order of the rows -/
theorem sumBy_perm (f : α → F) {l₁ l₂ : List α} (h : l₁.Perm l₂) : sumBy f l₁ = sumBy f l₂ := by
  induction h with
  | nil => rfl
  | cons x _ ih => simp only [sumBy_cons, ih]
  | swap x y l => simp only [sumBy_cons]; ring
  | trans _ _ ih₁ ih₂ => rw [ih₁, ih₂]

end ZV.L
