/-
Bridge between the *generated* `ZV.Gen.aipsw_fit` (translated from `AIPSW.fit` on every run) and the
hand-written model `ZV.Std.aipsw` that the property theorems are about: on data without a
frequency-weight column (AIPSW refuses one) they compute the same risk difference and risk ratio.
-/
import ZepidVerif.Gen.Fit
import ZepidVerif.Lemmas.Generalize
namespace ZV.Std
open ZV
set_option linter.unusedSectionVars false
variable {F : Type} [Field F] [LinearOrder F] [IsStrictOrderedRing F] [Transc F]

theorem sumBy_one_length {α : Type} (l : List α) : sumBy (fun _ => (1 : F)) l = (l.length : F) := by
  induction l with
  | nil => simp
  | cons x l ih => simp only [sumBy_cons, ih, List.length_cons]; push_cast; ring

/-- one arm of the generated computation = the model's `aipsw` -/
theorem aipsw_arm_eq (generalize : Bool) (l : List (Row F)) (hw : ∀ r ∈ l, r.w = 1) (ω q : Row F → F) (a : Bool) :
    aipsw generalize l (fun r _ => q r) ω a
      = if generalize then
          sumBy (fun r => q r + (if (r.obs = true ∧ r.a = a) then ω r * (r.y - q r) else 0)) l / (l.length : F)
        else
          sumBy (fun r => (if (r.obs = true ∧ r.a = a) then ω r * (r.y - q r) else 0)
            + (1 - (if r.obs = true then (1 : F) else 0)) * q r) l
            / sumBy (fun r => 1 - (if r.obs = true then (1 : F) else 0)) l := by
  unfold aipsw W
  cases generalize
  · simp only [Bool.false_eq_true, if_false]
    congr 1
    · rw [sumIf_def, sumIf_def, ← sumBy_add]
      apply sumBy_congr; intro r hr
      cases ho : r.obs <;> cases ha : r.a <;> cases a <;> simp [genTarget, ho, ha, hw r hr]
    · rw [sumIf_def]; apply sumBy_congr; intro r hr
      cases ho : r.obs <;> simp [genTarget, ho, hw r hr]
  · simp only [if_true]
    congr 1
    · rw [sumIf_def, sumIf_def, ← sumBy_add]
      apply sumBy_congr; intro r hr
      cases ho : r.obs <;> cases ha : r.a <;> cases a <;> simp [genTarget, ho, ha, hw r hr]
    · rw [sumIf_def, ← sumBy_one_length]; apply sumBy_congr; intro r hr
      simp [genTarget, hw r hr]

/-- the generated marginal mean of `TimeFixedGFormula.fit` (no row lost to `dropna`) = the model's `gformula` -/
theorem gformula_marginal_eq (hasWeights : Bool) (t : Tgt) (l : List (Row F)) (pred : Row F → F) (a : Bool)
    (hw : hasWeights = false → ∀ r ∈ l, r.w = 1) :
    Gen.gformula_marginal hasWeights t.str l pred (fun _ => true) = gformula l (fun r _ => pred r) t.mem a := by
  unfold gformula W
  cases hasWeights
  · have hw' := hw rfl
    cases t <;> simp only [Gen.gformula_marginal, Tgt.str] <;> simp <;> congr 1 <;> rw [sumIf_def] <;>
      apply sumBy_congr <;> intro r hr <;> cases ha : r.a <;> simp [ha, Tgt.mem, hw' r hr]
  · cases t <;> simp only [Gen.gformula_marginal, Tgt.str] <;> simp <;> congr 1 <;> rw [sumIf_def] <;>
      apply sumBy_congr <;> intro r hr <;> cases ha : r.a <;> simp [ha, Tgt.mem]

/-- one arm of the generated `IPSW.fit` = the model's `ipsw` (a Hájek mean over the sampled rows of the arm) -/
theorem ipsw_arm_eq (l : List (Row F)) (ω : Row F → F) (a : Bool) :
    ipsw l ω a
      = sumBy (fun r => if (r.obs = true ∧ r.a = a) then (ω r * r.w) * r.y else 0) l
        / sumBy (fun r => if (r.obs = true ∧ r.a = a) then ω r * r.w else 0) l := by
  unfold ipsw hajek
  congr 1 <;> rw [sumIf_def] <;> apply sumBy_congr <;> intro r _ <;>
    cases ho : r.obs <;> cases ha : r.a <;> cases a <;> simp [ho, ha, mul_assoc]

/-- the point estimate of the generated `aipw_calculator` (no missing outcome) is the difference / ratio of the
    model's two pseudo-outcome means -/
theorem aipw_calc_eq (difference hasWeights : Bool) (nanv : F) (l : List (Row F)) (hobs : ∀ r ∈ l, r.obs = true)
    (hw : hasWeights = false → ∀ r ∈ l, r.w = 1) (py_a py_n pa1 pa0 : Row F → F) :
    let Q : Row F → Bool → F := fun r a => if a then py_a r else py_n r
    (Gen.aipw_calc difference hasWeights nanv l py_a py_n pa1 pa0).1
      = if difference then aipw1 l Q pa1 pa0 - aipw0 l Q pa1 pa0 else aipw1 l Q pa1 pa0 / aipw0 l Q pa1 pa0 := by
  intro Q
  have hy1 : ∀ r, Gen.aipw_y1 r.a r.y (Q r true) (Q r false) (pa1 r) (pa0 r)
      = (if r.a = true then (r.y - py_a r * (1 - pa1 r)) / pa1 r else py_a r) := by
    intro r; simp [Gen.aipw_y1, Q]
  have hy0 : ∀ r, Gen.aipw_y0 r.a r.y (Q r true) (Q r false) (pa1 r) (pa0 r)
      = (if r.a = false then (r.y - py_n r * (1 - pa0 r)) / pa0 r else py_n r) := by
    intro r; simp [Gen.aipw_y0, Q]
  unfold aipw1 aipw0 wmean
  simp only [hy1, hy0]
  cases difference <;> cases hasWeights <;>
    simp only [Gen.aipw_calc, nanmeanBy, Bool.false_eq_true, Bool.true_eq_false, if_false, if_true, reduceIte]
  · -- ratio, unweighted
    have hw' := hw rfl
    simp only [Nat.cast_one, Nat.cast_zero]
    congr 1 <;> congr 1 <;> apply sumBy_congr <;> intro r hr <;> cases ha : r.a <;> simp [ha, hobs r hr, hw' r hr]
  · -- ratio, weighted
    simp only [Nat.cast_one, Nat.cast_zero]
    congr 1 <;> congr 1 <;> apply sumBy_congr <;> intro r hr <;> cases ha : r.a <;> simp [ha, hobs r hr]
  · -- difference, unweighted
    have hw' := hw rfl
    simp only [Nat.cast_one, Nat.cast_zero]
    rw [← sub_div, ← sumBy_sub]
    congr 1 <;> apply sumBy_congr <;> intro r hr <;> cases ha : r.a <;> simp [ha, hobs r hr, hw' r hr]
  · -- difference, weighted
    simp only [Nat.cast_one, Nat.cast_zero]
    rw [← sub_div, ← sumBy_sub]
    congr 1 <;> apply sumBy_congr <;> intro r hr <;> cases ha : r.a <;> simp [ha, hobs r hr] <;> ring

end ZV.Std
