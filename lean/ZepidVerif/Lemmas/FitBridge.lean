/-
Model-side halves of the bridges between the generated fit code (`Gen/Fit.lean`) and the hand-written model:
the model's `aipsw` / `ipsw` arm written as the plain quotient of sums the generated code computes.  Nothing here
mentions a generated definition; the halves that do are one module per generated definition
(`Lemmas/GformulaBridge.lean`, `Lemmas/AipwCalcBridge.lean`, `Props/C16_Gen.lean`), so that a definition the
translator can no longer produce takes down only the theorems that are about it.
-/
import ZepidVerif.Lemmas.Generalize
namespace ZV.Std
open ZV
set_option linter.unusedSectionVars false
variable {F : Type} [Field F] [LinearOrder F] [IsStrictOrderedRing F] [Transc F]

theorem sumBy_one_length {α : Type} (l : List α) : sumBy (fun _ => (1 : F)) l = (l.length : F) := by
  induction l with
  | nil => simp
  | cons x l ih => simp only [sumBy_cons, ih, List.length_cons]; push_cast; ring

/-- one arm of the generated computation = the model's `aipsw` -/
theorem aipsw_arm_eq (generalize : Bool) (l : List (Row F)) (hw : ∀ r ∈ l, r.w = 1) (ω q : Row F → F) (a : Bool) :
    aipsw generalize l (fun r _ => q r) ω a
      = if generalize then
          sumBy (fun r => q r + (if (r.obs = true ∧ r.a = a) then ω r * (r.y - q r) else 0)) l / (l.length : F)
        else
          sumBy (fun r => (if (r.obs = true ∧ r.a = a) then ω r * (r.y - q r) else 0)
            + (1 - (if r.obs = true then (1 : F) else 0)) * q r) l
            / sumBy (fun r => 1 - (if r.obs = true then (1 : F) else 0)) l := by
  unfold aipsw W
  cases generalize
  · simp only [Bool.false_eq_true, if_false]
    congr 1
    · rw [sumIf_def, sumIf_def, ← sumBy_add]
      apply sumBy_congr; intro r hr
      cases ho : r.obs <;> cases ha : r.a <;> cases a <;> simp [genTarget, ho, ha, hw r hr]
    · rw [sumIf_def]; apply sumBy_congr; intro r hr
      cases ho : r.obs <;> simp [genTarget, ho, hw r hr]
  · simp only [if_true]
    congr 1
    · rw [sumIf_def, sumIf_def, ← sumBy_add]
      apply sumBy_congr; intro r hr
      cases ho : r.obs <;> cases ha : r.a <;> cases a <;> simp [genTarget, ho, ha, hw r hr]
    · rw [sumIf_def, ← sumBy_one_length]; apply sumBy_congr; intro r hr
      simp [genTarget, hw r hr]

/-- one arm of the generated `IPSW.fit` = the model's `ipsw` (a Hájek mean over the sampled rows of the arm) -/
theorem ipsw_arm_eq (l : List (Row F)) (ω : Row F → F) (a : Bool) :
    ipsw l ω a
      = sumBy (fun r => if (r.obs = true ∧ r.a = a) then (ω r * r.w) * r.y else 0) l
        / sumBy (fun r => if (r.obs = true ∧ r.a = a) then ω r * r.w else 0) l := by
  unfold ipsw hajek
  congr 1 <;> rw [sumIf_def] <;> apply sumBy_congr <;> intro r _ <;>
    cases ho : r.obs <;> cases ha : r.a <;> cases a <;> simp [ho, ha, mul_assoc]

end ZV.Std
