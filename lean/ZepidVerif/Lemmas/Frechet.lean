/-
Helper lemmas for C19: counting over lists of potential-outcome records / observed pairs, and the
field inequality behind the no-assumption bounds.
-/
import ZepidVerif.Model.Potential
import ZepidVerif.Model.FrechetM
import Mathlib.Algebra.Order.Field.Basic
import Mathlib.Tactic.FieldSimp
import Mathlib.Tactic.Ring
import Mathlib.Tactic.Linarith
import Mathlib.Tactic.Positivity
set_option linter.unusedSectionVars false
set_option linter.unusedVariables false
set_option linter.unusedSimpArgs false
set_option linter.unusedTactic false
set_option linter.unreachableTactic false
namespace ZV.L19
open ZV.Gen ZV.Measures ZV.Potential

/-! ### Nat-level counting -/

/-- From a full data set to the counts the code sees: the sums of the two potential outcomes split
    into an observed part (consistency) and a free part, and the free parts are bounded by the sizes
    of the groups in which they are unobserved. -/
theorem completion_counts (po : List PO) :
    cnt (·.y1) po = cnt (fun o => o.1 && o.2) (po.map PO.obs) + cnt (fun p => !p.a && p.y1) po ∧
    cnt (·.y0) po = cnt (fun o => !o.1 && o.2) (po.map PO.obs) + cnt (fun p => p.a && p.y0) po ∧
    cnt (fun p => !p.a && p.y1) po + (cnt (fun o => o.1 && o.2) (po.map PO.obs) +
      cnt (fun o => o.1 && !o.2) (po.map PO.obs)) ≤ po.length ∧
    cnt (fun p => p.a && p.y0) po ≤ cnt (fun o => o.1 && o.2) (po.map PO.obs) +
      cnt (fun o => o.1 && !o.2) (po.map PO.obs) := by
  induction po with
  | nil => simp [cnt]
  | cons p ps ih =>
    obtain ⟨h1, h2, h3, h4⟩ := ih
    simp only [cnt] at h1 h2 h3 h4 ⊢
    obtain ⟨a, y1, y0⟩ := p
    cases a <;> cases y1 <;> cases y0 <;>
      simp [PO.obs] <;> omega

theorem cnt_map {α β : Type} (f : α → β) (p : β → Bool) (l : List α) :
    cnt p (l.map f) = cnt (fun x => p (f x)) l := by
  unfold cnt
  induction l with
  | nil => rfl
  | cons x xs ih => simp only [List.map_cons, List.filter_cons]; split <;> simp [ih]

/-! ### the two extreme completions -/

theorem complLower_isCompletion (obs : List (Bool × Bool)) : IsCompletion (complLower obs) obs := by
  unfold IsCompletion complLower
  induction obs with
  | nil => rfl
  | cons o os ih => obtain ⟨a, y⟩ := o; cases a <;> simp_all [PO.obs]

theorem complUpper_isCompletion (obs : List (Bool × Bool)) : IsCompletion (complUpper obs) obs := by
  unfold IsCompletion complUpper
  induction obs with
  | nil => rfl
  | cons o os ih => obtain ⟨a, y⟩ := o; cases a <;> simp_all [PO.obs]

/-- free parts of the two extreme completions -/
theorem compl_free (obs : List (Bool × Bool)) :
    cnt (fun p => !p.a && p.y1) (complLower obs) = 0 ∧
    cnt (fun p => p.a && p.y0) (complLower obs) =
      cnt (fun o => o.1 && o.2) obs + cnt (fun o => o.1 && !o.2) obs ∧
    cnt (fun p => !p.a && p.y1) (complUpper obs) + (cnt (fun o => o.1 && o.2) obs +
      cnt (fun o => o.1 && !o.2) obs) = obs.length ∧
    cnt (fun p => p.a && p.y0) (complUpper obs) = 0 := by
  unfold complLower complUpper cnt
  induction obs with
  | nil => simp
  | cons o os ih =>
    obtain ⟨h1, h2, h3, h4⟩ := ih
    obtain ⟨a, y⟩ := o
    cases a <;> cases y <;> simp_all <;> omega

variable {F : Type}

/-- the observed pairs carry exactly the four numbers `RiskDifference.fit` computes for level `i` -/
theorem observed_counts (rows : List (MRow F)) (i : Nat) :
    cntED rows i true = cnt (fun o => o.1 && o.2) (observed rows i) ∧
    cntED rows i false = cnt (fun o => o.1 && !o.2) (observed rows i) ∧
    (rows.filter fun r => r.e.isSome && r.e != some i && r.d == some true).length =
      cnt (fun o => !o.1 && o.2) (observed rows i) ∧
    (complete rows).length = (observed rows i).length := by
  unfold observed
  refine ⟨?_, ?_, ?_, by simp⟩ <;>
  · rw [cnt_map]
    simp only [cnt, cntED, complete, List.filter_filter]
    congr 1
    apply List.filter_congr
    intro r _
    obtain ⟨e, d, t⟩ := r
    rcases e with _ | e <;> rcases d with _ | d <;> simp <;> grind

/-- the index level's rows are among the rows with exposure and outcome observed -/
theorem level_le_complete (rows : List (MRow F)) (i : Nat) :
    cntED rows i true + cntED rows i false ≤ (complete rows).length := by
  obtain ⟨ra, rb, -, rn⟩ := observed_counts rows i
  obtain ⟨-, -, h3, -⟩ := completion_counts (complLower (observed rows i))
  rw [complLower_isCompletion] at h3
  have : (complLower (observed rows i)).length = (observed rows i).length := by simp [complLower]
  omega

/-! ### the field inequality -/
section
variable [Field F] [LinearOrder F] [IsStrictOrderedRing F]

/- proofs by `field_simp; ring` only, so an algebraically equivalent rewrite of the two source lines
   (e.g. `a/n` for `ri*((a+b)/n)`) leaves every theorem intact, while any change of value breaks them -/
theorem fr_lower_closed (a b yo n : F) (hab : a + b ≠ 0) (hn : n ≠ 0) :
    fr_lower (a / (a + b)) a b yo n = (a - yo - (a + b)) / n := by
  unfold fr_lower; (try simp only [Nat.cast_one, Nat.cast_ofNat, Nat.cast_zero]); field_simp <;> ring

theorem fr_upper_closed (a b yo n : F) (hab : a + b ≠ 0) (hn : n ≠ 0) :
    fr_upper (a / (a + b)) a b yo n = (a + (n - (a + b)) - yo) / n := by
  unfold fr_upper; (try simp only [Nat.cast_one, Nat.cast_ofNat, Nat.cast_zero]); field_simp <;> ring

/-- With `u` free events among the `n - (a+b)` units outside the index level and `v` free events among
    the `a+b` units inside it, the causal risk difference `((a+u) - (yo+v))/n` lies between the bounds. -/
theorem bounds_core (a b yo n u v : F) (hab : 0 < a + b) (hn : 0 < n)
    (hu0 : 0 ≤ u) (hu : u + (a + b) ≤ n) (hv0 : 0 ≤ v) (hv : v ≤ a + b) :
    fr_lower (a / (a + b)) a b yo n ≤ (a + u) / n - (yo + v) / n ∧
    (a + u) / n - (yo + v) / n ≤ fr_upper (a / (a + b)) a b yo n := by
  rw [fr_lower_closed a b yo n hab.ne' hn.ne', fr_upper_closed a b yo n hab.ne' hn.ne', ← sub_div]
  constructor
  · apply div_le_div_of_nonneg_right _ hn.le; linarith
  · apply div_le_div_of_nonneg_right _ hn.le; linarith

/-- the crude risk difference is between the bounds when the exposure is binary (`yo = c`, `n = a+b+c+d`) -/
theorem contains_core (a b c d : F) (ha : 0 ≤ a) (hb : 0 ≤ b) (hc : 0 ≤ c) (hd : 0 ≤ d)
    (hab : 0 < a + b) (hcd : 0 < c + d) :
    fr_lower (a / (a + b)) a b c (a + b + c + d) ≤ a / (a + b) - c / (c + d) ∧
    a / (a + b) - c / (c + d) ≤ fr_upper (a / (a + b)) a b c (a + b + c + d) := by
  have hn : 0 < a + b + c + d := by linarith
  rw [fr_lower_closed a b c _ hab.ne' hn.ne', fr_upper_closed a b c _ hab.ne' hn.ne']
  have h1 : 0 ≤ a / (a + b) := by positivity
  have h1' : a / (a + b) ≤ 1 := by rw [div_le_one hab]; linarith
  have h0 : 0 ≤ c / (c + d) := by positivity
  have h0' : c / (c + d) ≤ 1 := by rw [div_le_one hcd]; linarith
  have ea : a = a / (a + b) * (a + b) := by field_simp
  have ec : c = c / (c + d) * (c + d) := by field_simp
  constructor
  · rw [div_le_iff₀ hn]
    nlinarith [mul_nonneg h1 hcd.le, mul_nonneg h0 hab.le, mul_nonneg (sub_nonneg.mpr h1') hcd.le,
      mul_nonneg (sub_nonneg.mpr h0') hab.le]
  · rw [le_div_iff₀ hn]
    nlinarith [mul_nonneg h1 hcd.le, mul_nonneg h0 hab.le, mul_nonneg (sub_nonneg.mpr h1') hcd.le,
      mul_nonneg (sub_nonneg.mpr h0') hab.le]

end
end ZV.L19
