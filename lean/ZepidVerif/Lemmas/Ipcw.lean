/-
Helper lemmas for the IPCW model (`Model/Ipcw.lean`): the stable insertion sort returns a sorted
permutation, `groupby(id).cumprod()` in closed form, and the look-ahead-by-one uncensored indicator on
id-sorted data.
-/
import ZepidVerif.Model.Ipcw
import Mathlib.Algebra.Order.Field.Basic
import Mathlib.Algebra.BigOperators.Group.List.Basic
import Mathlib.Data.List.Perm.Basic
import Mathlib.Tactic.Ring
import Mathlib.Tactic.Linarith
set_option linter.unusedSectionVars false
namespace ZV.Ipcw
variable {F : Type} [Field F] [LinearOrder F] [IsStrictOrderedRing F] {α : Type}

theorem keyLt_iff (a b : Nat × F) : keyLt a b = true ↔ a.1 < b.1 ∨ (a.1 = b.1 ∧ a.2 < b.2) := by
  simp [keyLt]

theorem keyLt_false_iff (a b : Nat × F) : keyLt a b = false ↔ b.1 < a.1 ∨ (a.1 = b.1 ∧ b.2 ≤ a.2) := by
  rw [← Bool.not_eq_true, keyLt_iff]
  constructor
  · intro h
    rcases Nat.lt_trichotomy a.1 b.1 with h1 | h1 | h1
    · exact absurd (Or.inl h1) h
    · right; refine ⟨h1, ?_⟩; by_contra hc; exact h (Or.inr ⟨h1, not_le.mp hc⟩)
    · left; exact h1
  · rintro (h | ⟨h1, h2⟩) (h' | ⟨h1', h2'⟩)
    · omega
    · omega
    · omega
    · exact absurd h2' (not_lt.mpr h2)

/-- `a` comes no later than `b` in (id, time) order -/
def KeyLe (key : α → Nat × F) (a b : α) : Prop := keyLt (key b) (key a) = false

theorem KeyLe.trans {key : α → Nat × F} {a b c : α} (h1 : KeyLe key a b) (h2 : KeyLe key b c) : KeyLe key a c := by
  unfold KeyLe at *
  rw [keyLt_false_iff] at *
  rcases h1 with h1 | ⟨e1, l1⟩ <;> rcases h2 with h2 | ⟨e2, l2⟩
  · left; omega
  · left; omega
  · left; omega
  · right; exact ⟨by omega, le_trans l1 l2⟩

theorem KeyLe.of_lt {key : α → Nat × F} {a b : α} (h : keyLt (key a) (key b) = true) : KeyLe key a b := by
  unfold KeyLe
  rw [keyLt_false_iff]; rw [keyLt_iff] at h
  rcases h with h | ⟨e, l⟩
  · left; exact h
  · right; exact ⟨e.symm, l.le⟩

theorem insertBy_perm (key : α → Nat × F) (x : α) (l : List α) : (insertBy key x l).Perm (x :: l) := by
  induction l with
  | nil => exact List.Perm.refl _
  | cons y ys ih =>
    unfold insertBy
    split_ifs
    · exact (List.Perm.cons y ih).trans (List.Perm.swap x y ys)
    · exact List.Perm.refl _

theorem sortBy_perm (key : α → Nat × F) (l : List α) : (sortBy key l).Perm l := by
  induction l with
  | nil => exact List.Perm.refl _
  | cons x xs ih => exact (insertBy_perm key x _).trans (List.Perm.cons x ih)

theorem insertBy_sorted (key : α → Nat × F) (x : α) (l : List α) (h : l.Pairwise (KeyLe key)) :
    (insertBy key x l).Pairwise (KeyLe key) := by
  induction l with
  | nil => simp [insertBy]
  | cons y ys ih =>
    have hp := List.pairwise_cons.mp h
    unfold insertBy
    split_ifs with hlt
    · refine List.pairwise_cons.mpr ⟨?_, ih hp.2⟩
      intro z hz
      rcases List.mem_cons.mp ((insertBy_perm key x ys).mem_iff.mp hz) with rfl | hz'
      · exact KeyLe.of_lt hlt
      · exact hp.1 z hz'
    · have hxy : KeyLe key x y := by simpa [KeyLe] using hlt
      refine List.pairwise_cons.mpr ⟨?_, h⟩
      intro z hz
      rcases List.mem_cons.mp hz with rfl | hz'
      · exact hxy
      · exact hxy.trans (hp.1 z hz')

theorem sortBy_sorted (key : α → Nat × F) (l : List α) : (sortBy key l).Pairwise (KeyLe key) := by
  induction l with
  | nil => simp [sortBy]
  | cons x xs ih => exact insertBy_sorted key x _ ih

/-- distinct keys: weakly sorted is strictly sorted -/
theorem sortBy_strict (key : α → Nat × F) (l : List α) (hd : l.Pairwise (fun a b => key a ≠ key b)) :
    (sortBy key l).Pairwise (fun a b => keyLt (key a) (key b) = true) := by
  have h1 := sortBy_sorted key l
  have h2 : (sortBy key l).Pairwise (fun a b => key a ≠ key b) :=
    ((sortBy_perm key l).pairwise_iff (fun {a b} (h : key a ≠ key b) => Ne.symm h)).mpr hd
  refine (h1.and h2).imp ?_
  rintro a b ⟨hle, hne⟩
  unfold KeyLe at hle
  rw [keyLt_false_iff] at hle
  rw [keyLt_iff]
  rcases hle with h | ⟨e, l⟩
  · left; exact h
  · right; refine ⟨e.symm, lt_of_le_of_ne l ?_⟩
    intro e2; exact hne (Prod.ext e.symm e2)

theorem eqF_iff (a b : F) : eqF a b = true ↔ a = b := by
  simp only [eqF, Bool.and_eq_true, Bool.not_eq_true', decide_eq_false_iff_not, not_lt]
  exact ⟨fun h => le_antisymm h.2 h.1, fun h => ⟨h.ge, h.le⟩⟩

/-! ### cumulative product by group -/

/-- product of `val` over the elements of `l` whose key is `g` -/
def grpProd (key : α → Nat) (val : α → F) (g : Nat) (l : List α) : F :=
  ((l.filter fun x => key x == g).map val).prod

theorem cumprodBy_length (key : α → Nat) (val : α → F) (st : Nat → F) (l : List α) :
    (cumprodBy key val st l).length = l.length := by
  induction l generalizing st with
  | nil => rfl
  | cons x xs ih => simp [cumprodBy, ih]

theorem cumprodBy_getElem? (key : α → Nat) (val : α → F) (st : Nat → F) (l : List α) (j : Nat) (hj : j < l.length) :
    (cumprodBy key val st l)[j]? = some (st (key l[j]) * grpProd key val (key l[j]) (l.take (j + 1))) := by
  induction l generalizing st j with
  | nil => simp at hj
  | cons x xs ih =>
    cases j with
    | zero => simp [cumprodBy, grpProd]
    | succ j =>
      have hj' : j < xs.length := by simpa using hj
      simp only [cumprodBy, List.getElem?_cons_succ, List.getElem_cons_succ, List.take_succ_cons]
      rw [ih _ j hj']
      unfold grpProd
      by_cases hk : key x = key xs[j]
      · have h1 : (key xs[j] == key x) = true := by simp [hk]
        simp only [h1, if_true]
        rw [List.filter_cons_of_pos (by simp [hk]), List.map_cons, List.prod_cons, hk]; ring_nf
      · have h1 : (key xs[j] == key x) = false := by simp [Ne.symm hk]
        rw [List.filter_cons_of_neg (by simp [hk])]
        simp [h1]

theorem prod_map_div (f g : α → F) (l : List α) :
    (l.map f).prod / (l.map g).prod = (l.map fun x => f x / g x).prod := by
  induction l with
  | nil => simp
  | cons x xs ih => simp only [List.map_cons, List.prod_cons, ← ih]; rw [mul_div_mul_comm]

/-! ### uncensored indicator -/

/-- no later record of the same subject -/
def lastOf : List (Rec F) → List Bool
  | [] => []
  | r :: rs => rs.all (fun r' => r'.id != r.id) :: lastOf rs

theorem lastOf_getElem? (l : List (Rec F)) (j : Nat) (hj : j < l.length) :
    (lastOf l)[j]? = some ((l.drop (j + 1)).all fun r' => r'.id != l[j].id) := by
  induction l generalizing j with
  | nil => simp at hj
  | cons r rs ih =>
    cases j with
    | zero => simp [lastOf]
    | succ j => simp only [lastOf, List.getElem?_cons_succ, List.getElem_cons_succ, List.drop_succ_cons]
                exact ih j (by simpa using hj)

theorem uncens_eq (m : F) (l : List (Rec F)) (hs : l.Pairwise (fun a b => a.id ≤ b.id)) :
    uncens m l = List.zipWith (fun r last => !(last && !r.event && !(decide (r.time = m)))) l (lastOf l) := by
  induction l with
  | nil => rfl
  | cons r rs ih =>
    have hp := List.pairwise_cons.mp hs
    have he : eqF r.time m = decide (r.time = m) := by
      rw [Bool.eq_iff_iff, eqF_iff]; simp
    cases rs with
    | nil => simp [uncens, lastOf, he, Bool.or_comm]
    | cons r' rest =>
      have ih' := ih hp.2
      simp only [uncens, lastOf, List.zipWith_cons_cons] at ih' ⊢
      rw [ih']
      congr 1
      have hlast : (r.id != r'.id) = (r' :: rest).all (fun x => x.id != r.id) := by
        by_cases e : r.id = r'.id
        · simp [e]
        · have hlt : r.id < r'.id := lt_of_le_of_ne (hp.1 r' List.mem_cons_self) e
          have hp2 := List.pairwise_cons.mp hp.2
          have : (r' :: rest).all (fun x => x.id != r.id) = true := by
            rw [List.all_eq_true]
            intro x hx
            have : r.id < x.id := by
              rcases List.mem_cons.mp hx with rfl | hx'
              · exact hlt
              · exact lt_of_lt_of_le hlt (hp2.1 x hx')
            simp; omega
          rw [this]; simp [e]
      rw [hlast, he]
      cases (r' :: rest).all (fun x => x.id != r.id) <;> cases r.event <;> cases decide (r.time = m) <;> rfl

theorem maxTime_fold (rs : List (Rec F)) (init : F) :
    init ≤ rs.foldl (fun m x => if m < x.time then x.time else m) init ∧
    (∀ x ∈ rs, x.time ≤ rs.foldl (fun m x => if m < x.time then x.time else m) init) ∧
    (rs.foldl (fun m x => if m < x.time then x.time else m) init = init ∨
      ∃ x ∈ rs, x.time = rs.foldl (fun m x => if m < x.time then x.time else m) init) := by
  induction rs generalizing init with
  | nil => simp
  | cons x xs ih =>
    simp only [List.foldl_cons]
    by_cases h : init < x.time
    · simp only [h, if_true]
      obtain ⟨h1, h2, h3⟩ := ih x.time
      refine ⟨h.le.trans h1, ?_, ?_⟩
      · intro y hy
        rcases List.mem_cons.mp hy with rfl | hy'
        · exact h1
        · exact h2 y hy'
      · rcases h3 with h3 | ⟨y, hy, e⟩
        · right; exact ⟨x, List.mem_cons_self, h3.symm⟩
        · right; exact ⟨y, List.mem_cons_of_mem _ hy, e⟩
    · simp only [h, if_false]
      obtain ⟨h1, h2, h3⟩ := ih init
      refine ⟨h1, ?_, ?_⟩
      · intro y hy
        rcases List.mem_cons.mp hy with rfl | hy'
        · exact (not_lt.mp h).trans h1
        · exact h2 y hy'
      · rcases h3 with h3 | ⟨y, hy, e⟩
        · left; exact h3
        · right; exact ⟨y, List.mem_cons_of_mem _ hy, e⟩

theorem maxTime_spec (l : List (Rec F)) (m : F) (h : maxTime l = some m) :
    (∀ r ∈ l, r.time ≤ m) ∧ ∃ r ∈ l, r.time = m := by
  cases l with
  | nil => simp [maxTime] at h
  | cons r rs =>
    simp only [maxTime, Option.some.injEq] at h
    obtain ⟨h1, h2, h3⟩ := maxTime_fold rs r.time
    rw [h] at h1 h2 h3
    refine ⟨?_, ?_⟩
    · intro x hx
      rcases List.mem_cons.mp hx with rfl | hx'
      · exact h1
      · exact h2 x hx'
    · rcases h3 with h3 | ⟨y, hy, e⟩
      · exact ⟨r, List.mem_cons_self, h3.symm⟩
      · exact ⟨y, List.mem_cons_of_mem _ hy, e⟩

/-- the indicator computed by looking one row ahead, on an id-sorted frame -/
theorem uncens_getElem? (m : F) (rows : List (Rec F)) (hs : rows.Pairwise (fun a b => a.id ≤ b.id))
    (j : Nat) (hj : j < rows.length) :
    (uncens m rows)[j]? = some (!(((rows.drop (j + 1)).all fun r' => r'.id != rows[j].id) && !rows[j].event &&
        !decide (rows[j].time = m))) := by
  rw [uncens_eq m rows hs, List.getElem?_zipWith, lastOf_getElem? rows j hj, List.getElem?_eq_getElem hj]

theorem expandOne_id (x : Flat F) : ∀ e ∈ expandOne x, e.r.id = x.id := by
  intro e he
  unfold expandOne at he
  simp only [List.mem_map] at he
  obtain ⟨t, _, rfl⟩ := he
  rfl


end ZV.Ipcw
