/-
Helper lemmas for C09 (`survival_replicate_rows`): SurvivalGFormula with a frequency weight on every person-period
row.  For one individual whose weights never rise, summing over the physical copies `j < K` the value of copy `j` at
time `t` gives `k_t ·` (the individual's value at `t`).
-/
import ZepidVerif.Model.Replicate
import ZepidVerif.Lemmas.Sum
import Mathlib.Tactic.Ring
import Mathlib.Tactic.Linarith
namespace ZV.Std
open ZV
set_option linter.unusedSectionVars false
set_option linter.unusedVariables false
variable {F : Type} [Field F]

/-- the cumulative risk at time value `t` of a list of (time, hazard) rows, survival `s` before the first row -/
def riskFrom (s : F) (l : List (Nat × F)) (t : Nat) : Option F :=
  ((cumRisk s l).find? (fun x => x.1 == t)).map (·.2)

theorem Person.riskAt_eq (p : Person F) (t : Nat) : p.riskAt t = riskFrom (1 : F) p.h t := by
  unfold Person.riskAt riskFrom; simp

/-- value of an optional risk under `f` (`0` when the copy has no row at that time) -/
def optVal (f : F → F) : Option F → F
  | some r => f r
  | none => 0

theorem sumBy_range_lt (c : F) (k K : Nat) :
    sumBy (fun j => if j < k then c else 0) (List.range K) = ((min k K : Nat) : F) * c := by
  induction K with
  | zero => simp
  | succ K ih =>
    rw [List.range_succ, sumBy_append, ih]
    simp only [sumBy_cons, sumBy_nil, add_zero]
    by_cases h : K < k
    · have e1 : min k K = K := by omega
      have e2 : min k (K + 1) = K + 1 := by omega
      rw [if_pos h, e1, e2]; push_cast; ring
    · have e1 : min k K = k := by omega
      have e2 : min k (K + 1) = k := by omega
      rw [if_neg h, e1, e2]; ring

theorem copyRows_nil_of_le (j : Nat) (p : List (Nat × F × Nat)) (h : p.all (fun y => decide (y.2.2 ≤ j)) = true) :
    copyRows j p = [] := by
  unfold copyRows
  rw [List.map_eq_nil_iff, List.filter_eq_nil_iff]
  intro x hx
  have := (List.all_eq_true.mp h) x hx
  simp only [decide_eq_true_eq] at this ⊢
  omega

theorem all_le_trans (p : List (Nat × F × Nat)) (k j : Nat) (hkj : k ≤ j)
    (h : p.all (fun y => decide (y.2.2 ≤ k)) = true) : p.all (fun y => decide (y.2.2 ≤ j)) = true := by
  rw [List.all_eq_true] at h ⊢
  intro x hx
  have := h x hx
  simp only [decide_eq_true_eq] at this ⊢
  omega

theorem maxW_le_of_all (p : List (Nat × F × Nat)) (k : Nat) (h : p.all (fun y => decide (y.2.2 ≤ k)) = true) :
    maxW p ≤ k := by
  induction p with
  | nil => simp [maxW]
  | cons x rest ih =>
    simp only [List.all_cons, Bool.and_eq_true, decide_eq_true_eq] at h
    simp only [maxW]
    have := ih h.2
    omega

/-- **one individual**: the copies `j < K` (any `K` not below the largest weight) together contribute at time `t`
    exactly `k_t · f(risk_t)`, the individual's own weighted term -/
theorem copies_sum (f : F → F) (t : Nat) (p : List (Nat × F × Nat)) :
    ∀ (s : F) (K : Nat), nonIncreasing p = true → maxW p ≤ K →
      sumBy (fun j => optVal f (riskFrom s (copyRows j p) t)) (List.range K) = rowAcc f s p t := by
  induction p with
  | nil =>
    intro s K _ _
    simp [copyRows, riskFrom, cumRisk, optVal, rowAcc, sumBy_zero]
  | cons x rest ih =>
    intro s K hn hK
    obtain ⟨u, h, k⟩ := x
    simp only [nonIncreasing, Bool.and_eq_true] at hn
    obtain ⟨hall, hrest⟩ := hn
    simp only [maxW] at hK
    have hk : k ≤ K := by omega
    have hK' : maxW rest ≤ K := by omega
    -- the copy of the longer list
    have hcopy : ∀ j, copyRows j ((u, h, k) :: rest) =
        if j < k then (u, h) :: copyRows j rest else [] := by
      intro j
      by_cases hj : j < k
      · simp [copyRows, hj]
      · rw [if_neg hj]
        apply copyRows_nil_of_le
        simp only [List.all_cons, Bool.and_eq_true, decide_eq_true_eq]
        exact ⟨by omega, all_le_trans rest k j (by omega) hall⟩
    by_cases hut : (u == t) = true
    · -- the row at time t: copies j < k have it (first match), the others have nothing
      have : ∀ j ∈ List.range K, optVal f (riskFrom s (copyRows j ((u, h, k) :: rest)) t) =
          if j < k then f (1 - s * (1 - h)) else 0 := by
        intro j _
        rw [hcopy j]
        by_cases hj : j < k
        · simp [hj, riskFrom, cumRisk, hut, optVal]
        · simp [hj, riskFrom, cumRisk, optVal]
      rw [sumBy_congr this, sumBy_range_lt]
      have e : min k K = k := by omega
      simp [rowAcc, hut, e]
    · -- another time: look in the rest (a copy without this row has no later row either)
      have : ∀ j ∈ List.range K, optVal f (riskFrom s (copyRows j ((u, h, k) :: rest)) t) =
          optVal f (riskFrom (s * (1 - h)) (copyRows j rest) t) := by
        intro j _
        rw [hcopy j]
        by_cases hj : j < k
        · simp [hj, riskFrom, cumRisk, hut]
        · have hnil : copyRows j rest = [] := copyRows_nil_of_le j rest (all_le_trans rest k j (by omega) hall)
          simp [hj, hnil, riskFrom, cumRisk]
      rw [sumBy_congr this, ih (s * (1 - h)) K hrest hK']
      simp [rowAcc, hut]

end ZV.Std
