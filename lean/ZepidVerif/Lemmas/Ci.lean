/-
Helper lemmas and predicates for C06: non-negativity of `sumBy`, insertion sort facts behind `np.median`,
means / medians of constant lists, the hypotheses on `norm.ppf`.
-/
import ZepidVerif.Model.Ci
import ZepidVerif.Lemmas.Snm
import Mathlib.Algebra.Order.Field.Basic
import Mathlib.Tactic.Ring
import Mathlib.Tactic.Linarith
import Mathlib.Tactic.Positivity
import Mathlib.Tactic.FieldSimp
set_option linter.unusedSectionVars false
namespace ZV.L
open ZV.Ci

variable {F : Type} [Field F] [LinearOrder F] [IsStrictOrderedRing F]

/-- what is assumed of `scipy.stats.norm.ppf` (measured by gate H): strictly increasing on (0,1), median 0 -/
structure PpfOk (ppf : F → F) : Prop where
  mono : ∀ x y, 0 < x → x < y → y < 1 → ppf x < ppf y
  half : ppf (1 / 2) = 0

/-- `Results` carries limits `point ∓ z*se` -/
def IsLinCI (r : Results F) (z : F) : Prop := r.lower = r.point - z * r.se ∧ r.upper = r.point + z * r.se

/-- `Results` carries limits `exp(log point ∓ z*se)` -/
def IsLogCI [Transc F] (r : Results F) (z : F) : Prop :=
  r.lower = Transc.exp (Transc.log r.point - z * r.se) ∧ r.upper = Transc.exp (Transc.log r.point + z * r.se)

theorem zOf_eq (ppf : F → F) (α : F) : zOf ppf α = ppf (1 - α / 2) := by
  simp only [zOf, Nat.cast_one, Nat.cast_ofNat]

theorem sumBy_nonneg {α : Type} (f : α → F) (l : List α) (h : ∀ x ∈ l, 0 ≤ f x) : 0 ≤ sumBy f l := by
  induction l with
  | nil => simp
  | cons x xs ih =>
    simp only [sumBy_cons]
    have := h x (by simp)
    have := ih (fun y hy => h y (by simp [hy]))
    linarith

theorem mem_insertSorted (x y : F) (l : List F) : y ∈ insertSorted x l ↔ y = x ∨ y ∈ l := by
  induction l with
  | nil => simp [insertSorted]
  | cons z zs ih =>
    unfold insertSorted
    split_ifs
    · simp
    · simp only [List.mem_cons, ih]; tauto

theorem mem_sortL (y : F) (l : List F) : y ∈ sortL l ↔ y ∈ l := by
  induction l with
  | nil => simp [sortL]
  | cons x xs ih =>
    have : sortL (x :: xs) = insertSorted x (sortL xs) := rfl
    rw [this, mem_insertSorted, ih]; simp

theorem length_insertSorted (x : F) (l : List F) : (insertSorted x l).length = l.length + 1 := by
  induction l with
  | nil => simp [insertSorted]
  | cons z zs ih =>
    unfold insertSorted
    split_ifs
    · simp
    · simp [ih]

theorem length_sortL (l : List F) : (sortL l).length = l.length := by
  induction l with
  | nil => simp [sortL]
  | cons x xs ih =>
    have : sortL (x :: xs) = insertSorted x (sortL xs) := rfl
    rw [this, length_insertSorted, ih]; simp

theorem getD0_mem (l : List F) (k : Nat) (h : k < l.length) : getD0 l k ∈ l := by
  unfold getD0
  rw [← List.getElem_eq_getD (h := h)]
  exact List.getElem_mem h

/-- the median of non-negative numbers is non-negative -/
theorem medianL_nonneg (l : List F) (hl : l ≠ []) (h : ∀ x ∈ l, 0 ≤ x) : 0 ≤ medianL l := by
  have hn : 0 < (sortL l).length := by
    rw [length_sortL]; exact List.length_pos_iff.mpr hl
  have hs : ∀ x ∈ sortL l, 0 ≤ x := fun x hx => h x ((mem_sortL x l).mp hx)
  unfold medianL
  simp only
  split_ifs with hodd
  · exact hs _ (getD0_mem _ _ (by omega))
  · have h1 := hs _ (getD0_mem (sortL l) ((sortL l).length / 2 - 1) (by omega))
    have h2 := hs _ (getD0_mem (sortL l) ((sortL l).length / 2) (by omega))
    simp only [Nat.cast_ofNat]
    positivity

theorem meanL_nonneg (l : List F) (h : ∀ x ∈ l, 0 ≤ x) : 0 ≤ meanL l := by
  unfold meanL
  apply div_nonneg (sumBy_nonneg _ _ h)
  exact Nat.cast_nonneg _

theorem insertSorted_replicate (x : F) (n : Nat) :
    insertSorted x (List.replicate n x) = List.replicate (n + 1) x := by
  cases n with
  | zero => rfl
  | succ k =>
    simp only [List.replicate_succ, insertSorted, le_refl, if_true]

theorem sortL_replicate (x : F) (n : Nat) : sortL (List.replicate n x) = List.replicate n x := by
  induction n with
  | zero => rfl
  | succ k ih =>
    have : sortL (List.replicate (k + 1) x) = insertSorted x (sortL (List.replicate k x)) := rfl
    rw [this, ih, insertSorted_replicate]

theorem getD0_replicate (x : F) (n k : Nat) (h : k < n) : getD0 (List.replicate n x) k = x := by
  unfold getD0
  have h' : k < (List.replicate n x).length := by simpa using h
  rw [← List.getElem_eq_getD (h := h')]
  simp

theorem medianL_replicate (x : F) (n : Nat) (hn : 0 < n) : medianL (List.replicate n x) = x := by
  unfold medianL
  simp only [sortL_replicate, List.length_replicate]
  split_ifs with hodd
  · exact getD0_replicate x n _ (by omega)
  · rw [getD0_replicate x n _ (by omega), getD0_replicate x n _ (by omega)]
    simp only [Nat.cast_ofNat]
    ring

theorem sumBy_replicate (x : F) (n : Nat) : sumBy (fun y => y) (List.replicate n x) = (n : F) * x := by
  induction n with
  | zero => simp
  | succ k ih => simp only [List.replicate_succ, sumBy_cons, ih, Nat.cast_succ]; ring

theorem meanL_replicate (x : F) (n : Nat) (hn : 0 < n) : meanL (List.replicate n x) = x := by
  unfold meanL
  rw [sumBy_replicate, List.length_replicate]
  have : (n : F) ≠ 0 := by positivity
  field_simp

theorem center_replicate (m : Method) (x : F) (n : Nat) (hn : 0 < n) : center m (List.replicate n x) = x := by
  cases m
  · exact medianL_replicate x n hn
  · exact meanL_replicate x n hn

theorem zipWith_replicate' {α β γ : Type} (f : α → β → γ) (a : α) (b : β) (n : Nat) :
    List.zipWith f (List.replicate n a) (List.replicate n b) = List.replicate n (f a b) := by
  induction n with
  | zero => rfl
  | succ k ih => simp only [List.replicate_succ, List.zipWith_cons_cons, ih]

/-- membership in a `zipWith`: every entry is `f a b` for entries of the two lists -/
theorem mem_zipWith' {α β γ : Type} (f : α → β → γ) (l₁ : List α) (l₂ : List β) (c : γ)
    (h : c ∈ List.zipWith f l₁ l₂) : ∃ a ∈ l₁, ∃ b ∈ l₂, c = f a b := by
  induction l₁ generalizing l₂ with
  | nil => simp at h
  | cons x xs ih =>
    cases l₂ with
    | nil => simp at h
    | cons y ys =>
      simp only [List.zipWith_cons_cons, List.mem_cons] at h
      rcases h with rfl | h
      · exact ⟨x, by simp, y, by simp, rfl⟩
      · obtain ⟨a, ha, b, hb, hc⟩ := ih ys h
        exact ⟨a, by simp [ha], b, by simp [hb], hc⟩

end ZV.L
