/-
Helper lemmas for the IPTW weight formulas generated from `iptw_calculator` (`ZV.Gen.iptw_weight`), the part that
concerns `standardize='population'` only — the only target the generalizability / transportability estimators, AIPTW's
weights and the stochastic estimators use.  Kept apart from `Lemmas/Ipw.lean` (all three targets) so that a change to
the 'exposed' / 'unexposed' branches of the generated formula concerns only the properties that are about them.
-/
import ZepidVerif.Lemmas.CellFit
namespace ZV.Std
open ZV
variable {F : Type} [Field F]

/-- the stratum-independent proportionality constant of each weight formula -/
def iptwConst (stab : Bool) (t : Tgt) (a : Bool) (n : F) : F :=
  match stab, t, a with
  | false, _, _ => 1
  | true, .pop, true => n
  | true, .pop, false => 1 - n
  | true, .exposed, true => 1
  | true, .exposed, false => (1 - n) / n
  | true, .unexposed, true => n / (1 - n)
  | true, .unexposed, false => 1

theorem iptwConst_ne_zero (stab : Bool) (t : Tgt) (a : Bool) (n : F) (h0 : n ≠ 0) (h1 : n ≠ 1) :
    iptwConst stab t a n ≠ 0 := by
  have h1' : (1 : F) - n ≠ 0 := sub_ne_zero.mpr (Ne.symm h1)
  cases stab <;> cases t <;> cases a <;> simp [iptwConst, h0, h1']

/-- weight of the target in a stratum of total weight `Ws` when the treated fraction is `p` -/
def tgtShare (t : Tgt) (p Ws : F) : F :=
  match t with
  | .pop => Ws
  | .exposed => p * Ws
  | .unexposed => (1 - p) * Ws

/-- population target: the generated weight formula times the arm's weight in the stratum = constant × stratum weight -/
theorem iptw_weight_balance_pop [DecidableEq F] [LT F] [LE F] [DecidableLT F] [DecidableLE F] [Transc F]
    (stab : Bool) (a : Bool) (n p Ws : F) (hn0 : n ≠ 0) (hn1 : n ≠ 1) (hp0 : p ≠ 0) (hp1 : p ≠ 1) :
    Gen.iptw_weight stab Tgt.pop.str a n p * (if a then p * Ws else (1 - p) * Ws)
      = iptwConst stab .pop a n * tgtShare .pop p Ws := by
  have hn1' : (1 : F) - n ≠ 0 := sub_ne_zero.mpr (Ne.symm hn1)
  have hp1' : (1 : F) - p ≠ 0 := sub_ne_zero.mpr (Ne.symm hp1)
  cases stab <;> cases a <;>
    simp [Gen.iptw_weight, Tgt.str, iptwConst, tgtShare] <;> field_simp

end ZV.Std
