/-
Helper lemma: the g-formula mean over any target set of rows, with a saturated outcome model,
is the standardized mean over that target (used by C01, C10, C14, C16).
-/
import ZepidVerif.Lemmas.CellFit
namespace ZV.Std
open ZV
set_option linter.unusedSectionVars false
variable {F : Type} [Field F] [LinearOrder F] [IsStrictOrderedRing F]

theorem gformula_of_outfit (l : List (Row F)) (S : List Nat) (hS : Strata l S) (hpos : Positivity l S)
    (Q : Nat → Bool → F) (hQ : OutFit l S Q) (tm : Row F → Bool) (a : Bool) :
    gformula l (fun r => Q r.s) tm a = std l S tm a := by
  unfold gformula std
  have hnum : sumIf tm (fun r => r.w * Q r.s a) l
      = sumBy (fun s => Ntgt tm l s * cellMean l s a) S := by
    rw [sumIf_regroup S hS.1 l hS.2]
    apply sumBy_congr; intro s hs
    rw [← hQ.eq_cellMean hs a (hpos.cell_pos hs a).ne']
    unfold Ntgt W
    rw [mul_comm, ← sumIf_mul_left]
    apply sumIf_congr; intro r _
    by_cases h : r.s = s
    · subst h; simp [inStratum, mul_comm]
    · simp [inStratum, h]
  have hden : W tm l = sumBy (fun s => Ntgt tm l s) S := by
    unfold W Ntgt W; rw [sumIf_regroup S hS.1 l hS.2]
  rw [hnum, hden]

end ZV.Std
