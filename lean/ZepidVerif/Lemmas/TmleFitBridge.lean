/-
Bridge between the definitions *generated* from the text of `TMLE.fit` (`ZV.Gen.tmle_fit_binary`,
`ZV.Gen.tmle_fit_continuous`, regenerated on every run) and the hand-written model `ZV.Tmle`
(`fitBinary`, `fitContinuous`, `zalpha`, `ciLin`, `ciLog`) that the C03 / C06 / C02 theorems are about.
-/
import ZepidVerif.Gen.TmleFit
import ZepidVerif.Lemmas.Tmle
import Mathlib.Tactic.FieldSimp
import Mathlib.Tactic.NormNum
namespace ZV.Tmle
open ZV
set_option linter.unusedSectionVars false
variable {F : Type} [Field F] [LinearOrder F] [IsStrictOrderedRing F] [Transc F]

theorem mean_targets_s1 (σ lg : F → F) (e1 e2 : F) (l : List (TRow F)) :
    risk1Of (targets σ lg e1 e2 l) = sumBy (fun r => qstar1 σ lg e1 r) l / (l.length : F) := by
  simp [risk1Of, mean, targets, L.sumBy_map]

theorem mean_targets_s0 (σ lg : F → F) (e1 e2 : F) (l : List (TRow F)) :
    risk0Of (targets σ lg e1 e2 l) = sumBy (fun r => qstar0 σ lg e2 r) l / (l.length : F) := by
  simp [risk0Of, mean, targets, L.sumBy_map]

theorem rd_targets (σ lg : F → F) (e1 e2 : F) (l : List (TRow F)) :
    rdOf (targets σ lg e1 e2 l) = sumBy (fun r => qstar1 σ lg e1 r - qstar0 σ lg e2 r) l / (l.length : F) := by
  simp [rdOf, mean, targets, L.sumBy_map]

end ZV.Tmle

namespace ZV.Tmle
open ZV
set_option linter.unusedSectionVars false
variable {F : Type} [Field F] [LinearOrder F] [IsStrictOrderedRing F] [Transc F]

theorem tmle_fit_binary_eq (σ lg ppf : F → F) (alpha e1 e2 mini maxi : F) (l : List (TRow F)) :
    Gen.tmle_fit_binary σ lg ppf false alpha e1 e2 mini maxi l (fun r => r.g1) (fun r => r.g0)
        (fun _ => 1) (fun _ => 1) qa
      = ((fitBinary σ lg e1 e2 l).rd, (fitBinary σ lg e1 e2 l).rdSe,
         ciLin (fitBinary σ lg e1 e2 l).rd (zalpha ppf alpha) (fitBinary σ lg e1 e2 l).rdSe,
         (fitBinary σ lg e1 e2 l).rr, (fitBinary σ lg e1 e2 l).rrSe,
         ciLog (fitBinary σ lg e1 e2 l).rr (zalpha ppf alpha) (fitBinary σ lg e1 e2 l).rrSe,
         (fitBinary σ lg e1 e2 l).or_, (fitBinary σ lg e1 e2 l).orSe,
         ciLog (fitBinary σ lg e1 e2 l).or_ (zalpha ppf alpha) (fitBinary σ lg e1 e2 l).orSe) := by
  have hz : ((49 : Nat) : F) / ((25 : Nat) : F) = ((196 : Nat) : F) / ((100 : Nat) : F) := by norm_num
  unfold Gen.tmle_fit_binary fitBinary zalpha ciLin ciLog seIC
  simp only [Bool.false_eq_true, if_false, mean_targets_s1, mean_targets_s0, rd_targets, rrOf, orOf, haw, h1, h0,
    qstarA, qstar1, qstar0, hz]
  split_ifs with h <;> simp

theorem ate_targets (σ lg : F → F) (e1 e2 mini maxi : F) (l : List (TRow F)) :
    ateOf mini maxi (targets σ lg e1 e2 l)
      = sumBy (fun r => Gen.tmle_unit_unbound (qstar1 σ lg e1 r) mini maxi
          - Gen.tmle_unit_unbound (qstar0 σ lg e2 r) mini maxi) l / (l.length : F) := by
  simp [ateOf, mean, targets, L.sumBy_map]

theorem tmle_fit_continuous_eq (σ lg ppf : F → F) (alpha e1 e2 mini maxi : F) (l : List (TRow F)) :
    Gen.tmle_fit_continuous σ lg ppf false alpha e1 e2 mini maxi l (fun r => r.g1) (fun r => r.g0)
        (fun _ => 1) (fun _ => 1) qa
      = ((fitContinuous σ lg e1 e2 mini maxi l).rd, (fitContinuous σ lg e1 e2 mini maxi l).rdSe,
         ciLin (fitContinuous σ lg e1 e2 mini maxi l).rd (zalpha ppf alpha) (fitContinuous σ lg e1 e2 mini maxi l).rdSe) := by
  have hz : ((49 : Nat) : F) / ((25 : Nat) : F) = ((196 : Nat) : F) / ((100 : Nat) : F) := by norm_num
  unfold Gen.tmle_fit_continuous fitContinuous zalpha ciLin seIC
  simp only [Bool.false_eq_true, if_false, ate_targets, haw, h1, h0, qstarA, qstar1, qstar0, hz]
  split_ifs with h <;> simp

/-- with a missing-outcome model the code multiplies the treatment and missingness probabilities first; the rest of the
    computation is the same function of the totals -/
theorem tmle_fit_binary_useMiss (σ lg ppf : F → F) (alpha e1 e2 mini maxi : F) (l : List (TRow F))
    (g1W g0W m1W m0W qaw : TRow F → F) :
    Gen.tmle_fit_binary σ lg ppf true alpha e1 e2 mini maxi l g1W g0W m1W m0W qaw
      = Gen.tmle_fit_binary σ lg ppf false alpha e1 e2 mini maxi l (fun r => g1W r * m1W r) (fun r => g0W r * m0W r)
          m1W m0W qaw := by
  unfold Gen.tmle_fit_binary; simp

theorem tmle_fit_continuous_useMiss (σ lg ppf : F → F) (alpha e1 e2 mini maxi : F) (l : List (TRow F))
    (g1W g0W m1W m0W qaw : TRow F → F) :
    Gen.tmle_fit_continuous σ lg ppf true alpha e1 e2 mini maxi l g1W g0W m1W m0W qaw
      = Gen.tmle_fit_continuous σ lg ppf false alpha e1 e2 mini maxi l (fun r => g1W r * m1W r)
          (fun r => g0W r * m0W r) m1W m0W qaw := by
  unfold Gen.tmle_fit_continuous; simp

end ZV.Tmle
