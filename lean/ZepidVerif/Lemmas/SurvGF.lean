/-
Helper lemmas for the SurvivalGFormula part of C12: running products by group, bounds and monotonicity
of `1 − Π(1 − h)`, and the reduction of the marginal curve to the product-limit formula.
-/
import ZepidVerif.Lemmas.Ice
import Mathlib.Tactic.Positivity
set_option linter.unusedSectionVars false
set_option linter.unusedVariables false
namespace ZV.SurvL
open ZV ZV.SurvGF ZV.IceL

section prod
variable {F : Type} [Field F] {α β : Type}

@[simp] theorem one_eq : (one : F) = 1 := by simp [one]
@[simp] theorem prodBy_nil (f : α → F) : prodBy f [] = 1 := by simp [prodBy]
@[simp] theorem prodBy_cons (f : α → F) (x : α) (l : List α) : prodBy f (x :: l) = f x * prodBy f l := rfl

theorem prodBy_append (f : α → F) (l₁ l₂ : List α) : prodBy f (l₁ ++ l₂) = prodBy f l₁ * prodBy f l₂ := by
  induction l₁ with
  | nil => simp
  | cons x xs ih => simp [ih, mul_assoc]

theorem prodBy_map (f : β → F) (h : α → β) (l : List α) : prodBy f (l.map h) = prodBy (fun x => f (h x)) l := by
  induction l with
  | nil => simp
  | cons x xs ih => simp [ih]

theorem prodBy_congr {f g : α → F} {l : List α} (h : ∀ x ∈ l, f x = g x) : prodBy f l = prodBy g l := by
  induction l with
  | nil => simp
  | cons x xs ih =>
    simp only [prodBy_cons]
    rw [h x (by simp), ih (fun y hy => h y (by simp [hy]))]

/-- position `i` of a grouped running product: the group's start value times the group's entries up to `i` -/
theorem cumprodBy_getElem? (l : List (Nat × F)) :
    ∀ (acc : Nat → F) (i : Nat),
      (cumprodBy acc l)[i]? =
        (l[i]?).map fun q => acc q.1 * prodBy (fun z => z.2) ((l.take (i + 1)).filter fun z => z.1 == q.1) := by
  induction l with
  | nil => intro acc i; simp [cumprodBy]
  | cons p rest ih =>
    intro acc i
    obtain ⟨j, x⟩ := p
    cases i with
    | zero => simp [cumprodBy]
    | succ i =>
      simp only [cumprodBy, List.getElem?_cons_succ, ih]
      cases hq : rest[i]? with
      | none => simp
      | some q =>
        simp only [Option.map_some, Option.some.injEq, List.take_succ_cons, List.filter_cons]
        by_cases hj : q.1 = j
        · simp [hj, mul_assoc]
        · have hj' : ¬ j = q.1 := fun e => hj e.symm
          simp [hj, hj']

theorem cumprodBy_length (l : List (Nat × F)) : ∀ acc : Nat → F, (cumprodBy acc l).length = l.length := by
  induction l with
  | nil => intro acc; rfl
  | cons p rest ih => intro acc; obtain ⟨j, x⟩ := p; simp [cumprodBy, ih]

end prod

section order
variable {F : Type} [Field F] [LinearOrder F] [IsStrictOrderedRing F] {α : Type}

theorem prodBy_mem_Icc (f : α → F) (l : List α) (h : ∀ x ∈ l, 0 ≤ f x ∧ f x ≤ 1) :
    0 ≤ prodBy f l ∧ prodBy f l ≤ 1 := by
  induction l with
  | nil => simp
  | cons x xs ih =>
    have hx := h x (by simp)
    have hr := ih (fun y hy => h y (by simp [hy]))
    simp only [prodBy_cons]
    exact ⟨mul_nonneg hx.1 hr.1, mul_le_one₀ hx.2 hr.1 hr.2⟩

end order
section cuminc
variable {F : Type} [Field F]

/-- `predicted_df[outcome]` of record `i` of the sorted table: one minus the product of `1 − hazard` over the
    records of the same person up to and including `i` -/
theorem cumInc_getElem? (p : Plan) (rows : List (LRow F)) (i : Nat) :
    (cumInc p rows)[i]? =
      ((prep rows)[i]?).map fun r =>
        1 - prodBy (fun q => 1 - hazard p q) (((prep rows).take (i + 1)).filter fun q => q.id == r.id) := by
  unfold cumInc
  rw [List.getElem?_map, cumprodBy_getElem?, List.getElem?_map]
  cases (prep rows)[i]? with
  | none => simp
  | some r =>
    simp only [Option.map_some, one_eq, one_mul, Option.some.injEq]
    rw [← List.map_take, List.filter_map, prodBy_map]
    rfl

theorem cumInc_length (p : Plan) (rows : List (LRow F)) : (cumInc p rows).length = (prep rows).length := by
  simp [cumInc, cumprodBy_length]

theorem mem_insertRow (x r : LRow F) (l : List (LRow F)) : r ∈ insertRow x l ↔ r = x ∨ r ∈ l := by
  induction l with
  | nil => simp [insertRow]
  | cons y ys ih =>
    simp only [insertRow]
    split_ifs
    · simp
    · simp only [List.mem_cons, ih]
      tauto

theorem mem_sortRows (r : LRow F) (l : List (LRow F)) : r ∈ sortRows l ↔ r ∈ l := by
  induction l with
  | nil => simp [sortRows]
  | cons y ys ih =>
    have : sortRows (y :: ys) = insertRow y (sortRows ys) := rfl
    rw [this, mem_insertRow, ih]
    simp

theorem mem_prep {rows : List (LRow F)} {r : LRow F} (h : r ∈ prep rows) : r ∈ rows := by
  unfold prep at h
  rw [mem_sortRows] at h
  exact (List.mem_filter.mp h).1

end cuminc

section order2
variable {F : Type} [Field F] [LinearOrder F] [IsStrictOrderedRing F]

theorem cumInc_bounded (p : Plan) (rows : List (LRow F))
    (hh : ∀ r ∈ rows, 0 ≤ hazard p r ∧ hazard p r ≤ 1) :
    ∀ c ∈ cumInc p rows, 0 ≤ c ∧ c ≤ 1 := by
  intro c hc
  obtain ⟨i, hi⟩ := List.mem_iff_getElem?.mp hc
  rw [cumInc_getElem?] at hi
  cases hr : (prep rows)[i]? with
  | none => simp [hr] at hi
  | some r =>
    simp only [hr, Option.map_some, Option.some.injEq] at hi
    have hb := prodBy_mem_Icc (fun q => 1 - hazard p q)
      (((prep rows).take (i + 1)).filter fun q => q.id == r.id) (by
        intro q hq
        have hq' : q ∈ rows := mem_prep (List.mem_of_mem_take (List.mem_filter.mp hq).1)
        have := hh q hq'
        constructor <;> linarith [this.1, this.2])
    rw [← hi]
    constructor <;> linarith [hb.1, hb.2]

theorem cumInc_monotone (p : Plan) (rows : List (LRow F))
    (hh : ∀ r ∈ rows, 0 ≤ hazard p r ∧ hazard p r ≤ 1)
    (i j : Nat) (ri rj : LRow F) (ci cj : F) (hij : i ≤ j)
    (hri : (prep rows)[i]? = some ri) (hrj : (prep rows)[j]? = some rj) (hid : ri.id = rj.id)
    (hci : (cumInc p rows)[i]? = some ci) (hcj : (cumInc p rows)[j]? = some cj) : ci ≤ cj := by
  rw [cumInc_getElem?, hri] at hci
  rw [cumInc_getElem?, hrj] at hcj
  simp only [Option.map_some, Option.some.injEq] at hci hcj
  obtain ⟨d, rfl⟩ : ∃ d, j = i + d := ⟨j - i, by omega⟩
  have hsplit : (prep rows).take (i + d + 1) = (prep rows).take (i + 1) ++ ((prep rows).drop (i + 1)).take d := by
    rw [show i + d + 1 = (i + 1) + d by omega, List.take_add]
  rw [hsplit, List.filter_append, prodBy_append, ← hid] at hcj
  have hf : ∀ l : List (LRow F), (∀ q ∈ l, q ∈ rows) →
      0 ≤ prodBy (fun q => 1 - hazard p q) l ∧ prodBy (fun q => 1 - hazard p q) l ≤ 1 := by
    intro l hl
    apply prodBy_mem_Icc
    intro q hq
    have := hh q (hl q hq)
    constructor <;> linarith [this.1, this.2]
  have h1 := hf (((prep rows).take (i + 1)).filter fun q => q.id == ri.id)
    (fun q hq => mem_prep (List.mem_of_mem_take (List.mem_filter.mp hq).1))
  have h2 := hf ((((prep rows).drop (i + 1)).take d).filter fun q => q.id == ri.id)
    (fun q hq => mem_prep (List.mem_of_mem_drop (List.mem_of_mem_take (List.mem_filter.mp hq).1)))
  rw [← hci, ← hcj]
  have : prodBy (fun q => 1 - hazard p q) (((prep rows).take (i + 1)).filter fun q => q.id == ri.id) *
      prodBy (fun q => 1 - hazard p q) ((((prep rows).drop (i + 1)).take d).filter fun q => q.id == ri.id) ≤
      prodBy (fun q => 1 - hazard p q) (((prep rows).take (i + 1)).filter fun q => q.id == ri.id) :=
    mul_le_of_le_one_right h1.1 h2.2
  linarith

end order2
section pl
variable {F : Type} [Field F] [CharZero F]

theorem personPeriod_spec {rows : List (LRow F)} (hpp : personPeriod rows = true) (i : Nat) (r : LRow F)
    (hr : (prep rows)[i]? = some r) :
    ((((prep rows).take (i + 1)).filter fun q => q.id == r.id).map fun q => q.t) = List.range' 1 r.t := by
  simp only [personPeriod, List.all_eq_true, List.mem_range] at hpp
  have hi : i < (prep rows).length := by
    by_contra h
    rw [List.getElem?_eq_none (by omega)] at hr
    cases hr
  have := hpp i hi
  rw [hr] at this
  simpa using this

/-- the arm-specific score equation of a model saturated in arm × time gives the empirical hazard -/
theorem hazard_eq_ratio (b : Bool) (rows : List (LRow F)) (h : F) (u : Nat)
    (hfit : sumBy (fun r => ((r.y : Nat) : F) - h) ((prep rows).filter fun r => r.a == b && r.t == u) = ((0 : Nat) : F))
    (hy : ∀ r ∈ rows, r.y ≤ 1) (hn : nArm rows b u ≠ 0) :
    h = ((dArm rows b u : Nat) : F) / ((nArm rows b u : Nat) : F) := by
  have hn' : ((nArm rows b u : Nat) : F) ≠ 0 := Nat.cast_ne_zero.mpr hn
  rw [sumBy_sub, sumBy_const] at hfit
  have hd : sumBy (fun r : LRow F => ((r.y : Nat) : F)) ((prep rows).filter fun r => r.a == b && r.t == u) =
      ((dArm rows b u : Nat) : F) := by
    rw [sumBy_congr (g := fun r : LRow F => if r.y == 1 then (1 : F) else 0), sumBy_ind, List.filter_filter]
    · unfold dArm
      congr 1
      apply filter_length_congr
      intro r _
      rw [Bool.and_comm]
    · intro r hr
      have := hy r (mem_prep (List.mem_filter.mp hr).1)
      have h01 : r.y = 0 ∨ r.y = 1 := by omega
      rcases h01 with h0 | h1
      · simp [h0]
      · simp [h1]
  rw [hd, Nat.cast_zero] at hfit
  rw [eq_div_iff hn']
  unfold nArm at *
  linear_combination -hfit

theorem marginalAt_eq_pl (b : Bool) (rows : List (LRow F)) (η : Bool → Nat → F) (t : Nat)
    (hη : ∀ r ∈ rows, r.h1 = η true r.t ∧ r.h0 = η false r.t)
    (hfit : ∀ u, sumBy (fun r => ((r.y : Nat) : F) - η b u)
      ((prep rows).filter fun r => r.a == b && r.t == u) = ((0 : Nat) : F))
    (hy : ∀ r ∈ rows, r.y ≤ 1)
    (hpp : personPeriod rows = true)
    (hpos : armPositive rows b t = true)
    (hex : ∃ r ∈ prep rows, r.t = t) :
    marginalAt (if b then Plan.all else Plan.none) rows t = productLimit rows b t := by
  set p : Plan := if b then Plan.all else Plan.none with hp
  have hhz : ∀ r ∈ rows, hazard p r = η b r.t := by
    intro r hr
    cases b <;> simp [hp, hazard, (hη r hr).1, (hη r hr).2]
  set c0 : F := 1 - prodBy (fun u => 1 - η b u) (List.range' 1 t) with hc0
  -- every record at time `t` carries the same cumulative incidence
  have hrow : ∀ (i : Nat) (r : LRow F) (c : F), (prep rows)[i]? = some r → (cumInc p rows)[i]? = some c → r.t = t → c = c0 := by
    intro i r c hr hc ht
    rw [cumInc_getElem?, hr] at hc
    simp only [Option.map_some, Option.some.injEq] at hc
    rw [← hc, hc0]
    congr 1
    have hpr := personPeriod_spec hpp i r hr
    rw [ht] at hpr
    rw [← hpr, prodBy_map]
    apply prodBy_congr
    intro q hq
    rw [hhz q (mem_prep (List.mem_of_mem_take (List.mem_filter.mp hq).1))]
  -- the empirical hazards
  have hprod : c0 = productLimit rows b t := by
    rw [hc0]
    unfold productLimit
    rw [one_eq]
    congr 1
    apply prodBy_congr
    intro u hu
    simp only [armPositive, List.all_eq_true, decide_eq_true_eq] at hpos
    rw [hazard_eq_ratio b rows (η b u) u (hfit u) hy (hpos u hu)]
  rw [← hprod]
  unfold marginalAt
  set z := ((prep rows).zip (cumInc p rows)).filter fun q => q.1.t == t with hz
  have hzc : ∀ q ∈ z, q.2 = c0 := by
    intro q hq
    rw [hz, List.mem_filter] at hq
    obtain ⟨i, hi⟩ := List.mem_iff_getElem?.mp hq.1
    rw [List.getElem?_zip_eq_some] at hi
    exact hrow i q.1 q.2 hi.1 hi.2 (by simpa using hq.2)
  have hne : z.length ≠ 0 := by
    obtain ⟨r, hr, ht⟩ := hex
    obtain ⟨i, hi⟩ := List.mem_iff_getElem?.mp hr
    have hil : i < (cumInc p rows).length := by
      rw [cumInc_length]
      by_contra h
      rw [List.getElem?_eq_none (by omega)] at hi
      cases hi
    have hmem : (r, (cumInc p rows)[i]) ∈ z := by
      rw [hz, List.mem_filter]
      refine ⟨List.mem_iff_getElem?.mpr ⟨i, ?_⟩, by simpa using ht⟩
      rw [List.getElem?_zip_eq_some]
      exact ⟨hi, List.getElem?_eq_getElem hil⟩
    exact Nat.ne_of_gt (List.length_pos_of_mem hmem)
  have hne' : ((z.length : Nat) : F) ≠ 0 := Nat.cast_ne_zero.mpr hne
  show sumBy (fun q => q.2) z / ((z.length : Nat) : F) = c0
  rw [sumBy_congr (g := fun _ => c0) hzc, sumBy_const]
  field_simp

end pl
end ZV.SurvL
