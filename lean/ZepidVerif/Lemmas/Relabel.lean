/-
Helper lemmas for C08: sums over mapped / permuted lists, the canonical level list of the
effect-measure frames as a function of the row multiset.  Helper lemmas only.
-/
import ZepidVerif.Model.Relabel
import ZepidVerif.Lemmas.Std
import Mathlib.Data.List.Sort
import Mathlib.Data.List.Perm.Basic
set_option linter.unusedSectionVars false
namespace ZV
variable {F : Type} [Field F] {α β : Type}

theorem sumBy_neg (f : α → F) (l : List α) : sumBy (fun x => - f x) l = - sumBy f l := by
  induction l with
  | nil => simp
  | cons x l ih => simp only [sumBy_cons, ih]; ring

theorem sumBy_const (c : F) (l : List α) : sumBy (fun _ => c) l = (l.length : F) * c := by
  induction l with
  | nil => simp
  | cons x l ih => simp only [sumBy_cons, ih, List.length_cons]; push_cast; ring

namespace Std

theorem sumIf_perm {p : Row F → Bool} {f : Row F → F} {l₁ l₂ : List (Row F)} (h : l₁.Perm l₂) :
    sumIf p f l₁ = sumIf p f l₂ := by
  rw [sumIf_def, sumIf_def]; exact sumBy_perm h

theorem sumIf_map (p : Row F → Bool) (f : Row F → F) (g : Row F → Row F) (l : List (Row F)) :
    sumIf p f (l.map g) = sumIf (fun r => p (g r)) (fun r => f (g r)) l := by
  rw [sumIf_def, sumIf_def, sumBy_map]

theorem svar_def (f : α → F) (l : List α) :
    svar f l = sumBy (fun x => (f x - lmean f l) * (f x - lmean f l)) l / (((l.length : Nat) : F) - ((1 : Nat) : F)) := rfl

theorem aipwVar_def [LinearOrder F] [Transc F] (l : List (Row F)) (Q : Row F → Bool → F) (g1 g0 : Row F → F) :
    aipwVar l Q g1 g0 = svar (fun r => aipwDiff Q g1 g0 r - aipwEst l Q g1 g0) l / ((l.length : Nat) : F) := rfl

theorem lmean_perm {f : α → F} {l₁ l₂ : List α} (h : l₁.Perm l₂) : lmean f l₁ = lmean f l₂ := by
  unfold lmean; rw [sumBy_perm h, h.length_eq]

theorem svar_perm {f : α → F} {l₁ l₂ : List α} (h : l₁.Perm l₂) : svar f l₁ = svar f l₂ := by
  rw [svar_def, svar_def, lmean_perm h, sumBy_perm h, h.length_eq]

theorem lmean_map (f : β → F) (g : α → β) (l : List α) : lmean f (l.map g) = lmean (fun x => f (g x)) l := by
  unfold lmean; rw [sumBy_map, List.length_map]

theorem svar_map (f : β → F) (g : α → β) (l : List α) : svar f (l.map g) = svar (fun x => f (g x)) l := by
  rw [svar_def, svar_def, lmean_map, sumBy_map, List.length_map]

theorem lmean_congr {f g : α → F} {l : List α} (h : ∀ x ∈ l, f x = g x) : lmean f l = lmean g l := by
  unfold lmean; rw [sumBy_congr h]

theorem svar_congr {f g : α → F} {l : List α} (h : ∀ x ∈ l, f x = g x) : svar f l = svar g l := by
  rw [svar_def, svar_def, lmean_congr h]
  congr 1
  apply sumBy_congr; intro x hx; rw [h x hx]

/-- the sample variance of `c·f` is `c²` times that of `f` (in particular it is unchanged by `f ↦ −f`) -/
theorem svar_mul_left (c : F) (f : α → F) (l : List α) :
    svar (fun x => c * f x) l = c * c * svar f l := by
  have hm : lmean (fun x => c * f x) l = c * lmean f l := by
    unfold lmean; rw [sumBy_mul_left, mul_div_assoc]
  rw [svar_def, svar_def, hm, ← mul_div_assoc, ← sumBy_mul_left]
  congr 1
  apply sumBy_congr; intro x _; ring

theorem lmean_mul_left (c : F) (f : α → F) (l : List α) : lmean (fun x => c * f x) l = c * lmean f l := by
  unfold lmean; rw [sumBy_mul_left, mul_div_assoc]

end Std

namespace Measures
open List

theorem mem_insertAsc (x y : Nat) (l : List Nat) : y ∈ insertAsc x l ↔ y = x ∨ y ∈ l := by
  induction l with
  | nil => simp [insertAsc]
  | cons z zs ih =>
    unfold insertAsc
    split_ifs with h1 h2
    · simp
    · subst h2; simp
    · simp only [List.mem_cons, ih]; tauto

theorem insertAsc_sorted (x : Nat) (l : List Nat) (h : l.Pairwise (· < ·)) : (insertAsc x l).Pairwise (· < ·) := by
  induction l with
  | nil => simp [insertAsc]
  | cons z zs ih =>
    have hz := List.pairwise_cons.mp h
    unfold insertAsc
    split_ifs with h1 h2
    · refine List.pairwise_cons.mpr ⟨?_, h⟩
      intro y hy
      rcases List.mem_cons.mp hy with rfl | hy
      · exact h1
      · exact lt_trans h1 (hz.1 y hy)
    · exact h
    · refine List.pairwise_cons.mpr ⟨?_, ih hz.2⟩
      intro y hy
      rcases (mem_insertAsc x y zs).mp hy with rfl | hy
      · omega
      · exact hz.1 y hy

theorem levelSet_sorted (rows : List (MRow F)) : (levelSet rows).Pairwise (· < ·) := by
  unfold levelSet
  induction rows with
  | nil => simp
  | cons r rs ih =>
    simp only [List.foldr_cons]
    cases r.e with
    | none => exact ih
    | some v => exact insertAsc_sorted v _ ih

theorem mem_levelSet (rows : List (MRow F)) (v : Nat) : v ∈ levelSet rows ↔ ∃ r ∈ rows, r.e = some v := by
  unfold levelSet
  induction rows with
  | nil => simp
  | cons r rs ih =>
    simp only [List.foldr_cons, List.mem_cons, exists_eq_or_imp]
    cases hr : r.e with
    | none => simp [ih]
    | some w =>
      simp only [mem_insertAsc, ih, Option.some.injEq]
      constructor
      · rintro (h | h)
        · exact Or.inl h.symm
        · exact Or.inr h
      · rintro (h | h)
        · exact Or.inl h.symm
        · exact Or.inr h

/-- two strictly ascending lists with the same members are equal -/
theorem sorted_ext {l₁ l₂ : List Nat} (h₁ : l₁.Pairwise (· < ·)) (h₂ : l₂.Pairwise (· < ·))
    (h : ∀ v, v ∈ l₁ ↔ v ∈ l₂) : l₁ = l₂ := by
  have n₁ : l₁.Nodup := h₁.imp (fun hlt => ne_of_lt hlt)
  have n₂ : l₂.Nodup := h₂.imp (fun hlt => ne_of_lt hlt)
  have hp : l₁.Perm l₂ := (List.perm_ext_iff_of_nodup n₁ n₂).mpr h
  exact List.Perm.eq_of_pairwise (le := (· < ·)) (fun a b _ _ hab hba => absurd hab (lt_asymm hba)) h₁ h₂ hp

theorem levelSet_perm {r₁ r₂ : List (MRow F)} (h : r₁.Perm r₂) : levelSet r₁ = levelSet r₂ := by
  apply sorted_ext (levelSet_sorted r₁) (levelSet_sorted r₂)
  intro v
  rw [mem_levelSet, mem_levelSet]
  constructor
  · rintro ⟨r, hr, he⟩; exact ⟨r, h.mem_iff.mp hr, he⟩
  · rintro ⟨r, hr, he⟩; exact ⟨r, h.mem_iff.mpr hr, he⟩

end Measures
end ZV
