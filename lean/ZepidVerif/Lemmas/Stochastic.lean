/-
Lemmas about the assignment loop `ZV.Stoch.overwrite` (later pairs overwrite earlier ones): what it
returns when the conditions are pairwise exclusive at a row, and invariance under permutation of the
(condition, payload) list.  Helper lemmas only.
-/
import ZepidVerif.Model.Stochastic
import ZepidVerif.Lemmas.CellFit
import Mathlib.Data.List.Perm.Basic
namespace ZV.Stoch
open ZV ZV.Std

variable {β : Type}

/-- the conditions are pairwise exclusive at row `i` -/
def ExclAt (conds : List ((Nat → Bool) × (Nat → β))) (i : Nat) : Prop :=
  conds.Pairwise fun c d => ¬(c.1 i = true ∧ d.1 i = true)

/-- the loop body -/
def step (i : Nat) (acc : Option β) (c : (Nat → Bool) × (Nat → β)) : Option β :=
  if c.1 i then some (c.2 i) else acc

theorem overwrite_eq_foldl (conds : List ((Nat → Bool) × (Nat → β))) (i : Nat) :
    overwrite conds i = conds.foldl (step i) none := rfl

theorem foldl_step_none_hit (i : Nat) (conds : List ((Nat → Bool) × (Nat → β))) (acc : Option β)
    (h : ∀ c ∈ conds, c.1 i = false) : conds.foldl (step i) acc = acc := by
  induction conds generalizing acc with
  | nil => rfl
  | cons c cs ih =>
    simp only [List.foldl_cons]
    rw [ih _ (fun d hd => h d (List.mem_cons_of_mem _ hd))]
    simp [step, h c (List.mem_cons_self)]

theorem foldl_step_excl (i : Nat) (conds : List ((Nat → Bool) × (Nat → β))) (acc : Option β)
    (hx : ExclAt conds i) (c : (Nat → Bool) × (Nat → β)) (hc : c ∈ conds) (hi : c.1 i = true) :
    conds.foldl (step i) acc = some (c.2 i) := by
  induction conds generalizing acc with
  | nil => cases hc
  | cons d ds ih =>
    simp only [List.foldl_cons]
    have hp := List.pairwise_cons.mp hx
    rcases List.mem_cons.mp hc with rfl | hmem
    · rw [foldl_step_none_hit i ds]
      · simp [step, hi]
      · intro e he
        have := hp.1 e he
        cases h : e.1 i
        · rfl
        · exact absurd ⟨hi, h⟩ this
    · exact ih _ hp.2 hmem

/-- exclusive conditions: the row gets the payload of the condition that selects it -/
theorem overwrite_of_mem (conds : List ((Nat → Bool) × (Nat → β))) (i : Nat) (hx : ExclAt conds i)
    (c : (Nat → Bool) × (Nat → β)) (hc : c ∈ conds) (hi : c.1 i = true) : overwrite conds i = some (c.2 i) :=
  foldl_step_excl i conds none hx c hc hi

/-- a row no condition selects stays NaN -/
theorem overwrite_none (conds : List ((Nat → Bool) × (Nat → β))) (i : Nat) (h : ∀ c ∈ conds, c.1 i = false) :
    overwrite conds i = none :=
  foldl_step_none_hit i conds none h

theorem ExclAt.perm {l₁ l₂ : List ((Nat → Bool) × (Nat → β))} {i : Nat} (h : l₁.Perm l₂) (hx : ExclAt l₁ i) :
    ExclAt l₂ i := by
  unfold ExclAt at *
  exact (h.pairwise_iff (fun {a b} hab hba => hab ⟨hba.2, hba.1⟩)).mp hx

/-- **order-freeness of the loop**: for conditions exclusive at row `i`, any permutation of the
    (condition, payload) list assigns the same value to the row -/
theorem overwrite_perm {l₁ l₂ : List ((Nat → Bool) × (Nat → β))} (i : Nat) (h : l₁.Perm l₂) (hx : ExclAt l₁ i) :
    overwrite l₁ i = overwrite l₂ i := by
  by_cases hex : ∃ c ∈ l₁, c.1 i = true
  · obtain ⟨c, hc, hi⟩ := hex
    rw [overwrite_of_mem l₁ i hx c hc hi, overwrite_of_mem l₂ i (hx.perm h) c (h.mem_iff.mp hc) hi]
  · have hall : ∀ c ∈ l₁, c.1 i = false := by
      intro c hc
      cases hci : c.1 i
      · rfl
      · exact absurd ⟨c, hc, hci⟩ hex
    rw [overwrite_none l₁ i hall, overwrite_none l₂ i (fun c hc => hall c (h.mem_iff.mpr hc))]

section
variable {F : Type} [Field F]

/-- exclusivity of the conditions of a plan at row id `i` -/
def Exclusive (cs : List (Cond F)) (i : Nat) : Prop :=
  cs.Pairwise fun c d => ¬(c.mask i = true ∧ d.mask i = true)

theorem exclAt_numerPairs (a : Bool) (cs : List (Cond F)) (i : Nat) (h : Exclusive cs i) :
    ExclAt (numerPairs a cs) i := by
  unfold ExclAt numerPairs
  rw [List.pairwise_map]
  exact h

end

end ZV.Stoch
