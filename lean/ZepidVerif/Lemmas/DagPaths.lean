/-
Path-blocking d-separation and its equivalence with the moral-graph criterion (Lauritzen, Dawid, Larsen, Leimer
1990), for every finite DAG given as an edge list.  Used by `Props/C18.lean` (`check_iff_pathblocking`).

Vocabulary
* `IsWalk E p`      : `p` is a list of nodes, consecutive nodes joined by an arrow of `E` in either direction;
* `BlockedAt E Z a b c` : the inner node `b` (between `a` and `c`) blocks: it is a non-collider in `Z`, or a collider
                      outside `Z` without a descendant in `Z`;
* `Blocked E Z p`   : some inner node of `p` blocks (the Prop twin of the executable `pathBlocked`);
* `DSepWalks`, `DSepPaths` : every walk / every simple path (`Nodup`) from `x` to `y` is blocked.

Route of the proof.  An active walk is re-read as a run of a small automaton (`Step`) whose states are
`(node, did the last arrow point into the node?)`: leaving `v` along `v → w` needs `v ∉ Z`; leaving `v` against an
arrow `w → v` needs `v ∈ An(Z)` when the walk arrived through an arrow into `v` (collider) and `v ∉ Z` otherwise.
1. `exists_run_iff_moral`: a run from `x` to `y` exists iff `x`,`y` are connected in the moral graph of the ancestral
   set minus `Z` (both directions by induction on the run / on the moral path; no acyclicity needed).
2. `SWalk.erase_loops`: a run can be cut at a repeated *node* (loop erasure), so a run yields one with distinct nodes.
3. `run_of_walk`, `SWalk.list_facts`: unblocked walks are runs and runs are unblocked walks (uses that a DAG has no
   2-cycle, so every step of a walk has exactly one orientation).
4. `mem_simplePaths`: the executable enumeration `simplePaths` lists exactly the simple paths (given enough fuel).
-/
import ZepidVerif.Lemmas.Dag
import Mathlib.Data.List.Perm.Subperm
namespace ZV.Dag
open Relation

/-! ### vocabulary -/

/-- joined by an arrow in either direction -/
def Adj (E : List Edge) (a b : Nat) : Prop := (a, b) ∈ E ∨ (b, a) ∈ E

/-- a walk in the skeleton of `E`: consecutive nodes are adjacent (nodes may repeat) -/
def IsWalk (E : List Edge) : List Nat → Prop
  | a :: b :: r => Adj E a b ∧ IsWalk E (b :: r)
  | _ => True

instance (E : List Edge) (a b : Nat) : Decidable (Adj E a b) := by unfold Adj; infer_instance

instance IsWalk.decidable (E : List Edge) : (p : List Nat) → Decidable (IsWalk E p)
  | [] => isTrue trivial
  | [_] => isTrue trivial
  | a :: b :: r =>
    match IsWalk.decidable E (b :: r) with
    | isTrue h => if h' : Adj E a b then isTrue ⟨h', h⟩ else isFalse (fun hw => h' hw.1)
    | isFalse h => isFalse (fun hw => h hw.2)

/-- the inner node `b` of the segment `a - b - c` blocks given `Z`: a collider (`a → b ← c`) that is not in `Z` and has
    no descendant in `Z`, or a non-collider that is in `Z` -/
def BlockedAt (E : List Edge) (Z : List Nat) (a b c : Nat) : Prop :=
  ((a, b) ∈ E ∧ (c, b) ∈ E ∧ b ∉ Z ∧ ∀ d, IsDesc E b d → d ∉ Z) ∨ (¬ ((a, b) ∈ E ∧ (c, b) ∈ E) ∧ b ∈ Z)

/-- the walk is blocked by `Z`: one of its inner nodes blocks -/
def Blocked (E : List Edge) (Z : List Nat) : List Nat → Prop
  | a :: b :: c :: r => BlockedAt E Z a b c ∨ Blocked E Z (b :: c :: r)
  | _ => False

/-- `p` goes from `x` to `y` -/
def FromTo (p : List Nat) (x y : Nat) : Prop := p.head? = some x ∧ p.getLast? = some y

instance (p : List Nat) (x y : Nat) : Decidable (FromTo p x y) := by unfold FromTo; infer_instance

/-- `Z` d-separates `x` and `y` in `E` (walk form): every walk from `x` to `y` is blocked -/
def DSepWalks (E : List Edge) (x y : Nat) (Z : List Nat) : Prop :=
  ∀ p, IsWalk E p → FromTo p x y → Blocked E Z p

/-- `Z` d-separates `x` and `y` in `E` (textbook form): every path (no repeated node) from `x` to `y` is blocked -/
def DSepPaths (E : List Edge) (x y : Nat) (Z : List Nat) : Prop :=
  ∀ p, IsWalk E p → FromTo p x y → p.Nodup → Blocked E Z p

/-- member of `Z` or ancestor of a member of `Z` -/
def AnZ (E : List Edge) (Z : List Nat) (v : Nat) : Prop := ∃ z ∈ Z, ReflTransGen (edgeRel E) v z

theorem anZ_of_edge {E : List Edge} {Z : List Nat} {a b : Nat} (h : (a, b) ∈ E) (hb : AnZ E Z b) : AnZ E Z a := by
  obtain ⟨z, hz, hr⟩ := hb
  exact ⟨z, hz, .head h hr⟩

theorem not_mem_of_not_anZ {E : List Edge} {Z : List Nat} {v : Nat} (h : ¬ AnZ E Z v) : v ∉ Z :=
  fun hv => h ⟨v, hv, .refl⟩

theorem anZ_iff {E : List Edge} {Z : List Nat} {v : Nat} : AnZ E Z v ↔ v ∈ Z ∨ ∃ d, IsDesc E v d ∧ d ∈ Z := by
  constructor
  · rintro ⟨z, hz, hr⟩
    by_cases hzv : z = v
    · exact .inl (hzv ▸ hz)
    · exact .inr ⟨z, ⟨hzv, hr⟩, hz⟩
  · rintro (h | ⟨d, hd, hz⟩)
    · exact ⟨v, h, .refl⟩
    · exact ⟨d, hz, hd.2⟩

/-! ### the moral-graph criterion with named parts (definitionally `DSepMoral`) -/

/-- arrow of the sub-DAG induced by `An({x,y} ∪ Z)` -/
def MEd (E : List Edge) (x y : Nat) (Z : List Nat) (a b : Nat) : Prop :=
  (a, b) ∈ E ∧ InAn E x y Z a ∧ InAn E x y Z b

/-- adjacency in the moral graph of that sub-DAG, after deleting `Z` -/
def MStep (E : List Edge) (x y : Nat) (Z : List Nat) (a b : Nat) : Prop :=
  a ∉ Z ∧ b ∉ Z ∧ (MEd E x y Z a b ∨ MEd E x y Z b a ∨ (a ≠ b ∧ ∃ c, MEd E x y Z a c ∧ MEd E x y Z b c))

theorem dsepMoral_iff {E : List Edge} {x y : Nat} {Z : List Nat} :
    DSepMoral E x y Z ↔ ¬ ReflTransGen (MStep E x y Z) x y := Iff.rfl

/-! ### runs: active walks as an automaton on (node, last arrow points into the node) -/

abbrev St := Nat × Bool

/-- one step of an active walk.  Forward along `s → t`: `s` is a non-collider, so `s ∉ Z`.  Backward against
    `t → s`: `s` is a collider iff the walk arrived through an arrow into `s`; then `s ∈ An(Z)`, else `s ∉ Z`. -/
def Step (E : List Edge) (Z : List Nat) (s t : St) : Prop :=
  ((s.1, t.1) ∈ E ∧ t.2 = true ∧ s.1 ∉ Z) ∨
  ((t.1, s.1) ∈ E ∧ t.2 = false ∧ (s.2 = true → AnZ E Z s.1) ∧ (s.2 = false → s.1 ∉ Z))

theorem Step.fwd {E : List Edge} {Z : List Nat} {a b : Nat} {d : Bool} (he : (a, b) ∈ E) (ha : a ∉ Z) :
    Step E Z (a, d) (b, true) := .inl ⟨he, rfl, ha⟩

theorem Step.bwdOut {E : List Edge} {Z : List Nat} {a b : Nat} (he : (b, a) ∈ E) (ha : a ∉ Z) :
    Step E Z (a, false) (b, false) := .inr ⟨he, rfl, fun h => Bool.noConfusion h, fun _ => ha⟩

theorem Step.bwdIn {E : List Edge} {Z : List Nat} {a b : Nat} (he : (b, a) ∈ E) (ha : AnZ E Z a) :
    Step E Z (a, true) (b, false) := .inr ⟨he, rfl, fun _ => ha, fun h => Bool.noConfusion h⟩

section Runs
variable {E : List Edge} {Z : List Nat}

/-- a state reached through an arrow leaving it is an ancestor of the start or of `Z` -/
theorem run_out_anc {x : Nat} {s : St} (h : ReflTransGen (Step E Z) (x, false) s) (hs : s.2 = false) :
    ∃ n, (n = x ∨ n ∈ Z) ∧ ReflTransGen (edgeRel E) s.1 n := by
  induction h with
  | refl => exact ⟨x, .inl rfl, .refl⟩
  | @tail u s _ hus ih =>
    rcases hus with ⟨_, ht, _⟩ | ⟨he, _, h1, _⟩
    · rw [hs] at ht; cases ht
    · cases hu : u.2 with
      | true => obtain ⟨z, hz, hr⟩ := h1 hu; exact ⟨z, .inr hz, .head he hr⟩
      | false => obtain ⟨n, hn, hr⟩ := ih hu; exact ⟨n, hn, .head he hr⟩

/-- a state reached through an arrow into it, from which the run goes on to `y`, is an ancestor of `y` or of `Z` -/
theorem run_in_anc {y : Nat} {dy : Bool} {s : St} (h : ReflTransGen (Step E Z) s (y, dy)) :
    s.2 = true → ∃ n, (n = y ∨ n ∈ Z) ∧ ReflTransGen (edgeRel E) s.1 n := by
  induction h using ReflTransGen.head_induction_on with
  | refl => intro _; exact ⟨y, .inl rfl, .refl⟩
  | @head s u hsu _ ih =>
    intro hs
    rcases hsu with ⟨he, hu, _⟩ | ⟨_, _, h1, _⟩
    · obtain ⟨n, hn, hr⟩ := ih hu; exact ⟨n, hn, .head he hr⟩
    · obtain ⟨z, hz, hr⟩ := h1 hs; exact ⟨z, .inr hz, hr⟩

/-- every node on a run from `x` to `y` lies in `An({x,y} ∪ Z)` -/
theorem run_inAn {x y : Nat} {dy : Bool} {s : St} (h1 : ReflTransGen (Step E Z) (x, false) s)
    (h2 : ReflTransGen (Step E Z) s (y, dy)) : InAn E x y Z s.1 := by
  cases hs : s.2 with
  | false =>
    obtain ⟨n, hn, hr⟩ := run_out_anc h1 hs
    exact ⟨n, by tauto, hr⟩
  | true =>
    obtain ⟨n, hn, hr⟩ := run_in_anc h2 hs
    exact ⟨n, by tauto, hr⟩

/-- (active walk ⇒ moral connection) along a run: a state outside `Z` is connected to `x` in the moral graph minus
    `Z`; a state entered through an arrow has its predecessor connected and joined to it by an arrow of the
    ancestral sub-DAG -/
theorem run_moral {x y : Nat} {dy : Bool} {s : St} (h1 : ReflTransGen (Step E Z) (x, false) s) :
    ReflTransGen (Step E Z) s (y, dy) →
    (s.1 ∉ Z → ReflTransGen (MStep E x y Z) x s.1) ∧
    (s.2 = true → ∃ u, u ∉ Z ∧ ReflTransGen (MStep E x y Z) x u ∧ MEd E x y Z u s.1) := by
  induction h1 with
  | refl => intro _; exact ⟨fun _ => .refl, fun h => by cases h⟩
  | @tail u s hxu hus ih =>
    intro hsy
    have huy : ReflTransGen (Step E Z) u (y, dy) := .head hus hsy
    obtain ⟨ih1, ih2⟩ := ih huy
    have hAu : InAn E x y Z u.1 := run_inAn hxu huy
    have hAs : InAn E x y Z s.1 := run_inAn (hxu.tail hus) hsy
    rcases hus with ⟨he, _, huZ⟩ | ⟨he, hs2, h1, h2⟩
    · have med : MEd E x y Z u.1 s.1 := ⟨he, hAu, hAs⟩
      have hMu := ih1 huZ
      exact ⟨fun hsZ => hMu.tail ⟨huZ, hsZ, .inl med⟩, fun _ => ⟨u.1, huZ, hMu, med⟩⟩
    · have med : MEd E x y Z s.1 u.1 := ⟨he, hAs, hAu⟩
      refine ⟨fun hsZ => ?_, fun h => by rw [hs2] at h; cases h⟩
      cases hu : u.2 with
      | false =>
        have huZ := h2 hu
        exact (ih1 huZ).tail ⟨huZ, hsZ, .inr (.inl med)⟩
      | true =>
        obtain ⟨t, htZ, hMt, medt⟩ := ih2 hu
        by_cases hts : t = s.1
        · exact hts ▸ hMt
        · exact hMt.tail ⟨htZ, hsZ, .inr (.inr ⟨hts, u.1, medt, med⟩)⟩

/-- from a node outside `Z` that has a descendant in `Z`: walk down to the first member of `Z` (an active
    collider) and back up; the run returns to the node, now "through an arrow leaving it" -/
theorem run_down_up {b z : Nat} (h : ReflTransGen (edgeRel E) b z) (hz : z ∈ Z) :
    b ∉ Z → ∀ d, ReflTransGen (Step E Z) (b, d) (b, false) := by
  induction h using ReflTransGen.head_induction_on with
  | refl => intro hb; exact absurd hz hb
  | @head b c hbc _ ih =>
    intro hbZ d
    have s1 : Step E Z (b, d) (c, true) := .fwd hbc hbZ
    by_cases hcZ : c ∈ Z
    · have s2 : Step E Z (c, true) (b, false) :=
        .inr ⟨hbc, rfl, fun _ => ⟨c, hcZ, .refl⟩, fun h => by cases h⟩
      exact .head s1 (.single s2)
    · have s3 : Step E Z (c, false) (b, false) := .bwdOut hbc hcZ
      exact .head s1 ((ih hcZ true).tail s3)

/-- an ancestor of `x` that is no ancestor of `Z` is reached from `x` against the arrows -/
theorem run_up {x c : Nat} (h : ReflTransGen (edgeRel E) c x) :
    ¬ AnZ E Z c → ReflTransGen (Step E Z) (x, false) (c, false) := by
  induction h using ReflTransGen.head_induction_on with
  | refl => intro _; exact .refl
  | @head c c' hcc' _ ih =>
    intro hc
    have hc' : ¬ AnZ E Z c' := fun h => hc (anZ_of_edge hcc' h)
    exact (ih hc').tail (.bwdOut hcc' (not_mem_of_not_anZ hc'))

/-- from an ancestor of `y` that is no ancestor of `Z` the run goes down to `y` -/
theorem run_down {y c : Nat} (h : ReflTransGen (edgeRel E) c y) :
    ¬ AnZ E Z c → ∀ d, ∃ d', ReflTransGen (Step E Z) (c, d) (y, d') := by
  induction h using ReflTransGen.head_induction_on with
  | refl => intro _ d; exact ⟨d, .refl⟩
  | @head c c' hcc' _ ih =>
    intro hc d
    have hc' : ¬ AnZ E Z c' := fun h => hc (anZ_of_edge hcc' h)
    obtain ⟨d', h'⟩ := ih hc' true
    exact ⟨d', .head (.fwd hcc' (not_mem_of_not_anZ hc)) h'⟩

/-- a node of the ancestral set outside `Z` that a run has reached in any way is reached "through an arrow leaving
    it" (so that the run can go on in every direction), unless the run can be finished at `y` right away -/
theorem run_fix {x y b : Nat} {d : Bool} (hbZ : b ∉ Z) (hA : InAn E x y Z b)
    (hW : ReflTransGen (Step E Z) (x, false) (b, d)) :
    (∃ d', ReflTransGen (Step E Z) (x, false) (y, d')) ∨ ReflTransGen (Step E Z) (x, false) (b, false) := by
  by_cases hb : AnZ E Z b
  · obtain ⟨z, hz, hr⟩ := hb
    exact .inr (hW.trans (run_down_up hr hz hbZ d))
  · obtain ⟨n, hn, hr⟩ := hA
    rcases hn with rfl | rfl | hnZ
    · exact .inr (run_up hr hb)
    · obtain ⟨d', h⟩ := run_down hr hb d
      exact .inl ⟨d', hW.trans h⟩
    · exact absurd ⟨n, hnZ, hr⟩ hb

/-- (moral connection ⇒ active walk) by induction on the moral path -/
theorem moral_run {x y b : Nat} (h : ReflTransGen (MStep E x y Z) x b) :
    (∃ d', ReflTransGen (Step E Z) (x, false) (y, d')) ∨ ReflTransGen (Step E Z) (x, false) (b, false) := by
  induction h with
  | refl => exact .inr .refl
  | @tail a b _ hab ih =>
    rcases ih with hwin | hWa
    · exact .inl hwin
    obtain ⟨haZ, hbZ, hadj⟩ := hab
    rcases hadj with ⟨he, _, hAb⟩ | ⟨he, _, _⟩ | ⟨_, c, ⟨hac, _, hAc⟩, ⟨hbc, _, _⟩⟩
    · exact run_fix hbZ hAb (hWa.tail (.fwd he haZ))
    · exact .inr (hWa.tail (.bwdOut he haZ))
    · have hWc : ReflTransGen (Step E Z) (x, false) (c, true) := hWa.tail (.fwd hac haZ)
      by_cases hc : AnZ E Z c
      · exact .inr (hWc.tail (.bwdIn hbc hc))
      · have hcZ := not_mem_of_not_anZ hc
        rcases run_fix hcZ hAc hWc with hwin | hWc'
        · exact .inl hwin
        · exact .inr (hWc'.tail (.bwdOut hbc hcZ))

/-- **Runs and the moral graph.**  For `x`, `y` outside `Z`: an active run from `x` to `y` exists iff `x` and `y` are
    connected in the moral graph of the sub-DAG induced by `An({x,y} ∪ Z)` after deleting `Z`. -/
theorem exists_run_iff_moral {x y : Nat} (hy : y ∉ Z) :
    (∃ d, ReflTransGen (Step E Z) (x, false) (y, d)) ↔ ¬ DSepMoral E x y Z := by
  rw [dsepMoral_iff, not_not]
  constructor
  · rintro ⟨d, h⟩
    exact (run_moral (dy := d) h .refl).1 hy
  · intro h
    rcases moral_run h with hwin | hW
    · exact hwin
    · exact ⟨false, hW⟩

end Runs

/-! ### runs with their node list; loop erasure -/

/-- a run from `s` to `t` together with the list of nodes it visits (first `s.1`, last `t.1`) -/
inductive SWalk (E : List Edge) (Z : List Nat) : St → List Nat → St → Prop
  | nil (s : St) : SWalk E Z s [s.1] s
  | cons {s s' t : St} {p : List Nat} : Step E Z s s' → SWalk E Z s' p t → SWalk E Z s (s.1 :: p) t

section Loops
variable {E : List Edge} {Z : List Nat}

theorem SWalk.rtg {s t : St} {p : List Nat} (h : SWalk E Z s p t) : ReflTransGen (Step E Z) s t := by
  induction h with
  | nil => exact .refl
  | cons hst _ ih => exact .head hst ih

theorem SWalk.of_rtg {s t : St} (h : ReflTransGen (Step E Z) s t) : ∃ p, SWalk E Z s p t := by
  induction h using ReflTransGen.head_induction_on with
  | refl => exact ⟨_, .nil _⟩
  | head hst _ ih => obtain ⟨p, hp⟩ := ih; exact ⟨_, .cons hst hp⟩

theorem SWalk.head_eq {s t : St} {p : List Nat} (h : SWalk E Z s p t) : ∃ r, p = s.1 :: r := by
  cases h with
  | nil => exact ⟨[], rfl⟩
  | cons _ _ => exact ⟨_, rfl⟩

theorem SWalk.getLast {s t : St} {p : List Nat} (h : SWalk E Z s p t) : p.getLast? = some t.1 := by
  induction h with
  | nil => rfl
  | cons _ hw ih =>
    obtain ⟨r, rfl⟩ := hw.head_eq
    rw [List.getLast?_cons_cons]; exact ih

theorem SWalk.fromTo {s t : St} {p : List Nat} (h : SWalk E Z s p t) : FromTo p s.1 t.1 := by
  obtain ⟨r, rfl⟩ := h.head_eq
  exact ⟨rfl, h.getLast⟩

/-- a run that arrives through an arrow into its first node and ends through an arrow leaving its last node passes
    an active collider below the first node -/
theorem run_in_out {s t : St} (h : ReflTransGen (Step E Z) s t) : s.2 = true → t.2 = false → AnZ E Z s.1 := by
  induction h using ReflTransGen.head_induction_on with
  | refl => intro h1 h2; rw [h1] at h2; cases h2
  | @head s u hsu _ ih =>
    intro hs ht
    rcases hsu with ⟨he, hu, _⟩ | ⟨_, _, h1, _⟩
    · exact anZ_of_edge he (ih hu ht)
    · exact h1 hs

/-- a non-empty run leaving a node that was entered through an arrow leaving it: the node is not in `Z` -/
theorem run_out_notin {s t : St} (h : TransGen (Step E Z) s t) (hs : s.2 = false) : s.1 ∉ Z := by
  obtain ⟨u, hsu, _⟩ := TransGen.head'_iff.mp h
  rcases hsu with ⟨_, _, h⟩ | ⟨_, _, _, h⟩
  · exact h
  · exact h hs

/-- a loop at the node `v` can be cut out: what may follow the loop may follow its start -/
theorem step_after_loop {v : Nat} {d1 d2 : Bool} {u : St} (hl : TransGen (Step E Z) (v, d1) (v, d2))
    (h : Step E Z (v, d2) u) : Step E Z (v, d1) u := by
  rcases h with ⟨he, hu, hv⟩ | ⟨he, hu, h1, h2⟩
  · exact .inl ⟨he, hu, hv⟩
  · refine .inr ⟨he, hu, fun hd1 => ?_, fun hd1 => ?_⟩
    · cases hd2 : d2 with
      | true => exact h1 hd2
      | false => exact run_in_out hl.to_reflTransGen hd1 hd2
    · exact run_out_notin hl hd1

/-- split a run at a node it visits -/
theorem SWalk.split {s t : St} {p : List Nat} (h : SWalk E Z s p t) {v : Nat} (hv : v ∈ p) :
    ∃ d p3, ReflTransGen (Step E Z) s (v, d) ∧ SWalk E Z (v, d) p3 t ∧ p3 <:+ p := by
  induction h with
  | nil s =>
    have : v = s.1 := by simpa using hv
    subst this
    exact ⟨s.2, [s.1], .refl, .nil s, List.suffix_refl _⟩
  | @cons s s' t p hst hw ih =>
    by_cases hvs : v = s.1
    · subst hvs
      exact ⟨s.2, s.1 :: p, .refl, .cons hst hw, List.suffix_refl _⟩
    · have hv' : v ∈ p := by
        rcases List.mem_cons.mp hv with h | h
        · exact absurd h hvs
        · exact h
      obtain ⟨d, p3, h1, h2, h3⟩ := ih hv'
      exact ⟨d, p3, .head hst h1, h2, h3.trans (List.suffix_cons _ _)⟩

/-- restart a run at the beginning of a loop that ended at its first state -/
theorem SWalk.rehead {v : Nat} {d1 d2 : Bool} {t : St} {p : List Nat} (h : SWalk E Z (v, d2) p t)
    (hl : TransGen (Step E Z) (v, d1) (v, d2)) : ∃ t', t'.1 = t.1 ∧ SWalk E Z (v, d1) p t' := by
  cases h with
  | nil => exact ⟨(v, d1), rfl, .nil (v, d1)⟩
  | cons hst hw => exact ⟨t, rfl, .cons (s := (v, d1)) (step_after_loop hl hst) hw⟩

/-- **Loop erasure.**  A run can be replaced by a run between the same nodes that visits no node twice. -/
theorem SWalk.erase_loops {s t : St} {p : List Nat} (h : SWalk E Z s p t) :
    ∃ p' t', t'.1 = t.1 ∧ SWalk E Z s p' t' ∧ p'.Nodup := by
  induction h with
  | nil s => exact ⟨[s.1], s, rfl, .nil s, by simp⟩
  | @cons s s' t p hst _ ih =>
    obtain ⟨p', t', ht', hw', hnd⟩ := ih
    by_cases hs : s.1 ∈ p'
    · obtain ⟨d, p3, h1, h2, h3⟩ := hw'.split hs
      have hl : TransGen (Step E Z) (s.1, s.2) (s.1, d) := TransGen.head' hst h1
      obtain ⟨t'', ht'', hw''⟩ := h2.rehead hl
      exact ⟨p3, t'', ht''.trans ht', hw'', hnd.sublist h3.sublist⟩
    · exact ⟨s.1 :: p', t', ht', .cons hst hw', List.nodup_cons.mpr ⟨hs, hnd⟩⟩

end Loops

/-! ### walks (lists of nodes) and runs -/

/-- no arrow is present in both directions (in particular no self-loop) — all a DAG is needed for here -/
def NoTwoCycle (E : List Edge) : Prop := ∀ a b, (a, b) ∈ E → (b, a) ∉ E

theorem Acyclic.noTwoCycle {E : List Edge} (h : Acyclic E) : NoTwoCycle E :=
  fun a b h1 h2 => h a (TransGen.head (b := b) h1 (.single h2))

section Bridge
variable {E : List Edge} {Z : List Nat}

theorem not_blockedAt_collider {a b c : Nat} (h : ¬ BlockedAt E Z a b c) (h1 : (a, b) ∈ E) (h2 : (c, b) ∈ E) :
    AnZ E Z b := by
  rw [anZ_iff]
  by_contra hn
  simp only [not_or, not_exists, not_and] at hn
  exact h (.inl ⟨h1, h2, hn.1, hn.2⟩)

theorem not_blockedAt_noncollider {a b c : Nat} (h : ¬ BlockedAt E Z a b c) (h1 : ¬ ((a, b) ∈ E ∧ (c, b) ∈ E)) :
    b ∉ Z := fun hb => h (.inr ⟨h1, hb⟩)

/-- an unblocked walk `a, b, …` read as a run starting at its second node -/
theorem run_of_walk_aux (h2c : NoTwoCycle E) {y : Nat} (r : List Nat) : ∀ a b : Nat, IsWalk E (a :: b :: r) →
    ¬ Blocked E Z (a :: b :: r) → (a :: b :: r).getLast? = some y →
    ∃ d', ReflTransGen (Step E Z) (b, decide ((a, b) ∈ E)) (y, d') := by
  induction r with
  | nil =>
    intro a b _ _ hl
    have : b = y := by simpa using hl
    subst this
    exact ⟨_, .refl⟩
  | cons c r ih =>
    intro a b hw hb hl
    obtain ⟨hab, hbc, hw'⟩ : Adj E a b ∧ Adj E b c ∧ IsWalk E (c :: r) := hw
    have hb1 : ¬ BlockedAt E Z a b c := fun h => hb (.inl h)
    have hb2 : ¬ Blocked E Z (b :: c :: r) := fun h => hb (.inr h)
    rw [List.getLast?_cons_cons] at hl
    obtain ⟨d', hrun⟩ := ih b c ⟨hbc, hw'⟩ hb2 hl
    refine ⟨d', .head ?_ hrun⟩
    by_cases hbc' : (b, c) ∈ E
    · have hnc : ¬ ((a, b) ∈ E ∧ (c, b) ∈ E) := fun h => h2c _ _ hbc' h.2
      exact .inl ⟨hbc', by simp [hbc'], not_blockedAt_noncollider hb1 hnc⟩
    · have hcb : (c, b) ∈ E := hbc.resolve_left hbc'
      refine .inr ⟨hcb, by simp [hbc'], fun h => ?_, fun h => ?_⟩
      · have hab' : (a, b) ∈ E := by simpa using h
        exact not_blockedAt_collider hb1 hab' hcb
      · have hab' : (a, b) ∉ E := by simpa using h
        exact not_blockedAt_noncollider hb1 (fun h => hab' h.1)

/-- an unblocked walk from `x ∉ Z` to `y` is a run -/
theorem run_of_walk (h2c : NoTwoCycle E) {x y : Nat} (hx : x ∉ Z) {p : List Nat} (hw : IsWalk E p)
    (hft : FromTo p x y) (hb : ¬ Blocked E Z p) : ∃ d, ReflTransGen (Step E Z) (x, false) (y, d) := by
  obtain ⟨hh, hl⟩ := hft
  match p, hh with
  | [a], hh =>
    have h1 : a = x := by simpa using hh
    have h2 : a = y := by simpa using hl
    subst h1; subst h2
    exact ⟨false, .refl⟩
  | a :: b :: r, hh =>
    have h1 : a = x := by simpa using hh
    subst h1
    obtain ⟨d', hrun⟩ := run_of_walk_aux h2c r a b hw hb hl
    refine ⟨d', .head ?_ hrun⟩
    by_cases hab : (a, b) ∈ E
    · exact .inl ⟨hab, by simp [hab], hx⟩
    · exact .inr ⟨hw.1.resolve_left hab, by simp [hab], fun h => Bool.noConfusion h, fun _ => hx⟩

/-- the node list of a run is an unblocked walk, and stays unblocked when a node is put in front from which the
    run's first node is entered in the recorded way -/
theorem SWalk.list_facts (h2c : NoTwoCycle E) {s t : St} {p : List Nat} (h : SWalk E Z s p t) :
    IsWalk E p ∧ ¬ Blocked E Z p ∧ ∀ a, decide ((a, s.1) ∈ E) = s.2 → ¬ Blocked E Z (a :: p) := by
  induction h with
  | nil s => exact ⟨trivial, fun h => h, fun _ _ h => h⟩
  | @cons s s' t p hst hw ih =>
    obtain ⟨r, rfl⟩ := hw.head_eq
    obtain ⟨ih1, _, ih3⟩ := ih
    have hadj : Adj E s.1 s'.1 := by
      rcases hst with ⟨he, _, _⟩ | ⟨he, _, _, _⟩
      · exact .inl he
      · exact .inr he
    have hdir : decide ((s.1, s'.1) ∈ E) = s'.2 := by
      rcases hst with ⟨he, h, _⟩ | ⟨he, h, _, _⟩
      · rw [h]; simpa using he
      · rw [h]; simpa using h2c _ _ he
    have hnb : ¬ Blocked E Z (s.1 :: s'.1 :: r) := ih3 s.1 hdir
    refine ⟨⟨hadj, ih1⟩, hnb, fun a ha => ?_⟩
    rintro (hb | hb)
    · rcases hst with ⟨he, _, hsZ⟩ | ⟨he, _, h1, h2⟩
      · rcases hb with ⟨_, hc, _, _⟩ | ⟨_, hz⟩
        · exact h2c _ _ he hc
        · exact hsZ hz
      · rcases hb with ⟨hc1, _, hz, hdz⟩ | ⟨hnc, hz⟩
        · have hs2 : s.2 = true := by rw [← ha]; simpa using hc1
          rcases anZ_iff.mp (h1 hs2) with h | ⟨d, hd, hdZ⟩
          · exact hz h
          · exact hdz d hd hdZ
        · have hs2 : s.2 = false := by
            rw [← ha]
            simp only [decide_eq_false_iff_not]
            exact fun h => hnc ⟨h, he⟩
          exact h2 hs2 hz
    · exact hnb hb

end Bridge

/-! ### the theorem: moral-graph criterion ⇔ path blocking (walks, and simple paths) -/

section Main
variable {E : List Edge} {Z : List Nat}

/-- **Lauritzen–Dawid–Larsen–Leimer.**  In a DAG, for `x`, `y` outside `Z`: `x` and `y` are separated by `Z` in the
    moral graph of the ancestral set iff every walk between them is blocked by `Z`. -/
theorem dsepMoral_iff_walks (hac : Acyclic E) {x y : Nat} (hx : x ∉ Z) (hy : y ∉ Z) :
    DSepMoral E x y Z ↔ DSepWalks E x y Z := by
  constructor
  · intro hm p hw hft
    by_contra hb
    exact ((exists_run_iff_moral hy).mp (run_of_walk hac.noTwoCycle hx hw hft hb)) hm
  · intro hd
    by_contra hm
    obtain ⟨d, hrun⟩ := (exists_run_iff_moral hy).mpr hm
    obtain ⟨p, hp⟩ := SWalk.of_rtg hrun
    exact (hp.list_facts hac.noTwoCycle).2.1 (hd p (hp.list_facts hac.noTwoCycle).1 hp.fromTo)

/-- … iff every *path* (no repeated node) between them is blocked by `Z`: an unblocked walk can be shortened to
    an unblocked path -/
theorem dsepMoral_iff_paths (hac : Acyclic E) {x y : Nat} (hx : x ∉ Z) (hy : y ∉ Z) :
    DSepMoral E x y Z ↔ DSepPaths E x y Z := by
  constructor
  · intro hm p hw hft _
    exact (dsepMoral_iff_walks hac hx hy).mp hm p hw hft
  · intro hd
    by_contra hm
    obtain ⟨d, hrun⟩ := (exists_run_iff_moral hy).mpr hm
    obtain ⟨p, hp⟩ := SWalk.of_rtg hrun
    obtain ⟨p', t', ht', hp', hnd⟩ := hp.erase_loops
    have hft : FromTo p' x y := by have := hp'.fromTo; rwa [ht'] at this
    exact (hp'.list_facts hac.noTwoCycle).2.1 (hd p' (hp'.list_facts hac.noTwoCycle).1 hft hnd)

theorem dsepWalks_iff_paths (hac : Acyclic E) {x y : Nat} (hx : x ∉ Z) (hy : y ∉ Z) :
    DSepWalks E x y Z ↔ DSepPaths E x y Z :=
  (dsepMoral_iff_walks hac hx hy).symm.trans (dsepMoral_iff_paths hac hx hy)

end Main

/-! ### the executable path enumeration of `Model/Dag.lean` -/

section Exec
variable {E : List Edge} {Z : List Nat}

theorem blockedAt_iff {a b c : Nat} : blockedAt E Z a b c = true ↔ BlockedAt E Z a b c := by
  unfold blockedAt BlockedAt hasEdge
  by_cases h : (a, b) ∈ E ∧ (c, b) ∈ E
  · have h' : (E.contains (a, b) && E.contains (c, b)) = true := by simp [h.1, h.2]
    rw [if_pos h']
    simp only [Bool.not_eq_true', Bool.or_eq_false_iff, List.contains_eq_mem, decide_eq_false_iff_not,
      List.any_eq_false, mem_desc, decide_eq_true_eq]
    constructor
    · rintro ⟨h1, h2⟩; exact .inl ⟨h.1, h.2, h1, h2⟩
    · rintro (⟨_, _, h1, h2⟩ | ⟨hn, _⟩)
      · exact ⟨h1, h2⟩
      · exact absurd h hn
  · have h' : ¬ (E.contains (a, b) && E.contains (c, b)) = true := by simpa using h
    rw [if_neg h']
    simp only [List.contains_eq_mem, decide_eq_true_eq]
    constructor
    · intro hb; exact .inr ⟨h, hb⟩
    · rintro (⟨h1, h2, _, _⟩ | ⟨_, hb⟩)
      · exact absurd ⟨h1, h2⟩ h
      · exact hb

theorem pathBlocked_iff (p : List Nat) : pathBlocked E Z p = true ↔ Blocked E Z p := by
  match p with
  | [] => simp [pathBlocked, Blocked]
  | [_] => simp [pathBlocked, Blocked]
  | [_, _] => simp [pathBlocked, Blocked]
  | a :: b :: c :: r =>
    simp only [pathBlocked, Blocked, Bool.or_eq_true, blockedAt_iff, pathBlocked_iff (b :: c :: r)]

theorem mem_nbrs {cur w : Nat} :
    w ∈ dedup ((E.filter (fun e => e.1 == cur)).map (·.2) ++ (E.filter (fun e => e.2 == cur)).map (·.1)) ↔
      Adj E cur w := by
  simp only [mem_dedup, List.mem_append, List.mem_map, List.mem_filter, beq_iff_eq, Adj]
  constructor
  · rintro (⟨⟨a, b⟩, ⟨he, h1⟩, h2⟩ | ⟨⟨a, b⟩, ⟨he, h1⟩, h2⟩)
    · simp only at h1 h2; subst h1; subst h2; exact .inl he
    · simp only at h1 h2; subst h1; subst h2; exact .inr he
  · rintro (h | h)
    · exact .inl ⟨(cur, w), ⟨h, rfl⟩, rfl⟩
    · exact .inr ⟨(w, cur), ⟨h, rfl⟩, rfl⟩

/-- everything `simplePaths` lists is a walk from the current node to the target -/
theorem simplePaths_sound {t : Nat} (fuel : Nat) : ∀ (cur : Nat) (vis p : List Nat),
    p ∈ simplePaths E t fuel cur vis → IsWalk E p ∧ FromTo p cur t := by
  induction fuel with
  | zero => intro cur vis p h; simp [simplePaths] at h
  | succ fuel ih =>
    intro cur vis p h
    unfold simplePaths at h
    split at h
    · rename_i hc
      have hc' : cur = t := by simpa using hc
      have : p = [t] := by simpa using h
      subst this; subst hc'
      exact ⟨trivial, rfl, rfl⟩
    · simp only [List.mem_flatMap, List.mem_filter, List.mem_map] at h
      obtain ⟨w, ⟨hw, _⟩, q, hq, rfl⟩ := h
      obtain ⟨hq1, hq2, hq3⟩ := ih w (cur :: vis) q hq
      match q, hq2 with
      | a :: r, hq2 =>
        have : a = w := by simpa using hq2
        subst this
        exact ⟨⟨mem_nbrs.mp hw, hq1⟩, rfl, by rw [List.getLast?_cons_cons]; exact hq3⟩

/-- `simplePaths` lists every simple path that avoids the visited nodes and fits into the fuel -/
theorem simplePaths_complete {t : Nat} (fuel : Nat) : ∀ (cur : Nat) (vis p : List Nat),
    IsWalk E p → FromTo p cur t → p.Nodup → (∀ v ∈ p, v ∉ vis) → p.length ≤ fuel →
    p ∈ simplePaths E t fuel cur vis := by
  induction fuel with
  | zero =>
    intro cur vis p _ hft _ _ hlen
    have : p = [] := List.length_eq_zero_iff.mp (Nat.le_zero.mp hlen)
    subst this
    simp [FromTo] at hft
  | succ fuel ih =>
    intro cur vis p hw hft hnd hvis hlen
    obtain ⟨hh, hl⟩ := hft
    unfold simplePaths
    match p, hh with
    | [a], hh =>
      have h1 : a = cur := by simpa using hh
      have h2 : a = t := by simpa using hl
      subst h1; subst h2
      simp
    | a :: w :: r, hh =>
      have h1 : a = cur := by simpa using hh
      subst h1
      rw [List.getLast?_cons_cons] at hl
      have hat : a ≠ t := by
        rintro rfl
        have : a ∈ w :: r := List.mem_of_getLast? hl
        exact (List.nodup_cons.mp hnd).1 this
      rw [if_neg (by simpa using hat)]
      simp only [List.mem_flatMap, List.mem_filter, List.mem_map]
      have hwa : w ≠ a := fun h => (List.nodup_cons.mp hnd).1 (h ▸ List.mem_cons_self ..)
      refine ⟨w, ⟨mem_nbrs.mpr hw.1, ?_⟩, w :: r, ?_, rfl⟩
      · have := hvis w (by simp)
        simp [hwa, this]
      · apply ih w (a :: vis) (w :: r) hw.2 ⟨rfl, hl⟩ (List.nodup_cons.mp hnd).2
        · intro v hv hv'
          rcases List.mem_cons.mp hv' with h | h
          · exact (List.nodup_cons.mp hnd).1 (h ▸ hv)
          · exact hvis v (List.mem_cons_of_mem _ hv) h
        · simpa using hlen

/-- with enough fuel, `simplePaths … x []` lists exactly the simple paths from `x` to `t` -/
theorem mem_simplePaths {t x : Nat} {fuel : Nat} {p : List Nat} (hlen : p.Nodup → IsWalk E p → p.length ≤ fuel) :
    p ∈ simplePaths E t fuel x [] ∧ p.Nodup ↔ IsWalk E p ∧ FromTo p x t ∧ p.Nodup := by
  constructor
  · rintro ⟨h, hnd⟩
    obtain ⟨h1, h2⟩ := simplePaths_sound fuel x [] p h
    exact ⟨h1, h2, hnd⟩
  · rintro ⟨h1, h2, hnd⟩
    exact ⟨simplePaths_complete fuel x [] p h1 h2 hnd (by simp) (hlen hnd h1), hnd⟩

/-- the executable `dsepPaths` decides `DSepPaths` once the fuel covers the longest simple path; given acyclicity and
    endpoints outside `Z` it then also decides `DSepWalks` -/
theorem dsepPaths_iff {x y n : Nat} (hlen : ∀ p, p.Nodup → IsWalk E p → p.length ≤ n + 1)
    (hac : Acyclic E) (hx : x ∉ Z) (hy : y ∉ Z) :
    dsepPaths n E x y Z = true ↔ DSepPaths E x y Z := by
  unfold dsepPaths
  rw [List.all_eq_true]
  constructor
  · intro h p hw hft hnd
    exact (pathBlocked_iff p).mp (h p (simplePaths_complete _ x [] p hw hft hnd (by simp) (hlen p hnd hw)))
  · intro h p hp
    obtain ⟨h1, h2⟩ := simplePaths_sound _ x [] p hp
    exact (pathBlocked_iff p).mpr ((dsepWalks_iff_paths hac hx hy).mpr h p h1 h2)

/-- nodes of a walk with at least one step are end points of arrows -/
theorem walk_nodes {p : List Nat} (hw : IsWalk E p) (hlen : 2 ≤ p.length) :
    ∀ v ∈ p, ∃ e ∈ E, v = e.1 ∨ v = e.2 := by
  match p, hw, hlen with
  | [a, b], hw, _ =>
    intro v hv
    simp only [List.mem_cons, List.not_mem_nil, or_false] at hv
    rcases hw.1 with h | h <;> rcases hv with rfl | rfl
    · exact ⟨_, h, .inl rfl⟩
    · exact ⟨_, h, .inr rfl⟩
    · exact ⟨_, h, .inr rfl⟩
    · exact ⟨_, h, .inl rfl⟩
  | a :: b :: c :: r, hw, _ =>
    intro v hv
    rcases List.mem_cons.mp hv with rfl | hv
    · rcases hw.1 with h | h
      · exact ⟨_, h, .inl rfl⟩
      · exact ⟨_, h, .inr rfl⟩
    · exact walk_nodes hw.2 (by simp) v hv

/-- a simple path in (a sub-list of) the arrows of a well-formed graph has at most as many nodes as the graph (+1
    covers the one-node path of a node that is not in the graph) -/
theorem simple_path_length {G : Graph} (hwf : G.WF) {E' : List Edge} (hE : ∀ e ∈ E', e ∈ G.edges) {p : List Nat}
    (hnd : p.Nodup) (hw : IsWalk E' p) : p.length ≤ G.nodes.length + 1 := by
  by_cases hlen : 2 ≤ p.length
  · have hsub : p ⊆ G.nodes := by
      intro v hv
      obtain ⟨e, he, h⟩ := walk_nodes hw hlen v hv
      rcases h with rfl | rfl
      · exact (hwf e (hE e he)).1
      · exact (hwf e (hE e he)).2
    exact Nat.le_succ_of_le (List.subperm_of_subset hnd hsub).length_le
  · omega

end Exec

/-! ### back-door paths: paths of the full graph whose first arrow points into `x` -/

/-- the path starts `x, b, …` with the arrow `b → x` -/
def IsBackdoor (E : List Edge) (x : Nat) (p : List Nat) : Prop := ∃ b r, p = x :: b :: r ∧ (b, x) ∈ E

/-- every back-door path from `x` to `y` (a path of `E` without repeated node whose first arrow points into `x`) is
    blocked by `Z` — blocking judged in the full graph `E` -/
def BackdoorBlocked (E : List Edge) (x y : Nat) (Z : List Nat) : Prop :=
  ∀ p, IsWalk E p → FromTo p x y → p.Nodup → IsBackdoor E x p → Blocked E Z p

/-- the graph without the arrows leaving `x` -/
abbrev cutOut (E : List Edge) (x : Nat) : List Edge := E.filter (fun e => e.1 != x)

section Backdoor
variable {E : List Edge} {Z : List Nat} {x : Nat}

/-- the graph without the arrows leaving `x` -/
local notation "Ex" => cutOut E x

theorem mem_filter_out {a b : Nat} : (a, b) ∈ Ex ↔ (a, b) ∈ E ∧ a ≠ x := by
  simp [cutOut, List.mem_filter]

/-- a directed path either avoids the arrows leaving `x` or passes through `x` -/
theorem rtg_filter_out {v d : Nat} (h : ReflTransGen (edgeRel E) v d) :
    ReflTransGen (edgeRel Ex) v d ∨ ReflTransGen (edgeRel E) x d := by
  induction h using ReflTransGen.head_induction_on with
  | refl => exact .inl .refl
  | @head a b hab hbd ih =>
    by_cases ha : a = x
    · exact .inr (ha ▸ .head hab hbd)
    · rcases ih with h | h
      · exact .inl (.head (mem_filter_out.mpr ⟨hab, ha⟩) h)
      · exact .inr h

theorem desc_filter_out (hx : x ∉ Z) (hnd : ∀ z ∈ Z, ¬ IsDesc E x z) {v : Nat} :
    (∀ d, IsDesc E v d → d ∉ Z) ↔ (∀ d, IsDesc Ex v d → d ∉ Z) := by
  constructor
  · intro h d hd
    exact h d ⟨hd.1, rtg_mono (fun e he => (List.mem_filter.mp he).1) hd.2⟩
  · intro h d hd hdZ
    rcases rtg_filter_out (x := x) hd.2 with h' | h'
    · exact h d ⟨hd.1, h'⟩ hdZ
    · exact hnd d hdZ ⟨fun hdx => hx (hdx ▸ hdZ), h'⟩

theorem blockedAt_filter_out (hx : x ∉ Z) (hnd : ∀ z ∈ Z, ¬ IsDesc E x z) {a v c : Nat}
    (ha : (a, v) ∈ E ↔ (a, v) ∈ Ex) (hc : c ≠ x) : BlockedAt E Z a v c ↔ BlockedAt Ex Z a v c := by
  have hc' : (c, v) ∈ E ↔ (c, v) ∈ Ex := by rw [mem_filter_out]; tauto
  unfold BlockedAt
  rw [← ha, ← hc', desc_filter_out hx hnd]

theorem blocked_filter_out (hx : x ∉ Z) (hnd : ∀ z ∈ Z, ¬ IsDesc E x z) (q : List Nat) : x ∉ q →
    ∀ a, (∀ v, q.head? = some v → ((a, v) ∈ E ↔ (a, v) ∈ Ex)) → (Blocked E Z (a :: q) ↔ Blocked Ex Z (a :: q)) := by
  induction q with
  | nil => intro _ a _; exact Iff.rfl
  | cons v r ih =>
    intro hxq a ha
    match r, ih with
    | [], _ => exact Iff.rfl
    | c :: r, ih =>
      have hvx : v ≠ x := fun h => hxq (h ▸ List.mem_cons_self ..)
      have hcx : c ≠ x := fun h => hxq (h ▸ List.mem_cons_of_mem _ (List.mem_cons_self ..))
      have ih' := ih (fun h => hxq (List.mem_cons_of_mem _ h)) v (by
        intro w hw
        have : c = w := by simpa using hw
        subst this
        rw [mem_filter_out]; tauto)
      show BlockedAt E Z a v c ∨ Blocked E Z (v :: c :: r) ↔ BlockedAt Ex Z a v c ∨ Blocked Ex Z (v :: c :: r)
      rw [blockedAt_filter_out hx hnd (ha v rfl) hcx, ih']

theorem isWalk_filter_out (q : List Nat) : x ∉ q → IsWalk E q → IsWalk Ex q := by
  induction q with
  | nil => intro _ _; trivial
  | cons a r ih =>
    intro hxq hw
    match r, ih, hw with
    | [], _, _ => trivial
    | b :: r, ih, hw =>
      have hax : a ≠ x := fun h => hxq (h ▸ List.mem_cons_self ..)
      have hbx : b ≠ x := fun h => hxq (h ▸ List.mem_cons_of_mem _ (List.mem_cons_self ..))
      refine ⟨?_, ih (fun h => hxq (List.mem_cons_of_mem _ h)) hw.2⟩
      rcases hw.1 with h | h
      · exact .inl (mem_filter_out.mpr ⟨h, hax⟩)
      · exact .inr (mem_filter_out.mpr ⟨h, hbx⟩)

theorem isWalk_mono {E' : List Edge} (hE : ∀ e ∈ E', e ∈ E) (q : List Nat) : IsWalk E' q → IsWalk E q := by
  induction q with
  | nil => intro _; trivial
  | cons a r ih =>
    intro hw
    match r, ih, hw with
    | [], _, _ => trivial
    | b :: r, ih, hw =>
      refine ⟨?_, ih hw.2⟩
      rcases hw.1 with h | h
      · exact .inl (hE _ h)
      · exact .inr (hE _ h)

/-- **Back-door paths.**  Provided `Z` holds no descendant of `x`: the paths from `x` in the graph without the arrows
    leaving `x` are the back-door paths of the full graph, and `Z` blocks one in the one graph iff in the other. -/
theorem dsepPaths_filter_iff_backdoor (hac : Acyclic E) {y : Nat} (hxy : x ≠ y) (hx : x ∉ Z)
    (hnd : ∀ z ∈ Z, ¬ IsDesc E x z) : DSepPaths Ex x y Z ↔ BackdoorBlocked E x y Z := by
  have hsub : ∀ e ∈ Ex, e ∈ E := fun e he => (List.mem_filter.mp he).1
  constructor
  · rintro h p hw hft hnodup ⟨b, r, rfl, hbx⟩
    have hxq : x ∉ b :: r := (List.nodup_cons.mp hnodup).1
    have hbx' : b ≠ x := fun h => hxq (h ▸ List.mem_cons_self ..)
    have hw' : IsWalk Ex (x :: b :: r) :=
      ⟨.inr (mem_filter_out.mpr ⟨hbx, hbx'⟩), isWalk_filter_out _ hxq hw.2⟩
    have hhead : ∀ v, (b :: r).head? = some v → ((x, v) ∈ E ↔ (x, v) ∈ Ex) := by
      intro v hv
      have : b = v := by simpa using hv
      subst this
      rw [mem_filter_out]
      exact ⟨fun h' => absurd hbx (hac.noTwoCycle _ _ h'), fun h' => h'.1⟩
    exact (blocked_filter_out hx hnd _ hxq x hhead).mpr (h _ hw' hft hnodup)
  · intro h p hw hft hnodup
    obtain ⟨hh, hl⟩ := hft
    match p, hh with
    | [a], hh =>
      have h1 : a = x := by simpa using hh
      have h2 : a = y := by simpa using hl
      exact absurd (h1.symm.trans h2) hxy
    | a :: b :: r, hh =>
      have h1 : a = x := by simpa using hh
      subst h1
      have hxq : a ∉ b :: r := (List.nodup_cons.mp hnodup).1
      have hba : (b, a) ∈ E := by
        rcases hw.1 with h' | h'
        · exact absurd rfl (mem_filter_out.mp h').2
        · exact (mem_filter_out.mp h').1
      have hhead : ∀ v, (b :: r).head? = some v → ((a, v) ∈ E ↔ (a, v) ∈ cutOut E a) := by
        intro v hv
        have : b = v := by simpa using hv
        subst this
        rw [mem_filter_out]
        exact ⟨fun h' => absurd hba (hac.noTwoCycle _ _ h'), fun h' => h'.1⟩
      exact (blocked_filter_out hx hnd _ hxq a hhead).mp
        (h _ (isWalk_mono hsub _ hw) ⟨rfl, hl⟩ hnodup ⟨b, r, rfl, hba⟩)

end Backdoor

end ZV.Dag
