/- Bridge: the generated `Gen.aipw_calc` (`aipw_calculator`, splits=None) = the model's pseudo-outcome means. -/
import ZepidVerif.Gen.Fit
import ZepidVerif.Lemmas.FitBridge
namespace ZV.Std
open ZV
set_option linter.unusedSectionVars false
variable {F : Type} [Field F] [LinearOrder F] [IsStrictOrderedRing F] [Transc F]

/-- the point estimate of the generated `aipw_calculator` (no missing outcome) is the difference / ratio of the
    model's two pseudo-outcome means -/
theorem aipw_calc_eq (difference hasWeights : Bool) (nanv : F) (l : List (Row F)) (hobs : ∀ r ∈ l, r.obs = true)
    (hw : hasWeights = false → ∀ r ∈ l, r.w = 1) (py_a py_n pa1 pa0 : Row F → F) :
    let Q : Row F → Bool → F := fun r a => if a then py_a r else py_n r
    (Gen.aipw_calc difference hasWeights nanv l py_a py_n pa1 pa0).1
      = if difference then aipw1 l Q pa1 pa0 - aipw0 l Q pa1 pa0 else aipw1 l Q pa1 pa0 / aipw0 l Q pa1 pa0 := by
  intro Q
  have hy1 : ∀ r, Gen.aipw_y1 r.a r.y (Q r true) (Q r false) (pa1 r) (pa0 r)
      = (if r.a = true then (r.y - py_a r * (1 - pa1 r)) / pa1 r else py_a r) := by
    intro r; simp [Gen.aipw_y1, Q]
  have hy0 : ∀ r, Gen.aipw_y0 r.a r.y (Q r true) (Q r false) (pa1 r) (pa0 r)
      = (if r.a = false then (r.y - py_n r * (1 - pa0 r)) / pa0 r else py_n r) := by
    intro r; simp [Gen.aipw_y0, Q]
  unfold aipw1 aipw0 wmean
  simp only [hy1, hy0]
  cases difference <;> cases hasWeights <;>
    simp only [Gen.aipw_calc, nanmeanBy, Bool.false_eq_true, Bool.true_eq_false, if_false, if_true, reduceIte]
  · -- ratio, unweighted
    have hw' := hw rfl
    simp only [Nat.cast_one, Nat.cast_zero]
    congr 1 <;> congr 1 <;> apply sumBy_congr <;> intro r hr <;> cases ha : r.a <;> simp [ha, hobs r hr, hw' r hr]
  · -- ratio, weighted
    simp only [Nat.cast_one, Nat.cast_zero]
    congr 1 <;> congr 1 <;> apply sumBy_congr <;> intro r hr <;> cases ha : r.a <;> simp [ha, hobs r hr]
  · -- difference, unweighted
    have hw' := hw rfl
    simp only [Nat.cast_one, Nat.cast_zero]
    rw [← sub_div, ← sumBy_sub]
    congr 1 <;> apply sumBy_congr <;> intro r hr <;> cases ha : r.a <;> simp [ha, hobs r hr, hw' r hr]
  · -- difference, weighted
    simp only [Nat.cast_one, Nat.cast_zero]
    rw [← sub_div, ← sumBy_sub]
    congr 1 <;> apply sumBy_congr <;> intro r hr <;> cases ha : r.a <;> simp [ha, hobs r hr] <;> ring

end ZV.Std
