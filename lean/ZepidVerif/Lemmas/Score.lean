/-
Helper lemmas for targeted estimators (TMLE) on the `Model/Std.lean` vocabulary.

* `gformula_of_score`: if the targeted predictions `Qs` (a function of the stratum) solve the
  weighted score equation of arm `a`, `Σ_{A=a, observed} ω·w·(y − Qs) = 0`, and the weights `ω`
  balance every stratum to the target (what a saturated treatment / missingness model gives), then
  the plug-in mean of `Qs` over the target is the standardized mean — whatever the initial outcome
  model was.
* `score_strictAnti` / `score_root_unique`: the one-parameter logistic fluctuation score
  `ε ↦ Σ h·(y − σ(o + ε·h))` is strictly antitone for strictly increasing `σ` and positive `h`,
  so it has at most one root.
-/
import ZepidVerif.Lemmas.GFormula
import Mathlib.Order.Monotone.Basic
namespace ZV.Std
open ZV
set_option linter.unusedSectionVars false
variable {F : Type} [Field F] [LinearOrder F] [IsStrictOrderedRing F]

theorem gformula_of_score (l : List (Row F)) (S : List Nat) (hS : Strata l S) (hpos : Positivity l S)
    (tm : Row F → Bool) (a : Bool) (Qs : Nat → Bool → F) (ω : Row F → F) (Ω : Nat → F) (c : F) (hc : c ≠ 0)
    (hω : ∀ r ∈ l, r.a = a → r.obs = true → ω r = Ω r.s)
    (hbal : ∀ s ∈ S, Ω s * W (inCell s a) l = c * Ntgt tm l s)
    (hscore : sumIf (fun r => r.a == a && r.obs) (fun r => ω r * (r.w * (r.y - Qs r.s a))) l = 0) :
    gformula l (fun r => Qs r.s) tm a = std l S tm a := by
  -- the score equation, regrouped: Σ_s c·Ntgt(s)·(ȳ_s − Qs s) = 0
  have h1 := sumIf_arm_regroup l S hS.1 hS.2 a ω Ω hω (fun r => r.w * (r.y - Qs r.s a))
  rw [hscore] at h1
  have h2 : sumBy (fun s => Ω s * sumIf (inCell s a) (fun r => r.w * (r.y - Qs r.s a)) l) S
      = c * (sumBy (fun s => Ntgt tm l s * cellMean l s a) S - sumBy (fun s => Ntgt tm l s * Qs s a) S) := by
    rw [← sumBy_sub, ← sumBy_mul_left]
    apply sumBy_congr; intro s hs
    have hW := (hpos.cell_pos hs a).ne'
    have : sumIf (inCell s a) (fun r => r.w * (r.y - Qs r.s a)) l
        = WY (inCell s a) l - Qs s a * W (inCell s a) l := by
      unfold WY W
      have : sumIf (inCell s a) (fun r => r.w * (r.y - Qs r.s a)) l
          = sumIf (inCell s a) (fun r => r.w * r.y + (-(Qs s a)) * r.w) l := by
        apply sumIf_congr; intro r _
        by_cases h : r.s = s
        · subst h; split <;> ring
        · simp [inCell, h]
      rw [this, sumIf_add, sumIf_mul_left]; ring
    rw [this, WY_eq l s a hW]
    have hb := hbal s hs
    calc Ω s * (W (inCell s a) l * cellMean l s a - Qs s a * W (inCell s a) l)
        = (Ω s * W (inCell s a) l) * (cellMean l s a - Qs s a) := by ring
      _ = c * (Ntgt tm l s * cellMean l s a - Ntgt tm l s * Qs s a) := by rw [hb]; ring
  have h3 : sumBy (fun s => Ntgt tm l s * cellMean l s a) S = sumBy (fun s => Ntgt tm l s * Qs s a) S := by
    have e : c * (sumBy (fun s => Ntgt tm l s * cellMean l s a) S - sumBy (fun s => Ntgt tm l s * Qs s a) S) = 0 :=
      h2.symm.trans h1.symm
    exact sub_eq_zero.mp ((mul_eq_zero.mp e).resolve_left hc)
  unfold gformula std
  have hnum : sumIf tm (fun r => r.w * Qs r.s a) l = sumBy (fun s => Ntgt tm l s * Qs s a) S := by
    rw [sumIf_regroup S hS.1 l hS.2]
    apply sumBy_congr; intro s _
    unfold Ntgt W
    rw [mul_comm, ← sumIf_mul_left]
    apply sumIf_congr; intro r _
    by_cases h : r.s = s
    · subst h; simp [inStratum, mul_comm]
    · simp [inStratum, h]
  have hden : W tm l = sumBy (fun s => Ntgt tm l s) S := by
    unfold W Ntgt W; rw [sumIf_regroup S hS.1 l hS.2]
  rw [hnum, hden, h3]

/-- the fluctuation score in one parameter is strictly decreasing -/
theorem score_strictAnti {α : Type} (σ : F → F) (hσ : StrictMono σ) (l : List α) (h o y : α → F)
    (hh : ∀ x ∈ l, 0 ≤ h x) (x₀ : α) (hx₀ : x₀ ∈ l) (hpos : 0 < h x₀) :
    StrictAnti (fun ε => sumBy (fun x => h x * (y x - σ (o x + ε * h x))) l) := by
  intro ε₁ ε₂ hlt
  show sumBy (fun x => h x * (y x - σ (o x + ε₂ * h x))) l < sumBy (fun x => h x * (y x - σ (o x + ε₁ * h x))) l
  rw [← sub_pos, ← sumBy_sub]
  refine sumBy_pos ?_ x₀ hx₀ ?_
  · intro x hx
    have hx' := hh x hx
    have : σ (o x + ε₁ * h x) ≤ σ (o x + ε₂ * h x) :=
      hσ.monotone (by nlinarith)
    nlinarith
  · have : σ (o x₀ + ε₁ * h x₀) < σ (o x₀ + ε₂ * h x₀) := hσ (by nlinarith)
    nlinarith

theorem score_root_unique {α : Type} (σ : F → F) (hσ : StrictMono σ) (l : List α) (h o y : α → F)
    (hh : ∀ x ∈ l, 0 ≤ h x) (x₀ : α) (hx₀ : x₀ ∈ l) (hpos : 0 < h x₀) (ε₁ ε₂ : F)
    (h1 : sumBy (fun x => h x * (y x - σ (o x + ε₁ * h x))) l = 0)
    (h2 : sumBy (fun x => h x * (y x - σ (o x + ε₂ * h x))) l = 0) : ε₁ = ε₂ :=
  (score_strictAnti σ hσ l h o y hh x₀ hx₀ hpos).injective (h1.trans h2.symm)

end ZV.Std
