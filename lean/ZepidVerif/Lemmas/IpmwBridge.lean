/-
Bridge: the definitions regenerated from the text of `IPMW._monotone_variables`, `IPMW._single_variable` and `IPMW.fit`
(`Gen/Ipmw.lean`) compute the hand model's `Ipmw.weight` along the fitted variables (`fitted`: the first variable, and
every later one that is not uniformly missing with its predecessor) resp. along the single variable 0.
Helper lemmas; the audited statements are in `Props/C05_Ipmw.lean`.
-/
import ZepidVerif.Gen.Ipmw
import ZepidVerif.Lemmas.Ipmw
namespace ZV.Ipmw
open ZV
set_option linter.unusedSectionVars false
set_option linter.unusedVariables false
set_option linter.unusedSimpArgs false
set_option linter.unusedTactic false
set_option linter.unreachableTactic false
variable {F : Type} [Field F] [LinearOrder F] [IsStrictOrderedRing F] [Transc F]

theorem nan_mul_eq_optMul (x y : Option F) : Nan.mul x y = optMul x y := by
  cases x <;> cases y <;> rfl

theorem optMul_comm (x y : Option F) : optMul x y = optMul y x := by
  cases x <;> cases y <;> simp [optMul, mul_comm]

/-- one pass of the loop over the listed variables, as the model sees it: a variable that is kept (`q`) multiplies its
    predictions into the running products, a skipped one (`continue`) leaves them alone -/
def stepSpec (stab : Bool) (q : Nat → Bool) (n d : Nat → Nat → Option F) (i : Nat)
    (acc : Option F × Option F) (mv : Nat) : Option F × Option F :=
  if q mv then (optMul acc.1 (d mv i), if stab then optMul acc.2 (n mv i) else acc.2) else acc

theorem foldl_stepSpec (stab : Bool) (q : Nat → Bool) (n d : Nat → Nat → Option F) (i : Nat) (xs : List Nat)
    (a b : Option F) :
    xs.foldl (stepSpec stab q n d i) (a, b)
      = (((xs.filter q).map fun j => d j i).foldl optMul a,
         if stab then ((xs.filter q).map fun j => n j i).foldl optMul b else b) := by
  induction xs generalizing a b with
  | nil => cases stab <;> rfl
  | cons x xs ih =>
    simp only [List.foldl_cons, stepSpec]
    cases hq : q x
    · simp only [Bool.false_eq_true, ↓reduceIte, List.filter_cons, hq]
      exact ih a b
    · simp only [↓reduceIte, List.filter_cons, hq, List.map_cons, List.foldl_cons]
      cases stab
      · simpa using ih (optMul a (d x i)) b
      · simpa using ih (optMul a (d x i)) (optMul b (n x i))

theorem foldl_fun_congr {α β : Type} (f g : β → α → β) (h : ∀ b a, f b a = g b a) (l : List α) (b : β) :
    l.foldl f b = l.foldl g b := by
  have : f = g := by funext b a; exact h b a
  rw [this]

/-- **the generated monotone branch is the model's weight along the fitted variables** -/
theorem ipmw_monotone_weight_eq (l : List MRow) (k : Nat) (stab : Bool) (n d : Nat → Nat → Option F) (r : MRow) :
    Gen.ipmw_monotone_weight stab k (pairUniform l) n d r = weight stab (fitted l k) (k - 1) n d r := by
  have hloop : ∀ (f : Option F × Option F → Nat → Option F × Option F),
      (∀ acc mv, f acc mv = stepSpec stab (fun j => j == 0 || !(pairUniform l j)) n d r.i acc mv) →
      (List.range k).foldl f (some ((1 : Nat) : F), some ((1 : Nat) : F))
        = (chain (fitted l k) d r.i, if stab then chain (fitted l k) n r.i else some ((1 : Nat) : F)) := by
    intro f hf
    rw [foldl_fun_congr f _ hf, foldl_stepSpec]
    rfl
  unfold weight
  cases stab
  · simp only [Gen.ipmw_monotone_weight, Bool.false_eq_true, ↓reduceIte]
    rw [hloop _ (by
      intro acc mv
      by_cases h0 : mv = 0 <;> cases hu : pairUniform l mv <;>
        simp [stepSpec, h0, hu, nan_mul_eq_optMul] <;>
        first
          | done
          | (constructor <;> first | rfl | exact optMul_comm _ _)
          | exact optMul_comm _ _)]
    generalize chain (fitted l k) d r.i = pd
    cases ho : obsAt r (k - 1) <;> cases pd <;> simp [Nan.div, Nan.lift2]
  · simp only [Gen.ipmw_monotone_weight, ↓reduceIte]
    rw [hloop _ (by
      intro acc mv
      by_cases h0 : mv = 0 <;> cases hu : pairUniform l mv <;>
        simp [stepSpec, h0, hu, nan_mul_eq_optMul] <;>
        first
          | done
          | (constructor <;> first | rfl | exact optMul_comm _ _)
          | exact optMul_comm _ _)]
    generalize chain (fitted l k) d r.i = pd
    generalize chain (fitted l k) n r.i = pn
    cases ho : obsAt r (k - 1) <;> cases pd <;> cases pn <;> simp [Nan.div, Nan.lift2]

/-- **the generated single-variable branch is the model's weight of variable 0** -/
theorem ipmw_single_weight_eq (stab : Bool) (n d : Nat → Nat → Option F) (r : MRow) :
    Gen.ipmw_single_weight stab n d r = weight stab [0] 0 n d r := by
  have hc : ∀ x : Nat → Nat → Option F, chain [0] x r.i = x 0 r.i := by
    intro x
    simp only [chain, optProd, List.map_cons, List.map_nil, List.foldl_cons, List.foldl_nil]
    cases x 0 r.i <;> simp [optMul]
  unfold weight
  rw [hc, hc]
  cases stab
  · simp only [Gen.ipmw_single_weight, Bool.false_eq_true, ↓reduceIte]
    generalize d 0 r.i = pd
    cases ho : obsAt r 0 <;> cases pd <;> simp [Nan.div, Nan.lift2]
  · simp only [Gen.ipmw_single_weight, ↓reduceIte]
    generalize d 0 r.i = pd
    generalize n 0 r.i = pn
    cases ho : obsAt r 0 <;> cases pd <;> cases pn <;> simp [Nan.div, Nan.lift2]

end ZV.Ipmw
