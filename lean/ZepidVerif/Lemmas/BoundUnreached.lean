/-
A truncation bound that is not reached changes nothing (used by Props/C01 and Props/C02, round 4): the
estimators' clip `Bounds.applyB` leaves a value inside the parsed interval alone.
-/
import ZepidVerif.Model.Bounds
import Mathlib.Algebra.Order.Field.Basic
namespace ZV.Bounds

variable {F : Type} [Field F] [LinearOrder F] [IsStrictOrderedRing F]

theorem applyB_unreached (iv : Option (F × F)) (x : F)
    (h : ∀ lo hi, iv = some (lo, hi) → lo ≤ x ∧ x ≤ hi) : applyB iv x = x := by
  cases iv with
  | none => rfl
  | some pr =>
    obtain ⟨lo, hi⟩ := pr
    obtain ⟨h1, h2⟩ := h lo hi rfl
    have e1 : ¬ x < lo := not_lt.mpr h1
    have e2 : ¬ x > hi := not_lt.mpr h2
    simp [applyB, clip1, e1, e2]

end ZV.Bounds
