/-
The behaviour assumed of a *saturated* generalized linear model with canonical link fitted by
maximum likelihood with frequency weights (statsmodels `smf.glm(...).fit()`, DESIGN §3.2): its
score equations for the indicator columns of the cells say that, in every cell, the weighted sum
of residuals is zero.  The fitted value is a function of the cell.  These are hypotheses of the
property theorems (validated on every explored case by gate H of the checks), stated here once.
Also: positivity and the consequences used everywhere (cell weights are non-zero, fitted values
are the cell means / cell proportions).
-/
import ZepidVerif.Lemmas.Std
import Mathlib.Tactic.Positivity
namespace ZV.Std
open ZV
variable {F : Type} [Field F]

/-- saturated treatment model `A ~ stratum` (logit link, freq weights), fitted on all rows -/
def PropFit (l : List (Row F)) (S : List Nat) (p : Nat → F) : Prop :=
  ∀ s ∈ S, p s * W (inStratum s) l = W (inCellAll s true) l

/-- saturated missingness model `observed ~ stratum × A`, fitted on all rows -/
def MissFit (l : List (Row F)) (S : List Nat) (q : Nat → Bool → F) : Prop :=
  ∀ s ∈ S, ∀ a, q s a * W (inCellAll s a) l = W (inCell s a) l

/-- saturated outcome model `Y ~ stratum × A` (any canonical-link family), fitted on the rows
    with an observed outcome -/
def OutFit (l : List (Row F)) (S : List Nat) (Q : Nat → Bool → F) : Prop :=
  ∀ s ∈ S, ∀ a, Q s a * W (inCell s a) l = WY (inCell s a) l

/-- `S` lists the strata without repetition and every row falls in one of them -/
def Strata (l : List (Row F)) (S : List Nat) : Prop := S.Nodup ∧ ∀ r ∈ l, r.s ∈ S

theorem OutFit.eq_cellMean {l : List (Row F)} {S : List Nat} {Q : Nat → Bool → F} (h : OutFit l S Q)
    {s : Nat} (hs : s ∈ S) (a : Bool) (hW : W (inCell s a) l ≠ 0) : Q s a = cellMean l s a := by
  unfold cellMean; rw [← h s hs a]; field_simp

theorem W_stratum_split (l : List (Row F)) (s : Nat) :
    W (inStratum s) l = W (inCellAll s true) l + W (inCellAll s false) l := by
  unfold W
  rw [sumIf_def, sumIf_def, sumIf_def, ← sumBy_add]
  apply sumBy_congr; intro r _
  by_cases h1 : r.s = s <;> cases h2 : r.a <;> simp [inStratum, inCellAll, h1, h2]

section ordered
variable [LinearOrder F] [IsStrictOrderedRing F]

/-- positivity: positive weights and an observed row in every (stratum, arm) cell -/
def Positivity (l : List (Row F)) (S : List Nat) : Prop :=
  (∀ r ∈ l, 0 < r.w) ∧ ∀ s ∈ S, ∀ a, ∃ r ∈ l, inCell s a r = true

theorem W_nonneg {l : List (Row F)} (hw : ∀ r ∈ l, 0 < r.w) (p : Row F → Bool) : 0 ≤ W p l := by
  unfold W; rw [sumIf_def]; apply sumBy_nonneg; intro r hr; split
  · exact (hw r hr).le
  · exact le_rfl

theorem W_pos_of_mem {l : List (Row F)} (hw : ∀ r ∈ l, 0 < r.w) (p : Row F → Bool) (r : Row F) (hr : r ∈ l)
    (hp : p r = true) : 0 < W p l := by
  unfold W; rw [sumIf_def]
  refine sumBy_pos ?_ r hr (by simp [hp, hw r hr])
  intro x hx; split
  · exact (hw x hx).le
  · exact le_rfl

theorem Positivity.cell_pos {l : List (Row F)} {S : List Nat} (h : Positivity l S) {s : Nat} (hs : s ∈ S)
    (a : Bool) : 0 < W (inCell s a) l := by
  obtain ⟨r, hr, hp⟩ := h.2 s hs a
  exact W_pos_of_mem h.1 _ r hr hp

theorem Positivity.cellAll_pos {l : List (Row F)} {S : List Nat} (h : Positivity l S) {s : Nat} (hs : s ∈ S)
    (a : Bool) : 0 < W (inCellAll s a) l := by
  obtain ⟨r, hr, hp⟩ := h.2 s hs a
  refine W_pos_of_mem h.1 _ r hr ?_
  simp only [inCell, Bool.and_eq_true] at hp
  simp [inCellAll, hp.1.1, hp.1.2]

theorem Positivity.stratum_pos {l : List (Row F)} {S : List Nat} (h : Positivity l S) {s : Nat} (hs : s ∈ S) :
    0 < W (inStratum s) l := by
  rw [W_stratum_split]; exact add_pos (h.cellAll_pos hs true) (h.cellAll_pos hs false)

/-- under positivity a saturated treatment model's fitted value lies strictly between 0 and 1 -/
theorem PropFit.mem_Ioo {l : List (Row F)} {S : List Nat} {p : Nat → F} (hp : PropFit l S p)
    (h : Positivity l S) {s : Nat} (hs : s ∈ S) : 0 < p s ∧ p s < 1 := by
  have h1 := h.cellAll_pos hs true
  have h0 := h.cellAll_pos hs false
  have hW := h.stratum_pos hs
  have e := hp s hs
  have e2 := W_stratum_split l s
  constructor
  · by_contra hneg
    have : p s * W (inStratum s) l ≤ 0 := mul_nonpos_of_nonpos_of_nonneg (not_lt.mp hneg) hW.le
    linarith
  · by_contra hge
    have : W (inStratum s) l ≤ p s * W (inStratum s) l := le_mul_of_one_le_left hW.le (not_lt.mp hge)
    linarith

end ordered
end ZV.Std
