/-
Relabelling lemmas for the iterative-conditional-expectation model (`ZV.Ice`, Model/Ice.lean), used by
`Props/C08.lean` (through `Props/C12.lean`'s `ice_eq_npgformula`):

* row permutation: the backward recursion is row-wise given the fitted function, the final value is a NaN-skipping
  mean, and every ingredient of the nonparametric g-formula is a cell count — all functions of the row multiset;
* relabelling of the covariate values at every time point (`relabL φ`, `φ k` the recoding used at time `k`, with a
  left inverse `ψ k`): the fitted function of the recoded data read through the inverse recoding gives the same
  predictions row by row and satisfies the cell score equations of the recoded data.
-/
import ZepidVerif.Lemmas.Ice
import ZepidVerif.Lemmas.Sum
import Mathlib.Data.List.Perm.Basic
import Mathlib.Data.List.Dedup
set_option linter.unusedSectionVars false
set_option linter.unusedVariables false
namespace ZV.IceInv
open ZV.Ice

variable {F : Type} [Field F]

/-! ### row permutation -/

theorem meanPresent_perm {xs ys : List (Option F)} (h : xs.Perm ys) : meanPresent xs = meanPresent ys := by
  unfold meanPresent cntBy
  rw [ZV.sumBy_perm h, (h.filter _).length_eq]

theorem marginal_single (μ : List Bool → List Nat → F) (g : List Bool) (rows : List WRow) :
    marginal μ (List.replicate rows.length g) rows = meanPresent (rows.map fun r => predAt μ g r 0) := by
  unfold marginal; rw [IceL.zipWith_replicate_left]

theorem marginal_pairs (μ : List Bool → List Nat → F) (pairs : List (List Bool × WRow)) :
    marginal μ (pairs.map Prod.fst) (pairs.map Prod.snd) = meanPresent (pairs.map fun p => predAt μ p.1 p.2 0) := by
  unfold marginal
  congr 1
  induction pairs with
  | nil => rfl
  | cons p ps ih => simp [ih]

/-- a 1-d plan: the whole `fit` (estimate or rejection) is a function of the row multiset, for any fitted function -/
theorem fit_single_perm (spec : Bool) (μ : List Bool → List Nat → F) (g : List Bool) {rows₁ rows₂ : List WRow}
    (h : rows₁.Perm rows₂) (K : Nat) :
    fit spec μ (.single g) rows₁ K = fit spec μ (.single g) rows₂ K := by
  cases spec
  · rfl
  · by_cases hg : g.length = K
    · simp only [fit, expandPlan, hg, if_true, Bool.not_true, Bool.false_eq_true, if_false]
      rw [marginal_single, marginal_single, meanPresent_perm (h.map _)]
    · simp only [fit, expandPlan, hg, if_false, Bool.not_true, Bool.false_eq_true]

/-- a 2-d plan whose rows travel with the individuals -/
theorem fit_matrix_perm (spec : Bool) (μ : List Bool → List Nat → F) {p₁ p₂ : List (List Bool × WRow)}
    (h : p₁.Perm p₂) (K : Nat) :
    fit spec μ (.matrix (p₁.map Prod.fst)) (p₁.map Prod.snd) K
      = fit spec μ (.matrix (p₂.map Prod.fst)) (p₂.map Prod.snd) K := by
  cases spec
  · rfl
  · have hall : ((p₁.map Prod.fst).all fun p => decide (p.length = K)) = ((p₂.map Prod.fst).all fun p => decide (p.length = K)) :=
      (h.map Prod.fst).all_eq
    simp only [fit, expandPlan, List.length_map, hall, true_and, Bool.not_true, Bool.false_eq_true, if_false]
    split_ifs
    · simp only []
      rw [marginal_pairs, marginal_pairs, meanPresent_perm (h.map _)]
    · rfl

section counts
variable {rows₁ rows₂ : List WRow} (h : rows₁.Perm rows₂) (g : List Bool)
include h

theorem nAt_perm (k : Nat) (lbar : List Nat) : nAt g rows₁ k lbar = nAt g rows₂ k lbar := (h.filter _).length_eq
theorem dAt_perm (k : Nat) (lbar : List Nat) : dAt g rows₁ k lbar = dAt g rows₂ k lbar := (h.filter _).length_eq
theorem sAt_perm (k : Nat) (lbar : List Nat) (l : Nat) : sAt g rows₁ k lbar l = sAt g rows₂ k lbar l :=
  (h.filter _).length_eq
theorem c0_perm (l : Nat) : c0 rows₁ l = c0 rows₂ l := (h.filter _).length_eq

theorem G_perm (levels : List Nat) : ∀ (fuel k : Nat) (lbar : List Nat),
    G (F := F) levels g rows₁ fuel k lbar = G levels g rows₂ fuel k lbar := by
  intro fuel
  induction fuel with
  | zero => intro k lbar; rfl
  | succ n ih =>
    intro k lbar
    simp only [G, nAt_perm h g, dAt_perm h g, sAt_perm h g]
    congr 2
    apply ZV.sumBy_congr; intro l _; rw [ih]

/-- the nonparametric g-formula is a function of the row multiset -/
theorem npg_perm (levels : List Nat) (K : Nat) : npg (F := F) levels g rows₁ K = npg levels g rows₂ K := by
  simp only [npg, c0_perm h, G_perm h g]

theorem posOk_perm (levels : List Nat) : ∀ (fuel k : Nat) (lbar : List Nat),
    posOk levels g rows₁ fuel k lbar = posOk levels g rows₂ fuel k lbar := by
  intro fuel
  induction fuel with
  | zero => intro k lbar; rfl
  | succ n ih =>
    intro k lbar
    simp only [posOk, nAt_perm h g, sAt_perm h g, ih]

theorem planPositive_perm (levels : List Nat) (K : Nat) :
    planPositive levels g rows₁ K = planPositive levels g rows₂ K := by
  simp only [planPositive, c0_perm h, posOk_perm h g]

theorem wellFormed_perm (K : Nat) : wellFormed K rows₁ = wellFormed K rows₂ := h.all_eq
theorem levelsCover_perm (levels : List Nat) : levelsCover levels rows₁ = levelsCover levels rows₂ := h.all_eq

/-- the cell score equations are sums over the rows of a cell -/
theorem isCellFit_perm (μ : List Bool → List Nat → F) (K : Nat) (hf : IsCellFit μ g rows₁ K) : IsCellFit μ g rows₂ K := by
  intro k hk lbar
  rw [← ZV.sumBy_perm (h.filter _)]
  exact hf k hk lbar

end counts

/-! ### relabelling the covariate values, a recoding per time point -/

/-- recode a covariate history whose first entry belongs to time `k`: entry `j` by `φ (k + j)` -/
def relabL (φ : Nat → Nat → Nat) : Nat → List Nat → List Nat
  | _, [] => []
  | k, l :: t => φ k l :: relabL φ (k + 1) t

/-- recode the covariates of an individual at every time point -/
def relabelW (φ : Nat → Nat → Nat) (r : WRow) : WRow := { r with ls := relabL φ 0 r.ls }

theorem relabL_length (φ : Nat → Nat → Nat) : ∀ (k : Nat) (l : List Nat), (relabL φ k l).length = l.length := by
  intro k l
  induction l generalizing k with
  | nil => rfl
  | cons x t ih => simp [relabL, ih]

theorem relabL_take (φ : Nat → Nat → Nat) : ∀ (k n : Nat) (l : List Nat),
    (relabL φ k l).take n = relabL φ k (l.take n) := by
  intro k n l
  induction l generalizing k n with
  | nil => simp [relabL]
  | cons x t ih =>
    cases n with
    | zero => simp [relabL]
    | succ m => simp [relabL, ih]

theorem relabL_inv (φ ψ : Nat → Nat → Nat) (hψ : ∀ k l, ψ k (φ k l) = l) : ∀ (k : Nat) (l : List Nat),
    relabL ψ k (relabL φ k l) = l := by
  intro k l
  induction l generalizing k with
  | nil => rfl
  | cons x t ih => simp [relabL, hψ, ih]

theorem relabL_inj (φ ψ : Nat → Nat → Nat) (hψ : ∀ k l, ψ k (φ k l) = l) (k : Nat) (x y : List Nat) :
    relabL φ k x = relabL φ k y ↔ x = y :=
  ⟨fun h => by rw [← relabL_inv φ ψ hψ k x, ← relabL_inv φ ψ hψ k y, h], fun h => by rw [h]⟩

theorem relabL_mem (φ : Nat → Nat → Nat) : ∀ (k : Nat) (l : List Nat) (v : Nat), v ∈ relabL φ k l →
    ∃ j u, u ∈ l ∧ v = φ j u := by
  intro k l
  induction l generalizing k with
  | nil => intro v hv; simp [relabL] at hv
  | cons x t ih =>
    intro v hv
    simp only [relabL, List.mem_cons] at hv
    rcases hv with rfl | hv
    · exact ⟨k, x, List.mem_cons_self, rfl⟩
    · obtain ⟨j, u, hu, e⟩ := ih (k + 1) v hv
      exact ⟨j, u, List.mem_cons_of_mem _ hu, e⟩

section
variable (φ ψ : Nat → Nat → Nat) (hψ : ∀ k l, ψ k (φ k l) = l)

/-- the fitted function of the recoded data: the original one read through the inverse recoding -/
def muRelab (ψ : Nat → Nat → Nat) (μ : List Bool → List Nat → F) : List Bool → List Nat → F :=
  fun a lb => μ a (relabL ψ 0 lb)

include hψ

theorem predFrom_relab (μ : List Bool → List Nat → F) (g : List Bool) (ls : List Nat) :
    ∀ (ys : List (Option Nat)) (k : Nat),
      predFrom (muRelab ψ μ) g (relabL φ 0 ls) k ys = predFrom μ g ls k ys := by
  intro ys
  induction ys with
  | nil => intro k; rfl
  | cons y rest ih =>
    intro k
    simp only [predFrom, ih, muRelab, relabL_take, relabL_inv φ ψ hψ]

theorem pseudoFrom_relab (μ : List Bool → List Nat → F) (g : List Bool) (ls : List Nat)
    (ys : List (Option Nat)) (k : Nat) :
    pseudoFrom (muRelab ψ μ) g (relabL φ 0 ls) k ys = pseudoFrom μ g ls k ys := by
  cases ys with
  | nil => rfl
  | cons y rest => simp only [pseudoFrom, predFrom_relab φ ψ hψ]

theorem predAt_relab (μ : List Bool → List Nat → F) (g : List Bool) (r : WRow) (k : Nat) :
    predAt (muRelab ψ μ) g (relabelW φ r) k = predAt μ g r k :=
  predFrom_relab φ ψ hψ μ g r.ls _ k

theorem pseudoAt_relab (μ : List Bool → List Nat → F) (g : List Bool) (r : WRow) (k : Nat) :
    pseudoAt (muRelab ψ μ) g (relabelW φ r) k = pseudoAt μ g r k :=
  pseudoFrom_relab φ ψ hψ μ g r.ls _ k

/-- the recursion run on the recoded data with the corresponding fitted function returns the same value -/
theorem fit_relab (spec : Bool) (μ : List Bool → List Nat → F) (plan : Plan) (rows : List WRow) (K : Nat) :
    fit spec (muRelab ψ μ) plan (rows.map (relabelW φ)) K = fit spec μ plan rows K := by
  unfold fit
  rw [List.length_map]
  cases spec
  · rfl
  · simp only [Bool.not_true, Bool.false_eq_true, if_false]
    cases expandPlan rows.length K plan with
    | error e => rfl
    | ok P =>
      simp only [marginal]
      congr 2
      rw [List.zipWith_map_right]
      congr 1
      funext p r
      exact predAt_relab φ ψ hψ μ p r 0

theorem inCell_relab (g : List Bool) (k : Nat) (lbar : List Nat) (r : WRow) :
    inCell g k (relabL φ 0 lbar) (relabelW φ r) = inCell g k lbar r := by
  unfold inCell relabelW
  simp only [relabL_take]
  congr 1
  rw [Bool.eq_iff_iff, beq_iff_eq, beq_iff_eq]
  exact relabL_inj φ ψ hψ 0 _ _

/-- … and satisfies the cell score equations of the recoded data -/
theorem isCellFit_relab (μ : List Bool → List Nat → F) (g : List Bool) (rows : List WRow) (K : Nat)
    (hf : IsCellFit μ g rows K) : IsCellFit (muRelab ψ μ) g (rows.map (relabelW φ)) K := by
  intro k hk lbar'
  by_cases hl : relabL φ 0 (relabL ψ 0 lbar') = lbar'
  · rw [List.filter_map, ZV.sumBy_map]
    have hfil : List.filter (inCell g k lbar' ∘ relabelW φ) rows = List.filter (inCell g k (relabL ψ 0 lbar')) rows := by
      apply List.filter_congr
      intro r _
      show inCell g k lbar' (relabelW φ r) = _
      conv_lhs => rw [← hl]
      exact inCell_relab φ ψ hψ g k _ r
    rw [hfil]
    refine Eq.trans ?_ (hf k hk (relabL ψ 0 lbar'))
    apply ZV.sumBy_congr
    intro r _
    rw [pseudoAt_relab φ ψ hψ]
    rfl
  · have : List.filter (inCell g k lbar') (rows.map (relabelW φ)) = [] := by
      rw [List.filter_eq_nil_iff]
      intro r' hr'
      obtain ⟨r, _, rfl⟩ := List.mem_map.mp hr'
      intro hc
      apply hl
      simp only [inCell, relabelW, Bool.and_eq_true, beq_iff_eq, relabL_take] at hc
      rw [← hc.2, relabL_inv φ ψ hψ]
    rw [this]
    rfl

omit hψ in
theorem wellFormed_relab (K : Nat) (rows : List WRow) (h : wellFormed K rows = true) :
    wellFormed K (rows.map (relabelW φ)) = true := by
  simp only [wellFormed, List.all_map, List.all_eq_true, Function.comp] at h ⊢
  intro r hr
  have := h r hr
  simp only [relabelW, relabL_length]
  exact this

end

/-! ### positivity along the plan and the level list of the recoded data -/

theorem relabL_getElem? (φ : Nat → Nat → Nat) : ∀ (l : List Nat) (k i : Nat),
    (relabL φ k l)[i]? = (l[i]?).map (φ (k + i)) := by
  intro l
  induction l with
  | nil => intro k i; simp [relabL]
  | cons x t ih =>
    intro k i
    cases i with
    | zero => simp [relabL]
    | succ j =>
      simp only [relabL, List.getElem?_cons_succ, ih]
      congr 2; omega

theorem relabL_append (φ : Nat → Nat → Nat) : ∀ (l : List Nat) (k v : Nat),
    relabL φ k (l ++ [v]) = relabL φ k l ++ [φ (k + l.length) v] := by
  intro l
  induction l with
  | nil => intro k v; simp [relabL]
  | cons x t ih =>
    intro k v
    simp only [List.cons_append, relabL, ih, List.length_cons]
    rw [show k + 1 + t.length = k + (t.length + 1) by omega]

/-- the level list used for the recoded data: every image of a level under the recoding of some time point -/
def relabLevels (φ : Nat → Nat → Nat) (K : Nat) (levels : List Nat) : List Nat :=
  ((List.range K).flatMap fun k => levels.map (φ k)).dedup

theorem relabLevels_nodup (φ : Nat → Nat → Nat) (K : Nat) (levels : List Nat) : (relabLevels φ K levels).Nodup :=
  List.nodup_dedup _

theorem mem_relabLevels (φ : Nat → Nat → Nat) (K : Nat) (levels : List Nat) (k l : Nat) (hk : k < K) (hl : l ∈ levels) :
    φ k l ∈ relabLevels φ K levels := by
  unfold relabLevels
  rw [List.mem_dedup, List.mem_flatMap]
  exact ⟨k, List.mem_range.mpr hk, List.mem_map.mpr ⟨l, hl, rfl⟩⟩

theorem levelsCover_relab (φ : Nat → Nat → Nat) (K : Nat) (levels : List Nat) (rows : List WRow)
    (hwf : wellFormed K rows = true) (hcov : levelsCover levels rows = true) :
    levelsCover (relabLevels φ K levels) (rows.map (relabelW φ)) = true := by
  simp only [levelsCover, List.all_map, List.all_eq_true, Function.comp, List.contains_iff_mem]
  intro r hr v hv
  obtain ⟨i, hi⟩ := List.getElem?_of_mem hv
  change (relabL φ 0 r.ls)[i]? = some v at hi
  rw [relabL_getElem?] at hi
  cases hu : r.ls[i]? with
  | none => rw [hu] at hi; simp at hi
  | some u =>
    rw [hu] at hi
    simp only [Option.map_some, Option.some.injEq, Nat.zero_add] at hi
    have hlt : i < r.ls.length := by
      by_contra hge
      rw [List.getElem?_eq_none (by omega)] at hu
      cases hu
    have hK : i < K := by rw [← (IceL.wf_row hwf hr).2.1]; exact hlt
    rw [← hi]
    exact mem_relabLevels φ K levels i u hK (IceL.cover_row hcov hr (List.mem_of_getElem? hu))

section
variable (φ ψ : Nat → Nat → Nat) (hψ : ∀ k l, ψ k (φ k l) = l)
include hψ

theorem nAt_relab (g : List Bool) (rows : List WRow) (k : Nat) (lbar : List Nat) :
    nAt g (rows.map (relabelW φ)) k (relabL φ 0 lbar) = nAt g rows k lbar := by
  unfold nAt
  rw [List.filter_map, List.length_map]
  congr 1
  apply List.filter_congr
  intro r _
  show (inCell g k (relabL φ 0 lbar) (relabelW φ r) && (yAt (relabelW φ r) k).isSome) = _
  rw [inCell_relab φ ψ hψ]
  rfl

theorem c0_relab_ne (rows : List WRow) (levels : List Nat) (hcov : levelsCover levels rows = true) (l' : Nat)
    (h : c0 (rows.map (relabelW φ)) l' ≠ 0) : ∃ l ∈ levels, l' = φ 0 l ∧ c0 rows l ≠ 0 := by
  unfold c0 at h
  obtain ⟨r', hr'⟩ := List.exists_mem_of_length_pos (Nat.pos_of_ne_zero h)
  rw [List.mem_filter, List.mem_map] at hr'
  obtain ⟨⟨r, hr, rfl⟩, hc⟩ := hr'
  simp only [Bool.and_eq_true, beq_iff_eq] at hc
  have h0 : (relabL φ 0 r.ls)[0]? = some l' := hc.2
  rw [relabL_getElem?] at h0
  cases hu : r.ls[0]? with
  | none => rw [hu] at h0; simp at h0
  | some u =>
    rw [hu] at h0
    simp only [Option.map_some, Option.some.injEq, Nat.zero_add] at h0
    refine ⟨u, IceL.cover_row hcov hr (List.mem_of_getElem? hu), h0.symm, ?_⟩
    apply Nat.ne_of_gt
    apply List.length_pos_of_mem (a := r)
    rw [List.mem_filter]
    refine ⟨hr, ?_⟩
    simp only [Bool.and_eq_true, beq_iff_eq]
    exact ⟨hc.1, hu⟩

theorem sAt_relab_ne (g : List Bool) (rows : List WRow) (levels : List Nat) (hcov : levelsCover levels rows = true)
    (k : Nat) (lbar : List Nat) (l' : Nat)
    (h : sAt g (rows.map (relabelW φ)) k (relabL φ 0 lbar) l' ≠ 0) :
    ∃ l ∈ levels, l' = φ (k + 1) l ∧ sAt g rows k lbar l ≠ 0 := by
  unfold sAt at h
  obtain ⟨r', hr'⟩ := List.exists_mem_of_length_pos (Nat.pos_of_ne_zero h)
  rw [List.mem_filter, List.mem_map] at hr'
  obtain ⟨⟨r, hr, rfl⟩, hc⟩ := hr'
  simp only [Bool.and_eq_true, beq_iff_eq] at hc
  obtain ⟨⟨hcell, hy⟩, hl⟩ := hc
  rw [inCell_relab φ ψ hψ] at hcell
  have h0 : (relabL φ 0 r.ls)[k + 1]? = some l' := hl
  rw [relabL_getElem?] at h0
  cases hu : r.ls[k + 1]? with
  | none => rw [hu] at h0; simp at h0
  | some u =>
    rw [hu] at h0
    simp only [Option.map_some, Option.some.injEq, Nat.zero_add] at h0
    refine ⟨u, IceL.cover_row hcov hr (List.mem_of_getElem? hu), h0.symm, ?_⟩
    apply Nat.ne_of_gt
    apply List.length_pos_of_mem (a := r)
    rw [List.mem_filter]
    refine ⟨hr, ?_⟩
    simp only [Bool.and_eq_true, beq_iff_eq]
    exact ⟨⟨hcell, hy⟩, hu⟩

/-- positivity along the plan is carried to the recoded data (for any level list there) -/
theorem posOk_relab (g : List Bool) (rows : List WRow) (levels levels' : List Nat)
    (hcov : levelsCover levels rows = true) : ∀ (fuel k : Nat) (lbar : List Nat), lbar.length = k + 1 →
    posOk levels g rows fuel k lbar = true →
    posOk levels' g (rows.map (relabelW φ)) fuel k (relabL φ 0 lbar) = true := by
  intro fuel
  induction fuel with
  | zero => intro k lbar _ _; rfl
  | succ n ih =>
    intro k lbar hlen hp
    simp only [posOk, Bool.and_eq_true, decide_eq_true_eq, List.all_eq_true, Bool.or_eq_true] at hp ⊢
    obtain ⟨hn, hall⟩ := hp
    refine ⟨by rw [nAt_relab φ ψ hψ]; exact hn, ?_⟩
    intro l' _
    by_cases hs : sAt g (rows.map (relabelW φ)) k (relabL φ 0 lbar) l' = 0
    · exact Or.inl hs
    · right
      obtain ⟨l, hl, rfl, hne⟩ := sAt_relab_ne φ ψ hψ g rows levels hcov k lbar l' hs
      have h1 := (hall l hl).resolve_left hne
      have := ih (k + 1) (lbar ++ [l]) (by simp [hlen]) h1
      rw [relabL_append, hlen, Nat.zero_add] at this
      exact this

theorem planPositive_relab (g : List Bool) (rows : List WRow) (levels levels' : List Nat)
    (hcov : levelsCover levels rows = true) (K : Nat) (hp : planPositive levels g rows K = true) :
    planPositive levels' g (rows.map (relabelW φ)) K = true := by
  simp only [planPositive, List.all_eq_true, Bool.or_eq_true, decide_eq_true_eq] at hp ⊢
  intro l' _
  by_cases hc : c0 (rows.map (relabelW φ)) l' = 0
  · exact Or.inl hc
  · right
    obtain ⟨l, hl, rfl, hne⟩ := c0_relab_ne φ ψ hψ rows levels hcov l' hc
    have h1 := (hp l hl).resolve_left hne
    exact posOk_relab φ ψ hψ g rows levels levels' hcov K 0 [l] rfl h1

end

end ZV.IceInv
