/-
Helper lemmas for the IPMW model (`Model/Ipmw.lean`): NaN-propagating products of fitted values,
consequences of monotone missingness, and the two shortcuts of the code (overall-uniform collapse,
skipping a variable uniformly missing with its predecessor) seen as "dropping factors equal to 1".
-/
import ZepidVerif.Model.Ipmw
import ZepidVerif.Lemmas.Sum
import Mathlib.Algebra.BigOperators.Group.List.Basic
import Mathlib.Tactic.FieldSimp
namespace ZV.Ipmw
open ZV
variable {F : Type} [Field F]

/-- monotone missingness in the listed order: a later variable is observed only if the earlier one is -/
def Monotone (l : List MRow) (k : Nat) : Prop :=
  ∀ r ∈ l, ∀ j, j + 1 < k → obsAt r (j + 1) = true → obsAt r j = true

theorem foldl_optProd (xs : List F) (a : F) :
    (xs.map some).foldl optMul (some a) = some (a * xs.prod) := by
  induction xs generalizing a with
  | nil => simp
  | cons x xs ih => simp only [List.map_cons, List.foldl_cons, List.prod_cons, optMul]; rw [ih]; rw [mul_assoc]

theorem optProd_some (xs : List F) : optProd (xs.map some) = some xs.prod := by
  unfold optProd; rw [Nat.cast_one, foldl_optProd, one_mul]

theorem chain_some (vars : List Nat) (d : Nat → Nat → Option F) (i : Nat) (dv : Nat → F)
    (h : ∀ j ∈ vars, d j i = some (dv j)) : chain vars d i = some ((vars.map dv).prod) := by
  unfold chain
  have : vars.map (fun j => d j i) = (vars.map dv).map some := by
    rw [List.map_map]; exact List.map_congr_left (fun j hj => by simp [h j hj])
  rw [this, optProd_some]

/-- dropping factors equal to 1 does not change a product -/
theorem prod_filter_one (q : Nat → Bool) (dv : Nat → F) (l : List Nat) (h : ∀ j ∈ l, q j = false → dv j = 1) :
    ((l.filter q).map dv).prod = (l.map dv).prod := by
  induction l with
  | nil => rfl
  | cons j js ih =>
    have ih' := ih (fun x hx => h x (List.mem_cons_of_mem _ hx))
    cases hq : q j
    · rw [List.filter_cons_of_neg (by simp [hq]), ih', List.map_cons, List.prod_cons, h j List.mem_cons_self hq, one_mul]
    · rw [List.filter_cons_of_pos (by simp [hq]), List.map_cons, List.prod_cons, ih', List.map_cons, List.prod_cons]

theorem filter_zero_range (k : Nat) (hk : 0 < k) : (List.range k).filter (fun j => j == 0) = [0] := by
  cases k with
  | zero => omega
  | succ m =>
    rw [List.range_succ_eq_map, List.filter_cons_of_pos (by simp), List.filter_map]
    simp

theorem obs_of_last {l : List MRow} {k : Nat} (hm : Monotone l k) {r : MRow} (hr : r ∈ l)
    (hlast : obsAt r (k - 1) = true) : ∀ j, j < k → obsAt r j = true := by
  have key : ∀ m, m ≤ k - 1 → obsAt r (k - 1 - m) = true := by
    intro m
    induction m with
    | zero => intro _; simpa using hlast
    | succ m ih =>
      intro hle
      have h1 := ih (by omega)
      have : k - 1 - (m + 1) + 1 = k - 1 - m := by omega
      exact hm r hr (k - 1 - (m + 1)) (by omega) (by rw [this]; exact h1)
  intro j hj
  have := key (k - 1 - j) (by omega)
  have e : k - 1 - (k - 1 - j) = j := by omega
  rwa [e] at this

theorem obs_zero_of {l : List MRow} {k : Nat} (hm : Monotone l k) {r : MRow} (hr : r ∈ l) :
    ∀ j, j < k → obsAt r j = true → obsAt r 0 = true := by
  intro j
  induction j with
  | zero => intro _ h; exact h
  | succ j ih => intro hj h; exact ih (by omega) (hm r hr j hj h)

/-- overall-uniform monotone data: every adjacent pair is uniform -/
theorem pairUniform_of_overall {l : List MRow} {k : Nat} (hm : Monotone l k) (hu : overallUniform l k = true)
    (j : Nat) (hj0 : 0 < j) (hjk : j < k) : pairUniform l j = true := by
  unfold pairUniform
  rw [List.all_eq_true]
  intro r hr
  unfold overallUniform at hu
  rw [List.all_eq_true] at hu
  have hur := hu r hr
  cases h0 : obsAt r 0
  · have hprev : obsAt r (j - 1) = false := by
      cases hp : obsAt r (j - 1)
      · rfl
      · have := obs_zero_of hm hr (j - 1) (by omega) hp; rw [h0] at this; cases this
    simp [hprev]
  · rw [h0] at hur
    have hall : (List.range k).all (obsAt r) = true := by simpa using hur
    rw [List.all_eq_true] at hall
    have h1 := hall (j - 1) (List.mem_range.mpr (by omega))
    have h2 := hall j (List.mem_range.mpr hjk)
    simp [h1, h2]

/-- all adjacent pairs uniform ⇒ overall uniform -/
theorem overall_of_pairs {l : List MRow} {k : Nat} (hk : 0 < k)
    (hp : ∀ j, 0 < j → j < k → pairUniform l j = true) : overallUniform l k = true := by
  unfold overallUniform
  rw [List.all_eq_true]
  intro r hr
  cases h0 : obsAt r 0
  · have : (List.range k).all (obsAt r) = false := by
      rw [List.all_eq_false]
      exact ⟨0, List.mem_range.mpr hk, by simp [h0]⟩
    simp [this]
  · have hall : ∀ j, j < k → obsAt r j = true := by
      intro j
      induction j with
      | zero => intro _; exact h0
      | succ j ih =>
        intro hj
        have hpj := hp (j + 1) (by omega) hj
        unfold pairUniform at hpj
        rw [List.all_eq_true] at hpj
        have := hpj r hr
        have hprev := ih (by omega)
        simp only [Nat.add_sub_cancel] at this
        rw [hprev] at this
        simpa using this
    have : (List.range k).all (obsAt r) = true := by
      rw [List.all_eq_true]; intro j hj; exact hall j (List.mem_range.mp hj)
    simp [this]

/-- the weight of a row observed on `last`, when the fitted variables are the listed ones minus some whose
    factors equal 1 -/
theorem weight_filter_spec (stab : Bool) (k last : Nat) (q : Nat → Bool) (n d : Nat → Nat → Option F) (r : MRow)
    (hobs : obsAt r last = true) (dv nv : Nat → F)
    (hd : ∀ j < k, d j r.i = some (dv j)) (hn : stab = true → ∀ j < k, n j r.i = some (nv j))
    (hone : ∀ j < k, q j = false → dv j = 1 ∧ nv j = 1) :
    weight stab ((List.range k).filter q) last n d r
      = some ((if stab then ((List.range k).map nv).prod else 1) / ((List.range k).map dv).prod) := by
  have hmem : ∀ j ∈ (List.range k).filter q, j < k := fun j hj => List.mem_range.mp (List.mem_filter.mp hj).1
  have cd := chain_some ((List.range k).filter q) d r.i dv (fun j hj => hd j (hmem j hj))
  rw [prod_filter_one q dv _ (fun j hj hq => (hone j (List.mem_range.mp hj) hq).1)] at cd
  unfold weight
  rw [if_pos hobs, cd]
  cases stab
  · simp
  · have cn := chain_some ((List.range k).filter q) n r.i nv (fun j hj => hn rfl j (hmem j hj))
    rw [prod_filter_one q nv _ (fun j hj hq => (hone j (List.mem_range.mp hj) hq).2)] at cn
    simp [cn]

theorem chain_congr (vars : List Nat) (d d' : Nat → Nat → Option F) (i : Nat)
    (h : ∀ j ∈ vars, d j i = d' j i) : chain vars d i = chain vars d' i := by
  unfold chain; rw [List.map_congr_left h]

theorem sumBy_one_length {α : Type} (l : List α) : sumBy (fun _ => (1 : F)) l = (l.length : F) := by
  induction l with
  | nil => simp
  | cons x xs ih => simp only [sumBy_cons, ih, List.length_cons]; push_cast; ring

end ZV.Ipmw
