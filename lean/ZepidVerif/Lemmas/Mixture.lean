/-
Helper lemmas for C14: regrouping the StochasticIPTW sums by stratum and arm, the Monte-Carlo mean of a
saturated outcome model as a mixture at the realised treated fractions, coverage of a pool by a draw of
full size, and the mean of identical resamples.
-/
import ZepidVerif.Lemmas.Stochastic
import ZepidVerif.Lemmas.GFormula
import Mathlib.Data.List.Perm.Subperm
import Mathlib.Tactic.FieldSimp
import Mathlib.Tactic.Ring
set_option linter.unusedSectionVars false
namespace ZV.Stoch
open ZV ZV.Std
variable {F : Type} [Field F] [LinearOrder F] [IsStrictOrderedRing F]

/-- with every outcome observed, a sum over rows splits into the two arms -/
theorem sumBy_split_arms (l : List (Row F)) (hobs : ∀ r ∈ l, r.obs = true) (f : Row F → F) :
    sumBy f l = sumIf (fun r => r.a == true && r.obs) f l + sumIf (fun r => r.a == false && r.obs) f l := by
  rw [sumIf_def, sumIf_def, ← sumBy_add]
  apply sumBy_congr; intro r hr
  cases h : r.a <;> simp [hobs r hr]

/-- Σ_r (plan probability of received treatment / fitted probability of received treatment) · h r,
    regrouped by stratum and arm, when both probabilities are functions of the stratum -/
theorem stoch_sum_regroup (l : List (Row F)) (S : List Nat) (hS : Strata l S) (hobs : ∀ r ∈ l, r.obs = true)
    (π g : Nat → F) (h : Row F → F) :
    sumBy (fun r => recv r.a (π r.s) / recv r.a (g r.s) * h r) l
      = sumBy (fun s => π s / g s * sumIf (inCell s true) h l) S
        + sumBy (fun s => (1 - π s) / (1 - g s) * sumIf (inCell s false) h l) S := by
  rw [sumBy_split_arms l hobs]
  congr 1
  · rw [← sumIf_arm_regroup l S hS.1 hS.2 true (fun r => recv r.a (π r.s) / recv r.a (g r.s)) (fun s => π s / g s)]
    intro r _ ha _; simp [recv, ha]
  · rw [← sumIf_arm_regroup l S hS.1 hS.2 false (fun r => recv r.a (π r.s) / recv r.a (g r.s))
      (fun s => (1 - π s) / (1 - g s))]
    intro r _ ha _; simp [recv, ha]

theorem W_cell_of_obs (l : List (Row F)) (hobs : ∀ r ∈ l, r.obs = true) (s : Nat) (a : Bool) :
    W (inCell s a) l = W (inCellAll s a) l := by
  unfold W; apply sumIf_congr; intro r hr; simp [inCell, inCellAll, hobs r hr]

theorem Ntgt_all (l : List (Row F)) (s : Nat) : Ntgt (fun _ => true) l s = W (inStratum s) l := by
  unfold Ntgt W; apply sumIf_congr; intro r _; simp

/-- the StochasticIPTW ratio under a saturated treatment model -/
theorem stoch_ratio_mixture (l : List (Row F)) (S : List Nat) (hS : Strata l S) (hpos : Positivity l S)
    (hobs : ∀ r ∈ l, r.obs = true) (g : Nat → F) (hg : PropFit l S g) (π : Nat → F) :
    sumBy (fun r => r.y * (recv r.a (π r.s) / recv r.a (g r.s) * r.w)) l /
      sumBy (fun r => recv r.a (π r.s) / recv r.a (g r.s) * r.w) l
      = mixture l S (fun _ => true) π := by
  have hcell : ∀ s ∈ S, W (inCell s true) l = g s * W (inStratum s) l ∧
      W (inCell s false) l = (1 - g s) * W (inStratum s) l ∧ g s ≠ 0 ∧ 1 - g s ≠ 0 := by
    intro s hs
    have h1 := hg s hs
    have hsp := W_stratum_split l s
    obtain ⟨hp0, hp1⟩ := hg.mem_Ioo hpos hs
    refine ⟨by rw [W_cell_of_obs l hobs, h1], ?_, hp0.ne', (sub_pos.mpr hp1).ne'⟩
    rw [W_cell_of_obs l hobs, sub_mul, one_mul, h1, hsp]; ring
  have hnum : sumBy (fun r => r.y * (recv r.a (π r.s) / recv r.a (g r.s) * r.w)) l
      = sumBy (fun s => Ntgt (fun _ => true) l s * (π s * cellMean l s true + (1 - π s) * cellMean l s false)) S := by
    have : sumBy (fun r => r.y * (recv r.a (π r.s) / recv r.a (g r.s) * r.w)) l
        = sumBy (fun r => recv r.a (π r.s) / recv r.a (g r.s) * (r.w * r.y)) l := by
      apply sumBy_congr; intro r _; ring
    rw [this, stoch_sum_regroup l S hS hobs π g, ← sumBy_add]
    apply sumBy_congr; intro s hs
    obtain ⟨c1, c0, g0, g1⟩ := hcell s hs
    have e1 := WY_eq l s true (hpos.cell_pos hs true).ne'
    have e0 := WY_eq l s false (hpos.cell_pos hs false).ne'
    unfold WY at e1 e0
    rw [e1, e0, c1, c0, Ntgt_all]
    field_simp
  have hden : sumBy (fun r => recv r.a (π r.s) / recv r.a (g r.s) * r.w) l
      = sumBy (fun s => Ntgt (fun _ => true) l s) S := by
    rw [stoch_sum_regroup l S hS hobs π g, ← sumBy_add]
    apply sumBy_congr; intro s hs
    obtain ⟨c1, c0, g0, g1⟩ := hcell s hs
    have e1 : sumIf (inCell s true) (fun r => r.w) l = W (inCell s true) l := rfl
    have e0 : sumIf (inCell s false) (fun r => r.w) l = W (inCell s false) l := rfl
    rw [e1, e0, c1, c0, Ntgt_all]
    field_simp; ring
  unfold mixture
  rw [hnum, hden]
  simp

/-- one resample of a simulating estimator with a saturated outcome model and no update: the mean over the
    target rows of the prediction at the assigned treatment is the mixture at the realised treated fractions -/
theorem mcMean_mixture (l : List (Row F)) (S : List Nat) (hS : Strata l S) (hpos : Positivity l S)
    (Q : Nat → Bool → F) (hQ : OutFit l S Q) (tm : Row F → Bool) (hN : ∀ s ∈ S, Ntgt tm l s ≠ 0)
    (asg : Row F → Bool) :
    mcMean l (fun r => Q r.s) (fun q => q) tm asg = mixture l S tm (realised l tm asg) := by
  unfold mcMean mixture
  have hden : W tm l = sumBy (fun s => Ntgt tm l s) S := by
    unfold W Ntgt W; rw [sumIf_regroup S hS.1 l hS.2]
  have hnum : sumIf tm (fun r => r.w * Q r.s (asg r)) l
      = sumBy (fun s => Ntgt tm l s * (realised l tm asg s * cellMean l s true
          + (1 - realised l tm asg s) * cellMean l s false)) S := by
    rw [sumIf_regroup S hS.1 l hS.2]
    apply sumBy_congr; intro s hs
    rw [← hQ.eq_cellMean hs true (hpos.cell_pos hs true).ne', ← hQ.eq_cellMean hs false (hpos.cell_pos hs false).ne']
    have hsplit : Ntgt tm l s = W (fun r => inStratum s r && tm r && asg r) l
        + W (fun r => inStratum s r && tm r && !asg r) l := by
      unfold Ntgt W
      rw [sumIf_def, sumIf_def, sumIf_def, ← sumBy_add]
      apply sumBy_congr; intro r _
      cases h1 : inStratum s r <;> cases h2 : tm r <;> cases h3 : asg r <;> simp
    have hreal : Ntgt tm l s * realised l tm asg s = W (fun r => inStratum s r && tm r && asg r) l := by
      unfold realised; field_simp [hN s hs]
    have : sumIf (fun r => inStratum s r && tm r) (fun r => r.w * Q r.s (asg r)) l
        = W (fun r => inStratum s r && tm r && asg r) l * Q s true
          + W (fun r => inStratum s r && tm r && !asg r) l * Q s false := by
      unfold W
      rw [mul_comm, ← sumIf_mul_left, mul_comm, ← sumIf_mul_left, sumIf_def, sumIf_def, sumIf_def, ← sumBy_add]
      apply sumBy_congr; intro r _
      by_cases h1 : r.s = s
      · subst h1
        cases h2 : tm r <;> cases h3 : asg r <;> simp [inStratum, mul_comm]
      · simp [inStratum, h1]
    rw [this]
    have h2 : W (fun r => inStratum s r && tm r && !asg r) l = Ntgt tm l s * (1 - realised l tm asg s) := by
      rw [mul_sub, mul_one, hreal, hsplit]; ring
    rw [h2, ← hreal]; ring
  rw [hnum, hden]
  simp

/-- a duplicate-free draw of full size from a duplicate-free pool is the whole pool -/
theorem mem_of_full_draw {pool ch : List Nat} (hc : ch.Nodup) (hsub : ∀ i ∈ ch, i ∈ pool)
    (hlen : ch.length = pool.length) : ∀ i ∈ pool, i ∈ ch := by
  have hsp : ch.Subperm pool := List.subperm_of_subset hc hsub
  have hperm : ch.Perm pool := hsp.perm_of_length_le (le_of_eq hlen.symm)
  intro i hi
  exact hperm.mem_iff.mpr hi

theorem sumBy_const_one {α : Type} (l : List α) : sumBy (fun _ => (1 : F)) l = (l.length : F) := by
  induction l with
  | nil => simp
  | cons x xs ih => simp only [sumBy_cons, ih, List.length_cons]; push_cast; ring

theorem meanOf_replicate (m : Nat) (hm : 0 < m) (x : F) : meanOf (List.replicate m x) = x := by
  unfold meanOf
  rw [sumBy_replicate, List.length_replicate]
  have : (m : F) ≠ 0 := Nat.cast_ne_zero.mpr (by omega)
  field_simp

/-- saturated outcome model: the weighted residuals cancel within every cell, hence against any
    covariate that is a function of the cell (ε = 0 solves StochasticTMLE's targeting equation) -/
theorem cell_score_zero (l : List (Row F)) (S : List Nat) (hS : Strata l S) (hobs : ∀ r ∈ l, r.obs = true)
    (Q : Nat → Bool → F) (hQ : OutFit l S Q) (h : Nat → Bool → F) :
    sumBy (fun r => h r.s r.a * (r.w * (r.y - Q r.s r.a))) l = 0 := by
  rw [sumBy_split_arms l hobs]
  have arm : ∀ a, sumIf (fun r => r.a == a && r.obs) (fun r => h r.s r.a * (r.w * (r.y - Q r.s r.a))) l = 0 := by
    intro a
    have := sumIf_arm_regroup l S hS.1 hS.2 a (fun r => h r.s r.a) (fun s => h s a)
      (fun r _ ha _ => by simp [ha]) (fun r => r.w * (r.y - Q r.s r.a))
    rw [this]
    refine (sumBy_congr (g := fun _ => (0 : F)) ?_).trans (sumBy_zero S)
    intro s hs
    have hq := hQ s hs a
    have : sumIf (inCell s a) (fun r => r.w * (r.y - Q r.s r.a)) l = WY (inCell s a) l - Q s a * W (inCell s a) l := by
      unfold WY W
      rw [← sumIf_mul_left, sumIf_def, sumIf_def, sumIf_def, ← sumBy_sub]
      apply sumBy_congr; intro r _
      by_cases h1 : r.s = s <;> by_cases h2 : r.a = a <;> by_cases h3 : r.obs = true <;>
        simp [inCell, h1, h2, h3]
      · subst h1; subst h2; ring
    rw [this, hq]; ring
  rw [arm true, arm false]; ring

end ZV.Stoch
