/-
Helper lemmas for C13 (Monte Carlo g-formula): frame conditions of `exec`, `runCovs`, `runLags`, the value of
every loop-owned column after one step, and the description of a simulated history as a prefix of the
unstopped trajectory.  Core Lean only.
-/
import ZepidVerif.Model.MonteCarlo
namespace ZV.MC
set_option linter.unusedSectionVars false
set_option linter.unusedVariables false
set_option linter.unusedSimpArgs false

variable {V : Type} [NatCast V] [Add V] [Mul V] [DecidableEq V] [LT V] [DecidableLT V] [LE V] [DecidableLE V]

@[simp] theorem Env.set_same (e : Env V) (k : Nat) (v : V) : e.set k v k = v := by simp [Env.set]
theorem Env.set_other (e : Env V) {k j : Nat} (v : V) (h : j ≠ k) : e.set k v j = e j := by simp [Env.set, h]

theorem exec_other (ss : List (Assign V)) (e : Env V) (k : Nat) (h : k ∉ targets ss) : exec ss e k = e k := by
  induction ss generalizing e with
  | nil => rfl
  | cons s ss ih =>
    simp only [targets, List.map_cons, List.mem_cons, not_or] at h
    simp only [exec]
    rw [ih _ (by simpa [targets] using h.2), Env.set_other _ _ h.1]

theorem applyLags_other (src : Env V) (ls : List (Nat × Nat)) (e : Env V) (k : Nat) (h : k ∉ ls.map (·.2)) :
    applyLags src ls e k = e k := by
  induction ls generalizing e with
  | nil => rfl
  | cons p ls ih =>
    obtain ⟨a, b⟩ := p
    simp only [List.map_cons, List.mem_cons, not_or] at h
    simp only [applyLags]
    rw [ih _ h.2, Env.set_other _ _ h.1]

theorem runLags_other (ls : List (Nat × Nat)) (e : Env V) (k : Nat) (h : k ∉ ls.map (·.2)) :
    runLags ls e k = e k := applyLags_other e ls e k h

/-- with distinct targets every pair of the dictionary takes effect, whatever the listing order -/
theorem applyLags_pair (src : Env V) (ls : List (Nat × Nat)) (e : Env V) (k v : Nat) (hm : (k, v) ∈ ls)
    (hd : (ls.map (·.2)).Nodup) : applyLags src ls e v = src k := by
  induction ls generalizing e with
  | nil => simp at hm
  | cons p ls ih =>
    obtain ⟨a, b⟩ := p
    simp only [List.map_cons, List.nodup_cons] at hd
    simp only [applyLags]
    simp only [List.mem_cons, Prod.mk.injEq] at hm
    rcases hm with ⟨rfl, rfl⟩ | hm
    · rw [applyLags_other _ _ _ _ hd.1]; simp
    · exact ih _ hm hd.2

theorem runLags_pair (lags : List (Nat × Nat)) (k v : Nat) (hm : (k, v) ∈ lags)
    (hd : (lags.map (·.2)).Nodup) (e : Env V) : runLags lags e v = e k := applyLags_pair e lags e k v hm hd

/-- columns written by a list of covariate models -/
def covWrites (cs : List (Cov V)) : List Nat := cs.flatMap fun c => c.col :: targets c.recode

theorem runCovs_other (cs : List (Cov V)) (d : Nat → V) (j : Nat) (e : Env V) (k : Nat)
    (h : k ∉ covWrites cs) : (runCovs cs d j e).2 k = e k := by
  induction cs generalizing e j with
  | nil => rfl
  | cons c cs ih =>
    simp only [covWrites, List.flatMap_cons, List.mem_append, List.mem_cons, not_or] at h
    simp only [runCovs]
    rw [ih _ _ (by simpa [covWrites] using h.2), exec_other _ _ _ h.1.2, Env.set_other _ _ h.1.1]

theorem runCovs_seen_other (cs : List (Cov V)) (d : Nat → V) (j : Nat) (e : Env V) (k : Nat)
    (h : k ∉ covWrites cs) : ∀ f ∈ (runCovs cs d j e).1, f k = e k := by
  induction cs generalizing e j with
  | nil => intro f hf; simp [runCovs] at hf
  | cons c cs ih =>
    simp only [covWrites, List.flatMap_cons, List.mem_append, List.mem_cons, not_or] at h
    intro f hf
    simp only [runCovs, List.mem_cons] at hf
    rcases hf with rfl | hf
    · rfl
    · rw [ih _ _ (by simpa [covWrites] using h.2) f hf, exec_other _ _ _ h.1.2, Env.set_other _ _ h.1.1]

theorem mem_insertCov (c x : Cov V) (l : List (Cov V)) : x ∈ insertCov c l ↔ x = c ∨ x ∈ l := by
  induction l with
  | nil => simp [insertCov]
  | cons d ds ih =>
    simp only [insertCov]
    split
    · simp
    · simp only [List.mem_cons, ih]
      constructor
      · rintro (h | h | h) <;> simp [h]
      · rintro (h | h | h) <;> simp [h]

theorem mem_orderCovs (x : Cov V) (l : List (Cov V)) : x ∈ orderCovs l ↔ x ∈ l := by
  induction l with
  | nil => simp [orderCovs]
  | cons d ds ih =>
    have : orderCovs (d :: ds) = insertCov d (orderCovs ds) := rfl
    rw [this, mem_insertCov, ih]; simp

theorem mem_covWrites_order (k : Nat) (l : List (Cov V)) : k ∈ covWrites (orderCovs l) ↔ k ∈ covWrites l := by
  simp only [covWrites, List.mem_flatMap]
  constructor
  · rintro ⟨c, hc, hk⟩; exact ⟨c, (mem_orderCovs c l).1 hc, hk⟩
  · rintro ⟨c, hc, hk⟩; exact ⟨c, (mem_orderCovs c l).2 hc, hk⟩

/-! ### Hypotheses of the property theorems -/

/-- the columns the loop itself owns -/
def reserved (c : Cols) : List Nat := [c.a, c.y, c.tin, c.tout, c.unc]

/-- every column written by user-supplied code other than out_recode: in_recode, covariate models, lag targets -/
def userWrites (cfg : Config V) : List Nat :=
  targets cfg.inRecode ++ covWrites cfg.covs ++ cfg.lags.map (·.2)

/-- columns written before / between the `_predict` calls of a step -/
def predWrites (cfg : Config V) : List Nat :=
  reserved cfg.cols ++ targets cfg.inRecode ++ covWrites cfg.covs

/-- well-formed call: the five loop-owned columns are distinct and user code (recodes, covariate models, lags)
    does not write to them — except that out_recode may rewrite the *outcome* column (a structural rule such as
    'no event while L = 0'), which the real loop supports: its filters read the outcome after out_recode -/
structure Safe (cfg : Config V) : Prop where
  nodup : (reserved cfg.cols).Nodup
  sep : ∀ k ∈ reserved cfg.cols, k ∉ userWrites cfg
  sepOut : ∀ k ∈ reserved cfg.cols, k ≠ cfg.cols.y → k ∉ targets cfg.outRecode

/-- out_recode leaves the outcome column alone (needed only where a theorem speaks about the *drawn* outcome) -/
def OutcomeUntouched (cfg : Config V) : Prop := cfg.cols.y ∉ targets cfg.outRecode

/-- the outcome column of every record of a history is zero or positive.  Automatic when out_recode leaves the outcome
    alone (`outcome_sign_of_untouched`); when out_recode rewrites the outcome this is what the user's rule has to
    respect (the harness checks it on every run: the outcome column of `predicted_outcomes` is 0/1) -/
def OutcomeSign (cfg : Config V) (tmax : Nat) (draws : Nat → StepDraw V) (b : Env V) : Prop :=
  ∀ r ∈ simOne cfg tmax draws b, r.out cfg.cols.y = ((0 : Nat) : V) ∨ ((0 : Nat) : V) < r.out cfg.cols.y

/-- the facts about 0 and 1 of the carrier that the two row filters rely on (true of `Rat`, `Int`, any ordered
    field) -/
structure Num01 (V : Type) [NatCast V] [LT V] : Prop where
  ne : ((0 : Nat) : V) ≠ ((1 : Nat) : V)
  lt : ((0 : Nat) : V) < ((1 : Nat) : V)
  irr : ¬ ((0 : Nat) : V) < ((0 : Nat) : V)

section step
variable {cfg : Config V} (hs : Safe cfg)
include hs

theorem Safe.ne : cfg.cols.a ≠ cfg.cols.y ∧ cfg.cols.a ≠ cfg.cols.tin ∧ cfg.cols.a ≠ cfg.cols.tout ∧
    cfg.cols.a ≠ cfg.cols.unc ∧ cfg.cols.y ≠ cfg.cols.tin ∧ cfg.cols.y ≠ cfg.cols.tout ∧
    cfg.cols.y ≠ cfg.cols.unc ∧ cfg.cols.tin ≠ cfg.cols.tout ∧ cfg.cols.tin ≠ cfg.cols.unc ∧
    cfg.cols.tout ≠ cfg.cols.unc := by
  have := hs.nodup
  simp only [reserved, List.nodup_cons, List.mem_cons, List.not_mem_nil, or_false, not_or, List.nodup_nil,
    and_true, not_false_eq_true] at this
  obtain ⟨⟨h1, h2, h3, h4⟩, ⟨h5, h6, h7⟩, ⟨h8, h9⟩, h10⟩ := this
  exact ⟨h1, h2, h3, h4, h5, h6, h7, h8, h9, h10⟩

theorem envIn_res (i : Nat) (e : Env V) {k : Nat} (hk : k ∈ reserved cfg.cols) :
    envIn cfg i e k = e.set cfg.cols.tin ((i : Nat) : V) k := by
  have := hs.sep k hk
  simp only [userWrites, List.mem_append, not_or] at this
  exact exec_other _ _ _ this.1.1

theorem envCov_res (i : Nat) (d : StepDraw V) (e : Env V) {k : Nat} (hk : k ∈ reserved cfg.cols) :
    envCov cfg i d e k = e.set cfg.cols.tin ((i : Nat) : V) k := by
  have := hs.sep k hk
  simp only [userWrites, List.mem_append, not_or] at this
  unfold envCov
  rw [runCovs_other _ _ _ _ _ (fun h => this.1.2 ((mem_covWrites_order k cfg.covs).1 h))]
  exact envIn_res hs i e hk

theorem out_res (tmax i : Nat) (d : StepDraw V) (e : Env V) {k : Nat} (hk : k ∈ reserved cfg.cols)
    (ho : k ∉ targets cfg.outRecode) : (step cfg tmax i d e).out k = envLast cfg tmax i d e k := by
  have := hs.sep k hk
  simp only [userWrites, List.mem_append, not_or] at this
  show runLags cfg.lags (envPre cfg tmax i d e) k = _
  rw [runLags_other _ _ _ this.2]
  exact exec_other _ _ _ ho

omit hs in
theorem envPlan_other (i : Nat) (d : StepDraw V) (e : Env V) {k : Nat} (hk : k ≠ cfg.cols.a) :
    envPlan cfg i d e k = envCov cfg i d e k := by
  unfold envPlan envRule
  cases cfg.plan <;> simp [Env.set_other _ _ hk]

theorem step_out_tin (tmax i : Nat) (d : StepDraw V) (e : Env V) :
    (step cfg tmax i d e).out cfg.cols.tin = ((i : Nat) : V) := by
  obtain ⟨h1, h2, h3, h4, h5, h6, h7, h8, h9, h10⟩ := hs.ne
  rw [out_res hs _ _ _ _ (by simp [reserved]) (hs.sepOut _ (by simp [reserved]) (Ne.symm h5))]
  have hP : envPlan cfg i d e cfg.cols.tin = ((i : Nat) : V) := by
    rw [envPlan_other _ _ _ (Ne.symm h2), envCov_res hs _ _ _ (by simp [reserved])]; simp
  unfold envLast envCens envY
  split <;> split <;> simp [Env.set, h8, h9, Ne.symm h5, hP]

theorem step_out_tout (tmax i : Nat) (d : StepDraw V) (e : Env V) :
    (step cfg tmax i d e).out cfg.cols.tout = ((i + 1 : Nat) : V) := by
  obtain ⟨h1, h2, h3, h4, h5, h6, h7, h8, h9, h10⟩ := hs.ne
  rw [out_res hs _ _ _ _ (by simp [reserved]) (hs.sepOut _ (by simp [reserved]) (Ne.symm h6))]
  unfold envLast envCens envY
  split <;> split <;> simp [Env.set, h10, Ne.symm h6]

theorem step_out_y (hy : OutcomeUntouched cfg) (tmax i : Nat) (d : StepDraw V) (e : Env V) :
    (step cfg tmax i d e).out cfg.cols.y =
      if cfg.cens = true ∧ b2v d.c ≠ ((1 : Nat) : V) then ((0 : Nat) : V) else b2v d.y := by
  obtain ⟨h1, h2, h3, h4, h5, h6, h7, h8, h9, h10⟩ := hs.ne
  rw [out_res hs _ _ _ _ (by simp [reserved]) hy]
  unfold envLast envCens envY
  split <;> split <;> simp_all [Env.set, Ne.symm h6, Ne.symm h7]

theorem step_out_unc (tmax i : Nat) (d : StepDraw V) (e : Env V) :
    (step cfg tmax i d e).out cfg.cols.unc =
      if i + 1 = tmax then ((0 : Nat) : V) else if cfg.cens = true then b2v d.c else e cfg.cols.unc := by
  obtain ⟨h1, h2, h3, h4, h5, h6, h7, h8, h9, h10⟩ := hs.ne
  rw [out_res hs _ _ _ _ (by simp [reserved]) (hs.sepOut _ (by simp [reserved]) (Ne.symm h7))]
  have hP : envPlan cfg i d e cfg.cols.unc = e cfg.cols.unc := by
    rw [envPlan_other _ _ _ (Ne.symm h4), envCov_res hs _ _ _ (by simp [reserved])]
    simp [Env.set, Ne.symm h9]
  unfold envLast envCens envY
  split <;> split <;> simp_all [Env.set, Ne.symm h7, Ne.symm h10]

theorem step_out_a (tmax i : Nat) (d : StepDraw V) (e : Env V) :
    (step cfg tmax i d e).out cfg.cols.a = envPlan cfg i d e cfg.cols.a := by
  obtain ⟨h1, h2, h3, h4, h5, h6, h7, h8, h9, h10⟩ := hs.ne
  rw [out_res hs _ _ _ _ (by simp [reserved]) (hs.sepOut _ (by simp [reserved]) h1)]
  unfold envLast envCens envY
  split <;> split <;> simp [Env.set, h1, h3, h4]

end step

/-- a filter that rejects every element with a successor and accepts the last one keeps exactly the last -/
theorem filter_eq_last {α : Type} (p : α → Bool) : ∀ (l : List α) (hne : l ≠ []),
    (∀ j (hj : j + 1 < l.length), p (l[j]'(by omega)) = false) → p (l.getLast hne) = true →
    l.filter p = [l.getLast hne] := by
  intro l
  induction l with
  | nil => intro hne; exact absurd rfl hne
  | cons x xs ih =>
    intro hne hmid hkl
    cases xs with
    | nil => simpa using hkl
    | cons y ys =>
      have hx : p x = false := by simpa using hmid 0 (by simp)
      rw [List.filter_cons, hx]
      simp only [Bool.false_eq_true, if_false]
      rw [List.getLast_cons (by simp)]
      apply ih (by simp)
      · intro j hj
        have := hmid (j + 1) (by simpa using hj)
        simpa using this
      · rw [List.getLast_cons (by simp)] at hkl; exact hkl

/-! ### A simulated history is a prefix of the unstopped trajectory -/

/-- row entering iteration `i + j` when nothing stops the loop -/
def traj (cfg : Config V) (tmax : Nat) (draws : Nat → StepDraw V) (e : Env V) (i : Nat) : Nat → Env V
  | 0 => e
  | j + 1 => (step cfg tmax (i + j) (draws (i + j)) (traj cfg tmax draws e i j)).out

theorem traj_shift (cfg : Config V) (tmax : Nat) (draws : Nat → StepDraw V) (e : Env V) (i j : Nat) :
    traj cfg tmax draws e i (j + 1) = traj cfg tmax draws (step cfg tmax i (draws i) e).out (i + 1) j := by
  induction j with
  | zero => simp [traj]
  | succ j ih =>
    show (step cfg tmax (i + (j + 1)) (draws (i + (j + 1))) (traj cfg tmax draws e i (j + 1))).out = _
    rw [ih]
    show _ = (step cfg tmax (i + 1 + j) (draws (i + 1 + j)) _).out
    have : i + (j + 1) = i + 1 + j := by omega
    rw [this]

theorem simFrom_length_le (cfg : Config V) (tmax : Nat) (draws : Nat → StepDraw V) (fuel i : Nat) (e : Env V) :
    (simFrom cfg tmax draws fuel i e).length ≤ fuel := by
  induction fuel generalizing i e with
  | zero => simp [simFrom]
  | succ f ih =>
    simp only [simFrom]
    split
    · simp only [List.length_cons]; have := ih (i + 1) (step cfg tmax i (draws i) e).out; omega
    · simp

theorem simFrom_ne_nil (cfg : Config V) (tmax : Nat) (draws : Nat → StepDraw V) (fuel i : Nat) (e : Env V)
    (h : 0 < fuel) : simFrom cfg tmax draws fuel i e ≠ [] := by
  cases fuel with
  | zero => omega
  | succ f => simp [simFrom]

theorem simFrom_getElem (cfg : Config V) (tmax : Nat) (draws : Nat → StepDraw V) (fuel i : Nat) (e : Env V)
    (j : Nat) (hj : j < (simFrom cfg tmax draws fuel i e).length) :
    (simFrom cfg tmax draws fuel i e)[j] =
      step cfg tmax (i + j) (draws (i + j)) (traj cfg tmax draws e i j) := by
  induction fuel generalizing i e j with
  | zero => simp [simFrom] at hj
  | succ f ih =>
    cases j with
    | zero => simp [simFrom, traj]
    | succ j =>
      simp only [simFrom] at hj ⊢
      by_cases ha : alive cfg (step cfg tmax i (draws i) e).out = true
      · simp only [ha, if_true, List.length_cons] at hj
        simp only [ha, if_true, List.getElem_cons_succ]
        rw [ih (i + 1) _ j (by omega), traj_shift]
        have : i + 1 + j = i + (j + 1) := by omega
        rw [this]
      · simp [ha] at hj

/-- a record that has a successor passed the filter at the top of the loop -/
theorem simFrom_alive_of_succ (cfg : Config V) (tmax : Nat) (draws : Nat → StepDraw V) (fuel i : Nat) (e : Env V)
    (j : Nat) (hj : j + 1 < (simFrom cfg tmax draws fuel i e).length) :
    alive cfg ((simFrom cfg tmax draws fuel i e)[j]'(by omega)).out = true := by
  induction fuel generalizing i e j with
  | zero => simp [simFrom] at hj
  | succ f ih =>
    by_cases ha : alive cfg (step cfg tmax i (draws i) e).out = true
    · cases j with
      | zero => simpa [simFrom] using ha
      | succ j =>
        simp only [simFrom, ha, if_true, List.length_cons] at hj
        simp only [simFrom, ha, if_true, List.getElem_cons_succ]
        exact ih (i + 1) _ j (by omega)
    · simp [simFrom, ha] at hj

/-- the row entering iteration `j + 1` of a history is the previous record -/
theorem traj_succ_eq_out (cfg : Config V) (tmax : Nat) (draws : Nat → StepDraw V) (fuel i : Nat) (e : Env V)
    (j : Nat) (hj : j < (simFrom cfg tmax draws fuel i e).length) :
    traj cfg tmax draws e i (j + 1) = ((simFrom cfg tmax draws fuel i e)[j]).out := by
  rw [simFrom_getElem]; rfl

/-- every row entering an iteration of a history is uncensored -/
theorem traj_unc (cfg : Config V) (tmax : Nat) (draws : Nat → StepDraw V) (fuel i : Nat) (e : Env V)
    (he : e cfg.cols.unc = ((1 : Nat) : V)) (j : Nat) (hj : j < (simFrom cfg tmax draws fuel i e).length) :
    traj cfg tmax draws e i j cfg.cols.unc = ((1 : Nat) : V) := by
  cases j with
  | zero => exact he
  | succ j =>
    rw [traj_succ_eq_out cfg tmax draws fuel i e j (by omega)]
    have := simFrom_alive_of_succ cfg tmax draws fuel i e j hj
    simp only [alive, Bool.and_eq_true, decide_eq_true_eq] at this
    exact this.2

/-! ### Lemmas about `simOne`, rule evaluation and the frames seen in a step -/
section
variable (cfg : Config V) (tmax : Nat) (draws : Nat → StepDraw V) (b : Env V)

theorem simOne_getElem (j : Nat) (hj : j < (simOne cfg tmax draws b).length) :
    (simOne cfg tmax draws b)[j] = step cfg tmax j (draws j) (traj cfg tmax draws (initRow cfg b) 0 j) := by
  have hj' : j < (simFrom cfg tmax draws tmax 0 (initRow cfg b)).length := hj
  have := simFrom_getElem cfg tmax draws tmax 0 (initRow cfg b) j hj'
  simp only [Nat.zero_add] at this
  exact this

theorem initRow_unc : initRow cfg b cfg.cols.unc = ((1 : Nat) : V) := by simp [initRow]

theorem Expr.eval_congr (x : Expr V) (e1 e2 : Env V) (h : ∀ k ∈ x.reads, e1 k = e2 k) : x.eval e1 = x.eval e2 := by
  induction x with
  | var k => exact h k (by simp [Expr.reads])
  | const c => rfl
  | add p q ihp ihq =>
    simp only [Expr.eval]
    rw [ihp (fun k hk => h k (by simp [Expr.reads, hk])), ihq (fun k hk => h k (by simp [Expr.reads, hk]))]
  | mul p q ihp ihq =>
    simp only [Expr.eval]
    rw [ihp (fun k hk => h k (by simp [Expr.reads, hk])), ihq (fun k hk => h k (by simp [Expr.reads, hk]))]

theorem Cond.eval_congr (c : Cond V) (e1 e2 : Env V) (h : ∀ k ∈ c.reads, e1 k = e2 k) : c.eval e1 = c.eval e2 := by
  induction c with
  | cmp op x y =>
    simp only [Cond.eval]
    rw [Expr.eval_congr x e1 e2 (fun k hk => h k (by simp [Cond.reads, hk])),
      Expr.eval_congr y e1 e2 (fun k hk => h k (by simp [Cond.reads, hk]))]
  | and p q ihp ihq =>
    simp only [Cond.eval]
    rw [ihp (fun k hk => h k (by simp [Cond.reads, hk])), ihq (fun k hk => h k (by simp [Cond.reads, hk]))]
  | or p q ihp ihq =>
    simp only [Cond.eval]
    rw [ihp (fun k hk => h k (by simp [Cond.reads, hk])), ihq (fun k hk => h k (by simp [Cond.reads, hk]))]
  | not p ih =>
    simp only [Cond.eval]
    rw [ih (fun k hk => h k (by simpa [Cond.reads] using hk))]

/-- frames seen by the models of a step differ from the row entering the step only in columns written before the
    predictions (loop-owned columns, in_recode targets, covariate models) -/
theorem seen_other (i : Nat) (d : StepDraw V) (e : Env V) (v : Nat) (hv : v ∉ predWrites cfg) :
    ∀ f ∈ (step cfg tmax i d e).seen, f v = e v := by
  simp only [predWrites, reserved, List.mem_append, List.mem_cons, List.not_mem_nil, or_false, not_or] at hv
  obtain ⟨⟨⟨va, vy, vtin, vtout, vunc⟩, vin⟩, vcov⟩ := hv
  have hIn : envIn cfg i e v = e v := by
    unfold envIn; rw [exec_other _ _ _ vin, Env.set_other _ _ vtin]
  have hCov : envCov cfg i d e v = e v := by
    unfold envCov
    rw [runCovs_other _ _ _ _ _ (fun h => vcov ((mem_covWrites_order v cfg.covs).1 h)), hIn]
  have hPlan : envPlan cfg i d e v = e v := by rw [envPlan_other _ _ _ va, hCov]
  intro f hf
  simp only [step, List.mem_append, List.mem_singleton] at hf
  rcases hf with ((hf | hf) | hf) | hf
  · rw [runCovs_seen_other _ _ _ _ _ (fun h => vcov ((mem_covWrites_order v cfg.covs).1 h)) f hf, hIn]
  · unfold seenPlan at hf
    cases hp : cfg.plan <;> simp [hp] at hf <;> (subst hf; exact hCov)
  · subst hf; exact hPlan
  · split at hf
    · simp only [List.mem_singleton] at hf
      subst hf
      simp [envY, Env.set, vy, vtout, hPlan]
    · simp at hf

end

/-! ### Concrete data for the non-vacuity examples (carrier `Int`)
columns: 0 exposure A, 1 outcome Y, 2 time_in, 3 time_out, 4 uncensored, 5 covariate L, 8 A_l1, 9 A_l2, 10 L_l1,
12 cumA -/
namespace Ex
def cols : Cols := ⟨0, 1, 2, 3, 4⟩
/-- custom rule `(g['L'] == 1) | (g['A_l1'] == 1)`, covariate model for L, censoring model,
    out_recode `g['cumA'] = g['cumA'] + g['A']`, lags {'A_l1': 'A_l2', 'A': 'A_l1', 'L': 'L_l1'} -/
def cfg : Config Int :=
  { cols := cols, covs := [⟨1, 5, []⟩]
    plan := .custom (.or (.cmp .eq (.var 5) (.const 1)) (.cmp .eq (.var 8) (.const 1)))
    cens := true, inRecode := [], outRecode := [⟨12, .add (.var 12) (.var 0)⟩]
    lags := [(8, 9), (0, 8), (5, 10)] }
def cfgAll : Config Int := { cfg with plan := .all }
def cfgNone : Config Int := { cfg with plan := .none }
def cfgNat : Config Int := { cfg with plan := .natural }
/-- the same chain with the first-order lag listed before the second-order one -/
def cfgFwd : Config Int := { cfgNat with lags := [(0, 8), (8, 9), (5, 10)] }
/-- out_recode keeps a running count of treated intervals (column 12) that is itself lagged (into column 13) and
    read by the plan: 'treat while never treated', rule `g['cumA_l1'] == 0` -/
def cfgCum : Config Int :=
  { cfg with plan := .custom (.cmp .eq (.var 13) (.const 0)), lags := [(0, 8), (5, 10), (12, 13)] }
/-- out_recode rewrites the outcome: 'no event while L = 0', `g['Y'] = g['Y'] * g['L']` -/
def cfgYL : Config Int := { cfgNat with outRecode := [⟨1, .mul (.var 1) (.var 5)⟩] }
def base : Env Int := ⟨fun _ => 0⟩
/-- L draws 0,1,0,…; exposure draws 1,0,0; outcome 0,0,1; uncensored 1,1,1 -/
def draws : Nat → StepDraw Int := fun i =>
  ⟨fun _ => if i = 1 then 1 else 0, i == 0, i == 2, true⟩
/-- censored in the second interval -/
def drawsC : Nat → StepDraw Int := fun i => ⟨fun _ => 0, false, i == 1, i != 1⟩
theorem safe : Safe cfg := ⟨by decide, by decide, by decide⟩
theorem safeAll : Safe cfgAll := ⟨by decide, by decide, by decide⟩
theorem safeNone : Safe cfgNone := ⟨by decide, by decide, by decide⟩
theorem safeNat : Safe cfgNat := ⟨by decide, by decide, by decide⟩
theorem safeCum : Safe cfgCum := ⟨by decide, by decide, by decide⟩
theorem safeYL : Safe cfgYL := ⟨by decide, by decide, by decide⟩
theorem num01 : Num01 Int := ⟨by decide, by decide, by decide⟩
end Ex

end ZV.MC
