/-
Helper lemmas connecting the TMLE model (`Model/Tmle.lean`, rows carrying their own nuisance
predictions) with the standardization vocabulary (`Model/Std.lean`, rows carrying a stratum id):
`toT` attaches stratum-wise nuisance predictions to the rows; the efficient-score sums and the
plug-in means of the TMLE model are rewritten as `sumIf` / `gformula` expressions, to which
`gformula_of_score`, `gformula_of_outfit` and `score_root_unique` apply.
-/
import ZepidVerif.Model.Tmle
import ZepidVerif.Lemmas.Score
namespace ZV.Std
open ZV
set_option linter.unusedSectionVars false
variable {F : Type} [Field F] [LinearOrder F] [IsStrictOrderedRing F]

/-- a data row with the nuisance predictions of its stratum attached, as `TMLE.fit` sees it -/
def toT (Q : Nat → Bool → F) (g1 g0 : Nat → F) (r : Row F) : Tmle.TRow F :=
  ⟨r.a, r.obs, r.y, Q r.s true, Q r.s false, g1 r.s, g0 r.s⟩

theorem eff1_eq (σ lg : F → F) (e1 : F) (l : List (Row F)) (hw : ∀ r ∈ l, r.w = 1) (Q : Nat → Bool → F)
    (g1 g0 : Nat → F) :
    Tmle.eff1 σ lg e1 (l.map (toT Q g1 g0))
      = sumIf (fun r => r.a == true && r.obs) (fun r => (1 / g1 r.s) * (r.w * (r.y - σ (lg (Q r.s true) + e1 / g1 r.s)))) l := by
  unfold Tmle.eff1 Tmle.obsRows
  rw [sumBy_filter, sumBy_map, sumIf_def]
  apply sumBy_congr; intro r hr
  cases ha : r.a <;> cases ho : r.obs <;> simp [toT, Tmle.ind, Tmle.qstar1, ha, ho, hw r hr]

theorem eff0_eq (σ lg : F → F) (e2 : F) (l : List (Row F)) (hw : ∀ r ∈ l, r.w = 1) (Q : Nat → Bool → F)
    (g1 g0 : Nat → F) :
    Tmle.eff0 σ lg e2 (l.map (toT Q g1 g0))
      = sumIf (fun r => r.a == false && r.obs) (fun r => (1 / g0 r.s) * (r.w * (r.y - σ (lg (Q r.s false) - e2 / g0 r.s)))) l := by
  unfold Tmle.eff0 Tmle.obsRows
  rw [sumBy_filter, sumBy_map, sumIf_def]
  apply sumBy_congr; intro r hr
  cases ha : r.a <;> cases ho : r.obs <;> simp [toT, Tmle.ind, Tmle.qstar0, ha, ho, hw r hr]

/-- the plug-in risks of the TMLE model are g-formula means of the targeted predictions over all rows -/
theorem risk1_eq (σ lg : F → F) (e1 e2 : F) (l : List (Row F)) (hw : ∀ r ∈ l, r.w = 1) (Q : Nat → Bool → F)
    (g1 g0 : Nat → F) :
    Tmle.risk1Of (Tmle.targets σ lg e1 e2 (l.map (toT Q g1 g0)))
      = gformula l (fun r _ => σ (lg (Q r.s true) + e1 / g1 r.s)) Tgt.pop.mem true := by
  unfold Tmle.risk1Of Tmle.mean Tmle.targets gformula W
  simp only [List.map_map, sumBy_map, List.length_map]
  rw [sumIf_def, sumIf_def]
  congr 1
  · apply sumBy_congr; intro r hr; simp [toT, Tmle.qstar1, Tgt.mem, hw r hr]
  · rw [← sumBy_const_one]; apply sumBy_congr; intro r hr; simp [Tgt.mem, hw r hr]

theorem risk0_eq (σ lg : F → F) (e1 e2 : F) (l : List (Row F)) (hw : ∀ r ∈ l, r.w = 1) (Q : Nat → Bool → F)
    (g1 g0 : Nat → F) :
    Tmle.risk0Of (Tmle.targets σ lg e1 e2 (l.map (toT Q g1 g0)))
      = gformula l (fun r _ => σ (lg (Q r.s false) - e2 / g0 r.s)) Tgt.pop.mem false := by
  unfold Tmle.risk0Of Tmle.mean Tmle.targets gformula W
  simp only [List.map_map, sumBy_map, List.length_map]
  rw [sumIf_def, sumIf_def]
  congr 1
  · apply sumBy_congr; intro r hr; simp [toT, Tmle.qstar0, Tgt.mem, hw r hr]
  · rw [← sumBy_const_one]; apply sumBy_congr; intro r hr; simp [Tgt.mem, hw r hr]

theorem gformula_congr (l : List (Row F)) (Q Q' : Row F → Bool → F) (tm : Row F → Bool) (a : Bool)
    (h : ∀ r ∈ l, Q r a = Q' r a) : gformula l Q tm a = gformula l Q' tm a := by
  unfold gformula; congr 1; apply sumIf_congr; intro r hr; rw [h r hr]

/-- the arm-`a` fluctuation score written in the one-parameter form of `score_root_unique` -/
theorem arm_score_form (σ : F → F) (l : List (Row F)) (hw : ∀ r ∈ l, r.w = 1) (a : Bool) (g o : Nat → F) (ε : F) :
    sumIf (fun r => r.a == a && r.obs) (fun r => (1 / g r.s) * (r.w * (r.y - σ (o r.s + ε / g r.s)))) l
      = sumBy (fun r => (if (r.a == a && r.obs) then 1 / g r.s else 0)
          * (r.y - σ (o r.s + ε * (if (r.a == a && r.obs) then 1 / g r.s else 0)))) l := by
  rw [sumIf_def]; apply sumBy_congr; intro r hr
  by_cases h : (r.a == a && r.obs) = true
  · simp only [h, if_true, hw r hr, one_mul]; congr 3; ring
  · simp [h]

/-- with a saturated outcome model the arm score vanishes at ε = 0 -/
theorem arm_score_zero (σ : F → F) (l : List (Row F)) (S : List Nat) (hS : Strata l S) (a : Bool) (g : Nat → F)
    (Q : Nat → Bool → F) (hQ : OutFit l S Q) (lgQ : Nat → F) (hσ : ∀ s ∈ S, σ (lgQ s) = Q s a) :
    sumIf (fun r => r.a == a && r.obs) (fun r => (1 / g r.s) * (r.w * (r.y - σ (lgQ r.s + 0 / g r.s)))) l = 0 := by
  have h := sumIf_arm_regroup l S hS.1 hS.2 a (fun r => 1 / g r.s) (fun s => 1 / g s) (fun _ _ _ _ => rfl)
    (fun r => r.w * (r.y - σ (lgQ r.s + 0 / g r.s)))
  rw [h]
  refine (sumBy_congr (g := fun _ => (0 : F)) ?_).trans (sumBy_zero S)
  intro s hs
  have : sumIf (inCell s a) (fun r => r.w * (r.y - σ (lgQ r.s + 0 / g r.s))) l
      = WY (inCell s a) l - Q s a * W (inCell s a) l := by
    unfold WY W
    have : sumIf (inCell s a) (fun r => r.w * (r.y - σ (lgQ r.s + 0 / g r.s))) l
        = sumIf (inCell s a) (fun r => r.w * r.y + (-(Q s a)) * r.w) l := by
      apply sumIf_congr; intro r _
      by_cases h : r.s = s
      · subst h; rw [zero_div, add_zero, hσ r.s hs]; split <;> ring
      · simp [inCell, h]
    rw [this, sumIf_add, sumIf_mul_left]; ring
  rw [this, ← hQ s hs a]; ring

end ZV.Std
