/-
Proofs about the call-history model `ZV.History` (C11).  The property theorems are restated, one by one, in
`Props/C11.lean`; this file holds them together with their helper lemmas (invariant of reachable states, replay of a
slot assignment, field-wise description of `apply`).
-/
import ZepidVerif.Model.History
import Mathlib.Logic.Basic
import Mathlib.Tactic.ByContra
import Mathlib.Tactic.Push
set_option linter.unusedVariables false
set_option linter.unusedSectionVars false
namespace ZV.L11
open ZV.History

variable {C : Cls}

/-! ### Basic facts about `run` -/

theorem run_nil (s : State) : run C s [] = s := rfl
theorem run_cons (s : State) (o : Op) (ops : List Op) : run C s (o :: ops) = run C (next C s o) ops := rfl
theorem run_append (s : State) (a b : List Op) : run C s (a ++ b) = run C (run C s a) b := by
  simp [run, List.foldl_append]

theorem State.ext3 {s t : State} (h1 : s.slots = t.slots) (h2 : s.fitted = t.fitted) (h3 : s.regs = t.regs) :
    s = t := by
  cases s; cases t; simp_all

/-- the signature of every method id of a well-formed table is well-formed (ids outside the table raise) -/
theorem wf_sig (h : wf C = true) (m : Nat) : wfSig C.nslots (C.sig m) = true := by
  unfold Cls.sig
  rw [List.getD_eq_getElem?_getD]
  cases hm : C.sigs[m]? with
  | none => simp [noMethod, wfSig]
  | some g =>
    have : g ∈ C.sigs := List.mem_of_getElem? hm
    simp only [Option.getD_some]
    exact (List.all_eq_true.mp h) g this

/-- consequences of `wfSig` for a specification call -/
theorem wf_spec (h : wf C = true) {m k : Nat} (hw : (C.sig m).writes = some k) :
    k < C.nslots ∧ (C.sig m).req = [] ∧ (C.sig m).needsFit = false ∧ (C.sig m).isFit = false := by
  have := wf_sig h m
  unfold wfSig at this
  rw [hw] at this
  simp only [Bool.and_eq_true, decide_eq_true_eq, Bool.not_eq_true', List.isEmpty_iff] at this
  obtain ⟨⟨⟨⟨a, b⟩, c⟩, d⟩, _⟩ := this
  exact ⟨a, b, c, d⟩

/-- consequences of `wfSig` for a fit call -/
theorem wf_fit (h : wf C = true) {m : Nat} (hf : (C.sig m).isFit = true) :
    (C.sig m).writes = none ∧ (C.sig m).needsFit = false ∧ ∀ k ∈ (C.sig m).req, k < C.nslots := by
  have hs := wf_sig h m
  refine ⟨?_, ?_, ?_⟩
  · cases hw : (C.sig m).writes with
    | none => rfl
    | some k => have := (wf_spec h hw).2.2.2; simp [hf] at this
  · unfold wfSig at hs
    simp only [Bool.and_eq_true, Bool.or_eq_true, Bool.not_eq_true', hf] at hs
    rcases hs.2 with h1 | h1
    · simp at h1
    · exact h1.1
  · unfold wfSig at hs
    simp only [Bool.and_eq_true, Bool.or_eq_true, Bool.not_eq_true', hf] at hs
    rcases hs.2 with h1 | h1
    · simp at h1
    · intro k hk
      have := (List.all_eq_true.mp h1.2) k hk
      simpa using this

/-! ### Field-wise description of `apply` -/

theorem apply_slots (s : State) (o : Op) : (apply C s o).slots =
    (match (C.sig o.m).writes with | some k => upd s.slots k o | none => s.slots) := rfl
theorem apply_fitted (s : State) (o : Op) : (apply C s o).fitted =
    (if (C.sig o.m).isFit = true then some ((apply C s o).slots, o) else s.fitted) := rfl
theorem apply_regs (s : State) (o : Op) : (apply C s o).regs =
    (match (C.sig o.m).sticky with
     | some r => if o.flag = true then upd s.regs r o else s.regs
     | none => s.regs) := rfl
theorem admits_def (s : State) (o : Op) : admits C s o =
    (!(C.sig o.m).blocked && (C.sig o.m).req.all (fun k => (s.slots k).isSome)
      && (!(C.sig o.m).needsFit || s.fitted.isSome)
      && (match (C.sig o.m).lock with | none => true | some r => (s.regs r).isNone)) := rfl

/-! ### Registers stay empty along a calm history -/

def Quiet (s : State) : Prop := s.regs = fun _ => none

theorem quiet_init : Quiet init := rfl

theorem apply_regs_calm (s : State) (o : Op) (hc : calmOp C o = true) : (apply C s o).regs = s.regs := by
  rw [apply_regs]
  unfold calmOp at hc
  cases hs : (C.sig o.m).sticky with
  | none => rfl
  | some r =>
    simp only [hs, Option.isNone_some, Bool.false_or, Bool.not_eq_true'] at hc
    simp [hc]

theorem next_regs_calm (s : State) (o : Op) (hc : calmOp C o = true) : (next C s o).regs = s.regs := by
  unfold next
  split
  · exact apply_regs_calm s o hc
  · rfl

theorem quiet_run {ops : List Op} (hc : calm C ops = true) : ∀ s, Quiet s → Quiet (run C s ops) := by
  induction ops with
  | nil => intro s h; exact h
  | cons o rest ih =>
    intro s h
    have hc' : calmOp C o = true ∧ calm C rest = true := by
      simpa [calm, List.all_cons] using hc
    rw [run_cons]
    apply ih hc'.2
    unfold Quiet at *
    rw [next_regs_calm s o hc'.1, h]

/-- in a quiet state the lock of a method never bites -/
theorem admits_quiet (s : State) (hq : Quiet s) (o : Op) :
    admits C s o = (!(C.sig o.m).blocked && (C.sig o.m).req.all (fun k => (s.slots k).isSome)
      && (!(C.sig o.m).needsFit || s.fitted.isSome)) := by
  rw [admits_def]
  cases hl : (C.sig o.m).lock with
  | none => simp
  | some r =>
    have : s.regs r = none := by rw [hq]
    simp [this]

/-- a class without registers: every history is calm -/
theorem clean_calm (h : clean C = true) (ops : List Op) : calm C ops = true := by
  unfold calm
  apply List.all_eq_true.mpr
  intro o _
  unfold calmOp Cls.sig
  rw [List.getD_eq_getElem?_getD]
  cases hm : C.sigs[o.m]? with
  | none => simp [noMethod]
  | some g =>
    have hg : g ∈ C.sigs := List.mem_of_getElem? hm
    have := (List.all_eq_true.mp h) g hg
    simp only [Bool.and_eq_true] at this
    simp [this.1]

/-! ### The slots hold the last specification of each slot -/

/-- effect of one call on slot `k` -/
theorem next_slots (h : wf C = true) (s : State) (hq : Quiet s) (o : Op) (k : Nat) :
    (next C s o).slots k = if wr C k o = true then some o else s.slots k := by
  unfold next
  by_cases hw : (C.sig o.m).writes = some k
  · obtain ⟨_, hreq, hnf, hif⟩ := wf_spec h hw
    rw [admits_quiet s hq]
    by_cases hb : (C.sig o.m).blocked = true
    · simp [wr, hw, hb]
    · have hb' : (C.sig o.m).blocked = false := by simpa using hb
      simp [wr, hw, hb', hreq, hnf, apply_slots, upd]
  · have hwr : wr C k o = false := by simp [wr, hw]
    rw [hwr]
    simp only [Bool.false_eq_true, if_false]
    split
    · rw [apply_slots]
      cases hw2 : (C.sig o.m).writes with
      | none => rfl
      | some j =>
        have : j ≠ k := by intro e; exact hw (e ▸ hw2)
        simp [upd, Ne.symm this]
    · rfl

theorem getLast?_cons_or {α : Type} (a : α) (l : List α) :
    (a :: l).getLast? = (l.getLast?).or (some a) := by
  cases l with
  | nil => rfl
  | cons b t =>
    rw [List.getLast?_cons_cons]
    cases h : (b :: t).getLast? with
    | none => simp at h
    | some x => rfl

/-- **slots_last** — after any (calm) history, slot `k` holds the last non-blocked specification call of that slot
    (or what the start state held, if there was none).  With `s = init`: `none` iff never specified. -/
theorem slots_last_from (h : wf C = true) (k : Nat) :
    ∀ (ops : List Op) (s : State), calm C ops = true → Quiet s →
      (run C s ops).slots k = ((ops.filter (wr C k)).getLast?).or (s.slots k) := by
  intro ops
  induction ops with
  | nil => intro s _ _; simp [run_nil]
  | cons o rest ih =>
    intro s hc hq
    have hc' : calmOp C o = true ∧ calm C rest = true := by simpa [calm, List.all_cons] using hc
    have hq' : Quiet (next C s o) := by
      unfold Quiet at *; rw [next_regs_calm s o hc'.1, hq]
    rw [run_cons, ih (next C s o) hc'.2 hq', next_slots h s hq]
    by_cases hw : wr C k o = true
    · simp only [hw, if_true, List.filter_cons_of_pos, getLast?_cons_or]
      cases (List.filter (wr C k) rest).getLast? <;> simp
    · simp [hw]

theorem slots_last (h : wf C = true) (ops : List Op) (hc : calm C ops = true) (k : Nat) :
    (run C init ops).slots k = (ops.filter (wr C k)).getLast? := by
  rw [slots_last_from h k ops init hc quiet_init]
  simp [init]


/-! ### Guards -/

theorem slot_isSome_iff (h : wf C = true) (ops : List Op) (hc : calm C ops = true) (k : Nat) :
    ((run C init ops).slots k).isSome = true ↔ ∃ o ∈ ops, wr C k o = true := by
  rw [slots_last h ops hc k]
  constructor
  · intro hs
    cases hl : (ops.filter (wr C k)).getLast? with
    | none => simp [hl] at hs
    | some o =>
      have := List.mem_of_getLast? hl
      rw [List.mem_filter] at this
      exact ⟨o, this.1, this.2⟩
  · rintro ⟨o, ho, hw⟩
    have hm : o ∈ ops.filter (wr C k) := List.mem_filter.mpr ⟨ho, hw⟩
    cases hl : (ops.filter (wr C k)).getLast? with
    | none => rw [List.getLast?_eq_none_iff] at hl; simp [hl] at hm
    | some _ => rfl

/-- **guard_complete** — a fit call raises exactly when the method is unavailable on the data or some required
    slot was never (successfully) specified, whatever else happened in the history. -/
theorem guard_complete (h : wf C = true) (ops : List Op) (hc : calm C ops = true) (o : Op)
    (hf : (C.sig o.m).isFit = true) :
    out C (run C init ops) o = .error ↔
      (C.sig o.m).blocked = true ∨ ∃ k ∈ (C.sig o.m).req, ∀ o' ∈ ops, wr C k o' = false := by
  have hq := quiet_run hc init quiet_init
  obtain ⟨_, hnf, _⟩ := wf_fit h hf
  unfold out
  rw [admits_quiet _ hq]
  constructor
  · intro he
    split at he
    · cases he
    · rename_i hadm
      by_cases hb : (C.sig o.m).blocked = true
      · exact Or.inl hb
      · right
        have hb' : (C.sig o.m).blocked = false := by simpa using hb
        simp only [hb', hnf, Bool.not_false, Bool.true_and, Bool.true_or, Bool.and_true,
          List.all_eq_true, not_forall] at hadm
        obtain ⟨k, hk⟩ := hadm
        obtain ⟨hmem, hns⟩ := hk
        have hk' : k ∈ (C.sig o.m).req ∧ ¬ ((run C init ops).slots k).isSome = true := ⟨hmem, hns⟩
        refine ⟨k, hk'.1, ?_⟩
        intro o' ho'
        by_contra hw
        have hw' : wr C k o' = true := by simpa using hw
        exact hk'.2 ((slot_isSome_iff h ops hc k).mpr ⟨o', ho', hw'⟩)
  · intro hcase
    have : (!(C.sig o.m).blocked && (C.sig o.m).req.all (fun k => ((run C init ops).slots k).isSome)
        && (!(C.sig o.m).needsFit || (run C init ops).fitted.isSome)) = false := by
      rcases hcase with hb | ⟨k, hk, hall⟩
      · simp [hb]
      · have : ((run C init ops).slots k).isSome = false := by
          cases hs : ((run C init ops).slots k).isSome with
          | false => rfl
          | true =>
            obtain ⟨o', ho', hw⟩ := (slot_isSome_iff h ops hc k).mp hs
            rw [hall o' ho'] at hw; cases hw
        have hall' : (C.sig o.m).req.all (fun k => ((run C init ops).slots k).isSome) = false := by
          rw [List.all_eq_false]
          exact ⟨k, hk, by simp [this]⟩
        simp [hall']
    simp [this]


/-- no fit call, no fitted result -/
theorem fitted_none_of_no_fit : ∀ (ops : List Op) (s : State), s.fitted = none →
    (∀ o ∈ ops, (C.sig o.m).isFit = false) → (run C s ops).fitted = none := by
  intro ops
  induction ops with
  | nil => intro s h _; exact h
  | cons o rest ih =>
    intro s hs hall
    rw [run_cons]
    apply ih
    · unfold next
      split
      · unfold apply
        simp [hall o (List.mem_cons_self), hs]
      · exact hs
    · intro o' ho'; exact hall o' (List.mem_cons_of_mem _ ho')

/-- **results_guard** — `summary` / result plots (methods that need a fitted result) raise as long as the history
    contains no fit call; more precisely they raise whenever no fit call of the history went through. -/
theorem results_guard (ops : List Op) (o : Op) (hn : (C.sig o.m).needsFit = true)
    (hnone : (run C init ops).fitted = none) : out C (run C init ops) o = .error := by
  unfold out admits
  simp [hn, hnone]

theorem results_guard_nofit (ops : List Op) (o : Op) (hn : (C.sig o.m).needsFit = true)
    (hall : ∀ o' ∈ ops, (C.sig o'.m).isFit = false) : out C (run C init ops) o = .error :=
  results_guard ops o hn (fitted_none_of_no_fit ops init rfl hall)

/-- the fitted result is set exactly by a fit call that went through -/
theorem fitted_isSome_iff : ∀ (ops : List Op) (s : State),
    ((run C s ops).fitted.isSome = true ↔
      s.fitted.isSome = true ∨ ∃ pre f post, ops = pre ++ f :: post ∧ (C.sig f.m).isFit = true ∧
        admits C (run C s pre) f = true) := by
  intro ops
  induction ops with
  | nil =>
    intro s
    simp [run_nil]
  | cons o rest ih =>
    intro s
    rw [run_cons, ih (next C s o)]
    constructor
    · rintro (h1 | ⟨pre, f, post, he, hf, ha⟩)
      · unfold next at h1
        split at h1
        · rename_i hadm
          by_cases hfit : (C.sig o.m).isFit = true
          · exact Or.inr ⟨[], o, rest, rfl, hfit, by simpa [run_nil] using hadm⟩
          · left
            unfold apply at h1
            simpa [hfit] using h1
        · exact Or.inl h1
      · exact Or.inr ⟨o :: pre, f, post, by simp [he], hf, by simpa [run_cons] using ha⟩
    · rintro (h1 | ⟨pre, f, post, he, hf, ha⟩)
      · left
        unfold next
        split
        · unfold apply
          by_cases hfit : (C.sig o.m).isFit = true
          · simp [hfit]
          · simpa [hfit] using h1
        · exact h1
      · cases pre with
        | nil =>
          simp only [List.nil_append, List.cons.injEq] at he
          obtain ⟨rfl, rfl⟩ := he
          left
          rw [run_nil] at ha
          unfold next
          simp [ha, apply, hf]
        | cons p pre' =>
          simp only [List.cons_append, List.cons.injEq] at he
          obtain ⟨rfl, rfl⟩ := he
          exact Or.inr ⟨pre', f, post, rfl, hf, by simpa [run_cons] using ha⟩


/-- **error_keeps_state** — a call that raises leaves the object as it was (so the history can go on) -/
theorem error_keeps_state (s : State) (o : Op) (h : out C s o = .error) : next C s o = s := by
  unfold out at h
  unfold next
  split at h
  · cases h
  · rename_i hadm; simp [hadm]


/-! ### Reachable states and their canonical call list -/

/-- `o` is a call that can sit in slot `k`: a non-blocked specification call of that slot that sets no register -/
def W (C : Cls) (k : Nat) (o : Op) : Prop :=
  (C.sig o.m).writes = some k ∧ (C.sig o.m).blocked = false ∧ calmOp C o = true

def GoodSlots (C : Cls) (sl : Slots) : Prop := ∀ k o, sl k = some o → W C k o

/-- invariant of the states reached by calm histories -/
structure Good (C : Cls) (s : State) : Prop where
  quiet : Quiet s
  slots : GoodSlots C s.slots
  fitted : ∀ sl f, s.fitted = some (sl, f) →
    (C.sig f.m).isFit = true ∧ (C.sig f.m).blocked = false ∧ calmOp C f = true ∧
    (∀ k ∈ (C.sig f.m).req, (sl k).isSome = true) ∧ GoodSlots C sl ∧
    (∀ k, (sl k).isSome = true → (s.slots k).isSome = true)

theorem good_init : Good C init :=
  ⟨rfl, fun k o h => by simp [init] at h, fun sl f h => by simp [init] at h⟩

theorem upd_isSome (f : Nat → Option Op) (k j : Nat) (o : Op) (h : (f j).isSome = true) :
    (upd f k o j).isSome = true := by
  unfold upd; split <;> simp [h]

theorem good_next (h : wf C = true) (s : State) (hg : Good C s) (o : Op) (hc : calmOp C o = true) :
    Good C (next C s o) := by
  unfold next
  split
  · rename_i hadm
    rw [admits_quiet s hg.quiet] at hadm
    simp only [Bool.and_eq_true, Bool.not_eq_true', Bool.or_eq_true, List.all_eq_true] at hadm
    obtain ⟨⟨hb, hreq⟩, hnf⟩ := hadm
    refine ⟨?_, ?_, ?_⟩
    · unfold Quiet; rw [apply_regs_calm s o hc]; exact hg.quiet
    · intro k o' hk
      rw [apply_slots] at hk
      cases hw : (C.sig o.m).writes with
      | none => rw [hw] at hk; exact hg.slots k o' hk
      | some j =>
        rw [hw] at hk
        unfold upd at hk
        by_cases hkj : k = j
        · simp only [hkj, if_true, Option.some.injEq] at hk
          subst hk; subst hkj
          exact ⟨hw, hb, hc⟩
        · simp only [hkj, if_false] at hk
          exact hg.slots k o' hk
    · intro sl f hfit
      rw [apply_fitted] at hfit
      by_cases hif : (C.sig o.m).isFit = true
      · simp only [hif, if_true, Option.some.injEq, Prod.mk.injEq] at hfit
        obtain ⟨hsl, hfo⟩ := hfit
        subst hfo
        have hwn := (wf_fit h hif).1
        have hsl' : sl = s.slots := by rw [← hsl, apply_slots, hwn]
        subst hsl'
        refine ⟨hif, hb, hc, hreq, hg.slots, ?_⟩
        intro k hk
        rw [apply_slots, hwn]; exact hk
      · simp only [hif, Bool.false_eq_true, if_false] at hfit
        obtain ⟨a, b, c, d, e, f'⟩ := hg.fitted sl f hfit
        refine ⟨a, b, c, d, e, ?_⟩
        intro k hk
        have := f' k hk
        rw [apply_slots]
        cases hw : (C.sig o.m).writes with
        | none => exact this
        | some j => exact upd_isSome _ _ _ _ this
  · exact hg

theorem good_run (h : wf C = true) : ∀ (ops : List Op) (s : State), calm C ops = true → Good C s →
    Good C (run C s ops) := by
  intro ops
  induction ops with
  | nil => intro s _ hg; exact hg
  | cons o rest ih =>
    intro s hc hg
    have hc' : calmOp C o = true ∧ calm C rest = true := by simpa [calm, List.all_cons] using hc
    rw [run_cons]
    exact ih _ hc'.2 (good_next h s hg o hc'.1)

theorem goodSlots_ge (h : wf C = true) (sl : Slots) (hsl : GoodSlots C sl) (k : Nat) (hk : ¬ k < C.nslots) :
    sl k = none := by
  cases hs : sl k with
  | none => rfl
  | some o => exact absurd (wf_spec h (hsl k o hs).1).1 hk

/-- replaying the calls held in `sl` (slot order) overwrites exactly the slots that `sl` fills -/
theorem run_specs (h : wf C = true) (sl : Slots) (hsl : GoodSlots C sl) : ∀ (n : Nat) (t : State), Quiet t →
    run C t ((List.range n).filterMap sl) =
      { t with slots := fun k => if k < n then (sl k).or (t.slots k) else t.slots k } := by
  intro n
  induction n with
  | zero =>
    intro t _
    simp only [List.range_zero, List.filterMap_nil, run_nil]
    exact State.ext3 (by funext k; simp) rfl rfl
  | succ n ih =>
    intro t hq
    rw [List.range_succ, List.filterMap_append, run_append, ih t hq]
    cases hn : sl n with
    | none =>
      simp only [List.filterMap_cons, hn, List.filterMap_nil, run_nil]
      refine State.ext3 ?_ rfl rfl
      funext k
      show (if k < n then (sl k).or (t.slots k) else t.slots k) =
        (if k < n + 1 then (sl k).or (t.slots k) else t.slots k)
      by_cases h1 : k < n
      · simp [h1, Nat.lt_succ_of_lt h1]
      · by_cases h2 : k = n
        · subst h2; simp [hn]
        · have : ¬ k < n + 1 := by omega
          simp [h1, this]
    | some o =>
      simp only [List.filterMap_cons, hn, List.filterMap_nil, run_cons, run_nil]
      obtain ⟨hw, hb, hc⟩ := hsl n o hn
      obtain ⟨_, hreq, hnf, hif⟩ := wf_spec h hw
      have hq' : Quiet { t with slots := fun k => if k < n then (sl k).or (t.slots k) else t.slots k } := hq
      have hadm : admits C { t with slots := fun k => if k < n then (sl k).or (t.slots k) else t.slots k } o
          = true := by
        rw [admits_quiet _ hq']; simp [hb, hreq, hnf]
      unfold next
      rw [if_pos hadm]
      apply State.ext3
      · rw [apply_slots, hw]
        funext k
        unfold upd
        by_cases h2 : k = n
        · subst h2; simp [hn]
        · by_cases h1 : k < n
          · simp [h2, h1, Nat.lt_succ_of_lt h1]
          · have : ¬ k < n + 1 := by omega
            simp [h2, h1, this]
      · rw [apply_fitted]; simp [hif]
      · rw [apply_regs_calm _ o hc]

theorem restrict_slots (h : wf C = true) (sl : Slots) (hsl : GoodSlots C sl) :
    (fun k => if k < C.nslots then (sl k).or (init.slots k) else init.slots k) = sl := by
  funext k
  by_cases hk : k < C.nslots
  · simp [hk, init]
  · simp [hk, init, goodSlots_ge h sl hsl k hk]

/-- a fresh object on which the calls held in `sl` are made has exactly those slots and nothing else -/
theorem run_specs_init (h : wf C = true) (sl : Slots) (hsl : GoodSlots C sl) :
    run C init (specsOf C sl) = ⟨sl, none, fun _ => none⟩ := by
  unfold specsOf
  rw [run_specs h sl hsl C.nslots init quiet_init]
  exact State.ext3 (restrict_slots h sl hsl) rfl rfl

/-- **run_canon** — every reachable state is reproduced on a fresh object by its canonical call list -/
theorem run_canon (h : wf C = true) (s : State) (hg : Good C s) : run C init (canon C s) = s := by
  unfold canon
  cases hf : s.fitted with
  | none =>
    simp only [List.nil_append]
    rw [run_specs_init h s.slots hg.slots]
    exact State.ext3 rfl hf.symm hg.quiet.symm
  | some p =>
    obtain ⟨sl, f⟩ := p
    obtain ⟨hif, hb, hc, hreq, hsl, hmono⟩ := hg.fitted sl f hf
    obtain ⟨hwn, hnf, _⟩ := wf_fit h hif
    simp only []
    rw [run_append, run_append, run_specs_init h sl hsl, run_cons, run_nil]
    have hq1 : Quiet (⟨sl, none, fun _ => none⟩ : State) := rfl
    have hadm : admits C ⟨sl, none, fun _ => none⟩ f = true := by
      rw [admits_quiet _ hq1]
      simp only [hb, hnf, Bool.not_false, Bool.true_and, Bool.true_or, Bool.and_true, List.all_eq_true]
      exact hreq
    have hnext : next C ⟨sl, none, fun _ => none⟩ f = ⟨sl, some (sl, f), fun _ => none⟩ := by
      unfold next
      rw [if_pos hadm]
      apply State.ext3
      · rw [apply_slots, hwn]
      · rw [apply_fitted, apply_slots, hwn]; simp [hif]
      · rw [apply_regs_calm _ f hc]
    rw [hnext]
    unfold specsOf
    rw [run_specs h s.slots hg.slots C.nslots _ (show Quiet (⟨sl, some (sl, f), fun _ => none⟩ : State) from rfl)]
    apply State.ext3
    · funext k
      by_cases hk : k < C.nslots
      · simp only [hk, if_true]
        cases hs : s.slots k with
        | some o => rfl
        | none =>
          cases hsk : sl k with
          | none => rfl
          | some o' =>
            have := hmono k (by simp [hsk])
            simp [hs] at this
      · simp only [hk, if_false]
        rw [goodSlots_ge h sl hsl k hk, goodSlots_ge h s.slots hg.slots k hk]
    · exact hf.symm
    · exact hg.quiet.symm

/-- **history_independent** — for every history in which no call sets a never-reset register (every history of a
    `clean` class): a fresh object on which only the canonical list is replayed — the specifications in force at
    the last successful fit, that fit, and the last specification of each slot — is in the same state as the
    object that went through the whole history; hence every further call (fit, summary, diagnostics,
    re-specification) has the same outcome on both, and leaves them in the same state again. -/
theorem history_independent (h : wf C = true) (ops : List Op) (hc : calm C ops = true) :
    run C init (normalize C ops) = run C init ops ∧
    ∀ o, step C (run C init (normalize C ops)) o = step C (run C init ops) o := by
  have : run C init (normalize C ops) = run C init ops :=
    run_canon h _ (good_run h ops init hc good_init)
  exact ⟨this, fun o => by rw [this]⟩


/-- **refit_fresh** — the outcome of a fit call after any (calm) history is the outcome of the same call on a fresh
    object given only the last specification of each slot: earlier specifications, earlier fits with other plans /
    bounds / p, summaries and diagnostics leave nothing behind that a fit reads. -/
theorem refit_fresh (h : wf C = true) (ops : List Op) (hc : calm C ops = true) (o : Op)
    (hf : (C.sig o.m).isFit = true) :
    out C (run C init ops) o = out C (run C init (lastSpecs C ops)) o := by
  have hg := good_run h ops init hc good_init
  unfold lastSpecs
  rw [run_specs_init h _ hg.slots]
  obtain ⟨hwn, hnf, _⟩ := wf_fit h hf
  have hq0 : Quiet (⟨(run C init ops).slots, none, fun _ => none⟩ : State) := rfl
  have hadm : admits C (run C init ops) o = admits C ⟨(run C init ops).slots, none, fun _ => none⟩ o := by
    rw [admits_quiet _ hg.quiet, admits_quiet _ hq0]; simp [hnf]
  have happ : apply C (run C init ops) o = apply C ⟨(run C init ops).slots, none, fun _ => none⟩ o := by
    apply State.ext3
    · rw [apply_slots, apply_slots]
    · rw [apply_fitted, apply_fitted, apply_slots, apply_slots]; simp [hf]
    · rw [apply_regs, apply_regs, hg.quiet]
  unfold out
  rw [hadm, happ]

theorem lastSpecs_length (ops : List Op) : (lastSpecs C ops).length ≤ C.nslots := by
  unfold lastSpecs specsOf
  exact Nat.le_trans (List.length_filterMap_le _ _) (by simp)

/-- every call of `lastSpecs` is the last non-blocked specification call of its slot in the history -/
theorem lastSpecs_mem (h : wf C = true) (ops : List Op) (hc : calm C ops = true) (o : Op)
    (ho : o ∈ lastSpecs C ops) : ∃ k < C.nslots, (ops.filter (wr C k)).getLast? = some o := by
  unfold lastSpecs specsOf at ho
  rw [List.mem_filterMap] at ho
  obtain ⟨k, hk, hs⟩ := ho
  exact ⟨k, List.mem_range.mp hk, by rw [← slots_last h ops hc k]; exact hs⟩


/-! ### The canonical list is short and made of calls of the history -/

theorem specsOf_length (sl : Slots) : (specsOf C sl).length ≤ C.nslots := by
  unfold specsOf
  exact Nat.le_trans (List.length_filterMap_le _ _) (by simp)

/-- calls held by a state all come from a given list -/
def From (l : List Op) (s : State) : Prop :=
  (∀ k o, s.slots k = some o → o ∈ l) ∧
  (∀ sl f, s.fitted = some (sl, f) → f ∈ l ∧ ∀ k o, sl k = some o → o ∈ l)

theorem from_next (l : List Op) (s : State) (o : Op) (hs : From l s) (ho : o ∈ l) : From l (next C s o) := by
  unfold next
  split
  · have hsl : ∀ k o', (apply C s o).slots k = some o' → o' ∈ l := by
      intro k o' hk
      rw [apply_slots] at hk
      cases hw : (C.sig o.m).writes with
      | none => rw [hw] at hk; exact hs.1 k o' hk
      | some j =>
        rw [hw] at hk
        unfold upd at hk
        by_cases hkj : k = j
        · simp only [hkj, if_true, Option.some.injEq] at hk; exact hk ▸ ho
        · simp only [hkj, if_false] at hk; exact hs.1 k o' hk
    refine ⟨hsl, ?_⟩
    intro sl f hfit
    rw [apply_fitted] at hfit
    by_cases hif : (C.sig o.m).isFit = true
    · simp only [hif, if_true, Option.some.injEq, Prod.mk.injEq] at hfit
      obtain ⟨h1, h2⟩ := hfit
      subst h2; subst h1
      exact ⟨ho, hsl⟩
    · simp only [hif, Bool.false_eq_true, if_false] at hfit
      exact hs.2 sl f hfit
  · exact hs

theorem from_run (l : List Op) : ∀ (ops : List Op) (s : State), From l s → (∀ o ∈ ops, o ∈ l) →
    From l (run C s ops) := by
  intro ops
  induction ops with
  | nil => intro s hs _; exact hs
  | cons o rest ih =>
    intro s hs hall
    rw [run_cons]
    exact ih _ (from_next l s o hs (hall o List.mem_cons_self)) (fun o' ho' => hall o' (List.mem_cons_of_mem _ ho'))

/-- **normalize_short** — the canonical list has at most `2·nslots + 1` calls, all of them calls of the history -/
theorem normalize_short (ops : List Op) :
    (normalize C ops).length ≤ 2 * C.nslots + 1 ∧ ∀ o ∈ normalize C ops, o ∈ ops := by
  have hfrom : From ops (run C init ops) :=
    from_run ops ops init ⟨fun k o h => by simp [init] at h, fun sl f h => by simp [init] at h⟩ (fun o h => h)
  unfold normalize canon
  constructor
  · cases hf : (run C init ops).fitted with
    | none =>
      simp only [List.nil_append]
      have := specsOf_length (C := C) (run C init ops).slots
      omega
    | some p =>
      obtain ⟨sl, f⟩ := p
      simp only [List.length_append, List.length_cons, List.length_nil]
      have h1 := specsOf_length (C := C) sl
      have h2 := specsOf_length (C := C) (run C init ops).slots
      omega
  · intro o ho
    have hspec : ∀ sl : Slots, (∀ k o, sl k = some o → o ∈ ops) → ∀ o ∈ specsOf C sl, o ∈ ops := by
      intro sl hsl o ho
      unfold specsOf at ho
      rw [List.mem_filterMap] at ho
      obtain ⟨k, _, hk⟩ := ho
      exact hsl k o hk
    cases hf : (run C init ops).fitted with
    | none =>
      rw [hf] at ho
      simp only [List.nil_append] at ho
      exact hspec _ hfrom.1 o ho
    | some p =>
      obtain ⟨sl, f⟩ := p
      rw [hf] at ho
      simp only [List.mem_append, List.mem_cons, List.not_mem_nil, or_false] at ho
      obtain ⟨hf1, hf2⟩ := hfrom.2 sl f hf
      rcases ho with (ho | ho) | ho
      · exact hspec sl hf2 o ho
      · exact ho ▸ hf1
      · exact hspec _ hfrom.1 o ho


/-! ### A non-blocked specification call never raises — unless a register locks it -/

theorem spec_accepted (h : wf C = true) (ops : List Op) (hc : calm C ops = true) (o : Op) (k : Nat)
    (hw : (C.sig o.m).writes = some k) (hb : (C.sig o.m).blocked = false) :
    out C (run C init ops) o ≠ .error := by
  obtain ⟨_, hreq, hnf, _⟩ := wf_spec h hw
  unfold out
  rw [admits_quiet _ (quiet_run hc init quiet_init)]
  simp [hb, hreq, hnf]

/-! ### Observers leave the object as it was; independent specification calls commute -/

/-- a reporting / diagnostic / plotting call leaves the state as it was, whether it raises or not -/
theorem observer_keeps_state (s : State) (o : Op) (h : observer C o = true) : next C s o = s := by
  unfold observer at h
  simp only [Bool.and_eq_true, Option.isNone_iff_eq_none, Bool.not_eq_true'] at h
  obtain ⟨⟨hw, hf⟩, hs⟩ := h
  unfold next
  split
  · apply State.ext3
    · rw [apply_slots, hw]
    · rw [apply_fitted, hf]; simp
    · rw [apply_regs, hs]
  · rfl

/-- striking every observer call out of a history does not change the state it leads to -/
theorem observers_erasable : ∀ (ops : List Op) (s : State),
    run C s (ops.filter fun o => !observer C o) = run C s ops := by
  intro ops
  induction ops with
  | nil => intro s; rfl
  | cons o rest ih =>
    intro s
    rw [run_cons]
    by_cases ho : observer C o = true
    · rw [List.filter_cons_of_neg (by simp [ho]), observer_keeps_state s o ho]
      exact ih s
    · rw [List.filter_cons_of_pos (by simpa using ho), run_cons]
      exact ih _

/-- in a class without registers no method sets or is locked by one (also for ids outside the table) -/
theorem clean_sig (h : clean C = true) (m : Nat) : (C.sig m).sticky = none ∧ (C.sig m).lock = none := by
  unfold Cls.sig
  rw [List.getD_eq_getElem?_getD]
  cases hm : C.sigs[m]? with
  | none => simp [noMethod]
  | some g =>
    have hg : g ∈ C.sigs := List.mem_of_getElem? hm
    have := (List.all_eq_true.mp h) g hg
    simpa using this

/-- a specification call of a class without registers: what it does to a state -/
theorem next_spec (h : wf C = true) (hc : clean C = true) (s : State) (o : Op) (k : Nat)
    (hw : (C.sig o.m).writes = some k) :
    next C s o = if (C.sig o.m).blocked = true then s else { s with slots := upd s.slots k o } := by
  obtain ⟨_, hreq, hnf, hfit⟩ := wf_spec h hw
  obtain ⟨hst, hlk⟩ := clean_sig hc o.m
  unfold next
  rw [admits_def, hreq, hnf, hlk]
  by_cases hb : (C.sig o.m).blocked = true
  · simp [hb]
  · have hb' : (C.sig o.m).blocked = false := by simpa using hb
    simp only [hb', Bool.not_false, List.all_nil, Bool.and_self, Bool.true_or, if_true]
    simp only [Bool.false_eq_true, if_false]
    apply State.ext3
    · rw [apply_slots, hw]
    · rw [apply_fitted, hfit]; simp
    · rw [apply_regs, hst]

theorem upd_comm (f : Nat → Option Op) (j k : Nat) (a b : Op) (hne : j ≠ k) :
    upd (upd f j a) k b = upd (upd f k b) j a := by
  funext i
  unfold upd
  by_cases h1 : i = k
  · have h2 : ¬ i = j := fun e => hne (e.symm.trans h1)
    rw [if_pos h1, if_neg h2, if_pos h1]
  · by_cases h2 : i = j
    · rw [if_neg h1, if_pos h2, if_pos h2]
    · rw [if_neg h1, if_neg h2, if_neg h2, if_neg h1]

/-- two specification calls of different slots commute, from any state -/
theorem spec_calls_commute (h : wf C = true) (hc : clean C = true) (s : State) (a b : Op) (ka kb : Nat)
    (ha : (C.sig a.m).writes = some ka) (hb : (C.sig b.m).writes = some kb) (hne : ka ≠ kb) :
    next C (next C s a) b = next C (next C s b) a := by
  simp only [next_spec h hc _ a ka ha, next_spec h hc _ b kb hb]
  cases (C.sig a.m).blocked <;> cases (C.sig b.m).blocked <;> simp [upd_comm _ ka kb a b hne]

/-- a list of specification calls of pairwise different slots leads to the same state in any order -/
theorem spec_order_irrelevant (h : wf C = true) (hc : clean C = true) {l₁ l₂ : List Op} (p : l₁.Perm l₂)
    (hs : ∀ o ∈ l₁, ((C.sig o.m).writes).isSome = true)
    (hd : ∀ x ∈ l₁, ∀ y ∈ l₁, x ≠ y → (C.sig x.m).writes ≠ (C.sig y.m).writes) (s : State) :
    run C s l₁ = run C s l₂ := by
  unfold run
  apply List.Perm.foldl_eq' p
  intro x hx y hy z
  by_cases hxy : x = y
  · rw [hxy]
  · obtain ⟨kx, hkx⟩ := Option.isSome_iff_exists.mp (hs x hx)
    obtain ⟨ky, hky⟩ := Option.isSome_iff_exists.mp (hs y hy)
    have hne : kx ≠ ky := by
      intro e
      exact hd x hx y hy hxy (by rw [hkx, hky, e])
    exact spec_calls_commute h hc z x y kx ky hkx hky hne

end ZV.L11
